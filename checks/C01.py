"""C01 — Operator representations describe one and the same linear map (DESIGN §5.1 C01).

E1 over the shared operator-instance catalogue x ORDER(op) x BATCH.  Hub = dense matrix in the requested wire order
(embedding done by the harness with explicit tensor re-indexing, mc.refsim.embed).  Every other representation the
operator exposes is compared with the hub; capability flags are checked both ways."""
import numpy as np

from mc import refsim as RS
from mc import x_alphabet as A
from mc import x_catalog as cat
from mc.engine import bad, ok, skip

PROPERTY = "C01"
LEVEL = "exploration"
TECHNIQUE = "bounded exhaustive enumeration of catalogue operator instances x wire orders x batch shapes; pairwise agreement of representations"
LEVEL_TEXT = ("Every catalogue instance (≈350 operator names incl. Adjoint/Pow/Controlled wrappers and templates; ANG^k with 7 angles quick / "
              "15 thorough; 5 wire labelings) is evaluated under every wire order of ORDER(op) (None, own, reversed, one extra wire front/"
              "middle/back x reversal) and, for broadcasting classes, batch sizes 1 and 3; dense matrix (functional and method form), sparse "
              "matrix, eigenvalues+diagonalizing gates, decomposition product, Pauli representation and exp(i*theta*generator) must agree to "
              "1e-9, and has_* flags must match 'returns a value' / 'raises the documented *UndefinedError'.")
LEVEL_NOTE = ("Operators on more than 6 wires are skipped (counted as skipped_large). The embedding of the hub into a larger wire order and the "
              "product of decompositions are computed by the harness (mc.refsim); the matrices of the *gates inside* decompositions and of "
              "generators come from the reference table when listed there and otherwise from PennyLane itself (trusting C02 for those). "
              "Fractional Pow only where the base's eigenphases are in (-pi+1e-6, pi-1e-6). Parameters outside ANG are not explored.")
DESIGN_REF = "5.1 C01"
START = "fork"
PARALLEL = True
RULE = ("catalogue names x variants x parameter rows x wire labelings, each under all wire orders of ORDER(op); batched specs (1, 3) for "
        "broadcasting classes; non-trivial = at least two independent representations were compared")
ASSUMPTIONS = ["numpy/scipy dense linear algebra", "mc.refsim.embed / unitary (explicit tensordot re-indexing) are correct",
               "gate matrices inside decompositions: mc.refgates table where listed, otherwise qp.matrix (decided by C02/C10)"]

MAXW = 6
TOL = 1e-9
EV_TOL = 1e-6


def _close(Aa, B, tol=TOL):
    Aa = np.asarray(Aa)
    B = np.asarray(B)
    if Aa.shape != B.shape:
        return False
    if Aa.size == 0:
        return True
    return bool(np.max(np.abs(Aa - B)) <= tol * max(1.0, float(np.max(np.abs(B)))))


def _dense(x):
    if hasattr(x, "todense"):
        x = x.todense()
    return np.asarray(x, dtype=complex)


def _multiset_close(a, b, tol=EV_TOL):
    a = list(np.asarray(a, dtype=complex).ravel())
    b = list(np.asarray(b, dtype=complex).ravel())
    if len(a) != len(b):
        return False
    scale = max(1.0, max((abs(x) for x in b), default=1.0))
    for x in a:
        j = min(range(len(b)), key=lambda i: abs(b[i] - x))
        if abs(b[j] - x) > tol * scale:
            return False
        b.pop(j)
    return True


def _sub_multiset(a, b, tol=EV_TOL):
    b = list(np.asarray(b, dtype=complex).ravel())
    for x in np.asarray(a, dtype=complex).ravel():
        if not b:
            return False
        j = min(range(len(b)), key=lambda i: abs(b[i] - x))
        if abs(b[j] - x) > tol * max(1.0, abs(x)):
            return False
        b.pop(j)
    return True


def _flatten(ops, depth=0):
    """Replace operators without a matrix by their decomposition (recursively): such operators may touch work wires that are
    not part of their `wires`, which qp.matrix(op) cannot represent."""
    out = []
    for x in ops:
        if not x.has_matrix and x.has_decomposition and depth < 8 and type(x).__name__ not in ("MidMeasure", "PauliMeasure", "Conditional"):
            out += _flatten(x.decomposition(), depth + 1)
        else:
            out.append(x)
    return out


def _unitary(ops, wire_order):
    """Product of `ops` on wire_order via mc.refsim (explicit tensordot); operators without wires (GlobalPhase, Identity and
    their Adjoint/Pow wrappers) contribute their 1x1 matrix as a scalar (refsim only knows the bare GlobalPhase)."""
    import pennylane as qp

    scalar = 1.0 + 0j
    wired = []
    for x in _flatten(ops):
        if len(x.wires) == 0:
            m = np.asarray(qp.matrix(x), dtype=complex)
            scalar *= m.ravel()[0]
        else:
            wired.append(x)
    n = len(wire_order)
    V = RS.unitary(wired, wire_order) if n else np.eye(1, dtype=complex)
    return scalar * V


def _errs():
    from pennylane import exceptions as E

    return E


def _flag_call(tag, name, flag, fn, err):
    """flag True => fn() returns; flag False => fn() raises exactly the documented error `err`.
    Returns (value | None, violation | None)."""
    try:
        val = fn()
    except err as e:
        if flag:
            return None, bad(f"flag-true-but-undefined:{tag}:{name}", f"{type(e).__name__}: {e}"[:300], "a value (has_%s is True)" % tag)
        return None, None
    except Exception as e:  # noqa: BLE001
        if flag:
            return None, bad(f"flag-true-but-raises:{tag}:{name}:{type(e).__name__}", f"{type(e).__name__}: {e}"[:300], "a value")
        return None, bad(f"flag-false-wrong-error:{tag}:{name}:{type(e).__name__}", f"{type(e).__name__}: {e}"[:300], err.__name__)
    if not flag:
        return val, None  # producing a value although the flag says "unavailable" is not excluded by the property
    return val, None


def _base_phases_on_cut(g):
    """For Pow(<base>) with non-integer z: True if the base is outside the domain the property covers, i.e. an eigenphase of the
    base is not strictly inside (-pi+1e-6, pi-1e-6).  Both readings of "eigenphase" are applied (conservative): the principal
    phases of the base matrix, and the un-reduced phases theta*lambda(generator) / the raw parameters of a parametrized base
    (RX(2pi+g) has principal phases inside the range but its power is documented as branch-dependent)."""
    if not g["op"].startswith("Pow(") or g.get("f") != "pow":
        return False
    z = g["kw"].get("z")
    if float(z) == int(z):
        return False
    import pennylane as qp

    base = cat.build(g["a"][0]["$op"])
    Mb = np.asarray(qp.matrix(base), dtype=complex)
    Mb = Mb.reshape((-1,) + Mb.shape[-2:])
    lim = np.pi - 1e-6
    for m in Mb:
        ph = np.angle(np.linalg.eigvals(m))
        if np.any(np.abs(ph) >= lim):
            return True
    for p in base.data:
        if np.ndim(p) <= 1 and np.any(np.abs(np.real(np.asarray(p, dtype=complex))) >= lim):
            return True
    return False


def check(spec):
    import pennylane as qp

    E = _errs()
    g = spec["g"]
    name = g["op"]
    if spec.get("batch"):
        return check_batched(spec)
    if cat.category(name) == "symbolic" and g.get("v"):
        name = f"{name}[{g['v']}]"  # fixed expressions: the expression is part of the failure class
    op = cat.build(g)
    wires = list(op.wires)
    n = len(wires)
    if n > MAXW:
        return skip("skipped_large")
    if _base_phases_on_cut(g):
        return skip("fractional-power-on-branch-cut")
    d = 2 ** n
    compared = []

    # ---- dense matrix, method form, flag
    M0, v = _flag_call("matrix", name, bool(op.has_matrix), lambda: _dense(op.matrix()), E.MatrixUndefinedError)
    if v:
        return v
    if M0 is not None and M0.shape != (d, d):
        return bad(f"matrix-shape:{name}", list(M0.shape), [d, d])
    # ---- functional form (falls back to sparse matrix / decomposition)
    try:
        Q0 = _dense(qp.matrix(op))
    except E.MatrixUndefinedError:
        Q0 = None
    except E.TransformError as e:
        # qp.matrix's documented rejection "Wires in circuit ... are inconsistent with those in wire_order": the decomposition
        # touches work wires that are (by design) not part of op.wires (PhaseAdder, ...), so there is no matrix on op.wires
        if "inconsistent with those in wire_order" not in str(e):
            raise
        Q0 = None
        compared.append("qp.matrix:rejected(work wires outside op.wires)")
    H0 = M0 if (M0 is not None and op.has_matrix) else Q0
    if M0 is not None and Q0 is not None and not _close(Q0, M0):
        return bad(f"qp.matrix-vs-op.matrix:{name}", Q0, M0)
    hub_native = M0 is not None and bool(op.has_matrix)

    orders = A.orders(wires)
    hubs = {}
    if H0 is not None:
        if H0.shape != (d, d):
            return bad(f"matrix-shape:{name}", list(H0.shape), [d, d])
        for o in orders:
            ref = H0 if o is None else RS.embed(H0, wires, o)
            hubs[str(o)] = ref
            got = _dense(qp.matrix(op, wire_order=o))
            if not _close(got, ref):
                return bad(f"matrix-wire-order:{name}:qp.matrix", got, ref, wire_order=o)
            if hub_native:
                got = _dense(op.matrix(wire_order=o))
                if not _close(got, ref):
                    return bad(f"matrix-wire-order:{name}:op.matrix", got, ref, wire_order=o)
        compared.append("matrix-orders")

    # ---- sparse matrix
    S0, v = _flag_call("sparse_matrix", name, bool(op.has_sparse_matrix), lambda: op.sparse_matrix(), E.SparseMatrixUndefinedError)
    if v:
        zz = g.get("kw", {}).get("z") if g.get("f") == "pow" else None
        if isinstance(zz, int) and zz < 0 and v["sig"].endswith(":ValueError") and "exponent must be >= 0" in str(v["obs"]):
            # one defect class (has_sparse_matrix ignores the sign of an integer exponent), not one per base gate
            v["sig"] = "flag-true-but-raises:sparse_matrix:Pow:negative-integer-exponent"
            v["o"] = "bad:" + v["sig"]
        return v
    if S0 is not None and op.has_sparse_matrix and H0 is not None:
        ni = False
        for o in orders:
            try:
                got = _dense(op.sparse_matrix(wire_order=o))
            except NotImplementedError:
                if o is None:
                    raise
                ni = True  # explicit "Wire order is not implemented for sparse_matrix" (Exp): counted, not failed
                continue
            if not _close(got, hubs[str(o)]):
                return bad(f"sparse-mismatch:{name}", got, hubs[str(o)], wire_order=o)
        compared.append("sparse" + ("(wire_order:NotImplementedError)" if ni else ""))

    # ---- eigenvalues (+ diagonalizing gates)
    try:
        ev = np.asarray(op.eigvals(), dtype=complex)
    except (E.EigvalsUndefinedError, E.MatrixUndefinedError):
        ev = None
    if ev is not None and H0 is not None:
        if not _multiset_close(ev, np.linalg.eigvals(H0)):
            return bad(f"eigvals-spectrum:{name}", ev, np.linalg.eigvals(H0))
        compared.append("eigvals")
        try:
            qev = np.asarray(qp.eigvals(op), dtype=complex)
        except (E.EigvalsUndefinedError, E.MatrixUndefinedError, E.DecompositionUndefinedError):
            qev = None
        if qev is not None:
            same = _sub_multiset(qev, ev) if name == "SparseHamiltonian" else _multiset_close(qev, ev)
            if not same:
                return bad(f"qp.eigvals-vs-op.eigvals:{name}", qev, ev)
    D, v = _flag_call("diagonalizing_gates", name, bool(op.has_diagonalizing_gates), lambda: list(op.diagonalizing_gates()),
                      E.DiagGatesUndefinedError)
    if v:
        return v
    if D is not None and op.has_diagonalizing_gates and ev is not None and H0 is not None and all(set(x.wires) <= set(wires) for x in D):
        Dm = _unitary(D, wires)
        rec = Dm.conj().T @ np.diag(ev) @ Dm
        if not _close(rec, H0, tol=1e-8):
            if not _close(Dm.conj().T @ Dm, np.eye(d), tol=1e-8):
                return bad(f"diag-gates-not-unitary:{name}", Dm, "unitary diagonalizing gates", eigvals=ev)
            cvs = list(getattr(op, "control_values", []) or [])
            if type(op).__name__ in ("Controlled", "ControlledOp") and not all(cvs):
                # one defect class: v1 Controlled orders its eigenvalues for control value 1 and emits the base's
                # diagonalizing gates without the X flips of zero control values
                return bad("diag-gates-eigvals:Controlled(v1):zero-control-value", rec, H0, op=name, control_values=cvs)
            return bad(f"diag-gates-eigvals:{name}", rec, H0)
        compared.append("diag-gates")

    # ---- decomposition
    dec, v = _flag_call("decomposition", name, bool(op.has_decomposition), lambda: list(op.decomposition()), E.DecompositionUndefinedError)
    if v:
        return v
    if dec is not None and op.has_decomposition and H0 is not None:
        dec = _flatten(dec)
        names_in = {x.name for x in dec}
        dyn = any(nm in ("MidMeasure", "PauliMeasure", "Conditional") or nm.startswith("Conditional") for nm in names_in) or \
            any(type(x).__name__ in ("MidMeasure", "PauliMeasure", "Conditional", "Allocate", "Deallocate") for x in dec)
        extra = []
        for x in dec:
            for w in x.wires:
                if w not in wires and w not in extra:
                    extra.append(w)
        prep = any(type(x).__name__ in ("BasisState", "StatePrep", "QubitDensityMatrix", "BasisEmbedding", "AmplitudeEmbedding")
                   or hasattr(x, "state_vector") for x in dec)
        if dyn or any(not isinstance(w, (int, str)) for w in extra):
            compared.append("decomposition(dynamic:not-compared)")
        elif prep:
            compared.append("decomposition(contains-state-preparation:not-a-unitary-product)")
        elif n + len(extra) <= MAXW + 2:
            allw = wires + extra
            V = _unitary(dec, allw)
            if extra:
                k = 2 ** len(extra)
                # action on |psi>|0..0>: columns with work = 0 must be (H0 psi)|0..0>
                Vc = V.reshape(d, k, d, k)[:, :, :, 0]  # out(sys,work), in sys with work=0
                want = np.zeros((d, k, d), dtype=complex)
                want[:, 0, :] = H0
                if not _close(Vc, want, tol=1e-8):
                    return bad(f"decomposition-mismatch:{name}:with-work-wires", Vc[:, 0, :], H0)
            elif not _close(V, H0, tol=1e-8):
                # documented restricted domain: TemporaryAND "assumes the target qubit to be in |0>", Adjoint(TemporaryAND) "assumes
                # the target output to be |0>" (the matrix carries relative phases elsewhere); compare on that subspace only
                Q0 = np.kron(np.eye(d // 2), np.diag([1.0, 0.0])) if d >= 2 else None
                dom = {"TemporaryAND": "in", "Adjoint(TemporaryAND)": "out"}.get(name)
                okdom = (dom == "in" and _close(V @ Q0, H0 @ Q0, tol=1e-8)) or (dom == "out" and _close(Q0 @ V, Q0 @ H0, tol=1e-8))
                if not okdom:
                    return bad(f"decomposition-mismatch:{name}", V, H0, gates=[str(x) for x in dec][:12])
            compared.append("decomposition" if hub_native else "decomposition(hub-from-decomposition)")

    # ---- Pauli representation
    pr = op.pauli_rep
    if pr is not None and H0 is not None:
        for o in orders:
            wo = wires if o is None else o
            got = _dense(pr.to_mat(wire_order=wo)) if len(wo) else None
            if got is None:
                continue
            if not _close(got, hubs[str(o)]):
                return bad(f"pauli_rep-mismatch:{name}", got, hubs[str(o)], wire_order=o)
        compared.append("pauli_rep")

    # ---- generator
    G, v = _flag_call("generator", name, bool(op.has_generator), lambda: op.generator(), E.GeneratorUndefinedError)
    if v:
        return v
    if G is not None and op.has_generator and H0 is not None and len(op.data) == 1 and np.ndim(op.data[0]) == 0:
        from scipy.linalg import expm

        theta = complex(op.data[0])
        if type(op).__name__ == "Exp":  # Exp(base, coeff) = e^{coeff*base}; documented single-parameter form e^{i*phi*G}: phi = coeff / i
            theta = theta / 1j
        Gm = _dense(qp.matrix(G, wire_order=wires)) if wires else _dense(qp.matrix(G))
        if Gm.shape != (d, d) and Gm.shape == (1, 1):
            Gm = Gm[0, 0] * np.eye(d)
        U = expm(1j * theta * Gm)
        if not _close(U, H0, tol=1e-8):
            return bad(f"generator-exp-mismatch:{name}", U, H0)
        try:
            obs, pref = qp.generator(op, format="prefactor")
        except Exception as e:  # noqa: BLE001
            return bad(f"qp.generator-raises:{name}:{type(e).__name__}", f"{type(e).__name__}: {e}"[:300], "(observable, prefactor)")
        Om = _dense(qp.matrix(obs, wire_order=wires)) if wires else _dense(qp.matrix(obs))
        if Om.shape == (1, 1) and d != 1:
            Om = Om[0, 0] * np.eye(d)
        if not _close(pref * Om, Gm, tol=1e-8):
            return bad(f"generator-prefactor-mismatch:{name}", pref * Om, Gm)
        compared.append("generator")

    fp = None if H0 is None else [round(float(np.real(np.trace(H0))), 6), round(float(np.imag(np.trace(H0))), 6)]
    return ok(outcome=[name, compared, fp], nontrivial=len(compared) >= 2)


def check_batched(spec):
    """Batched instance: matrix (both forms, every wire order) and eigenvalues equal the stack of the un-batched results."""
    import pennylane as qp

    g = spec["g"]
    name = g["op"]
    ps = cat.params(g)
    b = len(next(v for v in ps if isinstance(v, list)))
    rows = [[(v[i] if isinstance(v, list) else v) for v in ps] for i in range(b)]
    op = cat.build(g)
    wires = list(op.wires)
    n = len(wires)
    if n > MAXW:
        return skip("skipped_large")
    if not op.has_matrix:
        return skip("no-matrix")
    if _base_phases_on_cut(g):
        return skip("fractional-power-on-branch-cut")
    singles = [cat.build(cat.with_params(g, r)) for r in rows]
    H = [_dense(s.matrix()) for s in singles]
    for o in A.orders(wires):
        want = np.stack([h if o is None else RS.embed(h, wires, o) for h in H])
        for form, fn in (("qp.matrix", lambda: qp.matrix(op, wire_order=o)), ("op.matrix", lambda: op.matrix(wire_order=o))):
            got = np.asarray(fn(), dtype=complex)
            if got.shape != want.shape:
                padded = o is not None and len(o) > n
                if b == 1 and got.shape == want.shape[1:] and _close(got, want[0]):
                    if padded:
                        return bad("batch-axis-dropped:batch1:wire-order-with-extra-wire", list(got.shape), list(want.shape), op=name,
                                   wire_order=o, form=form)
                    return bad(f"batch-axis-dropped:batch1:{name}[{g.get('v', '')}]", list(got.shape), list(want.shape), wire_order=o, form=form)
                return bad(f"batched-matrix-shape:{name}:{form}", list(got.shape), list(want.shape), wire_order=o)
            if not _close(got, want):
                return bad(f"batched-matrix-mismatch:{name}:{form}", got, want, wire_order=o)
    compared = ["matrix-orders"]
    E = _errs()
    try:
        ev = np.asarray(op.eigvals(), dtype=complex)
    except (E.EigvalsUndefinedError, E.MatrixUndefinedError):
        ev = None
    except Exception as e:  # noqa: BLE001
        import traceback

        frames = [(f.filename.rsplit("/", 1)[-1], f.name) for f in traceback.extract_tb(e.__traceback__)]
        where = next((f"{fn[:-3]}.{fu}" for fn, fu in reversed(frames) if fn.startswith("controlled") and "eigvals" in fu), None)
        return bad(f"batched-eigvals-raises:{where or name}:{type(e).__name__}", f"{type(e).__name__}: {e}"[:300], "eigenvalues of shape (batch, 2^n)",
                   op=name, batch=b)
    if ev is not None:
        if ev.shape != (b, 2 ** n):
            return bad(f"batched-eigvals-shape:{name}", list(ev.shape), [b, 2 ** n])
        for i in range(b):
            if not _multiset_close(ev[i], np.linalg.eigvals(H[i])):
                return bad(f"batched-eigvals:{name}", ev[i], np.linalg.eigvals(H[i]), row=rows[i])
        compared.append("eigvals")
    t = np.trace(np.stack(H), axis1=-2, axis2=-1).sum()
    return ok(outcome=[name, f"batch{b}", compared, round(float(np.real(t)), 6), round(float(np.imag(t)), 6)], nontrivial=True)


# ---------------------------------------------------------------------------------------------------- enumeration
def _batch_specs(name, insts, max_triples):
    out = []
    groups = {}
    for s in insts:
        if cat.wires_of(s) != list(range(len(cat.wires_of(s)))):
            continue
        groups.setdefault(s["v"], []).append(s)
    for ss in groups.values():
        rows = [cat.params(s) for s in ss]
        if not rows[0]:
            continue
        base = ss[0]
        out.append(cat.batched(base, [rows[0]]))
        if len(rows) > 1:
            out.append(cat.batched(base, [rows[-1]]))
        for i in list(range(0, len(rows) - 2, 3))[:max_triples]:
            out.append(cat.batched(base, rows[i:i + 3]))
    return out


def _instances(nme, tier):
    """Catalogue tier per category (quick must stay within the wall-time budget):
    channels 'few'; gates/matrix/observables/... the tier itself; templates and wrappers in quick: 'few' plus the full angle rows
    of the first variant when it has <= 1 scalar parameter; in thorough: the catalogue's 'quick' set (k >= 2) or 'thorough' (k <= 1)."""
    c = cat.category(nme)
    if c == "channel":
        return cat.instances(nme, "few")
    if c not in ("wrapper", "template"):
        return cat.instances(nme, tier)
    sks = cat.skeletons(nme, "quick")
    k = len(cat.params(sks[0])) if sks else 0
    if tier == "thorough":
        return cat.instances(nme, "thorough" if k <= 1 else "quick")
    out = cat.instances(nme, "few")
    if k <= 1 and sks:
        seen = {cat.key(s) for s in out}
        v0 = sks[0]["v"]
        for s in cat.instances(nme, "quick"):
            if s["v"] == v0 and cat.key(s) not in seen:
                seen.add(cat.key(s))
                out.append(s)
    return out


def run(ctx):
    import pennylane as qp

    tier = ctx.tier
    names = cat.names()
    if ctx.only:  # development aid: restrict to names containing the given substring(s), comma separated
        names = [x for x in names if any(t in x for t in ctx.only.split(","))]
    bc = set(qp.ops.qubit.attributes.supports_broadcasting)
    specs, bspecs = [], []
    for nme in names:
        insts = _instances(nme, tier)
        specs += [{"g": s} for s in insts]
        base = nme[nme.index("(") + 1:-1] if cat.category(nme) == "wrapper" else nme
        if base in bc and cat.category(base) in ("gate",):
            bspecs += [{"g": s, "batch": 1} for s in _batch_specs(nme, insts, 12 if ctx.quick else 200)]
    ctx.enumerate(specs, axis="instances")
    ctx.enumerate(bspecs, axis="batched")
    ctx.coverage["alphabet"] = {"names": len(names), "ANG": [A.ANG_NAMES[a] for a in A.ANG(tier)], "labelings": [x for x, _ in A.lab(2)],
                                "orders(example for wires [0,1])": A.orders([0, 1]), "batch": [None, 1, 3]}
    ctx.coverage["bound"] = {"max_wires": MAXW, "angles_per_parameter": len(A.ANG(tier)), "catalogue_tier": tier}
    ctx.coverage["uncovered"] = [f"{u['name']}: {u['reason']}" for u in cat.uncovered()]
    ctx.coverage["skipped_large"] = ctx.skip_reasons.get("skip:skipped_large", 0)
