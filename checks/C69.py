"""C69 — Spin-model Hamiltonians match their textbook sums; lattices have the documented sites/neighbours (DESIGN §5.10 C69).

E1, exhaustive over shapes: every lattice name of generate_lattice x small sizes x every per-axis boundary combination x
neighbour_order 1..2 (3 thorough) + custom Lattices; models x couplings (scalar / per-order list / full matrix) x mappings.
Oracle (mc/x_spin.py): neighbour pairs by brute-force distance ranking over explicit site coordinates with periodic images;
Hamiltonian = explicit sum over those pairs built with sparse kron products (fermionic models through a plain
Jordan-Wigner reference, parity / Bravyi-Kitaev through the computed intertwiner of C53); Hermiticity."""
import itertools

from mc.engine import ok, bad, skip
from mc import x_spin as R

PROPERTY = "C69"
LEVEL = "exploration"
TECHNIQUE = "exhaustive enumeration of lattice shapes/sizes/boundaries/orders vs. brute-force neighbour ranking and explicit operator sums"
LEVEL_TEXT = ("All 11 lattice shapes x sizes up to 3x3 (2x2x3 in 3-D; thorough 4x4, 3x3x3) x all per-axis open/periodic combinations x "
              "neighbour order 1-2 (3 thorough), plus custom lattices: edges compared with a brute-force image-distance ranking; the seven "
              "model builders on every such lattice with <=10 (fermionic <=8/10) qubits x coupling forms x mappings compared as matrices "
              "with explicit sums over the reference pairs, and checked Hermitian.")
LEVEL_NOTE = ("Trusted base: numpy/scipy, qp.matrix / sparse_matrix of the returned operators. Geometry tables (vectors, positions) are "
              "read from the lattice object and validated only through textbook invariants (sites per cell, first/second coordination "
              "numbers). A pair that is a k-th neighbour only through a periodic image (including a site's own image on axes of length "
              "<= order) counts literally (sigma_i sigma_i = 1). Full coupling matrices are symmetric; Haldane phase orientation i<j. "
              "Scalar couplings with neighbour_order>1 are rejected by the implementation (ValueError) and not explored. Kitaev bonds are "
              "classified by real-space direction as documented; the X/Y label swap and the one-cell-axis failures are known findings.")
DESIGN_REF = "5.10 C69"
START = "fork"
PARALLEL = True
RULE = ("one case = (shape, n_cells, boundary, order) for lattices or (model, lattice, coupling form, mapping) for Hamiltonians; "
        "non-trivial = the lattice has at least one edge")

TOL = 1e-9
SHAPES = ["chain", "square", "rectangle", "triangle", "honeycomb", "kagome", "lieb", "cubic", "bcc", "fcc", "diamond"]
CUSTOM_GEOM = {
    "rect-1x2": {"vectors": [[1, 0], [0, 2]], "positions": [[0, 0]]},
    "centred": {"vectors": [[1, 0], [0, 1]], "positions": [[0, 0], [0.5, 0.5]]},
    "dimer-chain": {"vectors": [[1]], "positions": [[0], [0.4]]},
    "doc-4site": {"vectors": [[1, 0], [0, 1]], "positions": [[0.2, 0.5], [0.5, 0.2], [0.5, 0.8], [0.8, 0.5]]},
}


def sizes(dim, quick):
    if dim == 1:
        return [[1], [2], [3], [4], [5]] + ([] if quick else [[6], [7]])
    if dim == 2:
        s = [[1, 1], [1, 2], [2, 1], [2, 2], [2, 3], [3, 2], [3, 3], [1, 3]]
        return s + ([] if quick else [[3, 1], [1, 4], [3, 4], [4, 3], [4, 4]])
    s = [[1, 1, 1], [1, 1, 2], [2, 2, 2], [1, 2, 3]]
    return s + ([] if quick else [[2, 1, 1], [2, 2, 3], [3, 2, 2], [3, 3, 3]])


def bcs(dim):
    return [list(b) for b in itertools.product([False, True], repeat=dim)]


def make_lattice(shape, n, bc, order):
    from pennylane.spin import Lattice, generate_lattice

    if shape in CUSTOM_GEOM:
        g = CUSTOM_GEOM[shape]
        return Lattice(n_cells=n, vectors=g["vectors"], positions=g["positions"], boundary_condition=bc, neighbour_order=order)
    return generate_lattice(shape, n, bc, order)


def geometry(shape):
    """(vectors, positions) as the implementation holds them for this shape (validated by the 'geom' cases)."""
    import numpy as np

    if shape in CUSTOM_GEOM:
        g = CUSTOM_GEOM[shape]
        return np.asarray(g["vectors"], dtype=float), np.asarray(g["positions"], dtype=float)
    L = make_lattice(shape, [1] * R.DIM[shape], False, 1)
    return np.asarray(L.vectors, dtype=float), np.asarray(L.positions, dtype=float)


def ref_edges(shape, n, bc, order):
    V, P = geometry(shape)
    return R.tiling_edges(n, V, P, bc, order)[0], len(P)


def impl_matrix(H, nq):
    import numpy as np
    import pennylane as qp
    import scipy.sparse as sp

    order = list(range(nq))
    extra = [w for w in H.wires if w not in order]
    if extra:
        return None, f"acts on wires outside the lattice: {extra}"
    if nq <= 10:
        return sp.csr_matrix(np.asarray(qp.matrix(H, wire_order=order), dtype=complex)), None
    return sp.csr_matrix(H.sparse_matrix(wire_order=order)).astype(complex), None


def amax(S):
    return float(abs(S).max()) if S.nnz else 0.0


def compare(H, E, nq, sig, info):
    M, why = impl_matrix(H, nq)
    if why:
        return bad(sig + ":wires", why, list(range(nq)), **info)
    if amax(M - M.conj().T) > TOL:
        return bad(sig + ":not-hermitian", amax(M - M.conj().T), 0.0, **info)
    err = amax(M - E)
    if err > TOL * max(1.0, amax(E)):
        return bad(sig, {"maxdiff": err, "trace": complex(M.diagonal().sum()), "norm1": float(abs(M).sum())},
                   {"trace": complex(E.diagonal().sum()), "norm1": float(abs(E).sum())}, **info)
    return None


# ------------------------------------------------------------------------------------------------ checks
def check(spec):
    return {"geom": check_geom, "lattice": check_lattice, "ham": check_ham, "kitaev": check_kitaev, "custom": check_custom,
            "reject": check_reject}[spec["k"]](spec)


def check_geom(spec):
    shape = spec["shape"]
    V, P = geometry(shape)
    n_sl, _, zz = R.TEXTBOOK[shape]
    if len(P) != n_sl or V.shape != (R.DIM[shape], R.DIM[shape]):
        return bad(f"geometry:{shape}:sites-per-cell", [len(P), list(V.shape)], [n_sl, R.DIM[shape]])
    co = R.coordination(V, P, 2)
    got = sorted((c[0][1], c[1][1]) for c in co)
    if got != sorted(zz):
        return bad(f"geometry:{shape}:coordination", got, sorted(zz), distances=[[round(x[0], 6) for x in c] for c in co])
    return ok(outcome=[shape, n_sl, got, round(co[0][0][0], 6)], nontrivial=True)


def check_lattice(spec):
    shape, n, bc, order = spec["shape"], spec["n"], spec["bc"], spec["o"]
    L = make_lattice(shape, n, bc, order)
    exp, n_sl = ref_edges(shape, n, bc, order)
    tag = f"{shape}:order={order}:{'open' if not any(bc) else ('periodic' if all(bc) else 'mixed')}"
    info = {"n_cells": n, "bc": bc}
    ns = n_sl
    for x in n:
        ns *= x
    if int(L.n_sites) != ns:
        return bad(f"n_sites:{shape}", int(L.n_sites), ns, **info)
    got = [(int(a), int(b), int(c)) for a, b, c in L.edges]
    if len(set(got)) != len(got):
        dup = sorted({e for e in got if got.count(e) > 1})
        return bad(f"edges-duplicated:{tag}", dup[:10], "each (i, j, colour) once", **info)
    if any(a > b for a, b, _ in got):
        return bad(f"edges-not-ordered:{tag}", [e for e in got if e[0] > e[1]][:10], "(min, max, colour)", **info)
    if sorted(got) != exp:
        miss = sorted(set(exp) - set(got))[:12]
        extra = sorted(set(got) - set(exp))[:12]
        return bad(f"edges:{tag}", {"missing": miss, "extra": extra, "count": len(got)}, {"count": len(exp)}, **info)
    if [tuple(int(v) for v in e) for e in L.edges_indices] != [e[:2] for e in got]:
        return bad(f"edges_indices:{tag}", "differs from edges", "edges without colour", **info)
    ncol = len({e[2] for e in got})
    loops = sum(1 for e in got if e[0] == e[1])
    return ok(outcome=[shape, ns, len(got), ncol, loops], nontrivial=len(got) > 0)


def coupling(form, ns, order, base, sym=True):
    """scalar / per-order list / symmetric full matrix, values tied to (i, j) so that index slips show."""
    import numpy as np

    if form == "scalar":
        return base
    if form == "list":
        return [round(base * (1 + 0.5 * k), 6) for k in range(order)]
    M = np.zeros((ns, ns))
    for i in range(ns):
        for j in range(ns):
            M[i][j] = round(base * (1 + 0.1 * min(i, j) + 0.03 * max(i, j)), 6)
    return M.tolist()


def check_ham(spec):
    import numpy as np
    import pennylane as qp

    model, shape, n, bc, order, form, mapping = spec["model"], spec["shape"], spec["n"], spec["bc"], spec["o"], spec["f"], spec.get("map", "jordan_wigner")
    edges, n_sl = ref_edges(shape, n, bc, 2 if model == "haldane" else order)
    ns = n_sl
    for x in n:
        ns *= x
    tag = f"{model}:{form}" + ("" if mapping == "jordan_wigner" else f":{mapping}")
    info = {"lattice": shape, "n_cells": n, "bc": bc, "order": order}
    kw = {"boundary_condition": bc}
    if model != "haldane":
        kw["neighbour_order"] = order
    if model == "transverse_ising":
        J = coupling(form, ns, order, 0.5)
        H = qp.spin.transverse_ising(shape, n, coupling=J, h=0.3, **kw)
        E, nq = R.tfim(ns, edges, J, 0.3), ns
    elif model == "heisenberg":
        if form == "default":
            J = None
            Jr = [[1.0, 1.0, 1.0]]
        elif form == "list":
            J = [[round(0.5 + 0.25 * k, 6), round(-0.7 + 0.1 * k, 6), round(1.1 - 0.3 * k, 6)] for k in range(order)]
            Jr = J
        elif form == "flat":
            J = [0.5, -0.7, 1.1]
            Jr = [J]
        else:
            J = [coupling("matrix", ns, order, b) for b in (0.5, -0.7, 1.1)]
            Jr = J
        H = qp.spin.heisenberg(shape, n, coupling=J, **kw)
        E, nq = R.heisenberg(ns, edges, Jr), ns
    elif model in ("fermi_hubbard", "emery"):
        t = coupling(form, ns, order, 0.7)
        U = 0.8 if form == "scalar" else [round(0.8 + 0.1 * i, 6) for i in range(ns)]
        if model == "emery":
            Vc = coupling(form, ns, order, 0.3)
            H = qp.spin.emery(shape, n, hopping=t, coulomb=U, intersite_coupling=Vc, mapping=mapping, **kw)
            E = R.hubbard(ns, edges, t, U, Vc)
        else:
            H = qp.spin.fermi_hubbard(shape, n, hopping=t, coulomb=U, mapping=mapping, **kw)
            E = R.hubbard(ns, edges, t, U)
        nq = 2 * ns
    elif model == "haldane":
        f = "scalar" if form == "scalar" else "matrix"
        t1, t2, phi = coupling(f, ns, 1, 0.7), coupling(f, ns, 1, 0.4), coupling(f, ns, 1, 0.9)
        H = qp.spin.haldane(shape, n, hopping=t1, hopping_next=t2, phi=phi, mapping=mapping, **kw)
        E, nq = R.haldane(ns, edges, t1, t2, phi), 2 * ns
    else:
        raise AssertionError(model)
    if mapping != "jordan_wigner":
        U_, problems = intertwiner(mapping, nq)
        if problems:
            return bad(f"mapping-equivalence:{mapping}", problems, "unitary intertwiner", **info)
        import scipy.sparse as sp

        E = sp.csr_matrix(U_ @ E.toarray() @ U_.conj().T)
    v = compare(H, E, nq, f"hamiltonian:{tag}", info)
    if v:
        return v
    return ok(outcome=[model, form, mapping, ns, len(edges), round(float(abs(E).sum()), 6)], nontrivial=len(edges) > 0)


_U = {}


def intertwiner(mapping, nq):
    import numpy as np
    import pennylane as qp
    from pennylane.fermi import FermiWord
    from mc import x_fermi

    key = (mapping, nq)
    if key not in _U:
        f = qp.parity_transform if mapping == "parity" else qp.bravyi_kitaev
        ann = [np.asarray(f(FermiWord({(0, j): "-"}), nq, ps=True).to_mat(wire_order=list(range(nq))), dtype=complex) for j in range(nq)]
        _U[key] = x_fermi.fock_basis_change(ann)
    return _U[key]


def kitaev_reference(n, bc, K):
    """Bonds of the honeycomb lattice classified by real-space direction.  Returns {direction class: [(i, j)]} with classes
    0: [0, 1], 1: [sqrt3/2, 1/2], 2: [sqrt3/2, -1/2]; sublattice A at the cell origin, B at (1/2, 1/(2 sqrt3))."""
    import math

    import numpy as np

    V = np.array([[1, 0], [0.5, math.sqrt(3) / 2]])
    P = np.array([[0, 0], [0.5, 0.5 / math.sqrt(3)]])
    dirs = [np.array([0, 1.0]), np.array([math.sqrt(3) / 2, 0.5]), np.array([math.sqrt(3) / 2, -0.5])]
    bonds = {0: [], 1: [], 2: []}
    for cell in itertools.product(range(n[0]), range(n[1])):
        rb = np.asarray(cell, dtype=float) @ V + P[1]
        b = R.site_index(cell, 1, n, 2)
        for dc in ((0, 0), (0, 1), (1, 0)):  # the three A neighbours of a B site
            tgt = [cell[0] + dc[0], cell[1] + dc[1]]
            ra = np.asarray(tgt, dtype=float) @ V + P[0]
            u = (ra - rb) / np.linalg.norm(ra - rb)
            cls = [k for k, d in enumerate(dirs) if min(np.linalg.norm(u - d), np.linalg.norm(u + d)) < 1e-9]
            assert len(cls) == 1 and abs(np.linalg.norm(ra - rb) - 1 / math.sqrt(3)) < 1e-9
            okk = True
            for ax in range(2):
                if bc[ax]:
                    tgt[ax] %= n[ax]
                elif not 0 <= tgt[ax] < n[ax]:
                    okk = False
            if okk:
                bonds[cls[0]].append((R.site_index(tgt, 0, n, 2), b))
    return bonds


def check_kitaev(spec):
    import pennylane as qp

    n, bc, K = spec["n"], spec["bc"], spec["c"]
    ns = 2 * n[0] * n[1]
    info = {"n_cells": n, "bc": bc, "coupling": K}
    try:
        H = qp.spin.kitaev(n, coupling=K, boundary_condition=bc)
    except ValueError as e:
        if K is not None and len(K) != 3:
            return ok(outcome="ValueError", nontrivial=False)
        return bad("kitaev:n_cells[0]=1:ValueError" if n[0] == 1 else "kitaev:exception:ValueError", str(e)[:300], "a Hamiltonian", **info)
    if K is not None and len(K) != 3:
        return bad("kitaev:invalid-coupling-accepted", repr(H)[:200], "ValueError", **info)
    Kv = K or [1.0, 1.0, 1.0]
    bonds = kitaev_reference(n, bc, Kv)

    def build(label_of_class):
        E = R.zero(ns)
        for cls, prs in bonds.items():
            P = label_of_class[cls]
            for i, j in prs:
                E = E + Kv["XYZ".index(P)] * R.two_site(P, i, P, j, ns)
        return E

    doc = build({0: "X", 1: "Y", 2: "Z"})
    v = compare(H, doc, ns, "kitaev:n_cells[1]=1:wrong-bonds" if (n[1] == 1 and n[0] > 1) else "hamiltonian:kitaev", info)
    if v and v["sig"] == "hamiltonian:kitaev":
        swapped = build({0: "Y", 1: "X", 2: "Z"})
        if compare(H, swapped, ns, "x", info) is None:
            return bad("kitaev:doc-bond-directions:X-and-Y-labels-swapped", v["obs"], v["exp"], **info)
    if v:
        return v
    return ok(outcome=["kitaev", ns, [len(bonds[k]) for k in (0, 1, 2)], round(float(abs(doc).sum()), 6)], nontrivial=sum(len(b) for b in bonds.values()) > 0)


CUSTOM_EDGE_SETS = {
    "centred": [
        [[0, 1, "XX", 0.5]],
        [[0, 1, "XX", 0.5], [1, 2, "YY", 0.6]],
        [[0, 1, "XX", 0.5], [1, 2, "YY", 0.6], [1, "ROW", "ZZ", 0.7]],
        [[0, 2, "XY", 0.3], [1, "ROW+1", "ZI", -0.4]],
        [[2, 0, "YX", 0.3]],
    ],
    "dimer-chain": [
        [[0, 1, "ZZ", 1.0]],
        [[0, 1, "ZZ", 1.0], [1, 2, "XX", -0.5]],
        [[0, 3, "XZ", 0.25], [0, 2, "YY", 0.2]],
    ],
}


def check_custom(spec):
    import pennylane as qp
    from pennylane.spin import Lattice

    geom, n, bc, es, nodes = spec["g"], spec["n"], spec["bc"], spec["e"], spec["nodes"]
    g = CUSTOM_GEOM[geom]
    n_sl = len(g["positions"])
    ns = n_sl
    for x in n:
        ns *= x
    row = n_sl * (n[1] if len(n) > 1 else 1)

    def idx(t):
        return t if isinstance(t, int) else (row if t == "ROW" else row + 1)

    es = [[idx(s), idx(t), op, c] for s, t, op, c in es]
    nodes = [x for x in nodes if x[0] < ns]
    info = {"geometry": geom, "n_cells": n, "bc": bc, "custom_edges": es, "custom_nodes": nodes}
    valid = all(s < ns and t < ns for s, t, _, _ in es)
    try:
        L = Lattice(n_cells=n, vectors=g["vectors"], positions=g["positions"], boundary_condition=bc,
                    custom_edges=[[(s, t), (op, c)] for s, t, op, c in es],
                    custom_nodes=[[i, (op, c)] for i, op, c in nodes] if nodes else None)
    except ValueError as e:
        if not valid:
            return ok(outcome="ValueError:vertex>=n_sites", nontrivial=False)
        return bad("custom:exception:ValueError", str(e)[:300], "a lattice", **info)
    if not valid:
        return bad("custom:invalid-edge-accepted", sorted(map(str, L.edges))[:10], "ValueError", **info)
    exp = R.custom_edges_translated([(s, t) for s, t, _, _ in es], n, n_sl, bc)
    got = [(int(a), int(b), (c[0], float(c[1]))) for a, b, c in L.edges]
    want = [(i, j, (es[k][2], float(es[k][3]))) for i, j, k in exp]
    if sorted(got) != sorted(want):
        return bad(f"custom-edges:{geom}", sorted(got)[:20], sorted(want)[:20], **info)
    H = qp.spin.spin_hamiltonian(L)
    E = R.zero(ns)
    for i, j, (op, c) in want:
        E = E + c * R.two_site(op[0], i, op[1], j, ns)
    for i, op, c in nodes:
        E = E + c * R.site_op(op, i, ns)
    v = compare(H, E, ns, f"hamiltonian:spin_hamiltonian:{geom}", info)
    if v:
        return v
    return ok(outcome=["custom", geom, ns, len(want), len(nodes), round(float(abs(E).sum()), 6)], nontrivial=len(want) > 0)


def check_reject(spec):
    import pennylane as qp

    what = spec["what"]
    try:
        if what == "shape":
            r = qp.spin.generate_lattice("pentagon", [2, 2])
        elif what == "dim":
            r = qp.spin.generate_lattice("square", [2])
        elif what == "n_cells":
            r = qp.spin.generate_lattice("chain", [0])
        elif what == "coupling-shape":
            r = qp.spin.transverse_ising("chain", [3], coupling=[1.0, 2.0])
        elif what == "heisenberg-shape":
            r = qp.spin.heisenberg("chain", [3], coupling=[[1.0, 2.0]])
        elif what == "mapping":
            r = qp.spin.fermi_hubbard("chain", [2], mapping="nope")
        elif what == "no-ops":
            L = qp.spin.Lattice([2], [[1]], [[0]], custom_edges=[[(0, 1)]])
            r = qp.spin.spin_hamiltonian(L)
        elif what == "bc":
            r = qp.spin.generate_lattice("square", [2, 2], boundary_condition=[True])
        else:
            raise AssertionError(what)
    except (ValueError, TypeError) as e:
        exp = TypeError if what == "n_cells" else ValueError
        if isinstance(e, exp):
            return ok(outcome=type(e).__name__, nontrivial=False)
        return bad(f"wrong-error:{what}", type(e).__name__, exp.__name__)
    return bad(f"invalid-accepted:{what}", repr(r)[:200], "ValueError/TypeError")


# ------------------------------------------------------------------------------------------------ driver
def run(ctx):
    R.selftest()
    q = ctx.quick
    omax = 2 if q else 3
    ctx.enumerate([{"k": "geom", "shape": s} for s in SHAPES], axis="geometry", parallel=False)
    lat = []
    for shape in SHAPES + list(CUSTOM_GEOM):
        dim = R.DIM.get(shape) or len(CUSTOM_GEOM[shape]["vectors"])
        for n in sizes(dim, q):
            for bc in bcs(dim):
                for o in range(1, omax + 1):
                    lat.append({"k": "lattice", "shape": shape, "n": n, "bc": bc, "o": o})
    ctx.enumerate(lat, axis="lattice")

    def n_sites(shape, n):
        ns = R.TEXTBOOK[shape][0]
        for x in n:
            ns *= x
        return ns

    ham = []
    spin_cap = 9 if q else 10
    ferm_cap = 4 if q else 5
    for shape in SHAPES:
        dim = R.DIM[shape]
        for n in sizes(dim, q):
            ns = n_sites(shape, n)
            if ns < 2:
                continue
            for bc in bcs(dim):
                for o in (1, 2):
                    if ns <= spin_cap:
                        forms = (["scalar"] if o == 1 else []) + ["list", "matrix"]
                        ham += [{"k": "ham", "model": "transverse_ising", "shape": shape, "n": n, "bc": bc, "o": o, "f": f} for f in forms]
                        forms = (["default", "flat"] if o == 1 else []) + ["list", "matrix"]
                        ham += [{"k": "ham", "model": "heisenberg", "shape": shape, "n": n, "bc": bc, "o": o, "f": f} for f in forms]
                    if ns <= ferm_cap:
                        forms = (["scalar"] if o == 1 else []) + ["list", "matrix"]
                        for model in ("fermi_hubbard", "emery"):
                            ham += [{"k": "ham", "model": model, "shape": shape, "n": n, "bc": bc, "o": o, "f": f} for f in forms]
                            if ns <= 3:
                                ham += [{"k": "ham", "model": model, "shape": shape, "n": n, "bc": bc, "o": o, "f": "list", "map": m} for m in ("parity", "bravyi_kitaev")]
                        if o == 1:
                            ham += [{"k": "ham", "model": "haldane", "shape": shape, "n": n, "bc": bc, "o": 2, "f": f} for f in ("scalar", "matrix")]
                            if ns <= 3:
                                ham += [{"k": "ham", "model": "haldane", "shape": shape, "n": n, "bc": bc, "o": 2, "f": "matrix", "map": m} for m in ("parity", "bravyi_kitaev")]
    ctx.enumerate(ham, axis="hamiltonian")
    kit = []
    ksizes = [[1, 1], [1, 2], [2, 1], [2, 2], [1, 3], [3, 1]] + ([] if q else [[2, 3], [3, 2], [1, 4]])
    for n in ksizes:
        for bc in bcs(2):
            for c in ([0.5, 0.6, 0.7], None, [-1.0, 0.25, 0.0]):
                kit.append({"k": "kitaev", "n": n, "bc": bc, "c": c})
    kit += [{"k": "kitaev", "n": [2, 2], "bc": [False, False], "c": [1.0, 2.0]}]
    ctx.enumerate(kit, axis="kitaev")
    cus = []
    for geom, sets in CUSTOM_EDGE_SETS.items():
        dim = len(CUSTOM_GEOM[geom]["vectors"])
        szs = [[2], [3], [4]] if dim == 1 else [[1, 2], [2, 1], [2, 2]] + ([] if q else [[2, 3], [3, 2]])
        for n in szs:
            for bc in bcs(dim):
                for es in sets:
                    for nodes in ([], [[0, "X", 0.5], [1, "Y", 0.3]], [[3, "Z", -1.0]]):
                        cus.append({"k": "custom", "g": geom, "n": n, "bc": bc, "e": es, "nodes": nodes})
    ctx.enumerate(cus, axis="custom")
    ctx.enumerate([{"k": "reject", "what": w} for w in ("shape", "dim", "n_cells", "coupling-shape", "heisenberg-shape", "mapping", "no-ops", "bc")], axis="reject", parallel=False)
    ctx.coverage["alphabet"] = {"shapes": SHAPES + list(CUSTOM_GEOM), "boundary": "all per-axis combinations", "models": ["transverse_ising", "heisenberg",
                                "fermi_hubbard", "emery", "haldane", "kitaev", "spin_hamiltonian"], "coupling_forms": ["scalar", "list", "matrix", "default", "flat"],
                                "mappings": ["jordan_wigner", "parity", "bravyi_kitaev"]}
    ctx.coverage["bound"] = {"sizes_1d": sizes(1, q), "sizes_2d": sizes(2, q), "sizes_3d": sizes(3, q), "max_order": omax, "max_spin_sites": spin_cap, "max_fermion_sites": ferm_cap}
