"""C65 — Executor backends behave like map and starmap (DESIGN §5.11).

E5(a): every feasible completion order of the pool's tasks is forced on the REAL pools behind PennyLane's
executor classes (serial, concurrent.futures thread pool, concurrent.futures process pool (spawn),
multiprocessing.Pool (spawn)).  Tasks are picklable functions from mc/x_tasks.py that block on a file gate;
the controller observes the set of started-and-unreleased tasks (= enabled completions), releases one per
scheduling decision and explores the whole decision tree depth-first.
Oracle: fn(*a) / list(map(fn, *iters)) / list(itertools.starmap(fn, args)) on ungated arguments.
"""
import itertools
import os
import shutil
import tempfile
import threading
import time

from mc.engine import ok, bad, skip

PROPERTY = "C65"
LEVEL = "model_checking"
TECHNIQUE = "exhaustive exploration of task completion orders on the real thread/process pools via gated tasks; oracle = built-in map/starmap/call"
LEVEL_TEXT = ("For functions of arity 1-3 (with and without kwargs, one raising), 0-4 tasks, 1-4 workers, persist on/off and the submit/map/starmap/"
              "__call__ APIs, every feasible completion order (full decision tree, <=24 orders) is forced on each native backend and the returned list "
              "is compared with the built-in result; process pools are explored on a reduced grid in the quick tier.")
LEVEL_NOTE = ("Trusted: the standard-library pools' own delivery, file gates on tmpfs. Completion order is controlled at task granularity (not inside the "
              "pool's own code). Uneven argument lengths are outside the documented precondition ('length of every entry must be consistent').")
DESIGN_REF = "5.11 C65"
PARALLEL = False
RULE = "one case = (backend, workers, persist, api, function, #tasks); all release orders explored inside the case; non-trivial = >1 order explored"

GATE_ROOT = "/dev/shm" if os.path.isdir("/dev/shm") else None


def _iters(fn, n, d):
    firsts = [(i, d) for i in range(n)]
    if fn == "f1":
        return [firsts]
    if fn in ("f2", "f2k", "boom"):
        return [firsts, [10 + i for i in range(n)]]
    return [firsts, [10 + i for i in range(n)], [100 + i for i in range(n)]]


def _expected(api, fn, n, kwargs):
    from mc.x_tasks import FUNCS

    f = FUNCS[fn]
    its = _iters(fn, n, None)
    try:
        if api in ("map", "call-map"):
            return ("value", list(map(lambda *a: f(*a, **kwargs), *its)))
        if api in ("starmap", "call-starmap"):
            return ("value", list(itertools.starmap(lambda *a: f(*a, **kwargs), list(zip(*its)))))
        if api in ("submit", "call-submit"):
            return ("value", f(*[it[0] for it in its], **kwargs))
    except Exception as e:  # noqa
        return ("raises", type(e).__name__)
    raise AssertionError(api)


def _one_execution(ex, spec, prefix, parent):
    """Run one API call on executor `ex` forcing the release order given by `prefix`.
    Returns (observation, points) with points = [(enabled, choice)]."""
    from mc.x_tasks import FUNCS

    api, fn, n, w = spec["api"], spec["fn"], spec["n"], spec["workers"]
    kwargs = {"k": 3} if spec.get("kwargs") else {}
    d = tempfile.mkdtemp(prefix="x_", dir=parent)  # removed with `parent` after the executor is shut down:
    f = FUNCS[fn]                                 # a task left over from an aborted map must still see its go-file
    its = _iters(fn, n, d)
    def call():
        if api == "map":
            return ex.map(f, *its, **kwargs)
        if api == "starmap":
            return ex.starmap(f, list(zip(*its)), **kwargs)
        if api == "submit":
            return ex.submit(f, *[it[0] for it in its], **kwargs)
        if api == "call-map":
            return ex("map", f, *its, **kwargs)
        if api == "call-starmap":
            return ex("starmap", f, list(zip(*its)), **kwargs)
        if api == "call-submit":
            return ex("submit", f, *[it[0] for it in its], **kwargs)
        raise AssertionError(api)

    from mc import sched

    ntasks = 1 if "submit" in api else n
    try:
        r, points, released = sched.run_gated(call, d, ntasks, w, prefix, slow=spec["backend"] in ("cf_procpool", "mp_pool"))
        if r[0] == "value":
            r = ("value", _plain(r[1]))
        return r, points, released
    finally:
        pass


def _plain(v):
    if isinstance(v, tuple):
        return tuple(_plain(x) for x in v)
    if isinstance(v, list):
        return [_plain(x) for x in v]
    return v


def check(spec):
    from pennylane.concurrency.executors import create_executor

    api, fn, n = spec["api"], spec["fn"], spec["n"]
    kwargs = {"k": 3} if spec.get("kwargs") else {}
    exp = _expected(api, fn, n, kwargs)
    arity = {"f1": 1, "f2": 2, "f3": 3, "f2k": 2, "boom": 2}[fn]
    ex_kwargs = {"max_workers": spec["workers"], "persist": spec["persist"]}
    ex = None
    orders = set()
    n_exec = 0
    stack = [[]]
    parent = tempfile.mkdtemp(prefix="c65_", dir=GATE_ROOT)
    try:
        if spec["persist"]:
            ex = create_executor(spec["backend"], **ex_kwargs)
        while stack:
            prefix = stack.pop()
            e = ex if ex is not None else create_executor(spec["backend"], **ex_kwargs)
            try:
                obs, points, released = _one_execution(e, spec, prefix, parent)
            finally:
                if ex is None:
                    e.shutdown()
            n_exec += 1
            orders.add(tuple(released))
            same = (obs[0] == exp[0]) and (obs[1] == exp[1])
            if not same:
                sig = f"api={api.replace('call-', '')} arity={arity}" + (" kwargs" if kwargs else "") + (f" backend={spec['backend']}" if arity > 1 else "")
                if arity == 1:
                    sig += " starmap-fallback" if ("starmap" in api and spec["backend"] in ("cf_threadpool", "cf_procpool")) else ""
                return bad(sig, {"got": obs, "release_order": released}, {"builtin": exp}, backend=spec["backend"])
            for i in range(len(prefix), len(points)):
                enabled, c = points[i]
                for alt in range(1, len(enabled)):
                    stack.append([p[1] for p in points[:i]] + [alt])
    finally:
        if ex is not None:
            ex.shutdown()
        shutil.rmtree(parent, ignore_errors=True)
    return ok(outcome=[n_exec, len(orders), exp[0]], nontrivial=len(orders) > 1, **{"executions": n_exec, "orders": len(orders)})


def _specs(ctx):
    S = []

    def add(backend, w, persist, api, fn, n, kwargs=False):
        S.append({"backend": backend, "workers": w, "persist": persist, "api": api, "fn": fn, "n": n, "kwargs": kwargs})

    # serial: no schedule freedom, all APIs and shapes
    for api in ("map", "starmap", "submit", "call-map", "call-starmap", "call-submit"):
        for fn in ("f1", "f2", "f3", "f2k", "boom"):
            for n in ((1,) if "submit" in api else (0, 1, 2, 3)):
                add("serial", 1, False, api, fn, n)
                if fn == "f2k":
                    add("serial", 1, False, api, fn, n, True)
    # thread pool: full grid, all orders
    for api in ("map", "starmap"):
        for fn in ("f1", "f2", "f3", "f2k", "boom"):
            for n in (0, 1, 2, 3):
                for w in (1, 2, 3):
                    for persist in (False, True):
                        add("cf_threadpool", w, persist, api, fn, n)
                        if fn == "f2k":
                            add("cf_threadpool", w, persist, api, fn, n, True)
    add("cf_threadpool", 4, True, "map", "f2", 4)
    add("cf_threadpool", 4, False, "starmap", "f3", 4)
    add("cf_threadpool", 2, False, "map", "f3", 4)
    for fn in ("f1", "f2", "f2k"):
        add("cf_threadpool", 2, False, "submit", fn, 1)
        add("cf_threadpool", 2, True, "call-submit", fn, 1)
    add("cf_threadpool", 2, True, "call-map", "f2", 3)
    add("cf_threadpool", 2, True, "call-starmap", "f2", 3)
    # process pools
    for be in ("cf_procpool", "mp_pool"):
        if ctx.quick:
            add(be, 3, True, "map", "f2", 3)
            add(be, 2, True, "starmap", "f3", 3)
            add(be, 2, False, "map", "f2", 2)
            add(be, 2, True, "map", "f1", 2)
            add(be, 2, True, "starmap", "f1", 2)
            add(be, 2, True, "map", "boom", 2)
            add(be, 2, True, "submit", "f2", 1)
        else:
            for api in ("map", "starmap"):
                for fn in ("f1", "f2", "f3", "f2k", "boom"):
                    for n in (0, 1, 2, 3):
                        for w in (1, 2, 3):
                            add(be, w, True, api, fn, n)
                    add(be, 2, False, api, fn, 2)
                add(be, 2, True, api, "f2k", 3, True)
            add(be, 4, True, "map", "f2", 4)
            add(be, 4, True, "starmap", "f3", 4)
            add(be, 2, True, "submit", "f2", 1)
            add(be, 2, True, "call-map", "f2", 2)
    return S


def run(ctx):
    from concurrent.futures import ThreadPoolExecutor
    from mc.engine import _call

    specs = _specs(ctx)
    light = [s for s in specs if s["backend"] in ("serial", "cf_threadpool")]
    heavy = [s for s in specs if s["backend"] not in ("serial", "cf_threadpool")]
    tot = {"executions": 0, "orders": 0}

    def job(s):
        return s, _call("checks.C65", "check", s)

    # executions run in the driver process (pool workers are daemonic and may not spawn process pools);
    # several cases are explored concurrently by driver-side threads (they mostly wait on gates)
    for group, width in ((light, 4), (heavy, 6)):
        with ThreadPoolExecutor(width) as tp:
            for s, r in tp.map(job, group):
                ctx.record(s, r)
                x = r.get("x") or {}
                tot["executions"] += x.get("executions", 0)
                tot["orders"] += x.get("orders", 0)
    ctx.coverage.update({
        "states": tot["orders"], "transitions": tot["executions"], "traces_validated_against_impl": tot["executions"],
        "schedules": tot["executions"], "distinct_completion_orders": tot["orders"],
        "alphabet": {"functions": ["f1(a)", "f2(a,b)", "f3(a,b,c)", "f2k(a,b,k=7)", "boom(a,b) raising for task 1"],
                     "apis": ["submit", "map", "starmap", "__call__ dispatch"], "backends": ["serial", "cf_threadpool", "cf_procpool", "mp_pool"]},
        "bound": {"tasks": "0..4", "workers": "1..4", "orders": "all (full decision tree)"},
        "explanation": "states = distinct completion orders forced; transitions = pool executions",
    })
