"""C19 — transpile respects device connectivity (DESIGN §5.3).

E2 x E1: coupling maps = EVERY connected labelled graph on 3 and 4 nodes (4 + 38) plus line / ring / star / tree /
lollipop on 5 nodes; circuits = all words up to a length bound over {RX(i), CNOT(i,j) all ordered pairs, CZ(i,j),
SWAP(i,j)}; measurement lists that (a) name every wire, (b) name a strict subset of the wires (so coupling-map nodes
outside the tape are routed through), (c) state()/probs() without wires together with `device=`; int and string
labels; device wire orders identity / reversed; default.mixed.

Oracle: (1) every two-qubit gate of the output acts on an edge of the coupling map; (2) with pi the wire permutation
read off the transformed measurements, the plain-numpy unitary of the output equals P_pi . U_in (U_in computed from
the spec alone); for partial measurement lists the reference values of the transformed measurements on the output
circuit equal those of the original measurements on the input circuit; for state() with a device the returned
post-processing applied to the reference output state gives the reference input state; (3) the documented rejections
(Hamiltonian / tensor-product observables, wires missing from the coupling map, gates on > 2 wires) raise.
"""
import itertools
import math

from mc.engine import ok, bad, skip
from mc.explore import words

PROPERTY = "C19"
LEVEL = "exploration"
TECHNIQUE = "bounded exhaustive enumeration of circuits x all connected coupling graphs vs. dense-unitary reference with wire permutation"
LEVEL_TEXT = ("Every connected coupling graph on 3 and 4 labelled nodes (42 graphs) and 5 shapes on 5 nodes, times every gate word up to "
              "length 3 (3 nodes) / 2 (4-5 nodes) in quick and 4 / 3 / 2 in thorough, times measurement/device variants, is pushed "
              "through qp.transforms.transpile; edge membership is checked exactly and the output unitary is compared with "
              "P_pi.U_in (tolerance 1e-9).")
LEVEL_NOTE = ("Trusted base: mc.refgates matrices, numpy, networkx only for enumerating connected graphs. Not decided: graphs with more "
              "than 5 nodes, words beyond the bound, templates that need expansion, QNode-level application.")
DESIGN_REF = "5.3 C19"
START = "fork"
PARALLEL = True
RULE = ("all connected graphs on 3/4 nodes (+5 shapes on 5 nodes) x all words over the gate alphabet up to the bound x measurement/device "
        "variants; non-trivial = at least one SWAP was inserted")

G = 0.3
STR_LABELS = ["a", "b", "c", "d", "e"]


def connected_graphs(k):
    """All connected labelled graphs on nodes 0..k-1 as sorted edge lists (plain union-find, no networkx)."""
    pairs = list(itertools.combinations(range(k), 2))
    out = []
    for m in range(k - 1, len(pairs) + 1):
        for es in itertools.combinations(pairs, m):
            parent = list(range(k))

            def find(x):
                while parent[x] != x:
                    x = parent[x]
                return x

            for a, b in es:
                parent[find(a)] = find(b)
            if len({find(x) for x in range(k)}) == 1:
                out.append([list(e) for e in es])
    return out


SHAPES5 = {
    "line": [[0, 1], [1, 2], [2, 3], [3, 4]],
    "ring": [[0, 1], [1, 2], [2, 3], [3, 4], [0, 4]],
    "star": [[2, 0], [2, 1], [2, 3], [2, 4]],
    "tree": [[0, 1], [1, 2], [1, 3], [3, 4]],
    "lollipop": [[0, 1], [1, 2], [0, 2], [2, 3], [3, 4]],
    "shuffled-line": [[3, 0], [0, 4], [4, 1], [1, 2]],
}


def alphabet(k, reduced=False):
    if reduced:
        ones = [["RX", [0], [G]], ["RX", [k - 1], [G]]]
        twos = [["CNOT", [a, b]] for a in range(k) for b in range(k) if a != b]
        twos += [["SWAP", [0, k - 1]], ["CZ", [1, 2]]]
        return ones + twos
    ones = [["RX", [i], [G]] for i in range(k)]
    twos = [["CNOT", [a, b]] for a in range(k) for b in range(k) if a != b]
    twos += [["CZ", [a, b]] for a in range(k) for b in range(a + 1, k)]
    twos += [["SWAP", [a, b]] for a in range(k) for b in range(a + 1, k)]
    return ones + twos


# ------------------------------------------------------------------------------------------------ check
def check(spec):
    import numpy as np
    import pennylane as qp

    from mc import refsim as RS
    from mc import x_passes as XP

    k, edges, word, mk, dev = spec["k"], spec["graph"], spec["word"], spec["meas"], spec.get("device")
    lab = spec.get("lab") or list(range(k))
    order = list(lab)
    ops = XP.build_ops(word, lab)
    cmap = [(lab[a], lab[b]) for a, b in edges]
    if spec.get("cmap_form") == "dict":
        d = {lab[i]: [] for i in range(k)}
        for a, b in edges:
            d[lab[a]].append(lab[b])
        cmap = d
    edge_set = {frozenset((lab[a], lab[b])) for a, b in edges}

    if mk == "all":
        meas = [qp.expval(qp.Z(w)) for w in order] + [qp.probs(wires=order)]
    elif mk == "part":
        meas = [qp.expval(qp.Z(order[0])), qp.probs(wires=[order[-1], order[0]])]
    elif mk == "state":
        meas = [qp.state()]
    elif mk == "state+probs":
        meas = [qp.probs(), qp.state()]
    else:
        raise AssertionError(mk)

    device = None
    dev_order = None
    if dev:
        dev_order = order if dev["order"] == "id" else order[::-1]
        device = qp.device(dev["name"], wires=dev_order)
    tape = qp.tape.QuantumScript(ops, meas)
    kw = {"coupling_map": cmap}
    if device is not None:
        kw["device"] = device
    try:
        batch, post = qp.transforms.transpile(tape, **kw)
    except Exception as e:
        return bad(f"raised:{type(e).__name__}", f"{type(e).__name__}: {e}"[:300], "no exception", word=[XP.name_of(l) for l in word])
    if len(batch) != 1:
        return bad("batch-size", len(batch), 1)
    out = batch[0]
    out_ops = list(out.operations)

    # (1) connectivity
    for op in out_ops:
        if len(op.wires) > 2:
            return bad("gate-on-more-than-two-wires", repr(op), "<= 2 wires")
        if len(op.wires) == 2 and frozenset(op.wires) not in edge_set:
            return bad("two-qubit-gate-off-edge", repr(op), sorted(sorted(map(str, e)) for e in edge_set),
                       out=[repr(o) for o in out_ops])
        for w in op.wires:
            if w not in order:
                return bad("wire-outside-coupling-map", repr(op), order)
    n_swaps = sum(1 for a in out_ops if a.name == "SWAP") - sum(1 for l in word if l[0] == "SWAP")

    # (2) semantics
    idx = {w: i for i, w in enumerate(order)}
    U_in = XP.word_unitary(word, k)
    U_out = XP.ops_unitary(out_ops, order)
    om = list(out.measurements)
    if len(om) != len(meas):
        return bad("measurement-count", len(om), len(meas))
    if mk == "all":
        # permutation from the transformed measurements; all of them must agree
        pi = []
        for i, w in enumerate(order):
            m = om[i]
            if type(m).__name__ != "ExpectationMP" or m.obs.name != "PauliZ" or len(m.obs.wires) != 1:
                return bad("measurement-kind-changed", repr(m), repr(meas[i]))
            pi.append(idx[m.obs.wires[0]])
        pw = [idx[w] for w in om[-1].wires]
        if type(om[-1]).__name__ != "ProbabilityMP" or pw != pi:
            return bad("measurements-disagree-on-permutation", {"expval": pi, "probs": pw}, "one permutation")
        if sorted(pi) != list(range(k)):
            return bad("not-a-permutation", pi, "permutation")
        T_in = U_in.reshape((2,) * k + (2 ** k,))
        T_out = U_out.reshape((2,) * k + (2 ** k,))
        # logical wire i lives on physical position pi[i]: axis pi[i] of the output <-> axis i of the input
        T_back = np.transpose(T_out, pi + [k])
        d = float(np.max(np.abs(T_back - T_in)))
        if d > 1e-9:
            return bad("unitary-mismatch", {"distance": d, "pi": pi, "out": [repr(o) for o in out_ops]}, [XP.name_of(l) for l in word])
        fp = ["perm", pi]
    elif mk == "part":
        s_in = (U_in[:, 0]).reshape((2,) * k)
        s_out = (U_out[:, 0]).reshape((2,) * k)
        for a, b in zip(meas, om):
            if type(a) is not type(b):
                return bad("measurement-kind-changed", repr(b), repr(a))
            va = np.asarray(RS.measure(a, s_in, order))
            vb = np.asarray(RS.measure(b, s_out, order))
            if va.shape != vb.shape or float(np.max(np.abs(va - vb))) > 1e-9:
                return bad(f"result-mismatch:{type(a).__name__}", {"out": vb, "meas": repr(b), "ops": [repr(o) for o in out_ops]},
                           {"in": va, "word": [XP.name_of(l) for l in word]})
        fp = ["part", [repr(m.wires.tolist()) for m in om]]
    else:
        # state() / probs() without wires and a device: post-processing must undo the permutation
        didx = {w: i for i, w in enumerate(dev_order)}
        Ud_in = XP.ops_unitary(ops, dev_order)  # reference of the INPUT ops in device order (re-embedding only)
        # cross-check the re-embedding against the spec-only unitary
        perm = [idx[w] for w in dev_order]
        T = U_in.reshape((2,) * (2 * k))
        chk = np.transpose(T, perm + [k + p for p in perm]).reshape(2 ** k, 2 ** k)
        if float(np.max(np.abs(chk - Ud_in))) > 1e-9:
            return bad("harness:reference-embedding", "mismatch", "equal")
        psi_in = Ud_in[:, 0]
        psi_out = XP.ops_unitary(out_ops, dev_order)[:, 0]
        results = []
        for m in om:
            tn = type(m).__name__
            if tn == "StateMP":
                results.append(psi_out.copy())
            elif tn == "DensityMatrixMP":
                axes = [didx[w] for w in m.wires]
                results.append(RS.reduced_dm(psi_out.reshape((2,) * k), axes))
            elif tn == "ProbabilityMP":
                axes = [didx[w] for w in (m.wires if len(m.wires) else dev_order)]
                results.append(RS.probs_of(psi_out.reshape((2,) * k), axes))
            else:
                return bad("measurement-kind-changed", repr(m), repr(meas))
        raw = (results[0],) if len(results) == 1 else (tuple(results),)
        try:
            res = post(raw)
        except Exception as e:
            return bad(f"postprocessing-raised:{type(e).__name__}", f"{e}"[:300], "state in the original wire order")
        res = [res] if len(meas) == 1 else list(res)
        for m0, r in zip(meas, res):
            r = np.asarray(r)
            if type(m0).__name__ == "StateMP":
                if dev["name"] == "default.mixed":
                    exp = np.outer(psi_in, psi_in.conj())
                else:
                    exp = psi_in
            else:
                exp = RS.probs_of(psi_in.reshape((2,) * k), list(range(k)))
            if r.shape != exp.shape or float(np.max(np.abs(r - exp))) > 1e-9:
                how = "other"
                if r.shape == exp.shape and r.ndim == 1:  # diagnosis: is it the right state with its axes permuted?
                    for sigma in itertools.permutations(range(k)):
                        if float(np.max(np.abs(np.transpose(exp.reshape((2,) * k), sigma).reshape(-1) - r))) <= 1e-9:
                            how = "right-state-wrong-axis-permutation"
                            break
                return bad(f"postprocessed-result-mismatch:{type(m0).__name__}:{dev['name']}:{how}",
                           {"got": r, "out_meas": [repr(m) for m in om], "ops": [repr(o) for o in out_ops]},
                           {"expected": exp, "word": [XP.name_of(l) for l in word]})
        fp = ["dev", [repr(m) for m in om]]
    return ok(outcome=[n_swaps, fp], nontrivial=n_swaps > 0)


def check_reject(spec):
    """Documented rejections must raise their documented error."""
    import pennylane as qp

    kind = spec["reject"]
    line = [(0, 1), (1, 2)]
    if kind == "hamiltonian":
        tape = qp.tape.QuantumScript([qp.CNOT([0, 2])], [qp.expval(qp.Hamiltonian([1.0, 2.0], [qp.Z(0), qp.X(1)]))])
        exp = NotImplementedError
    elif kind == "prod":
        tape = qp.tape.QuantumScript([qp.CNOT([0, 2])], [qp.expval(qp.Z(0) @ qp.Z(2))])
        exp = NotImplementedError
    elif kind == "missing-wire":
        tape = qp.tape.QuantumScript([qp.CNOT([0, 3])], [qp.expval(qp.Z(0))])
        exp = ValueError
    elif kind == "missing-measured-wire":
        tape = qp.tape.QuantumScript([qp.CNOT([0, 2])], [qp.expval(qp.Z(7))])
        exp = ValueError
    elif kind == "three-qubit-gate":
        tape = qp.tape.QuantumScript([qp.Toffoli([0, 1, 2])], [qp.expval(qp.Z(0))])
        exp = NotImplementedError
    else:
        raise AssertionError(kind)
    try:
        qp.transforms.transpile(tape, coupling_map=line)
    except exp:
        return ok(outcome=["rejected", kind, exp.__name__], nontrivial=True)
    except Exception as e:
        return bad(f"reject:{kind}:wrong-exception", type(e).__name__, exp.__name__)
    return bad(f"reject:{kind}:accepted", "returned", exp.__name__)


# ------------------------------------------------------------------------------------------------ driver
def run(ctx):
    from mc import x_passes as XP

    q = ctx.quick
    g3, g4 = connected_graphs(3), connected_graphs(4)
    assert len(g3) == 4 and len(g4) == 38
    plans = []  # (k, graphs, alphabet, maxlen, variants)
    V_all = [{"meas": "all"}, {"meas": "all", "device": {"name": "default.qubit", "order": "rev"}}]
    V_more = [{"meas": "part"}, {"meas": "state", "device": {"name": "default.qubit", "order": "id"}},
              {"meas": "state+probs", "device": {"name": "default.qubit", "order": "rev"}},
              {"meas": "state", "device": {"name": "default.mixed", "order": "id"}},
              {"meas": "all", "lab": STR_LABELS[:3]}, {"meas": "part", "lab": ["q", 7, "a"], "cmap_form": "dict"}]
    plans.append((3, g3, alphabet(3), 3 if q else 4, V_all))
    plans.append((3, g3, alphabet(3), 2 if q else 3, V_more))
    plans.append((4, g4, alphabet(4), 2, V_all[:1] if q else V_all))
    if not q:
        plans.append((4, g4, alphabet(4, reduced=True), 3, V_all[:1] + [{"meas": "part"}]))
    V4 = [{"meas": "part"}, {"meas": "state", "device": {"name": "default.qubit", "order": "rev"}}]
    plans.append((4, g4, alphabet(4, reduced=True), 1 if q else 2, V4 + (V_all[1:] if q else [])))
    a5 = [["RX", [0], [G]]] + [["CNOT", [a, b]] for a in range(5) for b in range(5) if a != b] + [["SWAP", [0, 4]]]
    plans.append((5, list(SHAPES5.values()), a5, 2, [{"meas": "all"}, {"meas": "part"},
                                                       {"meas": "state", "device": {"name": "default.qubit", "order": "rev"}}]))
    total_graphs = 0
    for k, graphs, alpha, maxlen, variants in plans:
        specs = []
        for g in graphs:
            for w in words(alpha, maxlen, 0):
                for v in variants:
                    s = {"k": k, "graph": g, "word": w}
                    s.update(v)
                    if "lab" in s:
                        s["lab"] = s["lab"][:k]
                    specs.append(s)
        ctx.enumerate(specs, fn="check", axis=f"{k}-nodes/len<={maxlen}/{len(variants)}-variants")
    ctx.enumerate([{"reject": r} for r in ("hamiltonian", "prod", "missing-wire", "missing-measured-wire", "three-qubit-gate")],
                  fn="check_reject", axis="documented-rejections", parallel=False)
    ctx.coverage["alphabet"] = {"gates(k)": "RX(0.3)(i); CNOT(i,j) all ordered pairs; CZ(i,j), SWAP(i,j) i<j",
                                "3-node letters": [XP.name_of(l) for l in alphabet(3)],
                                "graphs": {"3 nodes": len(g3), "4 nodes": len(g4), "5 nodes": sorted(SHAPES5)},
                                "measurements": ["all: expval(Z(w)) for every w + probs(all)", "part: expval(Z(first)), probs([last, first])",
                                                 "state / probs() with device", "default.mixed state"],
                                "labels": ["0..k-1", STR_LABELS, ["q", 7, "a"]]}
    ctx.coverage["bound"] = {"plans": [{"nodes": k, "graphs": len(gs), "letters": len(a), "max_len": m, "variants": len(v)}
                                       for k, gs, a, m, v in plans]}
