"""C22 — Dynamic wire allocation never aliases live wires (DESIGN §5.4).

Part A (TLC + conformance): models/WireManager.tla is model-checked by TLC for several register configurations
(invariants NoAlias, ZeroClean, Provenance); the complete state graph is dumped and EVERY edge is replayed on
the real `_WireManager` (source state installed, real method called, target state compared), plus every BFS
spanning-tree path from a freshly constructed manager.  A ghost "dirty" set carried by the harness decides
"a wire requested in the zero state is clean when handed out" on the implementation side.

Part B (E2 over histories, physical oracle): every history of allocate/deallocate/gate events up to a depth is
turned into a tape, pushed through qp.transforms.resolve_dynamic_wires for every register configuration, and the
resolved tape is simulated with the reference branch simulator (any-state registers initialised dirty):
no aliasing of live dynamic wires, provenance of concrete wires, zero-requested wires hold |0> at first use,
results equal the fresh-wire reference, AllocationError exactly when the reference model cannot serve.
"""
import itertools

from mc.engine import ok, bad, skip, HarnessError

PROPERTY = "C22"
LEVEL = "model_checking"
TECHNIQUE = "TLC model of the allocator register protocol with edge-by-edge conformance replay on _WireManager + exhaustive allocate/deallocate/gate histories through resolve_dynamic_wires against a branch-simulating reference"
LEVEL_TEXT = ("TLC explores all states of the register/loan protocol for <=2+2 register wires and <=2 minted wires under 3 invariants; every edge "
              "and every spanning-tree path is replayed on the real _WireManager. All histories up to depth 4 (thorough 5) over "
              "alloc(state,restored)/dealloc/gates x 12-36 register configurations are resolved and simulated physically.")
LEVEL_NOTE = ("Trusted: TLC, the TLA+ model (bound to the code by the edge replay), the numpy branch simulator. Histories deeper than the bound, "
              ">3 live wires, magic-state allocation and Catalyst paths are not explored.")
DESIGN_REF = "5.4 C22"
RULE = ("A: every TLC edge + spanning path; B: all event words up to the depth bound per configuration; non-trivial = >=2 allocations or a "
        "reused wire")
START = "fork"

NONE = 999
LAB = {100: "a", 101: "b", 200: "c", 201: "d"}


def _lab(w):
    return LAB.get(w, w)


# ------------------------------------------------------------------------------------------- Part A
TLC_CONFIGS_QUICK = [
    {"Z0": [100], "A0": [200], "MinInt": 1, "AllowResets": True, "MaxMint": 2},
    {"Z0": [100], "A0": [200, 201], "MinInt": NONE, "AllowResets": False, "MaxMint": 2},
    {"Z0": [], "A0": [], "MinInt": 1, "AllowResets": True, "MaxMint": 2},
    {"Z0": [100, 101], "A0": [200], "MinInt": NONE, "AllowResets": True, "MaxMint": 2},
]
TLC_CONFIGS_THOROUGH = TLC_CONFIGS_QUICK + [
    {"Z0": [100, 101], "A0": [200, 201], "MinInt": NONE, "AllowResets": True, "MaxMint": 2},
    {"Z0": [100, 101], "A0": [200, 201], "MinInt": 1, "AllowResets": False, "MaxMint": 2},
    {"Z0": [100], "A0": [200], "MinInt": 1, "AllowResets": False, "MaxMint": 2},
    {"Z0": [], "A0": [200, 201], "MinInt": NONE, "AllowResets": True, "MaxMint": 2},
    {"Z0": [], "A0": [200, 201], "MinInt": 1, "AllowResets": True, "MaxMint": 2},
]


def _install(cfg, st):
    """Real _WireManager put into model state `st`."""
    from pennylane.transforms.resolve_dynamic_wires import _WireManager
    from pennylane.allocation import AllocateState

    m = _WireManager(zeroed=[_lab(w) for w in st["zeroed"]], any_state=[_lab(w) for w in st["anyst"]],
                     min_int=None if st["next"] == NONE else st["next"], allow_resets=cfg["AllowResets"])
    for w in st["loanZero"]:
        m._loaned[_lab(w)] = AllocateState.ZERO
    for w in st["loanAny"]:
        m._loaned[_lab(w)] = AllocateState.ANY
    return m


def _impl_state(m):
    from pennylane.allocation import AllocateState

    return {"zeroed": list(m._registers[AllocateState.ZERO]), "anyst": list(m._registers[AllocateState.ANY]),
            "loanZero": sorted((w for w, r in m._loaned.items() if r == AllocateState.ZERO), key=repr),
            "loanAny": sorted((w for w, r in m._loaned.items() if r == AllocateState.ANY), key=repr),
            "next": m.min_int}


def _model_state(st):
    return {"zeroed": [_lab(w) for w in st["zeroed"]], "anyst": [_lab(w) for w in st["anyst"]],
            "loanZero": sorted((_lab(w) for w in st["loanZero"]), key=repr), "loanAny": sorted((_lab(w) for w in st["loanAny"]), key=repr),
            "next": None if st["next"] == NONE else st["next"]}


def _apply_edge(m, last, dirty):
    """Perform the action described by the target state's `last` on real manager `m`.
    Returns (observation, new_dirty, violation-or-None). dirty = ghost set of labels not known to hold |0>."""
    from pennylane.allocation import AllocateState
    from pennylane.exceptions import AllocationError

    kind, state, restored, w, reset = last
    dirty = set(dirty)
    if kind in ("get", "fail"):
        before = _impl_state(m)
        try:
            wire, ops = m.get_wire(AllocateState.ZERO if state == "zero" else AllocateState.ANY, restored)
        except AllocationError:
            if _impl_state(m) != before:
                return ("raised",), dirty, ("state-changed-by-failed-allocation", _impl_state(m), before)
            return ("raised",), dirty, None
        did_reset = False
        for o in ops:
            if type(o).__name__ in ("MidMeasureMP", "MidMeasure") and o.reset and list(o.wires) == [wire]:
                did_reset = True
            else:
                return ("got", wire, False), dirty, ("unexpected-op-emitted", repr(o), "measure(reset=True) on the loaned wire")
        if did_reset:
            dirty.discard(wire)
        if state == "zero" and wire in dirty:
            return ("got", wire, did_reset), dirty, ("zero-requested-wire-is-dirty", wire, "a wire holding |0>")
        from_clean = wire not in dirty
        if not restored or not from_clean:
            dirty.add(wire)
        return ("got", wire, did_reset), dirty, None
    if kind == "return":
        m.return_wire(_lab(w))
        from pennylane.allocation import AllocateState as A

        if _lab(w) in m._registers[A.ZERO] and _lab(w) in dirty:
            return ("returned",), dirty, ("dirty-wire-returned-to-zeroed-register", _lab(w), "any_state register")
        return ("returned",), dirty, None
    raise AssertionError(last)


def _impl_invariants(m, cfg):
    s = _impl_state(m)
    allw = s["zeroed"] + s["anyst"] + s["loanZero"] + s["loanAny"]
    if len(set(map(repr, allw))) != len(allw):
        return ("alias-in-registers", s, "pairwise distinct wires")
    handed = {_lab(w) for w in cfg["Z0"] + cfg["A0"]}
    for w in allw:
        if w in handed:
            continue
        if cfg["MinInt"] != NONE and isinstance(w, int) and w >= cfg["MinInt"]:
            continue
        return ("provenance", w, "handed register or >= min_int")
    return None


def check_tlc(spec):
    """One TLC configuration: model-check, then replay every edge and every spanning-tree path."""
    from mc import tlc

    cfg = spec["cfg"]
    g = tlc.run("WireManager", cfg, ["NoAlias", "ZeroClean", "Provenance"])
    if g["violated"]:
        raise HarnessError(f"TLA+ model violates its own invariant {g['violated']} (model error): {g['log'][-500:]}")
    states, edges = g["states"], g["edges"]
    mismatches = 0
    validated = 0
    for src, act, dst in edges:
        s, d = states[src], states[dst]
        m = _install(cfg, s)
        dirty = {_lab(w) for w in s["dirty"]}
        obs, dirty2, viol = _apply_edge(m, d["last"], dirty)
        if viol:
            return bad("wiremanager:" + viol[0], viol[1], viol[2], cfg=cfg, source_state=_model_state(s), action=d["last"])
        inv = _impl_invariants(m, cfg)
        if inv:
            return bad("wiremanager:" + inv[0], inv[1], inv[2], cfg=cfg, source_state=_model_state(s), action=d["last"])
        kind = d["last"][0]
        exp_obs = ("raised",) if kind == "fail" else (("got", _lab(d["last"][3]), d["last"][4]) if kind == "get" else ("returned",))
        if kind == "fail" and obs != exp_obs:
            return bad("wiremanager:allocation-served-when-model-cannot", obs, "AllocationError", cfg=cfg, source_state=_model_state(s), action=d["last"])
        if kind == "get" and obs == ("raised",):
            return bad("wiremanager:allocation-error-when-registers-can-serve", "AllocationError", exp_obs, cfg=cfg, source_state=_model_state(s), action=d["last"])
        if obs != exp_obs or _impl_state(m) != _model_state(d):
            mismatches += 1  # implementation differs from the model but satisfies the property's invariants
        else:
            validated += 1
    # spanning-tree paths from a fresh manager
    from collections import deque

    succ = {}
    for src, act, dst in edges:
        succ.setdefault(src, []).append(dst)
    parent = {g["init"][0]: None}
    dq = deque(g["init"])
    while dq:
        u = dq.popleft()
        for v in succ.get(u, []):
            if v not in parent:
                parent[v] = u
                dq.append(v)
    leaves = set(parent) - {p for p in parent.values() if p is not None}
    paths = 0
    for leaf in leaves:
        path = []
        x = leaf
        while parent[x] is not None:
            path.append(x)
            x = parent[x]
        path.reverse()
        from pennylane.transforms.resolve_dynamic_wires import _WireManager

        m = _WireManager(zeroed=[_lab(w) for w in cfg["Z0"]], any_state=[_lab(w) for w in cfg["A0"]],
                         min_int=None if cfg["MinInt"] == NONE else cfg["MinInt"], allow_resets=cfg["AllowResets"])
        dirty = {_lab(w) for w in cfg["A0"]}
        for x in path:
            obs, dirty, viol = _apply_edge(m, states[x]["last"], dirty)
            if viol:
                return bad("wiremanager:" + viol[0], viol[1], viol[2], cfg=cfg, path=[states[y]["last"] for y in path])
            if _impl_state(m) != _model_state(states[x]):
                mismatches += 1
                break
        else:
            paths += 1
    return ok(outcome=[len(states), len(edges), mismatches], nontrivial=True,
              **{"states": len(states), "edges": len(edges), "validated": validated, "paths": paths, "mismatches": mismatches})


# ------------------------------------------------------------------------------------------- Part B
class RefManager:
    """Plain reference of the documented allocation policy (used to predict AllocationError and to label
    which register a wire came from).  Validated against every TLC edge in check_refmodel."""

    def __init__(self, zeroed, any_state, min_int, allow_resets):
        self.z, self.a, self.next, self.resets = list(zeroed), list(any_state), min_int, allow_resets
        self.loan = {}

    def get(self, state, restored):
        """-> (wire, reset_emitted) or None when the request cannot be served."""
        if state == "zero":
            if self.z:
                w, r = self.z.pop(), False
            elif self.resets and self.a:
                w, r = self.a.pop(), True
            elif self.next is not None:
                w, r = self.next, False
                self.next += 1
            else:
                return None
            self.loan[w] = "Z" if restored else "A"
            return w, r
        if self.a:
            w = self.a.pop()
            self.loan[w] = "A"
            return w, False
        if self.z:
            w = self.z.pop()
        elif self.next is not None:
            w = self.next
            self.next += 1
        else:
            return None
        self.loan[w] = "Z" if restored else "A"
        return w, False

    def ret(self, w):
        (self.z if self.loan.pop(w) == "Z" else self.a).append(w)


CONFIGS = []
for _z in ((), ("a",), ("a", "b")):
    for _a in ((), ("c",), ("c", "d")):
        for _mi in (None, 1):
            for _r in (True, False):
                CONFIGS.append({"zeroed": list(_z), "any_state": list(_a), "min_int": _mi, "allow_resets": _r})
QUICK_CONFIGS = [c for c in CONFIGS if (len(c["zeroed"]), len(c["any_state"])) in ((1, 1), (0, 2), (2, 0), (0, 0), (1, 2))]


def histories(depth, max_live):
    """All event words: alloc(state,restored) / dealloc(k) / gate on live dyn k / static H."""
    out = []

    def rec(hist, live, nalloc):
        out.append(hist)
        if len(hist) >= depth:
            return
        if len(live) < max_live:
            for st in ("zero", "any"):
                for rs in (True, False):
                    rec(hist + [["alloc", st, rs]], live + [nalloc], nalloc + 1)
        for k in live:
            rec(hist + [["dealloc", k]], [x for x in live if x != k], nalloc)
            rec(hist + [["x", k]], live, nalloc)
            rec(hist + [["cx", k]], live, nalloc)
            rec(hist + [["cxr", k]], live, nalloc)
        if not hist or hist[-1] != ["hs"]:
            rec(hist + [["hs"]], live, nalloc)

    rec([], [], 0)
    return out


def _build_tape(hist):
    import pennylane as qp
    from pennylane.allocation import Allocate, Deallocate, DynamicWire, AllocateState

    ops, dyn, info = [], {}, {}
    n = 0
    for ev in hist:
        if ev[0] == "alloc":
            w = DynamicWire()
            dyn[n] = w
            info[n] = {"state": ev[1], "restored": ev[2], "gates": [], "alive": True}
            ops.append(Allocate(w, state=AllocateState(ev[1]), restored=ev[2]))
            n += 1
        elif ev[0] == "dealloc":
            ops.append(Deallocate(dyn[ev[1]]))
            info[ev[1]]["alive"] = False
        elif ev[0] == "x":
            ops.append(qp.X(dyn[ev[1]]))
            info[ev[1]]["gates"].append("x")
        elif ev[0] == "cx":
            ops.append(qp.CNOT([0, dyn[ev[1]]]))
            info[ev[1]]["gates"].append("cx")
        elif ev[0] == "cxr":
            ops.append(qp.CNOT([dyn[ev[1]], 0]))
            info[ev[1]]["gates"].append("cxr")
        elif ev[0] == "hs":
            ops.append(qp.H(0))
    return qp.tape.QuantumScript(ops, [qp.probs(wires=[0])]), dyn, info


def _honest(info):
    """A restored=True promise is treated as kept iff the only gates on that wire are an even number of X
    (conservative: any CNOT touching the wire makes the history 'not known honest', and the physical clauses
    (zero at first use, equivalence) are then skipped; aliasing/provenance clauses always apply)."""
    for d in info.values():
        if d["restored"]:
            g = d["gates"]
            if "cxr" in g or "cx" in g or g.count("x") % 2:
                return False
    return True


def check_hist(spec):
    import numpy as np
    import pennylane as qp
    from pennylane.exceptions import AllocationError
    from mc import refsim as R

    hist, cfg = spec["hist"], spec["cfg"]
    tape, dyn, info = _build_tape(hist)
    # reference model: which requests can be served
    ref = RefManager(cfg["zeroed"], cfg["any_state"], cfg["min_int"], cfg["allow_resets"])
    ref_map, can_serve = {}, True
    n = 0
    for ev in hist:
        if ev[0] == "alloc":
            r = ref.get(ev[1], ev[2])
            if r is None:
                can_serve = False
                break
            ref_map[n] = r[0]
            n += 1
        elif ev[0] == "dealloc":
            ref.ret(ref_map[ev[1]])
    try:
        (new,), _ = qp.transforms.resolve_dynamic_wires(tape, zeroed=cfg["zeroed"], any_state=cfg["any_state"],
                                                        min_int=cfg["min_int"], allow_resets=cfg["allow_resets"])
    except AllocationError:
        if can_serve:
            return bad("resolve:allocation-error-when-registers-can-serve", "AllocationError", "resolved tape")
        return skip("AllocationError (registers cannot serve, as the reference predicts)")
    if not can_serve:
        return bad("resolve:served-when-registers-cannot", [repr(o) for o in new.operations], "AllocationError")
    # walk original and resolved operations in parallel to recover the concrete wire of each dynamic wire
    handed = set(cfg["zeroed"]) | set(cfg["any_state"])
    concrete, live = {}, set()
    res_ops = list(new.operations)
    pos = 0
    first_use_pos = {}
    inv = {id(w): k for k, w in dyn.items()}
    for op in tape.operations:
        if op.name == "Allocate":
            while pos < len(res_ops) and type(res_ops[pos]).__name__ in ("MidMeasureMP", "MidMeasure"):
                pos += 1
            live.add(inv[id(op.wires[0])])
            continue
        if op.name == "Deallocate":
            live.discard(inv[id(op.wires[0])])
            continue
        while pos < len(res_ops) and type(res_ops[pos]).__name__ in ("MidMeasureMP", "MidMeasure"):
            pos += 1
        if pos >= len(res_ops) or res_ops[pos].name != op.name:
            return bad("resolve:operation-list-mismatch", [repr(o) for o in res_ops], [repr(o) for o in tape.operations])
        rop = res_ops[pos]
        for ow, rw in zip(op.wires, rop.wires):
            if id(ow) in inv:
                k = inv[id(ow)]
                if k in concrete and concrete[k] != rw:
                    return bad("resolve:dynamic-wire-changed-concrete-wire", {k: [concrete[k], rw]}, "one concrete wire per allocation")
                if k not in concrete:
                    concrete[k] = rw
                    first_use_pos[k] = pos
            elif ow != rw:
                return bad("resolve:static-wire-remapped", [ow, rw], "unchanged")
        # aliasing among live dynamic wires and against the static wire
        seen = {}
        for k in live:
            if k in concrete:
                cw = concrete[k]
                if cw == 0 and 0 not in handed:
                    return bad("resolve:dynamic-wire-on-static-wire", {k: cw}, "wire not used by the static circuit")
                if cw in seen.values():
                    return bad("resolve:alias-live-dynamic-wires", {**seen, k: cw}, "distinct concrete wires")
                seen[k] = cw
        pos += 1
    for k, cw in concrete.items():
        if cw in handed:
            continue
        if cfg["min_int"] is not None and isinstance(cw, int) and cw >= cfg["min_int"]:
            continue
        return bad("resolve:provenance", {k: cw}, "handed register or >= min_int")
    if any(w is None or type(w).__name__ == "DynamicWire" for w in new.wires):
        return bad("resolve:dynamic-wire-left-in-output", [repr(w) for w in new.wires], "only concrete wires")
    reused = len(set(concrete.values())) < len(concrete)
    honest = _honest(info) is True
    outcome = [len(concrete), reused, sum(1 for o in res_ops if type(o).__name__ in ("MidMeasureMP", "MidMeasure")), honest]
    if not honest:
        return ok(outcome=outcome, nontrivial=len(info) >= 2 or reused)
    # physical clauses on honest histories: simulate with dirty any-state registers
    order = [0] + sorted({w for w in new.wires if w != 0} | handed, key=repr)
    n = len(order)
    idx = {w: i for i, w in enumerate(order)}
    all_zero_alloc = all(d["state"] == "zero" for d in info.values())
    ref_probs = None
    if all_zero_alloc:
        fresh_ops, fmap = [], {}
        for op in tape.operations:
            if op.name == "Allocate":
                fmap[op.wires[0]] = f"fresh{len(fmap)}"
            elif op.name != "Deallocate":
                fresh_ops.append(op.map_wires(fmap) if fmap else op)
        forder = [0] + list(fmap.values())
        st = R.run_state(fresh_ops, forder)
        ref_probs = R.probs_of(st, [0])
    for dirt in ("one", "plus"):
        init = np.zeros((2,) * n, dtype=complex)
        init[(0,) * n] = 1
        for w in cfg["any_state"]:
            M = R.RG.X if dirt == "one" else R.RG.H
            init = R.apply_matrix(init, M, [idx[w]], n)
        # zero-requested wires hold |0> at first use: simulate the prefix up to first use in every branch
        for k, cw in concrete.items():
            if info[k]["state"] != "zero":
                continue
            branches = R.run_branches(res_ops[:first_use_pos[k]], order, init=init)
            for hist_b, stt in branches:
                rho = R.reduced_dm(stt, [idx[cw]])
                tot = float(np.real(np.trace(rho)))
                if tot > 1e-12 and abs(rho[0, 0].real / tot - 1) > 1e-9:
                    return bad("resolve:zero-requested-wire-not-in-zero-state", {"wire": cw, "p0": rho[0, 0].real / tot, "dirt": dirt}, "p0 = 1")
        if ref_probs is not None:
            branches = R.run_branches(res_ops, order, init=init)
            p = np.zeros(2)
            for hist_b, stt in branches:
                p = p + R.probs_of(stt, [0])
            if not np.allclose(p, ref_probs, atol=1e-9):
                return bad("resolve:results-differ-from-fresh-wire-reference", p, ref_probs, dirt=dirt)
        if not cfg["any_state"]:
            break
    return ok(outcome=outcome + [None if ref_probs is None else round(float(ref_probs[0]), 6)], nontrivial=len(info) >= 2 or reused)


def check_device(spec):
    """device_resolve_dynamic_wires path: wires=None (min_int chosen from the tape) and explicit device wires."""
    import pennylane as qp
    from pennylane.devices.preprocess import device_resolve_dynamic_wires
    from pennylane.exceptions import AllocationError

    hist, wires = spec["hist"], spec["wires"]
    tape, dyn, info = _build_tape(hist)
    try:
        (new,), _ = device_resolve_dynamic_wires(tape, wires=None if wires is None else qp.wires.Wires(wires))
    except AllocationError:
        return skip("AllocationError")
    static = {0}
    dynamic_concrete = set()
    inv = {id(w): k for k, w in dyn.items()}
    res = [o for o in new.operations if type(o).__name__ not in ("MidMeasureMP", "MidMeasure")]
    orig = [o for o in tape.operations if o.name not in ("Allocate", "Deallocate")]
    if len(res) != len(orig):
        return bad("device:operation-list-mismatch", len(res), len(orig))
    for o, r in zip(orig, res):
        for ow, rw in zip(o.wires, r.wires):
            if id(ow) in inv:
                dynamic_concrete.add(rw)
    if dynamic_concrete & static:
        return bad("device:dynamic-wire-on-static-wire", sorted(dynamic_concrete, key=repr), "disjoint from tape wires")
    if wires is not None and not dynamic_concrete <= set(wires):
        return bad("device:wire-outside-device", sorted(dynamic_concrete, key=repr), wires)
    return ok(outcome=[len(dynamic_concrete)], nontrivial=len(info) >= 1)


def run(ctx):
    cfgs = TLC_CONFIGS_QUICK if ctx.quick else TLC_CONFIGS_THOROUGH
    # Part A: one TLC run per configuration (in parallel); aggregate states/transitions
    import multiprocessing as mp

    specs = [{"cfg": c} for c in cfgs]
    pool = ctx.pool()
    from mc.engine import _call

    tot = {"states": 0, "edges": 0, "validated": 0, "paths": 0, "mismatches": 0}
    for spec, r in zip(specs, pool.imap(_tlc_job, specs)):
        ctx.record(spec, r)
        for k in tot:
            tot[k] += (r.get("x") or {}).get(k, 0)
    # Part B
    depth = 4 if ctx.quick else 5
    max_live = 2 if ctx.quick else 3
    H = histories(depth, max_live)
    H = [h for h in H if any(e[0] == "alloc" for e in h)]
    confs = QUICK_CONFIGS if ctx.quick else CONFIGS
    ctx.enumerate([{"hist": h, "cfg": c} for c in confs for h in H], fn="check_hist", axis="histories")
    Hd = [h for h in H if len(h) <= depth - 1]
    ctx.enumerate([{"hist": h, "wires": w} for w in (None, [0, "a", "b"], [0, "a"]) for h in Hd], fn="check_device", axis="device")
    ctx.coverage.update({
        "states": tot["states"], "transitions": tot["edges"], "traces_validated_against_impl": tot["validated"] + tot["paths"],
        "tlc_edges_replayed": tot["validated"], "spanning_paths_replayed": tot["paths"], "model_mismatches": tot["mismatches"],
        "tlc_configs": cfgs, "bound": {"history_depth": depth, "max_live": max_live, "register_configs": len(confs), "histories": len(H)},
        "alphabet": {"events": ["alloc(zero|any, restored T|F)", "dealloc(k)", "X(dyn k)", "CNOT(0,dyn k)", "CNOT(dyn k,0)", "H(0)"],
                     "registers": "zeroed in {(),(a),(a,b)} x any_state in {(),(c),(c,d)} x min_int in {None,1} x allow_resets"},
    })
    if tot["mismatches"]:
        ctx.note(f"{tot['mismatches']} model/implementation differences that keep the property's invariants (not violations)")


def _tlc_job(spec):
    from mc.engine import _call

    return _call("checks.C22", "check_tlc", spec)
