"""C06 — Copies, pickles, pytrees, capture binding and rebinding reproduce operators (DESIGN §5.1 C06).

E1: object space of mc/x_objs.py (catalogue instances of every operator name, nested arithmetic expressions, measurement
processes) x round trips {copy, deepcopy, pickle protocol 2 / 5, PennyLane pytree flatten/unflatten, JAX tree flatten/unflatten,
capture-primitive binding -> plxpr -> tape} + deepcopy isolation (every mutable container reachable from the copy is mutated,
the original must not change) + bind_new_parameters with {same, +0.25, all-pi} parameters.
Oracle: qp.equal(original, result) AND an independent structural comparison (type, wires, data leaves, matrix).
"""
import copy
import pickle

import numpy as np

from mc import x_catalog as cat
from mc import x_objs as O
from mc.engine import bad, ok, skip

PROPERTY = "C06"
LEVEL = "exploration"
TECHNIQUE = "bounded exhaustive enumeration of operator / measurement instances x round-trip kinds; equality + independent structural comparison"
LEVEL_TEXT = ("Every catalogue instance of the 'few' tier (all ~345 operator names incl. templates, channels, observables and Adjoint/Pow/"
              "Controlled wrappers; quick: first 2 variants per name), ~700 (thorough ~2.4k) nested arithmetic expressions and 70 measurement "
              "processes go through copy, deepcopy, pickle (protocols 2 and 5), qp.pytrees flatten/unflatten, jax.tree_util flatten/unflatten, "
              "capture binding (pytree unflatten under qp.capture.enable() -> jaxpr -> plxpr_to_tape), a deepcopy-isolation test and "
              "bind_new_parameters with unchanged, shifted and all-pi parameters; each result must be qp.equal to the original, of the same "
              "type, with identical wires, data leaves and matrix; rebinding must install exactly the new parameters and nothing else.")
LEVEL_NOTE = ("Capture binding is exercised through the class's own _unflatten/_primitive_bind_call with concrete (closed-over) leaves, not with "
              "traced parameters. Objects holding Python callables cannot be pickled by Python itself and are counted as rejected. Deepcopy "
              "isolation mutates numpy arrays, lists and dicts reachable through instance dictionaries of the copy (depth <= 5). Matrices are "
              "compared on <= 6 wires. Interfaces other than numpy (inputs) are not explored.")
DESIGN_REF = "5.1 C06"
START = "fork"
PARALLEL = True
RULE = ("objects x {copy, deepcopy, pickle2, pickle5, pytree, jaxtree, capture, isolate, bind-same, bind-shift, bind-pi}; "
        "non-trivial = the round trip produced an object and at least the data/wires comparison was decided")
ASSUMPTIONS = ["jax.make_jaxpr / plxpr_to_tape evaluate closed-over constants faithfully", "Python pickle / copy protocol"]

MAXW = 6
RTS = ["copy", "deepcopy", "pickle2", "pickle5", "pytree", "jaxtree", "capture", "isolate", "bind-same", "bind-shift", "bind-pi"]


# ---------------------------------------------------------------------------------------------------- comparison
def _is_mp(x):
    from pennylane.measurements import MeasurementProcess

    return isinstance(x, MeasurementProcess)


def _matrix(op):
    import pennylane as qp

    if _is_mp(op):
        op = op.obs
        if op is None:
            return None
    try:
        if len(op.wires) > MAXW:
            return None
        if len(op.wires) == 0:
            return np.asarray(qp.matrix(op), dtype=complex)
        return np.asarray(qp.matrix(op, wire_order=list(op.wires)), dtype=complex)
    except Exception:  # noqa: BLE001 - no matrix
        return None


def _leaves(obj):
    """Numeric data leaves of an operator / measurement (op.data; obs data or eigvals for measurements)."""
    if _is_mp(obj):
        if obj.obs is not None:
            return _leaves(obj.obs)
        return []
    return [np.asarray(d.toarray() if hasattr(d, "toarray") else d) for d in obj.data]


def _leaf_eq(x, y, exact=True):
    x, y = np.asarray(x), np.asarray(y)
    if x.shape != y.shape:
        return False
    if x.dtype.kind in "biu" and y.dtype.kind in "biu":
        return bool(np.all(x == y))
    return bool(np.allclose(np.asarray(x, dtype=complex), np.asarray(y, dtype=complex), rtol=0, atol=0 if exact else 1e-12))


def compare(a, b, lab, how, jaxy=False):
    """None if b reproduces a, else a violation."""
    import pennylane as qp

    if type(a) is not type(b):
        return bad(f"{how}:type-changed:{lab}", type(b).__name__, type(a).__name__)
    try:
        eq = qp.equal(a, b, check_interface=not jaxy, check_trainability=not jaxy)
    except Exception as e:  # noqa: BLE001
        return bad(f"{how}:equal-raises:{lab}", f"{type(e).__name__}: {e}"[:300], "qp.equal(original, result) is True")
    if eq is not True:
        return bad(f"{how}:not-equal:{lab}", repr(b)[:300], repr(a)[:300])
    if list(a.wires) != list(b.wires):
        return bad(f"{how}:wires-differ:{lab}", list(b.wires), list(a.wires))
    la, lb = _leaves(a), _leaves(b)
    if len(la) != len(lb) or not all(_leaf_eq(x, y, exact=not jaxy) for x, y in zip(la, lb)):
        return bad(f"{how}:data-differ:{lab}", [np.asarray(x).tolist() for x in lb][:4], [np.asarray(x).tolist() for x in la][:4])
    Ma = _matrix(a)
    if Ma is not None:
        Mb = _matrix(b)
        if Mb is None or Mb.shape != Ma.shape or float(np.max(np.abs(Ma - Mb))) > 1e-10 * max(1.0, float(np.max(np.abs(Ma)))):
            return bad(f"{how}:matrix-differs:{lab}", Mb, Ma)
    return None


# ---------------------------------------------------------------------------------------------------- round trips
def _rt_pickle(a, proto):
    return pickle.loads(pickle.dumps(a, protocol=proto))


def _rt_pytree(a):
    import pennylane as qp

    leaves, struct = qp.pytrees.flatten(a)
    return qp.pytrees.unflatten(leaves, struct)


def _rt_jaxtree(a):
    import jax

    leaves, struct = jax.tree_util.tree_flatten(a)
    return jax.tree_util.tree_unflatten(struct, leaves)


def _rt_capture(a):
    """Bind the object's capture primitive (through its own unflatten) with program capture enabled, then read it back."""
    import jax
    import pennylane as qp
    from pennylane.tape.plxpr_conversion import plxpr_to_tape

    leaves, struct = qp.pytrees.flatten(a)
    was = qp.capture.enabled()
    qp.capture.enable()
    try:
        def f():
            obj = qp.pytrees.unflatten(leaves, struct)
            # Operator2 instances rebuilt by unflatten are plain Python wrappers: bind their primitive explicitly
            if hasattr(obj, "_bind_primitive") and getattr(obj, "tracer", None) is None:
                obj._bind_primitive()

        jaxpr = jax.make_jaxpr(f)()
        tape = plxpr_to_tape(jaxpr.jaxpr, jaxpr.consts)
    finally:
        if not was:
            qp.capture.disable()
    objs = list(tape.measurements) if _is_mp(a) else list(tape.operations)
    return objs


def _mutate_reachable(obj, seen, depth=0):
    """In-place mutation of every mutable container reachable from obj through instance dictionaries; returns #mutations."""
    import pennylane as qp
    from pennylane.measurements import MeasurementProcess
    from pennylane.operation import Operator

    n = 0
    if id(obj) in seen or depth > 5:
        return 0
    seen.add(id(obj))
    if isinstance(obj, np.ndarray):
        if obj.flags.writeable and obj.size and obj.dtype.kind in "fciub":
            if obj.dtype.kind == "b":
                np.logical_not(obj, out=obj)
            else:
                obj += 1
            return 1
        return 0
    if isinstance(obj, list):
        for x in list(obj):
            n += _mutate_reachable(x, seen, depth + 1)
        obj.append("C06-sentinel")
        return n + 1
    if isinstance(obj, dict):
        for x in list(obj.values()):
            n += _mutate_reachable(x, seen, depth + 1)
        try:
            obj["C06-sentinel"] = 1
            n += 1
        except Exception:  # noqa: BLE001 - dict subclasses with restricted keys (PauliSentence ...)
            pass
        return n
    if isinstance(obj, tuple):
        for x in obj:
            n += _mutate_reachable(x, seen, depth + 1)
        return n
    try:
        from pennylane.core.operator import Operator2
    except Exception:  # noqa: BLE001
        Operator2 = ()
    if isinstance(obj, (Operator, MeasurementProcess)) or (Operator2 and isinstance(obj, Operator2)) or type(obj).__name__ in (
            "MeasurementValue", "PauliSentence", "PauliWord"):
        d = getattr(obj, "__dict__", None)
        if d:
            for x in list(d.values()):
                n += _mutate_reachable(x, seen, depth + 1)
    return n


def _data_arrays(obj, depth=0, out=None):
    """ndarray objects held in `_data` of v1 operators reachable from obj (operands, bases, observables, operator hyper-parameters)."""
    out = [] if out is None else out
    if depth > 5 or obj is None:
        return out
    d = getattr(obj, "__dict__", {})
    for x in (d.get("_data") or ()):
        if isinstance(x, np.ndarray) and x.ndim > 0:
            out.append(x)
    subs = []
    for k in ("obs", "base", "_base"):
        if d.get(k) is not None:
            subs.append(d[k])
    subs += list(d.get("operands", ()) or ()) + list(d.get("_operands", ()) or ())
    hp = d.get("_hyperparameters") or {}
    for v in hp.values():
        if hasattr(v, "__dict__") and hasattr(v, "wires"):
            subs.append(v)
        elif isinstance(v, (list, tuple)):
            subs += [x for x in v if hasattr(x, "__dict__") and hasattr(x, "wires")]
    for sub in subs:
        _data_arrays(sub, depth + 1, out)
    return out


def _shared_parameter_arrays(a, b):
    ia = {id(x) for x in _data_arrays(a)}
    return [x for x in _data_arrays(b) if id(x) in ia]


def _snapshot(a):
    try:
        h = hash(a)
    except Exception:  # noqa: BLE001
        h = None
    return {"repr": repr(a), "hash": h, "data": [np.array(x, copy=True) for x in _leaves(a)], "matrix": _matrix(a), "wires": list(a.wires)}


def _snap_diff(s0, s1):
    if s0["repr"] != s1["repr"]:
        return "repr", s1["repr"][:300], s0["repr"][:300]
    if s0["hash"] != s1["hash"]:
        return "hash", s1["hash"], s0["hash"]
    if s0["wires"] != s1["wires"]:
        return "wires", s1["wires"], s0["wires"]
    if len(s0["data"]) != len(s1["data"]) or not all(_leaf_eq(x, y) for x, y in zip(s0["data"], s1["data"])):
        return "data", [x.tolist() for x in s1["data"]][:4], [x.tolist() for x in s0["data"]][:4]
    if (s0["matrix"] is None) != (s1["matrix"] is None) or (s0["matrix"] is not None and not np.array_equal(s0["matrix"], s1["matrix"], equal_nan=True)):
        return "matrix", s1["matrix"], s0["matrix"]
    return None


def _hp_fingerprint(op):
    """Everything except the numeric parameters: type, wires, hyper-parameters (nested operators by type and wires), structure."""
    def fp(x, depth=0):
        from pennylane.operation import Operator

        if isinstance(x, Operator) or hasattr(x, "arithmetic_depth"):
            kids = ([x.base] if hasattr(x, "base") else []) + list(getattr(x, "operands", ()))
            hp = {}
            try:
                hp = {k: fp(v, depth + 1) for k, v in x.hyperparameters.items() if k not in ("base", "operands")} if depth < 4 else {}
            except Exception:  # noqa: BLE001
                hp = {}
            return [type(x).__name__, [str(w) for w in x.wires], [fp(k, depth + 1) for k in kids] if depth < 4 else [], hp]
        if isinstance(x, np.ndarray):
            return ["array", list(x.shape), str(x.dtype.kind), np.round(np.asarray(x, dtype=complex).real, 8).tolist() if x.size <= 64 else "large"]
        if isinstance(x, (list, tuple)):
            return [fp(v, depth + 1) for v in x]
        if isinstance(x, dict):
            return {str(k): fp(v, depth + 1) for k, v in x.items()}
        if isinstance(x, (int, float, complex, str, bool, type(None))):
            return repr(x)
        return type(x).__name__

    return fp(op)


def _only_cob_reversals(f0, f1):
    """'same' / 'reversed' (the two fingerprints differ only by reversed operand lists of ChangeOpBasis nodes) / 'different'."""
    if f0 == f1:
        return "same"
    if not (isinstance(f0, list) and isinstance(f1, list) and len(f0) == 4 and len(f1) == 4 and f0[0] == f1[0] and f0[1] == f1[1] and f0[3] == f1[3]
            and isinstance(f0[2], list) and isinstance(f1[2], list) and len(f0[2]) == len(f1[2])):
        return "different"
    kids1 = list(f1[2])
    rev = False
    if f0[0] == "ChangeOpBasis" and [k[0] for k in f0[2]] != [k[0] for k in kids1]:
        kids1 = list(reversed(kids1))
        rev = True
    res = [_only_cob_reversals(x, y) for x, y in zip(f0[2], kids1)]
    if any(r == "different" for r in res):
        return "different"
    return "reversed" if rev or any(r == "reversed" for r in res) else "same"


def _float_leaf(d):
    return np.asarray(d).dtype.kind in "fc"


def check(spec):
    import pennylane as qp

    o, rt = O.canon(spec["o"]), spec["rt"]
    lab = O.label(o)
    mv_fn = (o.get("mv") or {}).get("fn") if o["k"] == "mp" else None
    if mv_fn and mv_fn not in ("id", "list"):
        lab = "mp(measurement-value-arithmetic)"
    try:
        a = O.build(o)
    except Exception as e:  # noqa: BLE001
        return skip(f"object-not-constructible:{type(e).__name__}")
    fp = [lab, rt]
    if rt in ("copy", "deepcopy", "pickle2", "pickle5", "pytree", "jaxtree"):
        jaxy = rt == "jaxtree"
        try:
            if rt == "copy":
                b = copy.copy(a)
            elif rt == "deepcopy":
                b = copy.deepcopy(a)
            elif rt.startswith("pickle"):
                b = _rt_pickle(a, int(rt[-1]))
            elif rt == "pytree":
                b = _rt_pytree(a)
            else:
                b = _rt_jaxtree(a)
        except (pickle.PicklingError, AttributeError, TypeError) as e:
            if rt.startswith("pickle") and ("pickle" in str(e).lower() or "local object" in str(e).lower()) and _has_callable(o):
                return skip("python-cannot-pickle-callable-hyperparameter")
            return bad(f"{rt}:raises:{type(e).__name__}:{lab}", f"{type(e).__name__}: {e}"[:300], "a reproduced object")
        except Exception as e:  # noqa: BLE001
            return bad(f"{rt}:raises:{type(e).__name__}:{lab}", f"{type(e).__name__}: {e}"[:300], "a reproduced object")
        if b is a and rt != "copy":
            fp.append("same-object")
        v = compare(a, b, lab, rt, jaxy=jaxy)
        return v or ok(outcome=fp + [type(b).__name__], nontrivial=True)
    if rt == "capture":
        if mv_fn or _has_mv(o) or (o["k"] == "cat" and o["g"]["op"] in ("MidMeasure", "PauliMeasure")):
            return skip("capture-not-applicable:measurement-value(objects of qp.measure are tracers under capture)")
        if any(not isinstance(w, int) for w in _spec_wires(o)):
            return skip("capture-not-applicable:non-integer-wire-labels")
        try:
            objs = _rt_capture(a)
        except NotImplementedError as e:
            if "program capture" in str(e):
                return skip("capture-not-implemented-for-this-measurement(documented NotImplementedError)")
            return bad(f"capture:raises:NotImplementedError:{lab}", f"{e}"[:300], "one bound object")
        except Exception as e:  # noqa: BLE001
            if (isinstance(e, TypeError) and "is not a valid JAX type" in str(e) and type(a).__name__ in ("Controlled", "ControlledOp")
                    and hasattr(getattr(a, "base", None), "_bind_primitive")):
                # one class: the v1 Controlled wrapper (class constructor) around an Operator2 base hands the base object to its primitive
                return bad("capture:raises:TypeError:v1-Controlled-over-Operator2-base", f"{type(e).__name__}: {e}"[:300], "one bound object", op=lab)
            return bad(f"capture:raises:{type(e).__name__}:{lab}", f"{type(e).__name__}: {e}"[:300], "one bound object")
        if len(objs) != 1:
            return bad(f"capture:count:{lab}", [repr(x)[:80] for x in objs][:6], "exactly one object equal to the original")
        b = objs[0]
        inner = getattr(getattr(a, "base", None), "base", None)
        if type(a).__name__.startswith("Adjoint") and type(getattr(a, "base", None)).__name__.startswith("Adjoint") and type(b) is type(inner):
            return bad("capture:type-changed:adjoint-of-adjoint-collapsed", repr(b)[:200], repr(a)[:200])
        if type(a).__name__.startswith("Adjoint") and type(getattr(a, "base", None)).__name__.startswith("Controlled") and type(b) is type(a.base):
            return bad("capture:type-changed:adjoint-of-controlled-becomes-controlled-adjoint", repr(b)[:200], repr(a)[:200])
        ww = getattr(a, "work_wires", None)
        if ww is not None and len(ww) and type(b) is type(a) and len(getattr(b, "work_wires", None) or ()) == 0 and list(a.wires)[:len(b.wires)] == list(b.wires):
            return bad("capture:controlled-work-wires-dropped", repr(b)[:200], repr(a)[:200], op=lab)
        v = compare(a, b, lab, "capture", jaxy=True)
        return v or ok(outcome=fp + [type(b).__name__], nontrivial=True)
    if rt == "isolate":
        s0 = _snapshot(a)
        try:
            b = copy.deepcopy(a)
        except Exception as e:  # noqa: BLE001
            return bad(f"deepcopy:raises:{type(e).__name__}:{lab}", f"{type(e).__name__}: {e}"[:300], "a copy")
        if b is a:
            return ok(outcome=fp + ["deepcopy-returns-self(immutable)"], nontrivial=False)
        shared = _shared_parameter_arrays(a, b)
        n = _mutate_reachable(b, {id(x) for x in shared})  # phase 1: everything except parameter arrays the copy shares
        d = _snap_diff(s0, _snapshot(a))
        if d:
            return bad(f"isolate:original-changed:{d[0]}:{lab}", d[1], d[2], mutations=n)
        if shared:
            # one defect class: Operator.__deepcopy__ (v1 operators) shallow-copies `_data`, so array-valued parameters are shared
            return bad("isolate:deepcopy-shares-parameter-arrays(v1-Operator._data)", f"{len(shared)} parameter array(s) of the deep copy are "
                       "the same ndarray objects as the original's", "no shared mutable state", op=lab)
        return ok(outcome=fp + [min(n, 9)], nontrivial=n > 0)
    # ---- bind_new_parameters
    if _is_mp(a):
        return skip("rebinding-not-applicable:measurement")
    if any(hasattr(d, "toarray") for d in a.data):
        return skip("rebinding-not-applicable:sparse-matrix-parameter")
    data0 = [np.array(d, copy=True) for d in a.data]
    if not data0:
        return skip("rebinding-not-applicable:no-parameters")
    if rt == "bind-same":
        new = [np.array(d, copy=True) if np.ndim(d) else (float(np.real(d)) if np.asarray(d).dtype.kind == "f" else np.asarray(d)[()]) for d in data0]
    elif rt == "bind-shift":
        if not all(_float_leaf(d) for d in data0):
            return skip("rebinding-shift-not-applicable:non-float-parameters")
        new = [d + 0.25 for d in data0]
    else:
        if not all(np.asarray(d).dtype.kind == "f" for d in data0):
            return skip("rebinding-pi-not-applicable:non-real-parameters")
        new = [np.full(np.shape(d), np.pi) if np.ndim(d) else float(np.pi) for d in data0]
    f0 = _hp_fingerprint(a)
    try:
        b = qp.ops.functions.bind_new_parameters(a, new)
    except Exception as e:  # noqa: BLE001
        if rt == "bind-same":
            return bad(f"bind-same:raises:{type(e).__name__}:{lab}", f"{type(e).__name__}: {e}"[:300], "an operator with the same parameters")
        return skip(f"rebinding-rejected-new-values:{type(e).__name__}")
    if type(b) is not type(a):
        return bad(f"{rt}:type-changed:{lab}", type(b).__name__, type(a).__name__)
    lb = [np.asarray(d) for d in b.data]
    if rt != "bind-same" and o["k"] == "cat" and any(k in o["g"].get("kw", {}) for k in ("normalize", "pad_with")):
        return skip("rebinding:constructor-normalises-or-pads-its-parameter(documented)")
    def _flat(xs):
        return sorted(float(np.real(v)) for x in xs for v in np.ravel(np.asarray(x, dtype=complex)))

    if (len(lb) != len(new) or not all(_leaf_eq(x, y) for x, y in zip(lb, new))) and "ChangeOpBasis" in repr(f0) and _flat(lb) == _flat(new):
        return bad("bind_new_parameters:ChangeOpBasis-operands-reversed", [np.asarray(x).tolist() for x in lb][:4], [np.asarray(x).tolist() for x in new][:4], rt=rt)
    if len(lb) != len(new) or not all(_leaf_eq(x, y) for x, y in zip(lb, new)):
        return bad(f"{rt}:parameters-not-the-new-ones:{lab}", [np.asarray(x).tolist() for x in lb][:4], [np.asarray(x).tolist() for x in new][:4])
    if list(b.wires) != list(a.wires):
        return bad(f"{rt}:wires-changed:{lab}", list(b.wires), list(a.wires))
    f1 = _hp_fingerprint(b)
    if f1 != f0:
        if _only_cob_reversals(f0, f1) == "reversed":
            # one defect class: the CompositeOp dispatch rebuilds op.__class__(*operands); ChangeOpBasis stores (uncompute, target, compute)
            # but its constructor takes (compute, target, uncompute)
            return bad("bind_new_parameters:ChangeOpBasis-operands-reversed", f1[2], f0[2], rt=rt)
        return bad(f"{rt}:other-attributes-changed:{lab}", f1, f0)
    if not all(_leaf_eq(x, y) for x, y in zip([np.asarray(d) for d in a.data], data0)):
        return bad(f"{rt}:original-mutated:{lab}", [np.asarray(x).tolist() for x in a.data][:4], [x.tolist() for x in data0][:4])
    if rt == "bind-same":
        v = compare(a, b, lab, rt, jaxy=True)
        if v:
            return v
    return ok(outcome=fp + [len(new)], nontrivial=True)


def _has_callable(o):
    import json

    return "$fn" in json.dumps(o) or "$mv" in json.dumps(o)  # the catalogue builds {"$mv": ...} with a local lambda


def _has_mv(o):
    import json

    return "$mv" in json.dumps(o)


def _spec_wires(o):
    if o["k"] == "cat":
        return cat.wires_of(o["g"])
    if o["k"] == "mp":
        return list(o.get("wires") or []) + list(o.get("wires2") or []) + (_spec_wires(o["obs"]) if o.get("obs") else [])
    return []


def _extra_objects():
    """Linear combinations whose operands carry 0, 1, 2 and 3 parameters in every position (the rebinding cursor must
    advance by the operand's own parameter count) — local to this check, not part of the shared catalogue."""
    import itertools

    sk, OP, OPS, P, W = cat.sk, cat.OP, cat.OPS, cat.P, cat.W
    leaf = lambda name, *p, wires: sk(name, name, *[P(i) for i in range(len(p))], p=p, wires=W(wires))
    terms = {
        "p0": lambda w: leaf("PauliZ", wires=[w]),
        "p1": lambda w: leaf("RX", 0.3, wires=[w]),
        "p2": lambda w: sk("Prod", "prod", OP(leaf("RX", 0.4, wires=[w])), OP(leaf("RY", -1.1, wires=[w]))),
        "p3": lambda w: leaf("Rot", 0.2, 0.5, -0.7, wires=[w]),
    }
    out = []
    for combo in itertools.permutations(("p0", "p1", "p2", "p3"), 3):
        ops = [terms[t](i) for i, t in enumerate(combo)]
        out.append({"k": "cat", "g": sk("LinearCombination", "ops.LinearCombination", [0.5, -1.5, 2.5], OPS(ops), v="params:" + "-".join(combo))})
    return out


def run(ctx):
    tier = ctx.tier
    only = ctx.only.split(",") if ctx.only else None
    names_only = [t for t in (only or []) if t not in RTS and t not in ("expr", "mp")] or None
    objs = O.catalogue_objects(tier, names_only) if (not only or names_only) else []
    if tier == "quick":  # first two variants per name
        keep, seen = [], {}
        for o in objs:
            vs = seen.setdefault(o["g"]["op"], [])
            if o["g"].get("v") not in vs:
                vs.append(o["g"].get("v"))
            if vs.index(o["g"].get("v")) < 2:
                keep.append(o)
        objs = keep
    objs += _extra_objects()
    exprs = [] if (only and "expr" not in only) else O.expression_objects(tier)
    if tier == "quick":  # every 3rd / 4th expression plus every expression with >= 2 parametrized leaves (rebinding cursor)
        par = {"RX0", "RZ1", "PS0", "RX0s", "Herm0"}
        d1 = [e for e in exprs if O.X.depth(e["e"]) <= 1]
        d2 = [e for e in exprs if O.X.depth(e["e"]) > 1]
        two = [e for e in d1 if sum(1 for lf in O.X.leaves(e["e"]) if lf in par) >= 2]
        exprs = d1[::3] + [e for e in two if e not in d1[::3]] + d2[::4]
    mps = [] if (only and "mp" not in only) else O.measurements(tier)
    rts = RTS if not (only and any(t in RTS for t in only)) else [t for t in only if t in RTS]
    for rt in rts:
        ctx.enumerate([{"o": o, "rt": rt} for o in objs + exprs + mps], axis=rt)
    ctx.coverage["alphabet"] = {"catalogue_instances": len(objs), "expressions": len(exprs), "measurements": len(mps), "round_trips": rts}
    ctx.coverage["bound"] = {"catalogue_tier": "few", "variants_per_name": 2 if ctx.quick else "all", "matrix_max_wires": MAXW}
    ctx.coverage["uncovered"] = [f"{u['name']}: {u['reason']}" for u in cat.uncovered()]
