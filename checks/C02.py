"""C02 — Named gates implement their documented unitaries (DESIGN §5.1 C02).

E1: every gate of the hand-written reference table mc.refgates (plus GlobalPhase / MultiRZ / PauliRot /
MultiControlledX / ControlledQubitUnitary and qp.ctrl(...) of table gates over all control-value vectors) x ANG^k x BATCH.
Oracle: qp.matrix(op) == reference formula entrywise (first wire most significant), U^dagger U = I, batched matrix ==
stack of the reference matrices AND of the un-batched qp.matrix calls."""
import numpy as np

from mc import refgates as RG
from mc import x_alphabet as A
from mc import x_catalog as cat
from mc.engine import HarnessError, bad, ok, skip

PROPERTY = "C02"
LEVEL = "exploration"
TECHNIQUE = "bounded exhaustive enumeration of named gates x angle alphabet x batch shapes vs. independent closed-form reference table"
LEVEL_TEXT = ("Every gate of the reference table (56 names incl. aliases, plus GlobalPhase/MultiRZ/PauliRot/MultiControlledX/"
              "ControlledQubitUnitary and qp.ctrl of 14 base gates with all control-value vectors for <=2 (thorough 3) controls) is evaluated "
              "at the full product ANG^k (7 angles quick, 15 thorough; k<=3), un-batched, batch 1, batch 3 and with a single batched "
              "parameter, and compared entrywise (1e-9) with formulas written from the documentation.")
LEVEL_NOTE = ("Trusted base: mc/refgates.py (hand-written, self-tested each run for unitarity and textbook identities) and the fixed unitaries of "
              "mc/x_alphabet.UTABLE. Angles outside ANG and interfaces other than numpy are not explored.")
DESIGN_REF = "5.1 C02"
START = "fork"
PARALLEL = True
RULE = ("table gates x catalogue variants x ANG^k rows x wire labelings x batch modes {none, 1, 3, one-parameter-batched}; "
        "ctrl family x all control values; non-trivial = reference matrix differs from the identity")
ASSUMPTIONS = ["mc.refgates formulas are the documented ones (self-test: unitarity + textbook identities)",
               "numpy float64 linear algebra"]

ALIASES = {"CPhase": "ControlledPhaseShift", "SQISW": "SISWAP", "H": "Hadamard", "X": "PauliX", "Y": "PauliY", "Z": "PauliZ"}
EXTRA = ["GlobalPhase", "MultiRZ", "PauliRot", "MultiControlledX"]
CTRL_BASES = ["PauliX", "PauliY", "PauliZ", "Hadamard", "S", "SX", "RX", "RY", "RZ", "PhaseShift", "Rot", "SWAP", "IsingXX", "CNOT", "GlobalPhase"]
TOL = 1e-9


# ---------------------------------------------------------------------------------------------------- reference
def _ref_single(spec, row):
    """Reference matrix of an (un-batched) catalogue spec whose flat parameters are `row`."""
    name = ALIASES.get(spec["f"], spec["op"])
    if name == "ControlledQubitUnitary":
        Umat = np.array(A.UTABLE[spec["a"][0]["$U"]], dtype=complex)
        nt = int(np.log2(Umat.shape[0]))
        k = len(spec["kw"]["wires"]["$w"]) - nt
        return RG.controlled(Umat, k, spec["kw"].get("control_values"))
    nw = len(spec["kw"]["wires"]["$w"]) if "wires" in spec.get("kw", {}) else None
    if name == "Identity":
        return np.eye(2 ** (nw or 0), dtype=complex)
    if name == "GlobalPhase":
        nw = 0  # documented: "wires: unused argument - the operator is applied to all wires"; qp.matrix(op) is the 1x1 phase
    hyper = {}
    if "pauli_word" in spec.get("kw", {}):
        hyper["pauli_word"] = spec["kw"]["pauli_word"]
    if "control_values" in spec.get("kw", {}):
        hyper["control_values"] = spec["kw"]["control_values"]
    return RG.matrix(name, row, n_wires=nw, hyper=hyper)


def _rows_of(spec):
    """(batch size or None, list of flat parameter rows) of a possibly batched spec."""
    ps = cat.params(spec)
    sizes = {len(v) for v in ps if isinstance(v, list)}
    if not sizes:
        return None, [ps]
    (b,) = sizes
    return b, [[(v[i] if isinstance(v, list) else v) for v in ps] for i in range(b)]


def _unbatched(spec, row):
    return cat.with_params(spec, row)


def _fp(M):
    M = np.asarray(M)
    t = np.trace(M, axis1=-2, axis2=-1)
    return [round(float(np.real(np.sum(t))), 6), round(float(np.imag(np.sum(t))), 6), round(float(np.abs(M).sum()), 5)]


def _compare(tag, got, want):
    got = np.asarray(got)
    want = np.asarray(want)
    if got.shape != want.shape:
        return bad(f"shape:{tag}", list(got.shape), list(want.shape))
    err = float(np.max(np.abs(got - want))) if got.size else 0.0
    if not err <= TOL * max(1.0, float(np.max(np.abs(want))) if want.size else 1.0):
        return bad(f"matrix-mismatch:{tag}", got, want, maxdiff=err)
    return None


def check(spec):
    """spec = {"g": catalogue spec (possibly batched), "ctrl": None | {"k":…, "cv":[…]}}"""
    import pennylane as qp

    gs = spec["g"]
    ctrl = spec.get("ctrl")
    name = ALIASES.get(gs["f"], gs["op"])
    b, rows = _rows_of(gs)
    bt = "unbatched" if b is None else ("batch1" if b == 1 else "batched")
    partial = b is not None and any(not isinstance(v, list) for v in cat.params(gs))
    if partial:
        bt += "-partial"

    def wrap(s):
        if not ctrl:
            return s
        nb = len(cat.wires_of(s))
        return cat.sk("ctrl", "ctrl", cat.OP(s), control=cat.W(list(range(100, 100 + ctrl["k"]))), control_values=ctrl["cv"])

    def ref(row):
        R = _ref_single(gs, row)
        if ctrl:
            R = RG.controlled(R, ctrl["k"], ctrl["cv"])
        return R

    vname = name + (f"[{gs['v']}]" if name == "PauliRot" else "")  # Pauli word is part of the failure class
    tag = (f"ctrl({vname})" if ctrl else vname)
    op = cat.build(wrap(gs))
    M = np.asarray(qp.matrix(op))
    want = ref(rows[0]) if b is None else np.stack([ref(r) for r in rows])
    v = _compare(f"{tag}:{bt}", M, want)
    if v:
        return v
    # unitarity of what the implementation returned
    Md = M if M.ndim == 3 else M[None]
    d = Md.shape[-1]
    for i, Mi in enumerate(Md):
        if float(np.max(np.abs(Mi.conj().T @ Mi - np.eye(d)))) > TOL:
            return bad(f"not-unitary:{tag}:{bt}", Mi, "U^dagger U = I", row=rows[i])
    # "first listed wire = most significant qubit" must also hold when the matrix is requested in another order of the
    # gate's own wires: qp.matrix(op, wire_order=perm) == reference re-indexed by explicit tensor permutation
    wires = list(op.wires)
    if b is None and 2 <= len(wires) <= 3:
        import itertools

        from mc import refsim as RS

        for perm in itertools.permutations(wires):
            if list(perm) == wires:
                continue
            Mp = np.asarray(qp.matrix(op, wire_order=list(perm)))
            v = _compare(f"{tag}:wire-order-permuted", Mp, RS.embed(want, wires, list(perm)))
            if v:
                return v
    if b is not None:
        # batched call == stack of the implementation's own un-batched calls
        own = np.stack([np.asarray(qp.matrix(cat.build(wrap(_unbatched(gs, r))))) for r in rows])
        v = _compare(f"{tag}:{bt}-vs-own-unbatched", M, own)
        if v:
            return v
    nontrivial = not np.allclose(want, np.eye(d) if want.ndim == 2 else np.broadcast_to(np.eye(d), want.shape))
    return ok(outcome=[tag, bt] + _fp(M), nontrivial=nontrivial)




# ---------------------------------------------------------------------------------------------------- enumeration
def _batch_specs(insts):
    """From the un-batched instances of one variant (same skeleton, different rows): batch-1 for every row, batch-3 over
    consecutive triples, and (k>=2) a single batched parameter with the others scalar."""
    out = []
    groups = {}
    for s in insts:
        groups.setdefault((s["v"], tuple(map(str, cat.wires_of(s)))), []).append(s)
    for (_, _), ss in groups.items():
        rows = [cat.params(s) for s in ss]
        k = len(rows[0])
        if k == 0:
            continue
        base = ss[0]
        for r in rows:
            out.append(cat.batched(base, [r]))
        for i in range(0, len(rows), 3):
            tri = rows[i:i + 3]
            if len(tri) < 3:
                tri = (rows[-3:] if len(rows) >= 3 else None)
            if tri is None:
                continue
            out.append(cat.batched(base, tri))
            if k >= 2:
                for j in range(k):
                    flat = [([t[j] for t in tri] if jj == j else tri[0][jj]) for jj in range(k)]
                    out.append(cat.with_params(base, flat))
    return out


def table_names():
    names = sorted(set(ALIASES.get(n, n) for n in RG.TABLE) | set(EXTRA) | {"ControlledQubitUnitary"})
    return names


def run(ctx):
    tier = ctx.tier
    fails = RG.selftest()
    if fails:  # a broken reference is a harness error, never a verdict about PennyLane
        raise HarnessError("reference table self-test failed: " + "; ".join(fails))
    ctx.record({"selftest": "mc.refgates"}, ok(outcome="refgates-selftest-ok", nontrivial=True))
    have = set(cat.names())
    missing = [n for n in table_names() if n not in have]
    if missing:
        raise HarnessError(f"reference-table gates without catalogue recipe: {missing}")
    specs, nb = [], 0
    for n in table_names():
        insts = cat.instances(n, tier)
        specs += [{"g": s} for s in insts]
        bs = _batch_specs(insts)
        nb += len(bs)
        specs += [{"g": s} for s in bs]
    # aliases exported by qp.ops: same classes reached through the alias attribute
    for alias, target in (("CPhase", "ControlledPhaseShift"), ("SQISW", "SISWAP"), ("H", "Hadamard"), ("X", "PauliX"), ("Y", "PauliY"),
                          ("Z", "PauliZ")):
        for s in cat.instances(target, "few"):
            s = dict(s)
            s["f"] = alias
            specs.append({"g": s})
    ctx.enumerate(specs, axis="table-gates")
    # ctrl family
    cspecs = []
    ks = (1, 2) if ctx.quick else (1, 2, 3)
    for base in CTRL_BASES:
        few = cat.instances(base, "few")
        few = [s for s in few if cat.wires_of(s) == list(range(len(cat.wires_of(s))))][:2]
        sk0 = cat.skeletons(base, "quick")[0]
        kk = len(cat.params(sk0))
        extra = []
        if kk:
            extra = [cat.batched(sk0, [[a] * kk for a in (A.G1, A.PI, 2 * A.PI)])]
        for s in few + extra:
            for k in ks:
                for cv in A.ctrl_values(k):
                    cspecs.append({"g": s, "ctrl": {"k": k, "cv": cv}})
    ctx.enumerate(cspecs, axis="ctrl-family")
    ctx.coverage["alphabet"] = {"names": table_names(), "aliases": sorted(ALIASES), "ctrl_bases": CTRL_BASES,
                                "ANG": [A.ANG_NAMES[a] for a in A.ANG(tier)], "batch": ["none", 1, 3, "one-parameter-batched(3)"],
                                "labelings": [n for n, _ in A.lab(2)]}
    ctx.coverage["bound"] = {"angles_per_parameter": len(A.ANG(tier)), "full_product_up_to_k": 3, "max_controls": max(ks),
                             "batched_specs": nb}
    ctx.coverage["uncovered"] = []
