"""C42 — Program capture round-trips quantum functions (DESIGN §5.7 C42).

E2 over a structured-program grammar built from Python combinators (no source text, autograph off).  One program tree is
run twice from the same combinator code:
  tape mode     capture disabled, ``qp.tape.make_qscript(f)(x, n)``                       (the reference semantics)
  capture mode  ``qp.capture.make_plxpr(f)(x, n)`` once, then ``qp.tape.plxpr_to_tape(jaxpr, consts, x, n)`` for EVERY
                argument pair of the declared set (the plxpr is traced with abstract arguments, so one trace serves all).
Both circuits are executed on default.qubit (``qp.execute``) with ``qp.state()``; the states must agree to 1e-9 (x64).
Statements: gates with static / dynamic angle and static / dynamic (loop-index, argument) wire; for_loop with the six bound
triples, static or traced stop; while_loop with static / traced bound; cond with Python-bool and traced predicates, with /
without else, with elif; adjoint(fn) lazy and eager; ctrl(fn); capture.subroutine; nesting <= 2.
Transform clause: the only transform that has a plxpr implementation at this commit is ``decompose``
(``decompose_plxpr_to_plxpr`` / DecomposeInterpreter); it is applied to the captured program and compared (state up to global
phase) with ``qp.transforms.decompose`` applied to the tape, for every program of the transform family x gate set x
max_expansion."""
from mc.engine import ok, bad, skip

PROPERTY = "C42"
LEVEL = "exploration"
TECHNIQUE = "bounded exhaustive enumeration of structured programs; capture->plxpr->tape vs direct tape, executed states compared"
LEVEL_TEXT = ("Every program of the combinator grammar with nesting <=2 and block length <=2 (quick: 4-atom alphabet, block-in-block over 2 atoms; "
              "thorough: 6 atoms and all block-in-block nestings with a sibling gate) is traced once and converted back for "
              "3 argument pairs; executed states are compared at 1e-9.  decompose via its plxpr implementation is compared with the tape "
              "transform for 2 gate sets x max_expansion {None,1}.")
LEVEL_NOTE = ("Reference = the same combinator tree run with capture disabled (PennyLane's tape semantics) + default.qubit execution. "
              "Not decided: autograph conversion of native Python control flow, mid-circuit measurements, dynamic shapes, qnode_prim; "
              "transforms other than decompose have no plxpr implementation at this commit (the transform primitive evaluates its inner "
              "jaxpr unchanged), so the second clause is decided for decompose only.")
DESIGN_REF = "5.7 C42"
START = "spawn"
PARALLEL = True
RULE = ("all programs of the grammar up to the nesting/length bound x all declared argument pairs; non-trivial = the tape-mode circuit "
        "has >=2 operations and the program contains a higher-order construct")
ASSUMPTIONS = [
    "Tape mode (capture disabled) defines the intended circuit of a combinator tree.",
    "JAX_ENABLE_X64=1 (set by ./run); without it the tolerance is relaxed to 1e-6.",
]

N_WIRES = 5          # gates act on wires 0..3, wire 4 is the control of ctrl(fn)
ARGS = [[0.4, 2], [-0.7, 0], [0.0, 1]]
BOUNDS = [[0, 0, 1], [0, 1, 1], [0, 3, 1], [1, 4, 2], [3, 0, -1], [3, 0, -2]]
ATOMS_Q = ["RXx", "RYi", "CX", "S2"]
ATOMS_T = ["H0", "RXs", "RXx", "RYi", "CX", "S2"]
PREDS = ["T", "F", "x>", "x<", "n=="]
GATE_SETS = {"rot": ["RX", "RY", "RZ", "CNOT", "GlobalPhase"], "clifford_t": ["H", "S", "T", "CNOT", "RX", "RY", "RZ", "GlobalPhase", "Adjoint(S)", "Adjoint(T)"]}


# --------------------------------------------------------------------------------------------- combinators
def atom(qp, a, env):
    if a == "H0":
        qp.Hadamard(0)
    elif a == "RXs":
        qp.RX(0.3, 1)
    elif a == "RXx":
        qp.RX(env["x"], 0)
    elif a == "RYi":
        i = env["i"]
        qp.RY(0.1 * (i + 1) + env["x"], i)       # dynamic angle AND dynamic wire (loop index / integer argument)
    elif a == "CX":
        qp.CNOT([0, 1])
    elif a == "S2":
        qp.S(2)
    elif a == "TOF":
        qp.Toffoli([0, 1, 2])
    elif a == "ROT":
        qp.Rot(env["x"], 0.2, 0.3, 1)
    elif a == "CRY":
        qp.CRY(env["x"], [2, 0])
    else:
        raise AssertionError(a)


def pred(p, env):
    if p == "T":
        return True
    if p == "F":
        return False
    if p == "x>":
        return env["x"] > 0.2
    if p == "x<":
        return env["x"] < 0.2
    if p == "n==":
        return env["n"] == 2
    raise AssertionError(p)


def run_body(qp, body, env):
    for st in body:
        if isinstance(st, str):
            atom(qp, st, env)
        else:
            block(qp, st, env)


def block(qp, st, env):
    k = st[0]
    if k == "for":                                   # ["for", bounds index, dynamic-stop flag, body]
        start, stop, step = BOUNDS[st[1]]
        if st[2]:
            stop = env["n"] * 0 + stop               # a traced value equal to the static bound

        @qp.for_loop(start, stop, step)
        def loop(i):
            run_body(qp, st[3], {**env, "i": i})

        loop()
    elif k == "while":                               # ["while", bound, dynamic flag, body]
        bound = st[1]
        if st[2]:
            bound = env["n"] * 0 + bound

        @qp.while_loop(lambda i: i < bound)
        def wl(i):
            run_body(qp, st[3], {**env, "i": i})
            return i + 1

        wl(0)
    elif k == "cond":                                # ["cond", pred, true body, false body | None]
        def tf():
            run_body(qp, st[2], env)

        if st[3] is None:
            qp.cond(pred(st[1], env), tf)()
        else:
            def ff():
                run_body(qp, st[3], env)

            qp.cond(pred(st[1], env), tf, ff)()
    elif k == "cond3":                               # ["cond3", p1, p2, b1, b2, b3]  if / elif / else
        def f1():
            run_body(qp, st[3], env)

        def f2():
            run_body(qp, st[4], env)

        def f3():
            run_body(qp, st[5], env)

        qp.cond(pred(st[1], env), f1, f3, elifs=[(pred(st[2], env), f2)])()
    elif k == "adj":                                 # ["adj", lazy, body]
        def fn(x2):
            run_body(qp, st[2], {**env, "x": x2})

        qp.adjoint(fn, lazy=bool(st[1]))(env["x"])
    elif k == "ctrl":                                # ["ctrl", body]
        def fn(x2):
            run_body(qp, st[1], {**env, "x": x2})

        qp.ctrl(fn, control=N_WIRES - 1)(env["x"])
    elif k == "sub":                                 # ["sub", body]
        def fn(x2, n2):
            run_body(qp, st[1], {"x": x2, "n": n2, "i": n2})

        qp.capture.subroutine(fn)(env["x"], env["n"])
    else:
        raise AssertionError(k)


def make_f(qp, prog):
    def f(x, n):
        run_body(qp, prog, {"x": x, "n": n, "i": n})
        return qp.state()

    return f


# --------------------------------------------------------------------------------------------- enumeration
def bodies(atoms, maxlen):
    import itertools

    out = []
    for n in range(1, maxlen + 1):
        out += [list(w) for w in itertools.product(atoms, repeat=n)]
    return out


def blocks_over(inner, quick):
    """All block statements whose bodies come from `inner` (a list of bodies)."""
    out = []
    for b in inner:
        for bi in range(len(BOUNDS)):
            for dyn in (0, 1):
                out.append(["for", bi, dyn, b])
        for bound in (0, 2):
            for dyn in (0, 1):
                out.append(["while", bound, dyn, b])
        for p in PREDS:
            out.append(["cond", p, b, None])
        out.append(["adj", 1, b])
        out.append(["adj", 0, b])
        out.append(["ctrl", b])
        out.append(["sub", b])
    # two-branch / three-branch conditionals: branches from single-atom bodies only (keeps the product small)
    singles = [b for b in inner if len(b) == 1]
    for p in PREDS:
        for b1 in singles:
            for b2 in singles:
                if b1 != b2:
                    out.append(["cond", p, b1, b2])
    if len(singles) < 3:
        return out
    if not quick:
        for p1 in ("x>", "x<", "F"):
            for p2 in ("n==", "T", "x<"):
                for b1, b2, b3 in (([singles[0][0]], [singles[1][0]], [singles[2][0]]), ([singles[2][0]], [singles[0][0]], [singles[1][0]])):
                    out.append(["cond3", p1, p2, b1, b2, b3])
    else:
        out.append(["cond3", "x<", "n==", singles[0], singles[1], singles[2]])
        out.append(["cond3", "x>", "T", singles[0], singles[1], singles[2]])
        out.append(["cond3", "F", "x<", singles[0], singles[1], singles[2]])
    return out


def nested_ok(outer, inner):
    # ctrl inside ctrl would reuse the control wire (rejected in both modes); keep it out of the space
    if outer == "ctrl" and inner == "ctrl":
        return False
    return True


def level2(atoms, quick):
    """Block-in-block programs: outer block whose body is [inner block] or [atom, inner block]; inner bodies single atoms."""
    inner_bodies = [[a] for a in atoms]
    inner = blocks_over(inner_bodies, True)
    inner = [b for b in inner if b[0] != "cond3"]
    out = []
    for ib in inner:
        wrap_bodies = [[ib]] if quick else [[ib], [atoms[0], ib]]
        for wb in wrap_bodies:
            for ob in blocks_over([wb], True):
                if ob[0] in ("cond3",) or (ob[0] == "cond" and ob[3] is not None):
                    continue
                if not nested_ok(ob[0], ib[0]):
                    continue
                out.append(ob)
    return out


def programs(quick):
    atoms = ATOMS_Q if quick else ATOMS_T
    progs = []
    l1 = blocks_over(bodies(atoms, 2), quick)
    for b in l1:
        progs.append([b])
    for b in blocks_over(bodies(atoms, 1), True):           # a gate before and after the block (ordering / closure effects)
        progs.append(["CX", b])
        progs.append([b, "RXx"])
    if quick:
        # nesting 2 in the quick tier: inner bodies over two atoms only, loops/cond/adj/ctrl pairs
        progs += [[b] for b in level2(["RYi", "S2"], True)]
    else:
        progs += [[b] for b in level2(atoms[2:5], False)]
    seen, out = set(), []
    import json

    for p in progs:
        k = json.dumps(p)
        if k not in seen:
            seen.add(k)
            out.append(p)
    return out


def transform_programs(quick):
    atoms = ["TOF", "ROT", "CRY", "S2"] if not quick else ["TOF", "ROT", "S2"]
    progs = [[a] for a in atoms]
    blocks = blocks_over([[a] for a in atoms], True)
    progs += [[b] for b in blocks if b[0] != "sub"]
    if not quick:
        progs += [["ROT", b] for b in blocks if b[0] in ("for", "ctrl", "adj")]
    # subroutines through the transform: one call, the same body twice, and two DIFFERENT bodies with the same name and signature
    # (a transformed body cached per subroutine must not be served to another subroutine)
    progs += [[["sub", [a]]] for a in atoms]
    progs += [[["sub", [a]], ["sub", [b]]] for a in atoms for b in atoms]
    progs += [[["sub", [a]], ["sub", [b]], ["sub", [a]]] for a in atoms for b in atoms if a != b]
    return progs


# --------------------------------------------------------------------------------------------- worker
def _tol():
    import jax

    return 1e-9 if jax.config.jax_enable_x64 else 1e-6


def _state(qp, tape):
    import numpy as np

    dev = qp.device("default.qubit", wires=N_WIRES)
    res = qp.execute([tape], dev)
    return np.asarray(res[0], dtype=complex).reshape(-1)


def _names(tape):
    return [o.name for o in tape.operations]


def check(spec):
    import jax  # noqa: F401  (workers are spawned; jax is imported only here)
    import numpy as np
    import pennylane as qp

    prog = spec["prog"]
    argsets = spec.get("args", ARGS)
    f = make_f(qp, prog)
    qp.capture.disable()
    # ---- reference: tape mode
    ref_tapes = []
    for x, n in argsets:
        try:
            ref_tapes.append(qp.tape.make_qscript(f)(x, n))
        except Exception as e:  # pylint: disable=broad-except
            return skip(f"tape-mode-rejects:{type(e).__name__}")
    # ---- capture mode
    cap_tapes = []
    qp.capture.enable()
    try:
        try:
            plxpr = qp.capture.make_plxpr(f, autograph=False)(*argsets[0])
        except Exception as e:  # pylint: disable=broad-except
            return bad(f"capture:make_plxpr-raised:{type(e).__name__}:{_kinds(prog)}", f"{type(e).__name__}: {e}"[:400], "a plxpr")
        for x, n in argsets:
            try:
                cap_tapes.append(qp.tape.plxpr_to_tape(plxpr.jaxpr, plxpr.consts, x, n))
            except Exception as e:  # pylint: disable=broad-except
                return bad(f"capture:plxpr_to_tape-raised:{type(e).__name__}:{_kinds(prog)}", f"{type(e).__name__}: {e}"[:400], "a tape")
    finally:
        qp.capture.disable()
    tol = _tol()
    fp = []
    for (x, n), t0, t1 in zip(argsets, ref_tapes, cap_tapes):
        if len(t1.measurements) != 1 or len(t0.measurements) != 1:
            return bad("roundtrip:measurements", [repr(t1.measurements)], [repr(t0.measurements)])
        s0, s1 = _state(qp, t0), _state(qp, t1)
        d = float(np.max(np.abs(s0 - s1)))
        if not d <= tol:
            return bad(f"roundtrip:state-differs:{_kinds(prog)}", {"args": [x, n], "maxdiff": d, "capture_ops": _names(t1)[:24]},
                       {"tape_ops": _names(t0)[:24]})
        fp.append([len(t0.operations), len(t1.operations), _names(t0) == _names(t1)])
    nontriv = max(len(t.operations) for t in ref_tapes) >= 2
    return ok(outcome=fp, nontrivial=nontriv)


def _kinds(prog):
    """Signature helper: the nesting of block kinds in the program (stable under enumeration order)."""
    out = []

    def walk(body, d):
        for st in body:
            if isinstance(st, list):
                out.append(st[0] if d == 0 else f"{'>' * d}{st[0]}")
                for part in st[1:]:
                    if isinstance(part, list) and part and isinstance(part[0], (str, list)):
                        walk(part, d + 1)

    walk(prog, 0)
    return ",".join(out) or "flat"


def check_transform(spec):
    import jax  # noqa: F401
    import numpy as np
    import pennylane as qp
    from mc import refsim
    from pennylane.transforms.decompose import decompose_plxpr_to_plxpr

    prog = spec["prog"]
    gs = set(GATE_SETS[spec["gate_set"]])
    kw = {"gate_set": gs}
    if spec.get("max_expansion") is not None:
        kw["max_expansion"] = spec["max_expansion"]
    argsets = spec.get("args", ARGS[:2])
    f = make_f(qp, prog)
    qp.capture.disable()
    ref = []
    for x, n in argsets:
        try:
            t0 = qp.tape.make_qscript(f)(x, n)
            (t0d,), _ = qp.transforms.decompose(t0, **kw)
        except Exception as e:  # pylint: disable=broad-except
            return skip(f"tape-transform-rejects:{type(e).__name__}")
        ref.append((t0, t0d))
    cap = []
    qp.capture.enable()
    try:
        try:
            plxpr = qp.capture.make_plxpr(f, autograph=False)(*argsets[0])
        except Exception as e:  # pylint: disable=broad-except
            return skip(f"capture-rejects-program:{type(e).__name__}")  # C42 round-trip family reports these
        for x, n in argsets:
            try:
                new = decompose_plxpr_to_plxpr(plxpr.jaxpr, plxpr.consts, (), tuple(kw.items()), x, n)
                cap.append(qp.tape.plxpr_to_tape(new.jaxpr, new.consts, x, n))
            except Exception as e:  # pylint: disable=broad-except
                return bad(f"transform:decompose:plxpr-raised:{type(e).__name__}:{_kinds(prog)}", f"{type(e).__name__}: {e}"[:400], "a plxpr")
    finally:
        qp.capture.disable()
    tol = _tol()
    fp = []
    for (x, n), (t0, t0d), t1 in zip(argsets, ref, cap):
        s_plain, s_tape, s_cap = _state(qp, t0), _state(qp, t0d), _state(qp, t1)
        if not refsim.close_up_to_phase(s_tape, s_plain, tol * 10):
            return skip("tape-decompose-changes-state")  # not this property (C12/C17 territory)
        if not refsim.close_up_to_phase(s_cap, s_tape, tol * 10):
            return bad(f"transform:decompose:state-differs:{_kinds(prog)}", {"args": [x, n], "capture_ops": _names(t1)[:30]},
                       {"tape_ops": _names(t0d)[:30]})
        # (observation only, not part of the property: whether the plxpr implementation also reaches the gate set)
        tape_in = all(o.name in gs for o in t0d.operations)
        cap_out = sorted({o.name for o in t1.operations if o.name not in gs})
        fp.append([len(t0.operations), len(t0d.operations), len(t1.operations), sorted(set(_names(t1))), bool(tape_in and cap_out)])
    return ok(outcome=fp, nontrivial=any(len(t0d.operations) != len(t0.operations) for t0, t0d in ref))


def run(ctx):
    progs = programs(ctx.quick)
    ctx.enumerate([{"prog": p} for p in progs], fn="check", axis="roundtrip", chunk=16)
    tp = transform_programs(ctx.quick)
    ts = [{"prog": p, "gate_set": g, "max_expansion": m} for p in tp for g in GATE_SETS for m in (None, 1)]
    ctx.enumerate(ts, fn="check_transform", axis="decompose-plxpr", chunk=8)
    ctx.coverage["alphabet"] = {"atoms": ATOMS_Q if ctx.quick else ATOMS_T, "bounds": BOUNDS, "preds": PREDS,
                                "blocks": ["for(static|dynamic stop)", "while(0|2, static|dynamic)", "cond(no else|else|elif)", "adjoint(lazy|eager)",
                                           "ctrl", "subroutine"], "args": ARGS, "gate_sets": GATE_SETS, "transform_atoms": ["TOF", "ROT", "CRY", "S2"]}
    ctx.coverage["bound"] = {"nesting": 2, "block_len": 2, "programs": len(progs), "transform_programs": len(tp)}
