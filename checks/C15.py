"""C15 — Clifford+T approximations meet their precision bound (DESIGN §5.3).

E1 over angles x precisions x gates, with the only randomness of the search (random.randrange inside the Pollard-rho
factoring of norm_solver) OWNED by a scripted source patched in from the harness side:
  rs   rs_decomposition(RZ / PhaseShift(angle), eps): boundary angles (multiples of pi/4 and pi/8 incl. the exact
       T-gate branch and near misses, domain-correction boundaries, tiny angles, angles near +-2pi and beyond 4pi)
  e4   the same on a sub-family, re-executed with every single draw of the default stream replaced by the lowest / highest
       legal value (E4, deviation bound 1)
  sk   sk_decomposition on RZ/RX/RY/PhaseShift/Rot/Hadamard-like gates, eps >= 1e-2 (its documented regime)
  ct   clifford_t_decomposition(method in {gridsynth, sk}) on every word of length <= 2 over a gate alphabet with two
       rotations, plus call sequences that exercise the decomposition cache (eps coarse->fine, fine->coarse)
Oracle: only Clifford+T (+GlobalPhase) operators; operator-norm distance up to global phase <= eps for single gates
(<= eps for the complete circuit in the transform, as documented); circuits already in Clifford+T are reproduced exactly.
"""
import itertools
import math

from mc.engine import ok, bad, skip

PROPERTY = "C15"
LEVEL = "exploration"
TECHNIQUE = "bounded exhaustive enumeration of angles x precisions with scripted (owned) randrange vs. closed-form product distance"
LEVEL_TEXT = ("Every (angle, epsilon, gate) of the boundary-angle alphabet is approximated by the real rs_decomposition / sk_decomposition "
              "/ clifford_t_decomposition with random.randrange replaced by a scripted source (default stream + every single-draw "
              "deviation to the lowest/highest value on a sub-family); the returned Clifford+T word is multiplied out with closed-form "
              "matrices and its operator-norm distance to the target (up to global phase) compared with epsilon.")
LEVEL_NOTE = ("Reference = numpy product of closed-form Clifford+T matrices; float64 limits the decidable precision to eps >= 1e-6 "
              "(quick >= 1e-3); the documented escape clauses (max_search_trials / max_depth exhausted) are not needed on this space and "
              "therefore not granted; qp.gridsynth is a front-end of a Catalyst (qjit) compiler pass and cannot be executed here: only "
              "its input validation is checked; QJIT code paths of rs_decomposition are not explored.")
DESIGN_REF = "5.3 C15"
START = "fork"
PARALLEL = True
RULE = ("complete enumeration of the angle alphabet x epsilon menu x gate type; E4: default script + all single deviations; "
        "non-trivial = the target is not itself a Clifford+T gate (approximation actually needed)")
ASSUMPTIONS = ["random.randrange is consumed only through pennylane.ops.op_math.decompositions.norm_solver.randrange (asserted: an "
               "unscripted draw cannot happen because the module attribute is replaced)"]

PI = math.pi
G1, G2 = 0.3, -1.234


def angles(tier):
    A = [0.0, PI / 2, PI, -PI, 2 * PI, G1, G2, 0.789, 2.718, -0.456, 1.912, 7.0, -9.5]
    if tier != "quick":
        A += [3 * PI / 2, -2 * PI, 4 * PI, 2 * PI + G1, 4 * PI + G1, 1e-8, -2.345, 0.111, 4 * PI - 1e-3, 13.0]
    A += [k * PI / 4 for k in range(-8, 9)]
    A += [1e-3, 1e-5, 2 * PI - 1e-3, -2 * PI + 1e-3]
    # domain-correction boundaries of theta = -phi/2 at odd multiples of pi/4, and near misses of the exact pi/8 branch
    for base in (PI / 2, -PI / 2, 3 * PI / 2, PI / 4, -3 * PI / 4, 5 * PI / 4):
        for d in ((1e-3, -1e-3, 1e-9) if tier == "quick" else (1e-3, -1e-3, 1e-9, -1e-9, 1e-13, 1e-6)):
            A.append(base + d)
    out = []
    for a in A:
        if a not in out:
            out.append(a)
    return out


def _near_miss(a):
    """within 1e-8 of a multiple of pi/4 without being one (to 1e-12)"""
    k = a / (PI / 4)
    return 1e-12 < abs(k - round(k)) * (PI / 4) < 1e-8


def eps_menu(tier):
    return [1e-1, 1e-2, 1e-3] if tier == "quick" else [1e-1, 1e-2, 1e-3, 1e-4, 1e-5, 1e-6]


def _target(gate, params):
    from mc import refgates as RG

    return RG.matrix(gate, params)


def _names_ok(ops, two_qubit=False):
    from mc.x_cliffordt import ONE_QUBIT_CT, TWO_QUBIT_CT

    allowed = ONE_QUBIT_CT | {"GlobalPhase"} | (TWO_QUBIT_CT if two_qubit else set())
    return sorted({o.name for o in ops} - allowed)


def _is_clifford_t_angle(gate, a):
    """RZ / PhaseShift angle that is an exact multiple of pi/4 (target itself Clifford+T up to phase)."""
    k = a / (PI / 4)
    return abs(k - round(k)) < 1e-12


def _run_rs(gate, angle, eps, wire, overrides):
    import pennylane as qp
    from mc import x_cliffordt as XC
    from mc import x_synth as XS

    op = getattr(qp, gate)(angle, wires=[wire])
    with XC.owned_randrange(overrides) as src:
        ops = qp.ops.rs_decomposition(op, eps)
    bad_names = _names_ok(ops)
    if bad_names:
        return ("types", bad_names, None, src)
    if not ops or ops[-1].name != "GlobalPhase":
        return ("no-final-global-phase", [o.name for o in ops][-3:], None, src)
    if any(list(o.wires) != [wire] for o in ops[:-1]):
        return ("wires", sorted({str(list(o.wires)) for o in ops}), None, src)
    V = XS.product(ops, [wire])
    U = _target(gate, [angle])
    return (None, XC.dist_up_to_phase(U, V), (XC.dist_with_phase(U, V), len(ops) - 1, sum(o.name in ("T", "Adjoint(T)") for o in ops)), src)


def check_rs(spec):
    gate, angle, eps, wire = spec["gate"], spec["angle"], spec["eps"], spec.get("wire", 0)
    tag = f"{gate}:eps={eps:g}"
    err, d, info, src = _run_rs(gate, angle, eps, wire, None)
    if err:
        return bad(f"rs:{err}:{tag}", d, "Clifford+T word + final GlobalPhase on the operator's wire")
    if d > eps * (1 + 1e-9) + 1e-12:
        return bad(f"rs:distance>eps:{tag}", {"dist": d, "angle": angle, "len": info[1]}, f"<= {eps}")
    if info[0] > eps * (1 + 1e-9) + 1e-9:
        return bad(f"rs:global-phase-wrong:{tag}", {"dist_with_phase": info[0], "dist_up_to_phase": d, "angle": angle},
                   "GlobalPhase makes the word approximate the operator itself (docstring example)")
    ndraw = len(src.log)
    if spec.get("e4"):
        worst = d
        for i in range(ndraw):
            for alt in ("lo", "hi"):
                e2, d2, info2, src2 = _run_rs(gate, angle, eps, wire, {i: alt})
                if e2:
                    return bad(f"rs:e4:{e2}:{tag}", {"deviation": [i, alt], "obs": d2}, None)
                if d2 > eps * (1 + 1e-9) + 1e-12 or info2[0] > eps * (1 + 1e-9) + 1e-9:
                    return bad(f"rs:e4:distance>eps:{tag}", {"deviation": [i, alt], "dist": d2, "with_phase": info2[0], "angle": angle}, f"<= {eps}")
                worst = max(worst, d2)
        return ok(outcome=[ndraw, info[1], round(worst / eps, 2)], nontrivial=ndraw > 0)
    return ok(outcome=[info[1], info[2], ndraw, round(d / eps, 2)], nontrivial=not _is_clifford_t_angle(gate, angle))


def check_rs_reject(spec):
    import pennylane as qp

    op = {"RX": lambda: qp.RX(0.3, 0), "Rot": lambda: qp.Rot(0.1, 0.2, 0.3, 0), "CRZ": lambda: qp.CRZ(0.3, [0, 1]), "T": lambda: qp.T(0)}[spec["op"]]()
    try:
        ops = qp.ops.rs_decomposition(op, 1e-2)
    except ValueError:
        return ok(outcome="ValueError", nontrivial=True)
    return bad(f"rs:accepted-non-rz:{spec['op']}", [o.name for o in ops], "ValueError (documented)")


SK_OPS = {
    "RZ": lambda qp, a: qp.RZ(a, 0), "RX": lambda qp, a: qp.RX(a, 0), "RY": lambda qp, a: qp.RY(a, 0),
    "PhaseShift": lambda qp, a: qp.PhaseShift(a, 0), "Rot": lambda qp, a: qp.Rot(a, G2, 0.789, 0),
    "U3": lambda qp, a: qp.U3(a, 0.3, -0.7, 0),
}


def _sk_target(name, a):
    from mc import refgates as RG

    if name == "Rot":
        return RG.Rot(a, G2, 0.789)
    if name == "U3":
        return RG.U3(a, 0.3, -0.7)
    return RG.matrix(name, [a])


def check_sk(spec):
    import pennylane as qp
    from mc import x_cliffordt as XC
    from mc import x_synth as XS

    name, a, eps, wire = spec["op"], spec["angle"], spec["eps"], spec.get("wire", 0)
    op = SK_OPS[name](qp, a)
    if wire != 0:
        op = qp.map_wires(op, {0: wire})
    with XC.owned_randrange(None) as src:
        ops = qp.ops.sk_decomposition(op, eps, **spec.get("kw", {}))
    tag = f"{name}:eps={eps:g}"
    bn = _names_ok(ops)
    if bn:
        return bad(f"sk:types:{tag}", bn, "Clifford+T + GlobalPhase")
    if not ops or ops[-1].name != "GlobalPhase":
        return bad(f"sk:no-final-global-phase:{tag}", [o.name for o in ops][-3:], None)
    if any(list(o.wires) != [wire] for o in ops[:-1]):
        return bad(f"sk:wires:{tag}", sorted({str(list(o.wires)) for o in ops}), [wire])
    if src.log:
        return bad("sk:consumed-randomness", len(src.log), 0)
    V = XS.product(ops, [wire])
    U = _sk_target(name, a)
    d = XC.dist_up_to_phase(U, V)
    if d > eps * (1 + 1e-9) + 1e-12:
        return bad(f"sk:distance>eps:{tag}", {"dist": d, "angle": a, "len": len(ops) - 1}, f"<= {eps}")
    return ok(outcome=[len(ops) - 1, round(d / eps, 2)], nontrivial=True)


# ------------------------------------------------------------------------------------------------ transform
CT_ALPHA = {
    "H0": ("Hadamard", [], [0]), "T0": ("T", [], [0]), "S1": ("S", [], [1]), "CNOT01": ("CNOT", [], [0, 1]),
    "RZ0": ("RZ", [G1], [0]), "RX1": ("RX", [G2], [1]), "RZ0pi4": ("RZ", [PI / 4], [0]), "CZ10": ("CZ", [], [1, 0]),
    "RY0": ("RY", [0.789], [0]), "PS1": ("PhaseShift", [2.718], [1]), "CRZ01": ("CRZ", [G1], [0, 1]), "ISWAP01": ("ISWAP", [], [0, 1]),
    "RZ0big": ("RZ", [2 * PI + G1], [0]), "SX1": ("SX", [], [1]),
}


def _ct_once(word, eps, method, kw):
    import pennylane as qp
    from mc import refgates as RG
    from mc import x_cliffordt as XC
    from mc import x_synth as XS

    ops_in = [getattr(qp, n)(*p, wires=w) for n, p, w in (CT_ALPHA[l] for l in word)]
    tape = qp.tape.QuantumScript(ops_in, [qp.expval(qp.Z(0))])
    [new], _ = qp.clifford_t_decomposition(tape, epsilon=eps, method=method, **kw)
    wires = [0, 1]
    bn = _names_ok(new.operations, two_qubit=True)
    if bn:
        return ("types", bn, None)
    if [type(m).__name__ for m in new.measurements] != ["ExpectationMP"]:
        return ("measurements-changed", [type(m).__name__ for m in new.measurements], None)
    import numpy as np

    U = np.eye(4, dtype=complex)
    for n_, p_, w_ in (CT_ALPHA[l] for l in word):
        U = XS._embed(RG.matrix(n_, p_), w_, 2) @ U
    V = XS.product(new.operations, wires)
    d = XC.dist_up_to_phase(U, V)
    nonct = [l for l in word if CT_ALPHA[l][1] and not (CT_ALPHA[l][0] in ("RZ", "PhaseShift") and _is_clifford_t_angle("RZ", CT_ALPHA[l][1][0]))]
    return (None, d, (len(new.operations), len(nonct), XC.dist_with_phase(U, V)))


def check_ct(spec):
    from mc import x_cliffordt as XC

    calls = spec["calls"]  # list of [word, eps]; the decomposition cache persists across the calls of ONE spec only
    method = spec["method"]
    kw = spec.get("kw", {})
    out = []
    with XC.owned_randrange(None) as src:
        for i, (word, eps) in enumerate(calls):
            err, d, info = _ct_once(word, eps, method, kw)
            tag = f"{method}:eps={eps:g}:call={i}"
            if err:
                return bad(f"ct:{err}:{tag}", d, None)
            if info[1] == 0:
                if d > 1e-9:
                    return bad(f"ct:clifford-t-circuit-changed:{method}", {"dist": d, "word": word}, "exact (1e-9)")
            elif d > eps * (1 + 1e-9) + 1e-12:
                return bad(f"ct:distance>eps:{tag}", {"dist": d, "word": word, "n_ops": info[0]}, f"<= {eps} for the complete circuit")
            out.append([info[0], info[1], round(d / eps, 2) if info[1] else 0])
    return ok(outcome=out, nontrivial=any(o[1] for o in out))


def check_gridsynth_front(spec):
    """qp.gridsynth is a Catalyst pass front-end: only its documented input validation can be executed here."""
    import pennylane as qp
    from pennylane.transforms.decompositions.gridsynth import gridsynth_setup_inputs

    kind = spec["case"]
    try:
        if kind == "eps-int":
            gridsynth_setup_inputs(epsilon=1)
        elif kind == "ppr-str":
            gridsynth_setup_inputs(ppr_basis="yes")
        else:
            r = gridsynth_setup_inputs(epsilon=1e-3, ppr_basis=True)
            if r != ((), {"epsilon": 1e-3, "ppr_basis": True}):
                return bad("gridsynth:setup-inputs", repr(r), "((), {'epsilon': 0.001, 'ppr_basis': True})")
            return ok(outcome="passthrough", nontrivial=False)
    except ValueError:
        return ok(outcome="ValueError", nontrivial=False)
    return bad(f"gridsynth:accepted:{kind}", None, "ValueError")


def check(spec):
    return {"rs": check_rs, "rj": check_rs_reject, "sk": check_sk, "ct": check_ct, "gs": check_gridsynth_front}[spec["k"]](spec)


def run(ctx):
    import pennylane  # noqa: F401  (imported once in the parent; forked workers inherit it)
    from mc.explore import words

    tier, q, only = ctx.tier, ctx.quick, ctx.only
    A, E = angles(tier), eps_menu(tier)
    if only in (None, "rs"):
        specs = [{"k": "rs", "gate": g, "angle": a, "eps": e} for g in ("RZ", "PhaseShift") for a in A for e in E
                 if not (e < 1e-5 and _near_miss(a))]  # near misses of k*pi/4 at eps=1e-6 take minutes each (grid search), same code path
        specs += [{"k": "rs", "gate": "RZ", "angle": a, "eps": 1e-2, "wire": w} for a in (G1, PI / 4, -2 * PI + 1e-3) for w in ("a", 3)]
        ctx.enumerate(specs, fn="check_rs", axis="rs_decomposition", chunk=4)
        ctx.enumerate([{"k": "rj", "op": o} for o in ("RX", "Rot", "CRZ", "T")], fn="check_rs_reject", axis="rs_reject", parallel=False)
    if only in (None, "e4"):
        A4 = [G1, G2, 1e-3, PI / 2 + 1e-3, 2 * PI - 1e-3] + ([] if q else [0.789, 2.718, -9.5, 7.0, 1e-5, 3 * PI / 4 - 1e-3])
        E4 = [1e-2, 1e-3] if q else [1e-2, 1e-3, 1e-4, 1e-5]
        specs = [{"k": "rs", "gate": g, "angle": a, "eps": e, "e4": True} for g in (("RZ",) if q else ("RZ", "PhaseShift")) for a in A4 for e in E4]
        ctx.enumerate(specs, fn="check_rs", axis="rs_e4", chunk=1)
    if only in (None, "sk"):
        Ask = [G1, G2, PI / 2, PI / 4, 1e-3, 2 * PI - 1e-3] + ([] if q else [PI, -PI, 0.789, 2.718, 7.0, 0.0, 3 * PI / 4, -2 * PI + 1e-3])
        Esk = [1e-1, 1e-2] if q else [1e-1, 3e-2, 1e-2]
        names = ["RZ", "RX", "Rot"] if q else sorted(SK_OPS)
        specs = [{"k": "sk", "op": n, "angle": a, "eps": e} for n in names for a in Ask for e in Esk]
        specs += [{"k": "sk", "op": "RZ", "angle": G1, "eps": 1e-1, "wire": "b"},
                  {"k": "sk", "op": "RY", "angle": G2, "eps": 1e-1, "kw": {"basis_set": ["H", "S", "T", "Adjoint(T)"], "basis_length": 8}}]
        ctx.enumerate(specs, fn="check_sk", axis="sk_decomposition", chunk=2)
    if only in (None, "ct"):
        letters = ["H0", "T0", "CNOT01", "RZ0", "RX1", "S1"] if q else sorted(CT_ALPHA)
        W = [w for w in words(letters, 2, 0)]
        specs = [{"k": "ct", "method": "gridsynth", "calls": [[w, e]]} for w in W for e in ([1e-2] if q else [1e-2, 1e-4])]
        specs += [{"k": "ct", "method": "gridsynth", "calls": [[w, e]]} for w in ([["RZ0", "RX1"], ["RZ0pi4", "RY0"], ["CRZ01"], ["RZ0big", "PS1"], ["RZ0", "RZ0"]])
                  for e in (1e-1, 1e-3)]
        # cache histories: coarse then fine, fine then coarse, same angle on another wire, different method_kwargs
        seqs = [[[["RZ0"], 1e-1], [["RZ0"], 1e-3]], [[["RZ0"], 1e-3], [["RZ0"], 1e-1]], [[["RZ0", "RX1"], 1e-2], [["RX1"], 1e-2], [["RZ0"], 1e-2]],
                [[["RZ0big"], 1e-2], [["RZ0"], 1e-2]], [[["RZ0"], 1e-2], [["RZ0big"], 1e-2]], [[["RZ0", "RZ0", "RY0"], 1e-2], [["RY0"], 1e-3]]]
        specs += [{"k": "ct", "method": "gridsynth", "calls": s} for s in seqs]
        wsk = [["RZ0"], ["RX1"], ["H0", "RZ0"], ["RZ0", "CNOT01"], ["T0", "S1"], ["RZ0", "RX1"]] + ([] if q else [["RY0", "PS1"], ["CRZ01"]])
        specs += [{"k": "ct", "method": "sk", "calls": [[w, 1e-1]]} for w in wsk]
        specs += [{"k": "ct", "method": "sk", "calls": [[["RZ0"], 1e-1], [["RZ0"], 3e-2]]}]
        ctx.enumerate(specs, fn="check_ct", axis="clifford_t_decomposition", chunk=2)
        ctx.enumerate([{"k": "gs", "case": c} for c in ("eps-int", "ppr-str", "ok")], fn="check_gridsynth_front", axis="gridsynth_front", parallel=False)
    ctx.coverage["alphabet"] = {"angles": A, "eps": E, "gates": ["RZ", "PhaseShift"], "sk_ops": sorted(SK_OPS), "transform_letters": sorted(CT_ALPHA),
                                "randrange_script": "default LCG stream; E4 single deviations to lowest/highest legal value"}
    ctx.coverage["bound"] = {"word_length": 2, "e4_deviation_bound": 1, "min_eps": min(E)}
