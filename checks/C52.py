"""C52 — Observable grouping partitions correctly (DESIGN §5.9).

E1, exhaustive within the bound: every multiset of <=3 (thorough 4) observables from the 16 two-qubit Pauli
words, 6 three-qubit words and the wire-less Identity, in ascending and descending order, for every
grouping_type x colouring method; group_observables (list / array / no coefficients), compute_partition_indices,
PauliGroupingStrategy with custom indices, optimize_measurements; diagonalize_qwc_pauli_words on every such
multiset (qubit-wise commuting -> verified, otherwise the documented ValueError).  Oracle: own reading of the
operator structure + Kronecker matrices in plain numpy (mc/x_pauli), gate matrices from mc/refgates."""
import itertools
from functools import lru_cache

import numpy as np

from mc.engine import ok, bad, skip
from mc import x_pauli as xp

PROPERTY = "C52"
LEVEL = "exploration"
TECHNIQUE = "bounded exhaustive enumeration of observable multisets x grouping type x colouring method vs. partition/relation/diagonalisation oracle"
LEVEL_TEXT = ("Every multiset of <=3 (thorough: <=4) Pauli words out of 23 letters (all 16 two-qubit words incl. identities, 6 three-qubit "
              "words, the wire-less Identity), two input orders, x {qwc, commuting, anticommuting} x {lf, rlf, dsatur, gis} is grouped by the "
              "real functions; partition, coefficient travel, pairwise relation and diagonalising gates are decided with numpy matrices.")
LEVEL_NOTE = ("Reference = own reader of Identity/PauliX/Y/Z/Prod/SProd structure and Kronecker matrices; gate matrices RX/RY from the "
              "documented formulas. Lists longer than the bound, more than 3 wires and non-Pauli-word inputs are not explored; optimality of "
              "the colouring is not part of the property.")
DESIGN_REF = "5.9 C52"
RULE = ("all multisets of the letter alphabet up to the size bound x 2 orders x 3 grouping types x 4 methods (+ operator-form and label-set "
        "variants for size <=2; all multisets x coefficient forms for diagonalisation); non-trivial = at least two observables")

LABS = [[0, 1, 2], [2, "q", 0]]
W2 = ["".join(p) for p in itertools.product("IXYZ", repeat=2)]
W3 = ["XYZ", "ZZX", "IXZ", "YIY", "XXX", "ZIZ"]
LETTERS = W2 + W3 + ["()"]
GT = ["qwc", "commuting", "anticommuting"]
METHODS = ["lf", "rlf", "dsatur", "gis"]
COEF = [2, -0.5, [0.3, -0.7]]


# ------------------------------------------------------------------------------------------------ building / reading
def mk_obs(letter, L, form):
    import pennylane as qp

    if letter == "()":
        return qp.Identity()
    cls = {"I": qp.Identity, "X": qp.X, "Y": qp.Y, "Z": qp.Z}
    fac = [cls[ch](L[i]) for i, ch in enumerate(letter) if form == "keep" or ch != "I"]
    if not fac:
        return qp.Identity(L[0])
    return fac[0] if len(fac) == 1 else qp.prod(*fac)


def items_of(letter, L):
    if letter == "()":
        return []
    return [[L[i], ch] for i, ch in enumerate(letter)]


def read_word(op):
    """(coefficient, {wire: letter}, wireless?) from the structure of an Identity/Pauli/Prod/SProd operator."""
    name = type(op).__name__
    if name == "Identity":
        return 1, {}, len(op.wires) == 0
    if name in ("PauliX", "PauliY", "PauliZ"):
        return 1, {op.wires[0]: name[-1]}, False
    if name == "SProd":
        c, d, wl = read_word(op.base)
        return complex(np.asarray(op.scalar).item()) * c, d, wl
    if name == "Prod":
        c, d = 1, {}
        for f in op.operands:
            cf, df, _ = read_word(f)
            c = c * cf
            for w, ch in df.items():
                if w in d:
                    raise AssertionError(f"repeated wire in product {op}")
                d[w] = ch
        return c, d, False
    raise AssertionError(f"not a Pauli word structure: {op!r}")


def key(d):
    return tuple(sorted(((repr(w), ch) for w, ch in d.items() if ch != "I")))


@lru_cache(maxsize=None)
def _rel(ka, kb):
    """(qwc, commute, anticommute) for two words given as key tuples; commutation decided on matrices."""
    da, db = dict(ka), dict(kb)
    wires = sorted(set(da) | set(db))
    q = all(da.get(w, "I") == db.get(w, "I") or "I" in (da.get(w, "I"), db.get(w, "I")) for w in wires)
    A = xp.word_matrix(da, wires)
    B = xp.word_matrix(db, wires)
    return q, bool(np.allclose(A @ B, B @ A)), bool(np.allclose(A @ B, -B @ A))


def holds(gt, da, db):
    q, c, a = _rel(key(da), key(db))
    return {"qwc": q, "commuting": c, "anticommuting": a}[gt]


def relation_violation(gt, members):
    """members: list of (dict, wireless).  Returns a description of the first violating pair or None."""
    for i in range(len(members)):
        for j in range(i + 1, len(members)):
            if not holds(gt, members[i][0], members[j][0]):
                wl = members[i][1] or members[j][1]
                return (":wireless-identity" if wl else ""), [sorted(key(members[i][0])), sorted(key(members[j][0]))]
    return None


def gates_unitary(gates, order):
    from mc import refgates

    n = len(order)
    U = np.eye(2 ** n, dtype=complex)
    for g in gates:
        nm = type(g).__name__
        if nm not in ("RX", "RY"):
            raise AssertionError(f"unexpected diagonalising gate {g!r}")
        m = refgates.matrix(nm, [float(g.data[0])])
        pos = order.index(g.wires[0])
        full = np.ones((1, 1), dtype=complex)
        for k in range(n):
            full = np.kron(full, m if k == pos else np.eye(2))
        U = full @ U
    return U


KNOWN_MARKS = ("wireless-identity", "scaled-identity-loses-coefficient")  # substrings of the narrow known-finding signatures


def prefer_new(found):
    """First violation that is not one of the separately recorded narrow classes, else the first one."""
    other = [v for v in found if not any(k in v["sig"] for k in KNOWN_MARKS)]
    return (other or found)[0] if found else None


def check_diag(members, gates, diag_ops, order, tag):
    """members: list of operator objects; verify U O U^dagger = returned diagonal observable (coefficient included).
    All members are examined; see prefer_new for which violation is reported."""
    if len(diag_ops) != len(members):
        return bad(f"{tag}:diag-count", len(diag_ops), len(members))
    seen = set()
    for g in gates:
        if g.wires[0] in seen:
            return bad(f"{tag}:two-gates-on-one-wire", repr(gates), "one rotation per wire")
        seen.add(g.wires[0])
    U = gates_unitary(gates, order)
    found = []
    for o, dgn in zip(members, diag_ops):
        c, d, _ = read_word(o)
        cd, dd, _ = read_word(dgn)
        if any(ch not in "IZ" for ch in dd.values()):
            found.append(bad(f"{tag}:not-z-basis", repr(dgn), "only Z / Identity factors"))
            continue
        M = complex(c) * xp.word_matrix(d, order)
        D = complex(cd) * xp.word_matrix(dd, order)
        got = U @ M @ U.conj().T
        if not xp.close(got, D):
            if not d and not dd and abs(complex(c) - 1) > 1e-12 and abs(complex(cd) - 1) < 1e-12:
                found.append(bad(f"{tag}:scaled-identity-loses-coefficient", repr(dgn), f"{o!r}"))
            else:
                found.append(bad(f"{tag}:rotated-observable-differs", repr(dgn), f"U {o!r} U^dagger", gates=repr(gates)))
            continue
        if not np.allclose(got, np.diag(np.diag(got)), atol=1e-9):
            found.append(bad(f"{tag}:not-diagonal", got, "diagonal matrix"))
    return prefer_new(found)


# ------------------------------------------------------------------------------------------------ grouping
def _check_groups(tag, gt, groups, cgroups, inp, n):
    """groups: list of lists of operators; cgroups: matching coefficients or None; inp: list of (key, coeff)."""
    out_words, out_pairs = [], []
    for gi, g in enumerate(groups):
        if cgroups is not None:
            cg = list(np.asarray(cgroups[gi]).tolist()) if not isinstance(cgroups[gi], list) else [np.asarray(c).item() for c in cgroups[gi]]
            if len(cg) != len(g):
                return bad(f"{tag}:coefficient-group-length", [len(x) for x in cgroups], [len(x) for x in groups])
        for j, o in enumerate(g):
            _, d, _ = read_word(o)
            out_words.append(key(d))
            if cgroups is not None:
                out_pairs.append((key(d), float(cg[j])))
    if sorted(out_words) != sorted(k for k, _ in inp):
        return bad(f"{tag}:not-a-partition", sorted(out_words), sorted(k for k, _ in inp))
    if cgroups is not None and sorted(out_pairs) != sorted((k, float(c)) for k, c in inp):
        return bad(f"{tag}:coefficients-do-not-travel", sorted(out_pairs), sorted((k, float(c)) for k, c in inp))
    if len(groups) > 1 and any(len(g) == 0 for g in groups):
        return bad(f"{tag}:empty-group", [len(g) for g in groups], "non-empty groups")
    for g in groups:
        v = relation_violation(gt, [(read_word(o)[1], read_word(o)[2]) for o in g])
        if v:
            return bad(f"{tag}:relation:{gt}{v[0]}", v[1], f"pairwise {gt}")
    return None


def check_group(spec):
    import pennylane as qp
    from pennylane.pauli import (PauliGroupingStrategy, compute_partition_indices, diagonalize_qwc_groupings,
                                 diagonalize_qwc_pauli_words, group_observables, optimize_measurements)

    L, form, gt, m = spec["L"], spec["form"], spec["gt"], spec["m"]
    letters = spec["obs"]
    n = len(letters)
    obs = [mk_obs(x, L, form) for x in letters]
    words = [dict((w, ch) for w, ch in items_of(x, L) if ch != "I") for x in letters]
    wireless = [x == "()" for x in letters]
    coeffs = list(range(1, n + 1))
    inp = [(key(d), c) for d, c in zip(words, coeffs)]

    # Sub-checks are all run; the first violation that is not the (separately recorded) wire-less-Identity
    # placement is reported, so that a known finding in one API cannot mask a different failure in another.
    found = []

    def done():
        return prefer_new(found)

    groups, cgroups = group_observables(list(obs), list(coeffs), gt, m)
    v = _check_groups("group_observables", gt, groups, cgroups, inp, n)
    if v:
        found.append(v)
    g2 = group_observables(list(obs), None, gt, m)
    v = _check_groups("group_observables(no coefficients)", gt, g2, None, inp, n)
    if v:
        found.append(v)
    g3, c3 = group_observables(list(obs), np.array(coeffs, dtype=float), gt, m)
    v = _check_groups("group_observables(array coefficients)", gt, g3, c3, inp, n)
    if v:
        found.append(v)

    idx = compute_partition_indices(list(obs), gt, m)
    flat = [int(i) for part in idx for i in part]
    if sorted(flat) != list(range(n)):
        found.append(bad("compute_partition_indices:not-a-partition", [list(map(int, p)) for p in idx], list(range(n))))
        return done()
    for part in idx:
        vv = relation_violation(gt, [(words[int(i)], wireless[int(i)]) for i in part])
        if vv:
            suffix = vv[0]
            if not suffix and any(wireless) and vv[1] == [[], []]:
                # two identities *with* wires share a group because the index matcher took the wire-less Identity for one of them
                suffix = ":identity-conflated-with-wireless-identity"
            found.append(bad(f"compute_partition_indices:relation:{gt}{suffix}", [list(map(int, p)) for p in idx], f"pairwise {gt}"))
            break

    if m != "rlf" and not all(wireless):
        custom = [10 + 3 * i for i in range(n)]
        strat = PauliGroupingStrategy(list(obs), grouping_type=gt, graph_colourer=m)
        parts = strat.idx_partitions_from_graph(observables_indices=custom)
        flat = [int(i) for part in parts for i in part]
        if sorted(flat) != custom:
            found.append(bad("idx_partitions_from_graph(custom):not-a-partition", [list(map(int, p)) for p in parts], custom))
            return done()
        for part in parts:
            vv = relation_violation(gt, [(words[custom.index(int(i))], wireless[custom.index(int(i))]) for i in part])
            if vv:
                found.append(bad(f"idx_partitions_from_graph(custom):relation:{gt}{vv[0]}", [list(map(int, p)) for p in parts], f"pairwise {gt}"))
                break
        po = strat.partition_observables()
        v = _check_groups("partition_observables", gt, po, None, inp, n)
        if v:
            found.append(v)

    if found and any("wireless-identity" not in v["sig"] for v in found):
        return done()
    if gt == "qwc":
        order = list(L)
        all_gates, all_diag = diagonalize_qwc_groupings(groups)
        for g, gates, dg in zip(groups, all_gates, all_diag):
            v = check_diag(g, gates, dg, order, "diagonalize_qwc_groupings")
            if v:
                return v
        rot, dgroups, cg = optimize_measurements(list(obs), list(coeffs), grouping="qwc", colouring_method=m)
        # every input (word, coefficient) must be recovered as U_i^dagger D U_i with the coefficient of the same slot
        rec = []
        for gates, dg, cs in zip(rot, dgroups, cg):
            U = gates_unitary(gates, order)
            if len(dg) != len(cs):
                return bad("optimize_measurements:coefficient-group-length", [len(dg), len(cs)], "equal")
            for dgn, c in zip(dg, cs):
                cd, dd, _ = read_word(dgn)
                if any(ch not in "IZ" for ch in dd.values()):
                    return bad("optimize_measurements:not-z-basis", repr(dgn), "only Z / Identity factors")
                back = U.conj().T @ (complex(cd) * xp.word_matrix(dd, order)) @ U
                rec.append((float(np.asarray(c).item()), back))
        want = [(float(c), xp.word_matrix(d, order)) for d, c in zip(words, coeffs)]
        if len(rec) != len(want):
            return bad("optimize_measurements:not-a-partition", len(rec), len(want))
        rec.sort(key=lambda t: t[0])
        for (c1, M1), (c2, M2) in zip(rec, want):
            if c1 != c2 or not xp.close(M1, M2):
                return bad("optimize_measurements:observable-or-coefficient-differs", [c1, xp.fp(M1)], [c2, xp.fp(M2)])
    if found:
        return done()
    sizes = sorted(len(g) for g in groups)
    return ok(outcome=[gt, m, sizes, [list(map(int, p)) for p in idx]], nontrivial=n >= 2)


# ------------------------------------------------------------------------------------------------ diagonalisation
def check_diagspec(spec):
    import pennylane as qp
    from pennylane.pauli import are_pauli_words_qwc, diagonalize_pauli_word, diagonalize_qwc_pauli_words

    L, form, letters = spec["L"], spec["form"], spec["obs"]
    obs = [mk_obs(x, L, form) for x in letters]
    if spec["coef"]:
        obs = [xp.dec(COEF[i % len(COEF)]) * o for i, o in enumerate(obs)]
    words = [dict((w, ch) for w, ch in items_of(x, L) if ch != "I") for x in letters]
    qwc = all(holds("qwc", words[i], words[j]) for i in range(len(words)) for j in range(i + 1, len(words)))
    got_qwc = are_pauli_words_qwc(obs)
    if bool(got_qwc) != qwc:
        return bad("are_pauli_words_qwc", bool(got_qwc), qwc)
    try:
        gates, dg = diagonalize_qwc_pauli_words(obs)
    except ValueError as e:
        if not qwc and "qubit-wise commuting" in str(e):
            return ok(outcome="rejected:not-qwc", nontrivial=True)
        return bad("diagonalize_qwc_pauli_words:raised", f"ValueError: {e}", "gates and diagonal observables")
    if not qwc:
        return bad("diagonalize_qwc_pauli_words:non-qwc-accepted", repr((gates, dg)), "ValueError (not qubit-wise commuting)")
    found = []
    v = check_diag(obs, gates, dg, list(L), "diagonalize_qwc_pauli_words")
    if v:
        found.append(v)
    for o in obs:
        d1 = diagonalize_pauli_word(o)
        c, d, _ = read_word(o)
        c1, dd, _ = read_word(d1)
        exp = {w: "Z" for w in d}
        if dd != exp or abs(complex(c1) - complex(c)) > 1e-12:
            if not d and not dd and abs(complex(c1) - 1) < 1e-12:
                found.append(bad("diagonalize_pauli_word:scaled-identity-loses-coefficient", repr(d1), repr(o)))
            else:
                found.append(bad("diagonalize_pauli_word", repr(d1), f"{c} * Z on {sorted(map(repr, d))}"))
    if found:
        return prefer_new(found)
    return ok(outcome=[len(gates), sorted(type(g).__name__ for g in gates)], nontrivial=len(obs) >= 2 or len(gates) > 0)


def check(spec):
    return {"group": check_group, "diag": check_diagspec}[spec["kind"]](spec)


# ------------------------------------------------------------------------------------------------ enumeration
def multisets(letters, k):
    return [list(c) for c in itertools.combinations_with_replacement(letters, k)]


def run(ctx):
    q = ctx.quick
    kmax = 3 if q else 4
    specs = []
    L = LABS[0]
    for k in range(1, kmax + 1):
        pool = LETTERS if k <= 3 else W2 + ["XYZ", "()"]
        for ms in multisets(pool, k):
            orders = [ms] if ms == ms[::-1] else [ms, ms[::-1]]
            for o in orders:
                for gt in GT:
                    for m in METHODS:
                        specs.append({"kind": "group", "obs": o, "L": L, "form": "strip", "gt": gt, "m": m})
    ctx.enumerate(specs, axis="grouping")
    specs = []
    for k in (1, 2):
        for ms in multisets(LETTERS, k):
            for o in ([ms] if ms == ms[::-1] else [ms, ms[::-1]]):
                for gt in GT:
                    for m in METHODS:
                        specs.append({"kind": "group", "obs": o, "L": LABS[0], "form": "keep", "gt": gt, "m": m})
                        specs.append({"kind": "group", "obs": o, "L": LABS[1], "form": "strip", "gt": gt, "m": m})
                        specs.append({"kind": "group", "obs": o, "L": LABS[1], "form": "keep", "gt": gt, "m": m})
    ctx.enumerate(specs, axis="grouping(form/labels)")
    specs = []
    for k in range(1, kmax + 1):
        pool = LETTERS if k <= 3 else W2 + ["XYZ", "()"]
        for ms in multisets(pool, k):
            for o in ([ms] if ms == ms[::-1] else [ms, ms[::-1]]):
                for form in ("strip", "keep"):
                    for coef in (False, True):
                        specs.append({"kind": "diag", "obs": o, "L": LABS[0], "form": form, "coef": coef})
                if k <= 2:
                    specs.append({"kind": "diag", "obs": o, "L": LABS[1], "form": "keep", "coef": True})
    ctx.enumerate(specs, axis="diagonalize")
    ctx.coverage["alphabet"] = {"letters": LETTERS, "grouping_types": GT, "methods": METHODS, "label_sets": LABS,
                                "forms": ["strip (identity factors dropped)", "keep (Prod with Identity factors)"],
                                "coefficients": "1..n (list), float array, None; diag: " + repr(COEF)}
    ctx.coverage["bound"] = {"max_observables": kmax, "wires": 3}
