"""C68 — Kernel utilities return valid kernel matrices (DESIGN §5.11).

E1, exhaustive over small data sets / label vectors / symmetric matrices:
  sq    square_kernel_matrix: every list of 1..n points from a 5-point pool (one duplicate point) x kernels
        {rbf, polynomial (not normalised), embedding overlap, batched} x assume_normalized_kernel
  km    kernel_matrix: every pair of lists (rectangular) x kernels (incl. a non-symmetric one: argument order)
  qk    the same two functions driven by a real QNode embedding kernel (AngleEmbedding . adjoint), reference = closed-form
        product-state overlap
  ta    polarity / target_alignment: every list x every +-1 label vector x {rescale, normalize, assume_normalized}
  pp    threshold / displace / flip / closest_psd (fix_diagonal False and True with cvxpy): ALL symmetric 3x3 matrices
        with off-diagonal entries in {-1,0,0.5,1} x diagonals, and a 4x4 family
Oracle: entrywise kernel values; symmetry and unit diagonal; explicit double sums for polarity / alignment;
spectral definitions from an independent eigen-decomposition (spectrum, shared eigenvectors, distance).
"""
import itertools
import math

from mc.engine import ok, bad, skip

PROPERTY = "C68"
LEVEL = "exploration"
TECHNIQUE = "bounded exhaustive enumeration of data sets, label vectors and symmetric matrices vs. entrywise / spectral definitions"
LEVEL_TEXT = ("Every list of <=4 (quick 3) points from a 5-point pool, every +-1 label vector, and every symmetric 3x3 matrix "
              "over {-1,0,0.5,1} off-diagonals x a diagonal menu (plus a 4x4 family) is pushed through the real kernel "
              "utilities and compared with explicit sums and spectral definitions.")
LEVEL_NOTE = ("Reference = plain Python/numpy double loops and numpy.linalg.eigvalsh-based spectral identities; kernels are symmetric "
              "functions (one asymmetric probe for kernel_matrix argument order); the docstring formula of target_alignment has "
              "sqrt(sum y_i y_j) in the denominator (a typo for the Frobenius norm of yy^T) - the Frobenius-normalised definition of "
              "the cited review is used; mitigate_depolarizing_noise is not part of the statement; closest_psd_matrix(fix_diagonal=True) "
              "is checked for feasibility and optimality against explicit feasible candidates to solver accuracy (1e-4).")
DESIGN_REF = "5.11 C68"
START = "fork"
PARALLEL = True
RULE = ("all lists over the point pool up to the length bound x kernels x flags; all label vectors; all symmetric matrices of the "
        "entry alphabet; non-trivial = more than one data point / matrix has a negative eigenvalue")

PI = math.pi
POOL = [[0.0, 0.0], [0.3, -1.234], [PI / 2, PI], [1.0, 2.0], [0.3, -1.234]]  # index 4 duplicates index 1
KERNELS = ["rbf", "poly", "emb", "batched"]
NORMALISED = {"rbf": True, "poly": False, "emb": True, "batched": True, "asym": False, "qnode": True}
OFF = [-1.0, 0.0, 0.5, 1.0]
DIAGS3 = [[1, 1, 1], [0, 0, 2], [0, 0, 0], [2, 1, 0.5], [1, 1, 0], [-1, 1, 1]]
TOL = 1e-10


def kernel_fn(name, counter=None):
    import numpy as np

    def rbf(x, y):
        x, y = np.asarray(x, dtype=float), np.asarray(y, dtype=float)
        return float(np.exp(-0.5 * np.sum((x - y) ** 2)))

    def poly(x, y):
        x, y = np.asarray(x, dtype=float), np.asarray(y, dtype=float)
        return float((1.0 + np.dot(x, y)) ** 2)

    def emb(x, y):  # |<phi(x)|phi(y)>|^2 for the product-state embedding RX(x_0) (x) RX(x_1)
        x, y = np.asarray(x, dtype=float), np.asarray(y, dtype=float)
        return float(np.prod(np.cos((x - y) / 2) ** 2))

    def batched(x, y):
        return np.array([rbf(x, y), emb(x, y)])

    def asym(x, y):  # NOT a kernel: used only to pin the argument order of kernel_matrix
        x, y = np.asarray(x, dtype=float), np.asarray(y, dtype=float)
        return float(x[0] + 10.0 * y[1] + 0.5 * x[1] * y[0])

    f = {"rbf": rbf, "poly": poly, "emb": emb, "batched": batched, "asym": asym}[name]
    if counter is None:
        return f

    def counted(x, y):
        counter.append(1)
        return f(x, y)

    return counted


def _pts(idx, form):
    import numpy as np

    pts = [list(POOL[i]) for i in idx]
    if form == "array":
        return np.array(pts)
    if form == "tuples":
        return [tuple(p) for p in pts]
    return pts


def check_sq(spec):
    import numpy as np
    import pennylane as qp

    idx, kname, assume = spec["x"], spec["kernel"], spec["assume"]
    X = _pts(idx, spec.get("form", "list"))
    calls = []
    k = kernel_fn(kname, calls)
    ref = kernel_fn(kname)
    N = len(idx)
    K = qp.kernels.square_kernel_matrix(X, k, assume_normalized_kernel=assume)
    K = np.asarray(K)
    if kname == "batched":
        if assume and N == 1:
            return skip("batched kernel with assume_normalized_kernel on a single point (shape undocumented)")
        if K.shape != (2, N, N):
            return bad("sq:batched-shape", list(K.shape), [2, N, N])
        exp = np.array([[[ref(POOL[i], POOL[j])[b] for j in idx] for i in idx] for b in range(2)])
    else:
        if K.shape != (N, N):
            return bad(f"sq:shape:{kname}", list(K.shape), [N, N])
        exp = np.array([[ref(POOL[i], POOL[j]) for j in idx] for i in idx])
    if assume:
        for i in range(N):
            exp[..., i, i] = 1.0
    if np.max(np.abs(K - exp)) > TOL:
        return bad(f"sq:entries:{kname}:assume={assume}", K.tolist(), exp.tolist())
    if np.max(np.abs(K - np.swapaxes(K, -1, -2))) != 0.0:
        return bad(f"sq:not-symmetric:{kname}", K.tolist(), "symmetric")
    if (NORMALISED[kname] or assume) and np.max(np.abs(np.diagonal(K, axis1=-2, axis2=-1) - 1.0)) > TOL:
        return bad(f"sq:diagonal-not-one:{kname}:assume={assume}", K.tolist(), "unit diagonal")
    want_calls = N * (N - 1) // 2 + (0 if assume else N)
    if len(calls) > N * N:
        return bad("sq:more-kernel-calls-than-entries", len(calls), N * N)
    if NORMALISED[kname] and kname != "batched":
        w = np.linalg.eigvalsh(K)
        if w[0] < -1e-9:
            return bad(f"sq:not-psd:{kname}", w.tolist(), ">= 0")
    return ok(outcome=[N, kname, assume, len(calls) == want_calls, np.round(K, 6).tolist()], nontrivial=N > 1)


def check_km(spec):
    import numpy as np
    import pennylane as qp

    i1, i2, kname = spec["x1"], spec["x2"], spec["kernel"]
    X1, X2 = _pts(i1, spec.get("form", "list")), _pts(i2, spec.get("form", "list"))
    k = kernel_fn(kname)
    K = np.asarray(qp.kernels.kernel_matrix(X1, X2, k))
    N, M = len(i1), len(i2)
    if kname == "batched":
        if K.shape != (2, N, M):
            return bad("km:batched-shape", list(K.shape), [2, N, M])
        exp = np.array([[[k(POOL[i], POOL[j])[b] for j in i2] for i in i1] for b in range(2)])
    else:
        if K.shape != (N, M):
            return bad(f"km:shape:{kname}", list(K.shape), [N, M])
        exp = np.array([[k(POOL[i], POOL[j]) for j in i2] for i in i1])
    if np.max(np.abs(K - exp)) > TOL:
        return bad(f"km:entries:{kname}", K.tolist(), exp.tolist())
    return ok(outcome=[N, M, kname, np.round(K, 6).tolist()], nontrivial=N * M > 1)


_QK = {}


def _qnode_kernel():
    import pennylane as qp

    if "k" not in _QK:
        dev = qp.device("default.qubit", wires=2)

        @qp.qnode(dev)
        def circuit(x1, x2):
            qp.AngleEmbedding(x1, wires=[0, 1])
            qp.adjoint(qp.AngleEmbedding)(x2, wires=[0, 1])
            return qp.probs(wires=[0, 1])

        _QK["k"] = lambda x1, x2: circuit(x1, x2)[0]
    return _QK["k"]


def check_qk(spec):
    """Real QNode embedding kernel (the docstring's construction); reference = closed-form product-state overlap."""
    import numpy as np
    import pennylane as qp

    k = _qnode_kernel()
    ref = kernel_fn("emb")
    if spec["fn"] == "square":
        idx = spec["x"]
        X = _pts(idx, "array")
        K = np.asarray(qp.kernels.square_kernel_matrix(X, k, assume_normalized_kernel=spec["assume"]))
        exp = np.array([[ref(POOL[i], POOL[j]) for j in idx] for i in idx])
        if K.shape != exp.shape or np.max(np.abs(K - exp)) > 1e-9:
            return bad(f"qk:square:entries:assume={spec['assume']}", K.tolist(), exp.tolist())
        if np.max(np.abs(K - K.T)) != 0.0 or np.max(np.abs(np.diag(K) - 1)) > 1e-9:
            return bad("qk:square:symmetric-unit-diagonal", K.tolist(), "symmetric, unit diagonal")
        if np.linalg.eigvalsh(K)[0] < -1e-9:
            return bad("qk:square:not-psd", np.linalg.eigvalsh(K).tolist(), ">= 0")
        return ok(outcome=np.round(K, 6).tolist(), nontrivial=len(idx) > 1)
    i1, i2 = spec["x1"], spec["x2"]
    K = np.asarray(qp.kernels.kernel_matrix(_pts(i1, "array"), _pts(i2, "array"), k))
    exp = np.array([[ref(POOL[i], POOL[j]) for j in i2] for i in i1])
    if K.shape != exp.shape or np.max(np.abs(K - exp)) > 1e-9:
        return bad("qk:kernel_matrix:entries", K.tolist(), exp.tolist())
    return ok(outcome=np.round(K, 6).tolist(), nontrivial=True)


def check_ta(spec):
    import numpy as np
    import pennylane as qp

    idx, Y, kname = spec["x"], spec["y"], spec["kernel"]
    rescale, assume = spec["rescale"], spec["assume"]
    X = _pts(idx, "list")
    k = kernel_fn(kname)
    N = len(idx)
    Kref = [[k(POOL[i], POOL[j]) for j in idx] for i in idx]
    if assume:
        for i in range(N):
            Kref[i][i] = 1.0
    npl = sum(1 for y in Y if y == 1)
    nmi = N - npl
    yt = [(y / npl if y == 1 else y / nmi) for y in Y] if rescale else list(Y)
    pol = sum(yt[i] * yt[j] * Kref[i][j] for i in range(N) for j in range(N))
    nk = math.sqrt(sum(Kref[i][j] ** 2 for i in range(N) for j in range(N)))
    nt = math.sqrt(sum((yt[i] * yt[j]) ** 2 for i in range(N) for j in range(N)))
    ta = pol / (nk * nt)
    Yin = np.array(Y) if spec.get("yform") == "array" else list(Y)
    got_pol = float(qp.kernels.polarity(X, Yin, k, assume_normalized_kernel=assume, rescale_class_labels=rescale))
    got_pn = float(qp.kernels.polarity(X, Yin, k, assume_normalized_kernel=assume, rescale_class_labels=rescale, normalize=True))
    got_ta = float(qp.kernels.target_alignment(X, Yin, k, assume_normalized_kernel=assume, rescale_class_labels=rescale))
    tag = f"{kname}:rescale={rescale}"
    if abs(got_pol - pol) > 1e-10 * max(1.0, abs(pol)):
        return bad(f"ta:polarity:{tag}", got_pol, pol)
    if abs(got_ta - ta) > 1e-10:
        return bad(f"ta:target_alignment:{tag}", got_ta, ta)
    if got_pn != got_ta:
        return bad("ta:alignment-differs-from-normalised-polarity", [got_pn, got_ta], "equal")
    if abs(got_ta) > 1 + 1e-12:
        return bad("ta:alignment-outside-[-1,1]", got_ta, "|TA| <= 1")
    return ok(outcome=[round(got_pol, 8), round(got_ta, 8)], nontrivial=N > 1 and 0 < npl < N)


def _sym(spec):
    import numpy as np

    d, off = spec["diag"], spec["off"]
    n = len(d)
    K = np.zeros((n, n))
    it = iter(off)
    for i in range(n):
        K[i, i] = d[i]
        for j in range(i + 1, n):
            K[i, j] = K[j, i] = next(it)
    if spec.get("scale"):
        K = K * spec["scale"]
    return K


def _spectral(K, f):
    """sum_k f(lambda_k) P_k with P_k from an independent symmetric eigen-solver (scipy, driver 'ev')."""
    import numpy as np
    from scipy.linalg import eigh

    w, v = eigh(K, driver="ev")
    return sum(f(w[i]) * np.outer(v[:, i], v[:, i]) for i in range(len(w))), w


def check_pp(spec):
    import numpy as np
    import pennylane as qp

    K = _sym(spec)
    n = K.shape[0]
    K0 = K.copy()
    w = np.linalg.eigvalsh(K)
    indefinite = w[0] < -1e-12
    psd_in = w[0] >= 0
    scale = max(1.0, float(np.max(np.abs(K))))
    atol = 1e-10 * scale
    out = {}
    for name, fn, f in (("threshold", qp.kernels.threshold_matrix, lambda l: max(l, 0.0)),
                        ("flip", qp.kernels.flip_matrix, abs),
                        ("closest", lambda M: qp.kernels.closest_psd_matrix(M, fix_diagonal=False), lambda l: max(l, 0.0))):
        R = np.asarray(fn(K))
        if np.max(np.abs(K - K0)) != 0.0:
            return bad(f"pp:{name}:input-mutated", None, None)
        exp, _ = _spectral(K0, f)
        if R.shape != K0.shape or np.max(np.abs(R - exp)) > atol:
            return bad(f"pp:{name}:spectral-definition", R.tolist(), exp.tolist())
        wr = np.linalg.eigvalsh(R)
        if wr[0] < -1e-9 * scale:
            return bad(f"pp:{name}:not-psd", wr.tolist(), ">= 0")
        if np.max(np.abs(np.sort([f(l) for l in w]) - wr)) > 1e-9 * scale:
            return bad(f"pp:{name}:spectrum", wr.tolist(), sorted(f(l) for l in w))
        if np.max(np.abs(R @ K0 - K0 @ R)) > 1e-9 * scale * scale:
            return bad(f"pp:{name}:eigenvectors-changed", None, "commutes with K")
        if psd_in and np.max(np.abs(R - K0)) > atol:
            return bad(f"pp:{name}:psd-input-not-fixed", R.tolist(), K0.tolist())
        out[name] = np.round(wr, 6).tolist()
    # threshold = closest PSD matrix in Frobenius norm: distance^2 = sum of squared negative eigenvalues
    R = np.asarray(qp.kernels.threshold_matrix(K))
    d2 = float(np.sum((R - K0) ** 2))
    if abs(d2 - float(np.sum(np.minimum(w, 0) ** 2))) > 1e-9 * scale * scale:
        return bad("pp:threshold:not-closest", d2, float(np.sum(np.minimum(w, 0) ** 2)))
    # displace
    R = np.asarray(qp.kernels.displace_matrix(K))
    exp = K0 - min(w[0], 0.0) * np.eye(n) if w[0] < 0 else K0
    if np.max(np.abs(R - exp)) > atol:
        return bad("pp:displace:definition", R.tolist(), exp.tolist())
    wr = np.linalg.eigvalsh(R)
    if wr[0] < -1e-9 * scale:
        return bad("pp:displace:not-psd", wr.tolist(), ">= 0")
    if indefinite and abs(wr[0]) > 1e-9 * scale:
        return bad("pp:displace:smallest-eigenvalue-not-zero", wr.tolist(), 0.0)
    if np.max(np.abs(K - K0)) != 0.0:
        return bad("pp:displace:input-mutated", None, None)
    out["displace"] = np.round(wr, 6).tolist()
    return ok(outcome=out, nontrivial=bool(indefinite))


def check_sdp(spec):
    """closest_psd_matrix(fix_diagonal=True): feasibility (PSD, unit diagonal) and optimality vs explicit feasible candidates."""
    import numpy as np
    import pennylane as qp

    K = _sym(spec)
    n = K.shape[0]
    try:
        import cvxpy  # noqa: F401
    except ImportError:
        return skip("cvxpy not installed")
    R = qp.kernels.closest_psd_matrix(K, fix_diagonal=True, **({"solver": spec["solver"]} if spec.get("solver") else {}))
    R = np.asarray(R, dtype=float)
    acc = 1e-4
    if R.shape != K.shape:
        return bad("sdp:shape", list(R.shape), list(K.shape))
    if np.max(np.abs(R - R.T)) > acc:
        return bad("sdp:not-symmetric", R.tolist(), None)
    if np.max(np.abs(np.diag(R) - 1.0)) > acc:
        return bad("sdp:diagonal-not-one", np.diag(R).tolist(), 1.0)
    wr = np.linalg.eigvalsh((R + R.T) / 2)
    if wr[0] < -acc:
        return bad("sdp:not-psd", wr.tolist(), ">= 0")
    obj = float(np.linalg.norm(R - K))
    # explicit feasible candidates: identity, normalised thresholded matrix, convex mixtures with the identity
    cands = [np.eye(n)]
    Tm, _ = _spectral(K, lambda l: max(l, 0.0))
    d = np.diag(Tm)
    if np.all(d > 1e-9):
        C = Tm / np.sqrt(np.outer(d, d))
        for t in (1.0, 0.75, 0.5, 0.25):
            cands.append(t * C + (1 - t) * np.eye(n))
    w = np.linalg.eigvalsh(K)
    if w[0] >= 0 and np.max(np.abs(np.diag(K) - 1)) == 0:
        cands.append(K.copy())  # feasible input: optimum is the input itself
    best = min(float(np.linalg.norm(C - K)) for C in cands)
    if obj > best + 10 * acc:
        return bad("sdp:not-closest", obj, best)
    return ok(outcome=[round(obj, 3), np.round(wr, 3).tolist()], nontrivial=bool(w[0] < 0))


def check(spec):
    return {"sq": check_sq, "km": check_km, "qk": check_qk, "ta": check_ta, "pp": check_pp, "sdp": check_sdp}[spec["k"]](spec)


def lists(maxlen, minlen=1):
    out = []
    for n in range(minlen, maxlen + 1):
        out += [list(t) for t in itertools.product(range(len(POOL)), repeat=n)]
    return out


def run(ctx):
    import pennylane  # noqa: F401  (imported once in the parent; forked workers inherit it)

    q = ctx.quick
    only = ctx.only
    nmax = 3 if q else 4
    L = lists(nmax)
    if only in (None, "sq"):
        specs = [{"k": "sq", "x": x, "kernel": kn, "assume": a} for x in L for kn in KERNELS for a in (False, True)]
        specs += [{"k": "sq", "x": x, "kernel": "rbf", "assume": a, "form": f} for x in lists(2) for a in (False, True) for f in ("array", "tuples")]
        ctx.enumerate(specs, axis="square_kernel_matrix")
    if only in (None, "km"):
        L1, L2 = lists(3 if q else 3), lists(2 if q else 3)
        specs = [{"k": "km", "x1": a, "x2": b, "kernel": kn} for a in L1 for b in L2 for kn in (["rbf", "asym"] if q else ["rbf", "asym", "poly", "batched"])]
        specs += [{"k": "km", "x1": a, "x2": b, "kernel": kn, "form": "array"} for a in lists(2) for b in lists(2) for kn in ("poly", "batched", "emb")]
        ctx.enumerate(specs, axis="kernel_matrix")
    if only in (None, "qk"):
        Lq = lists(2 if q else 3)
        specs = [{"k": "qk", "fn": "square", "x": x, "assume": a} for x in Lq for a in (False, True)]
        specs += [{"k": "qk", "fn": "rect", "x1": a, "x2": b} for a in lists(2 if q else 2) for b in lists(1 if q else 2)]
        ctx.enumerate(specs, axis="qnode_kernel")
    if only in (None, "ta"):
        specs = []
        for x in lists(nmax, 1):
            for y in itertools.product([1, -1], repeat=len(x)):
                for kn in (["rbf", "poly"] if q else ["rbf", "poly", "emb"]):
                    for rescale in (True, False):
                        for assume in (False, True):
                            specs.append({"k": "ta", "x": x, "y": list(y), "kernel": kn, "rescale": rescale, "assume": assume,
                                          "yform": "array" if len(x) % 2 else "list"})
        ctx.enumerate(specs, axis="alignment")
    if only in (None, "pp"):
        specs = []
        for d in DIAGS3:
            for off in itertools.product(OFF, repeat=3):
                specs.append({"k": "pp", "diag": d, "off": list(off)})
        for off in itertools.product(OFF, repeat=1):
            for d in ([1, 1], [0, 0], [0.9, 0.9], [2, 0]):
                specs.append({"k": "pp", "diag": d, "off": list(off)})
        # spectra of every sign pattern: negative-definite, negative-semidefinite, 1x1, mixed (the "matrix of kernel values" clause holds for any symmetric input)
        for d1 in (-0.3, 0.0, 0.7):
            specs.append({"k": "pp", "diag": [d1], "off": []})
        for d in itertools.product([-1.0, -0.3, 0.0, 1.0], repeat=2):
            for off in itertools.product(OFF, repeat=1):
                specs.append({"k": "pp", "diag": list(d), "off": list(off)})
        for d in ([-1, -1, -1], [-2, -1, -0.5], [-1, 0, 1], [0, 0, 0], [-3, -3, 0]):
            for off in itertools.product(OFF, repeat=3):
                specs.append({"k": "pp", "diag": d, "off": list(off)})
        off4 = [-1.0, 0.0, 1.0] if q else OFF
        for off in itertools.product(off4, repeat=6):
            specs.append({"k": "pp", "diag": [1, 1, 1, 1], "off": list(off)})
        for off in itertools.product([-1.0, 0.5], repeat=6):
            specs.append({"k": "pp", "diag": [0, 1, 2, 0.5], "off": list(off), "scale": 1e3})
            specs.append({"k": "pp", "diag": [1, 1, 1, 1], "off": list(off), "scale": 1e-6})
        ctx.enumerate(specs, axis="postprocessing")
    if only in (None, "sdp"):
        specs = [{"k": "sdp", "diag": [1, 1, 1], "off": list(off)} for off in itertools.product(OFF, repeat=3)]
        specs += [{"k": "sdp", "diag": d, "off": [o]} for d in ([1, 1], [0.9, 0.9]) for o in (1.0, 0.5, -1.0)]
        if not q:
            specs += [{"k": "sdp", "diag": [1, 1, 1, 1], "off": list(off)} for off in itertools.product([-1.0, 0.5, 1.0], repeat=6)]
            specs += [{"k": "sdp", "diag": [1, 1, 1], "off": list(off), "solver": "SCS"} for off in itertools.product([-1.0, 1.0], repeat=3)]
        ctx.enumerate(specs, axis="closest_psd_fix_diagonal", chunk=4)
    ctx.coverage["alphabet"] = {"point_pool": POOL, "kernels": KERNELS + ["asym (argument order probe)", "qnode AngleEmbedding kernel"],
                                "labels": "all +-1 vectors", "matrix_offdiag": OFF, "matrix_diagonals_3x3": DIAGS3,
                                "flags": ["assume_normalized_kernel", "rescale_class_labels", "normalize", "fix_diagonal"]}
    ctx.coverage["bound"] = {"max_points": nmax, "matrix_sizes": [2, 3, 4], "sdp_accuracy": 1e-4}
