"""C11 — declared decomposition resources match the emitted gates (DESIGN §5.2).

E1 over the shared C10 enumeration (mc/x_decomp.py).  Oracle: multiset of compressed resource representations of the
recorded gates (Conditional unwrapped, Allocate/Deallocate excluded) == rule.compute_resources(...).gate_counts for
exact rules, emitted types subset of declared types for inexact rules; dynamically allocated wires alive at once <=
declared total and per kind <= declared count of that kind."""
from collections import Counter

from mc.engine import ok, bad, skip

PROPERTY = "C11"
LEVEL = "exploration"
TECHNIQUE = "exhaustive sweep registry x instance catalogue x applicable rules: recorded gate multiset vs. declared resources"
LEVEL_TEXT = ("Same finite instance table as C10 (every registry key plus generic Adjoint/Pow/Controlled families, fixed parameter, wire, "
              "control-value, work-wire and power alphabets). For every applicable rule the recorded queue is abstracted with "
              "pennylane.core.operator.abstractify and compared with the declared gate counts (equality if exact, subset of types if "
              "inexact) and with the declared work-wire specification (peak simultaneous allocations, per kind).")
LEVEL_NOTE = ("Uses PennyLane's own abstractify() to form the compressed representation (the property defines the comparison in those "
              "terms). Only the recipes of the instance table are covered; resource functions may still be wrong for other sizes.")
DESIGN_REF = "5.2 C11"
PARALLEL = True
RULE = "one case per (registry key, instance expression, rule name); non-trivial = rule applicable and emits >=1 gate"


def _fmt(c):
    return {str(k): int(v) for k, v in sorted(c.items(), key=lambda kv: str(kv[0]))}


def _canon(k, drop):
    """Hashable canonical form of a compressed resource representation with the argument names in `drop` removed."""
    if hasattr(k, "op_type") and hasattr(k, "params"):
        name, items = k.op_type.__name__, k.params
    elif hasattr(k, "arguments"):
        name, items = type(k).__name__, k.arguments
    elif isinstance(k, dict):
        return tuple(sorted((repr(_canon(a, drop)), _canon(b, drop)) for a, b in k.items()))
    elif isinstance(k, (list, tuple)):
        return tuple(_canon(x, drop) for x in k)
    else:
        return repr(k)
    return (name, tuple(sorted((str(n), _canon(v, drop)) for n, v in items.items() if n not in drop)))


def _family(rule):
    import re

    return re.sub(r"\(.*\)", "(*)", rule)


def _agree(actual, declared, exact, drop):
    a = Counter()
    for k, v in actual.items():
        a[_canon(k, drop)] += v
    d = Counter()
    for k, v in declared.items():
        d[_canon(k, drop)] += v
    return a == d if exact else all(k in d for k in a)


def check(spec):
    from mc import x_decomp as X
    from pennylane.allocation import Allocate, Deallocate
    from pennylane.core.operator import abstractify

    op, rules = X.instance(spec["expr"])
    rule = rules.get(spec["rule"])
    if rule is None:
        return bad(f"rule-vanished:{spec['key']}:{spec['rule']}", None, spec["rule"])
    params = X.decomp_args(op)[0]
    if not rule.is_applicable(**params):
        return ok(outcome="inapplicable", nontrivial=False)
    try:
        queue = X.emit(op, rule)
    except Exception as e:  # noqa: BLE001 - decided (and reported) by C10
        if isinstance(e, (ImportError, MemoryError, OSError)):
            raise
        return skip(f"rule-raised:{type(e).__name__} (reported by C10)")
    actual = Counter()
    for o in queue:
        if isinstance(o, (Allocate, Deallocate)):
            continue
        if type(o).__name__ == "Conditional":
            o = o.base
        actual[abstractify(o)] += 1
    declared = Counter({k: v for k, v in rule.compute_resources(**params).gate_counts.items() if v > 0})
    tag = f"{spec['key']}:{spec['rule']}"
    # the declaration must not depend on how often (or in which order) it was asked for: query it twice more, the second time
    # with a rebuilt instance, and demand the same answer (catches shared/cached resource dicts that are mutated in place)
    for again in (params, X.decomp_args(X.instance(spec["expr"])[0])[0]):
        declared2 = Counter({k: v for k, v in rule.compute_resources(**again).gate_counts.items() if v > 0})
        if declared2 != declared:
            return bad(f"declared-resources-change-between-queries:{tag}", _fmt(declared2), _fmt(declared), expr=spec["expr"])
    exact = bool(rule.exact_resources)
    fine = (actual == declared) if exact else all(k in declared for k in actual)
    if not fine:
        # narrow classes first: representations that differ only in the work-wire arguments of controlled operators
        if _agree(actual, declared, exact, ("work_wire_type",)):
            return bad(f"work-wire-type-mismatch:{_family(spec['rule'])}", _fmt(actual), _fmt(declared), expr=spec["expr"], rule=spec["rule"])
        if _agree(actual, declared, exact, ("work_wire_type", "work_wires", "num_work_wires")):
            return bad(f"work-wire-args-mismatch:{_family(spec['rule'])}", _fmt(actual), _fmt(declared), expr=spec["expr"], rule=spec["rule"])
        if exact:
            return bad(f"exact-count-mismatch:{tag}", _fmt(actual), _fmt(declared), expr=spec["expr"])
        extra = [k for k in actual if k not in declared]
        return bad(f"undeclared-gate-type:{tag}", _fmt(Counter({k: actual[k] for k in extra})), sorted(str(k) for k in declared),
                   expr=spec["expr"])
    lay = X.Layout(op, queue)
    ww = rule.get_work_wire_spec(**params)
    if lay.max_alive > ww.total:
        return bad(f"work-wires-exceed-declared-total:{tag}", lay.max_alive, ww.total, expr=spec["expr"])
    for kind in ("zeroed", "borrowed", "burnable", "garbage"):
        if lay.peak_kind.get(kind, 0) > getattr(ww, kind):
            return bad(f"work-wires-exceed-declared-{kind}:{tag}", lay.peak_kind.get(kind, 0), getattr(ww, kind), expr=spec["expr"])
    other = [k for k in lay.peak_kind if k not in ("zeroed", "borrowed", "burnable", "garbage") and lay.peak_kind[k]]
    return ok(outcome=[spec["key"], spec["rule"], bool(rule.exact_resources), len(actual), sum(actual.values()), ww.total, lay.max_alive, other],
              nontrivial=sum(actual.values()) > 0)


def run(ctx):
    from mc import x_decomp as X

    cases, cov = X.enumerate_cases(ctx.tier)
    ctx.enumerate(cases, axis="(key, instance, rule)")
    ctx.coverage.update(cov)
