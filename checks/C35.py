"""C35 — Generated shift rules are exact for their frequency spectra (DESIGN §5.6).

E1, fully exhaustive over: frequency sets (every non-empty subset of {1,2,3,4} (thorough {1..5}), half-integer
sets, non-commensurate sets, a dense set, permuted input orders) x shift modes (default, the default shifts
passed explicitly, default with one shift narrowly perturbed, a fixed generic custom set) x order 1..4; and for
generate_multi_shift_rule every ordered pair (thorough: also triples) of a sub-alphabet x shift modes x orders.

Oracle: the rule is a linear functional, so it is exact on every trigonometric polynomial with the given
frequencies iff it is exact on the basis {1, cos(w x), sin(w x)}; the analytic derivatives of the basis are
closed-form.  sum_i c_i f(x + s_i) is compared with the analytic derivative at the points {0, 0.37, pi, -1.21}
to 1e-9 * max(1, sum|c_i|) * max(1, cond) (cond = condition number of the sine system the rule has to solve;
1 on the closed-form branch).  Shift sets for which no well-conditioned rule exists (cond > 1e6) are skipped:
the implementation documents a warning for them."""
import itertools
import math

from mc.engine import ok, bad, skip

PROPERTY = "C35"
LEVEL = "exploration"
TECHNIQUE = "exhaustive frequency-set x shift-mode x order grid; exactness on the full trigonometric basis (linearity argument)"
LEVEL_TEXT = ("Every non-empty subset of {1,2,3,4} (thorough {1..5}) plus half-integer, non-commensurate, dense and permuted frequency "
              "sets x 6 shift modes x derivative order 1..4, and all ordered pairs (thorough: triples) for the multi-parameter rule, "
              "are evaluated; each rule is applied to the complete basis 1, cos(wx), sin(wx) (products for multi) at 4 points and "
              "compared with the analytic derivative. Exactness on the basis is exactness on every trigonometric polynomial.")
LEVEL_NOTE = ("Reference = closed-form derivatives of sin/cos. Tolerance 1e-9 scaled by the rule's l1 norm and the conditioning of the "
              "sine system. Shift sets with a (near-)singular sine system (cond > 1e6) are skipped. Frequencies outside the alphabet "
              "and more than 6 frequencies are not explored.")
DESIGN_REF = "5.6 C35"
PARALLEL = False
RULE = ("full grid frequency set x shift mode x order (single) and ordered tuples x shift mode x orders (multi); "
        "non-trivial = more than one frequency or order > 1")

SQRT2 = 1.4142135623730951
EXTRA_SETS = [[0.5], [1.5], [0.5, 1.5], [1.5, 2.5], [0.5, 1.0, 1.5], [1, SQRT2], [0.3, 1, 2.7], [1, 2, 3, 4, 5, 6],
              [3, 1, 2], [4, 2], [2, 1], [4, 1, 3], [2.0, 4.0], [1, 2.5]]
SHIFT_MODES = ["default", "explicit-default", "explicit-default-reversed", "near-default", "custom", "custom-reversed"]
CUSTOM = [0.4, 1.1, 1.9, 2.6, 0.75, 2.2]
POINTS = [0.0, 0.37, math.pi, -1.21]
MULTI_SETS = [[1], [2], [1, 2], [1, 2, 3], [1, 3, 4], [0.5, 1.0, 1.5], [2, 3], [1, SQRT2]]
MULTI_ORDERS = [[1, 1], [2, 1], [1, 2], [2, 2]]
TOL = 1e-9
COND_MAX = 1e6


def default_shifts(freqs):
    R, fmin = len(freqs), min(freqs)
    return [(2 * mu - 1) * math.pi / (2 * R * fmin) for mu in range(1, R + 1)]


def shifts_for(freqs, mode):
    """-> (argument passed to PennyLane, shifts actually used by the rule)"""
    d = default_shifts(freqs)
    if mode == "default":
        return None, d
    if mode == "explicit-default":
        return tuple(d), d
    if mode == "explicit-default-reversed":  # the same shift set handed over in descending order (order must not matter)
        return tuple(reversed(d)), d
    if mode == "custom-reversed":
        return tuple(reversed(CUSTOM[: len(freqs)])), CUSTOM[: len(freqs)]
    if mode == "near-default":
        s = list(d)
        s[-1] += 1e-3
        return tuple(s), s
    return tuple(CUSTOM[: len(freqs)]), CUSTOM[: len(freqs)]


def classify(freqs, mode):
    """Which construction the documentation/source selects (used only to name the failure class)."""
    fs = sorted(freqs)
    diffs = {round(b - a, 10) for a, b in zip(fs, fs[1:])}
    equidistant_spacing = len(diffs) <= 1
    harmonic = all(abs(f - fs[0] * (i + 1)) < 1e-9 for i, f in enumerate(fs))
    if equidistant_spacing and mode in ("default", "explicit-default", "explicit-default-reversed"):
        return "closed-form" if harmonic else "closed-form-on-non-harmonic-spectrum"
    return "linear-solve"


def deriv_trig(kind, w, order, x):
    """d^order/dx^order of cos(w x) / sin(w x) / 1."""
    if kind == "one":
        return 1.0 if order == 0 else 0.0
    k = order % 4
    if kind == "cos":
        return w ** order * [math.cos, lambda t: -math.sin(t), lambda t: -math.cos(t), math.sin][k](w * x)
    return w ** order * [math.sin, math.cos, lambda t: -math.sin(t), lambda t: -math.cos(t)][k](w * x)


def basis(freqs):
    return [("one", 0.0)] + [(k, float(w)) for w in freqs for k in ("cos", "sin")]


def cond_of(freqs, shifts):
    import numpy as np

    S = np.sin(np.outer(np.asarray(shifts, dtype=float), np.asarray(sorted(freqs), dtype=float)))
    return float(np.linalg.cond(S))


def _clear_caches():
    from pennylane.gradients import general_shift_rules as g

    for name in ("generate_shift_rule", "_get_shift_rule", "frequencies_to_period", "eigvals_to_frequencies"):
        f = getattr(g, name, None)
        if f is not None and hasattr(f, "cache_clear"):
            f.cache_clear()


def _call(fn, *args, **kw):
    """Call with warnings recorded. -> (result or None, exception or None, [warning messages])"""
    import warnings

    with warnings.catch_warnings(record=True) as wl:
        warnings.simplefilter("always")
        try:
            return fn(*args, **kw), None, [str(w.message) for w in wl]
        except Exception as e:  # judged by the caller
            return None, e, [str(w.message) for w in wl]


def check(spec):
    import numpy as np
    from pennylane.gradients import generate_shift_rule

    _clear_caches()  # lru_cache'd functions: make the verdict a pure function of the spec
    freqs, mode, order = spec["freqs"], spec["shifts"], spec["order"]
    arg, used = shifts_for(freqs, mode)
    cls = classify(freqs, mode)
    cond = 1.0 if cls != "linear-solve" else cond_of(freqs, used)
    rule, exc, warns = _call(generate_shift_rule, tuple(freqs), arg, order)
    if cond > COND_MAX:
        return skip("no well-conditioned rule exists for these shifts (sine system singular)", warned=bool(warns))
    if exc is not None:
        return bad(f"single:raised:{cls}", f"{type(exc).__name__}: {exc}"[:300], "a shift rule")
    rule = np.asarray(rule, dtype=float)
    if rule.ndim != 2 or rule.shape[1] != 2 or not np.all(np.isfinite(rule)):
        return bad(f"single:malformed:{cls}", rule.tolist(), "(M, 2) finite array")
    c, s = rule[:, 0], rule[:, 1]
    l1 = float(np.sum(np.abs(c)))
    wmax = max(float(w) for w in freqs)
    tol = TOL * max(1.0, l1) * max(1.0, cond)
    worst = 0.0
    for kind, w in basis(freqs):
        f = {"one": lambda t: np.ones_like(t), "cos": lambda t: np.cos(w * t), "sin": lambda t: np.sin(w * t)}[kind]
        for x in POINTS:
            got = float(np.sum(c * f(x + s)))
            want = deriv_trig(kind, w, order, x)
            err = abs(got - want)
            worst = max(worst, err / tol)
            if not err <= tol:
                return bad(f"single:inexact:{cls}", got, want, basis=[kind, w], x=x, order=order, rule=rule.tolist(), tol=tol,
                           warned=bool(warns))
    return ok([cls, len(freqs), order, int(rule.shape[0]), round(l1, 6), round(wmax ** order, 6)], nontrivial=len(freqs) > 1 or order > 1)


def check_multi(spec):
    import numpy as np
    from pennylane.gradients import generate_multi_shift_rule

    _clear_caches()
    fsets, mode, orders = spec["freqs"], spec["shifts"], spec["orders"]
    args, conds, classes = [], [], []
    for fr in fsets:
        arg, used = shifts_for(fr, mode)
        args.append(arg)
        cl = classify(fr, mode)
        classes.append(cl)
        conds.append(1.0 if cl != "linear-solve" else cond_of(fr, used))
    cls = "closed-form-on-non-harmonic-spectrum" if "closed-form-on-non-harmonic-spectrum" in classes else (
        "linear-solve" if "linear-solve" in classes else "closed-form")
    if max(conds) > COND_MAX:
        return skip("no well-conditioned rule exists for these shifts (sine system singular)")
    kw = {}
    if mode != "default":
        kw["shifts"] = args
    if spec.get("pass_orders", True):
        kw["orders"] = list(orders)
    rule, exc, warns = _call(generate_multi_shift_rule, [tuple(f) for f in fsets], **kw)
    if exc is not None:
        return bad(f"multi:raised:{cls}", f"{type(exc).__name__}: {exc}"[:300], "a shift rule")
    rule = np.asarray(rule, dtype=float)
    P = len(fsets)
    if rule.ndim != 2 or rule.shape[1] != P + 1 or not np.all(np.isfinite(rule)):
        return bad(f"multi:malformed:{cls}", rule.tolist(), f"(M, {P + 1}) finite array")
    c = rule[:, 0]
    l1 = float(np.sum(np.abs(c)))
    tol = TOL * max(1.0, l1) * max(1.0, float(np.prod(conds)))
    pts = [[POINTS[(i + j) % len(POINTS)] for j in range(P)] for i in (1, 3)]
    for combo in itertools.product(*[basis(fr) for fr in fsets]):
        for x in pts:
            vals = np.ones_like(c)
            want = 1.0
            for j, (kind, w) in enumerate(combo):
                t = x[j] + rule[:, 1 + j]
                vals = vals * (np.ones_like(t) if kind == "one" else np.cos(w * t) if kind == "cos" else np.sin(w * t))
                want *= deriv_trig(kind, w, orders[j], x[j])
            got = float(np.sum(c * vals))
            if not abs(got - want) <= tol:
                return bad(f"multi:inexact:{cls}", got, want, basis=[list(b) for b in combo], x=x, orders=orders, tol=tol)
    return ok([cls, [len(f) for f in fsets], orders, int(rule.shape[0]), round(l1, 6)], nontrivial=True)


def check_invalid(spec):
    from pennylane.gradients import generate_shift_rule

    _clear_caches()
    freqs, sh = tuple(spec["freqs"]), None if spec["shifts"] is None else tuple(spec["shifts"])
    rule, exc, _ = _call(generate_shift_rule, freqs, sh, 1)
    if isinstance(exc, ValueError):
        return ok("ValueError")
    return bad("invalid:accepted", repr(rule) if exc is None else f"{type(exc).__name__}: {exc}", "ValueError (documented)")


INVALID = [
    {"freqs": [1, 1], "shifts": None}, {"freqs": [1, 2, 2], "shifts": None},
    {"freqs": [1, 2], "shifts": [0.4]}, {"freqs": [1, 2], "shifts": [0.4, 1.1, 1.9]}, {"freqs": [1, 2], "shifts": [0.4, 0.4]},
]


def run(ctx):
    top = 4 if ctx.quick else 5
    subsets = [list(c) for n in range(1, top + 1) for c in itertools.combinations(range(1, top + 1), n)]
    sets = subsets + EXTRA_SETS
    singles = [{"freqs": f, "shifts": m, "order": o} for f in sets for m in SHIFT_MODES for o in (1, 2, 3, 4)]
    singles.sort(key=lambda s: (len(s["freqs"]) * s["order"], s["order"]))
    ctx.enumerate(singles, fn="check", axis="single")
    multi = []
    modes = ["default", "custom"]
    for a in MULTI_SETS:
        for b in MULTI_SETS:
            for m in modes:
                for o in MULTI_ORDERS:
                    multi.append({"freqs": [a, b], "shifts": m, "orders": o})
            multi.append({"freqs": [a, b], "shifts": "default", "orders": [1, 1], "pass_orders": False})
    if not ctx.quick:
        small = MULTI_SETS[:4] + [[2, 3]]
        for a, b, c3 in itertools.product(small, repeat=3):
            for o in ([1, 1, 1], [1, 2, 1]):
                multi.append({"freqs": [a, b, c3], "shifts": "default", "orders": o})
    ctx.enumerate(multi, fn="check_multi", axis="multi")
    ctx.enumerate(INVALID, fn="check_invalid", axis="invalid", parallel=False)
    ctx.coverage["alphabet"] = {"frequency_sets": sets, "shift_modes": SHIFT_MODES, "custom_shifts": CUSTOM, "orders": [1, 2, 3, 4],
                                "multi_sets": MULTI_SETS, "multi_orders": MULTI_ORDERS, "points": POINTS,
                                "basis": "1, cos(w x), sin(w x) for every w (products for multi)"}
    ctx.coverage["bound"] = {"max_frequencies": 6, "max_order": 4, "multi_parameters": 2 if ctx.quick else 3, "tolerance": TOL, "cond_max": COND_MAX}
