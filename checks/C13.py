"""C13 — measurement-based decomposition rules act deterministically on every outcome branch (DESIGN §5.2).

E4 over the shared C10 instance enumeration: every rule whose recorded circuit contains a mid-circuit or Pauli-product
measurement (discovered at run time; rules gated on an active compiler are additionally run with that gate forced open).
mc.refsim.run_branches walks the full outcome tree for every admissible computational-basis input, which determines the
linear branch map K_h completely.  Oracle: K_h = (phase * sqrt(p_h)) * U (x) |aux_h>, sum p_h = 1, aux wires |0> where
promised and identical in every branch."""
from mc.engine import ok, bad, skip

PROPERTY = "C13"
LEVEL = "exploration"
TECHNIQUE = "full measurement-outcome tree of every MCM/PPM decomposition rule, per-branch linear map vs. operator matrix"
LEVEL_TEXT = ("For every rule of the decomposition registry whose recorded circuit contains MidMeasure/PauliMeasure (found by recording "
              "every rule on the shared C10 instance table), all 2^k outcome histories are enumerated with the reference branch "
              "simulator on every admissible basis input (a basis of the input space, so each branch's linear map is fully "
              "determined) and compared with the operator's matrix up to one phase per branch.")
LEVEL_NOTE = ("Pauli-product measurements are simulated through the textbook parity gadget (ancilla + CNOTs + computational-basis "
              "measurement) so that mc.refsim.run_branches applies. PennyLane documents PPM circuits as not executable on any backend, "
              "so the implementation-side cross-check (default.qubit, tree-traversal) runs only for computational-basis MCM rules. "
              "Rules whose applicability condition requires an active compiler are exercised with pennylane.compiler.active patched to "
              "True (harness side) and reported on a separate axis.")
DESIGN_REF = "5.2 C13"
PARALLEL = True
RULE = ("one case per (instance, rule) of the shared enumeration; non-trivial = the recorded rule contains >=1 measurement and >=2 "
        "outcome branches were compared")
ASSUMPTIONS = ["outcome 1 of a Pauli-product measurement <-> eigenvalue -1 (pauli_measure docstring)",
               "TemporaryAND / Adjoint(TemporaryAND) only on their documented domain (target |0> in / out)"]


DEEPEN = ["Hadamard", "CNOT", "CY", "CZ", "Adjoint(TemporaryAND)", "QROM", "Adjoint(QROM)"]


def _patched(force):
    from contextlib import nullcontext
    from unittest import mock

    return mock.patch("pennylane.compiler.active", return_value=True) if force else nullcontext()


def check(spec):
    import numpy as np
    from mc import x_decomp as X

    force = bool(spec.get("force_compiler"))
    if force:
        op = X.build(spec["expr"])
    with _patched(force):
        if force:
            rule = dict(X.rules_for(op)).get(spec["rule"])
        else:
            op, rules = X.instance(spec["expr"])
            rule = rules.get(spec["rule"])
        if rule is None:
            return bad(f"rule-vanished:{spec['key']}:{spec['rule']}", None, spec["rule"])
        params = X.decomp_args(op)[0]
        if not rule.is_applicable(**params):
            return ok(outcome="inapplicable", nontrivial=False)
        try:
            queue = X.emit(op, rule)
        except Exception as e:  # noqa: BLE001 - decided (and reported) by C10
            if isinstance(e, (ImportError, MemoryError, OSError)):
                raise
            return skip(f"rule-raised:{type(e).__name__} (reported by C10)")
    if not X.has_measurement(queue):
        return ok(outcome="no-measurement", nontrivial=False)
    try:
        sim_ops = X.expand_for_sim(queue)
        lay = X.Layout(op, sim_ops)
        legacy = None if getattr(op, "has_matrix", False) else X.legacy_ops(op)
        v, info = X.verify_branches(op, lay, legacy)
    except X.TooBig as e:
        return skip(f"too-big:{e}")
    except X.Unsimulable as e:
        return skip(f"unsimulable:{e}")
    if force and info.get("source") == "legacy-decomposition":
        return skip("compiler-gated rule without an independent reference")
    if v is not None:
        tag, obs, exp = v
        return bad(f"{tag}:{spec['key']}:{spec['rule']}", obs, exp, expr=spec["expr"], source=info.get("source"))
    cross = "n/a(ppm)"
    if not any(type(o).__name__ == "PauliMeasure" for o in lay.ops) and not lay.dyn:
        _z, _k, Ud, cols, _s = X.domain_and_reference(op, lay, legacy)
        rho, want = X.run_on_device(op, lay, cols, Ud)
        if float(np.max(np.abs(rho - want))) > 1e-7:
            return bad(f"device-crosscheck:{spec['key']}:{spec['rule']}", X._small(rho), X._small(want), expr=spec["expr"])
        cross = "device-agrees"
    return ok(outcome=[spec["key"], spec["rule"], info["measurements"], info["branches"], info["source"], cross],
              nontrivial=info["branches"] >= 2)


def run(ctx):
    from mc import x_decomp as X

    cases, cov = X.enumerate_cases(ctx.tier)
    ctx.enumerate(cases, axis="(key, instance, rule)")
    gated = X.compiler_gated_cases(ctx.tier)
    ctx.enumerate(gated, axis="compiler-gated rules (gate forced open)")
    # deepening: the operators that have measurement-based rules today get the thorough instance table in every tier
    # (discovery itself stays dynamic: the sweep above records every rule of every key)
    deep = X.cases_for_keys(DEEPEN, "thorough", exclude=cases)
    ctx.enumerate(deep, axis="deepened instance table of operators with MCM rules")
    deep_gated = X.compiler_gated_cases("thorough", only=deep)
    ctx.enumerate(deep_gated, axis="compiler-gated rules, deepened")
    ctx.coverage.update(cov)
    ctx.coverage["compiler_gated_cases"] = len(gated) + len(deep_gated)
    ctx.coverage["deepened_keys"] = DEEPEN
    ctx.coverage["alphabet"]["inputs"] = "every admissible computational-basis input of op.wires (spans the input space)"
    ctx.coverage["bound"]["outcome_histories"] = "all 2^k"
