"""C05 — Result caching never changes results (DESIGN §5.1).

E3: explicit-state exploration of execution histories: every batch (word over a tape alphabet built around
hash-colliding candidates) x every cache kind (True, LRUCache(1), LRUCache(2), a user dict reused across two
consecutive qp.execute calls); oracle = the same batch with cache=False on a fresh analytic default.qubit,
compared per tape WITHOUT phase allowance (the property includes the raw state).
E1: collision pairs — every parametrised gate name x parameter shift (2pi, 4pi) x symbolic wrapper x measurement.
"""
import itertools
import math

from mc.engine import ok, bad, skip
from mc.explore import words

PROPERTY = "C05"
LEVEL = "model_checking"
TECHNIQUE = "explicit-state exploration of cached execution histories (batch words x cache kinds) against uncached execution; exhaustive hash-collision pair enumeration"
LEVEL_TEXT = ("All batches of length <=2 (thorough 3) over 14 tapes that differ only by 2pi/4pi shifts, wires, trainable indices, wrappers or measurement, "
              "under cache=True, LRUCache(1), LRUCache(2) and a dict shared by two consecutive executions, plus all (gate, shift, wrapper, measurement) "
              "collision pairs for 16 parametrised gates, are executed with and without caching and compared exactly.")
LEVEL_NOTE = ("Reference = the same execution with cache=False. Only default.qubit analytic mode; parameters from a fixed alphabet; "
              "QNode-level cache='auto' paths are exercised through qp.execute only.")
DESIGN_REF = "5.1 C05"
RULE = "history = sequence of qp.execute calls on one cache; non-trivial = at least one cache hit (a tape hash seen before in the history)"

G = 0.3
TWO_PI_GROUP = ("RX", "RY", "RZ", "PhaseShift", "Rot", "U1", "U2", "U3")


def _tape(letter):
    import pennylane as qp
    import numpy as np

    g = G
    two, four = 2 * math.pi, 4 * math.pi
    probs = [qp.probs(wires=[0, 1]), qp.expval(qp.Z(0))]
    T = {
        "A": ([qp.RX(g, 0), qp.CNOT([0, 1])], probs),
        "A'": ([qp.RX(g, 0), qp.CNOT([0, 1])], probs),
        "A2": ([qp.RX(g + two, 0), qp.CNOT([0, 1])], probs),
        "A4": ([qp.RX(g + four, 0), qp.CNOT([0, 1])], probs),
        "B": ([qp.RX(g, 1), qp.CNOT([1, 0])], probs),
        "D": ([qp.RX(g + 1e-3, 0), qp.CNOT([0, 1])], probs),
        "E": ([qp.RX(g, 0), qp.CNOT([0, 1])], [qp.probs(wires=[1, 0]), qp.expval(qp.Z(0))]),
        "P": ([qp.pow(qp.RX(g, 0), 0.5), qp.CNOT([0, 1])], probs),
        "P2": ([qp.pow(qp.RX(g + two, 0), 0.5), qp.CNOT([0, 1])], probs),
        "K": ([qp.H(1), qp.ctrl(qp.adjoint(qp.RZ(g, 0)), control=[1]), qp.H(1)], probs),
        "K2": ([qp.H(1), qp.ctrl(qp.adjoint(qp.RZ(g + two, 0)), control=[1]), qp.H(1)], probs),
        "S": ([qp.RX(g, 0), qp.CNOT([0, 1])], [qp.state()]),
        "S2": ([qp.RX(g + two, 0), qp.CNOT([0, 1])], [qp.state()]),
        "C": ([qp.CRX(g, [0, 1]), qp.H(0)], probs),
        "C2": ([qp.H(0), qp.CRX(g + two, [0, 1]), qp.H(0)], probs),
    }
    ops, ms = T[letter]
    t = qp.tape.QuantumScript(ops, ms)
    if letter == "A'":
        t.trainable_params = []
    return t


LETTERS = ["A", "A'", "A2", "A4", "B", "D", "E", "P", "P2", "K", "K2", "S", "S2", "C"]


def _flat(r):
    import numpy as np

    if isinstance(r, (tuple, list)):
        return [_flat(x) for x in r]
    return np.asarray(r)


def _same(a, b):
    import numpy as np

    if isinstance(a, list):
        return isinstance(b, list) and len(a) == len(b) and all(_same(x, y) for x, y in zip(a, b))
    return a.shape == b.shape and bool(np.allclose(a, b, atol=1e-9, rtol=0))


def _mk_cache(kind):
    if kind == "true":
        return True
    if kind.startswith("lru"):
        from cachetools import LRUCache

        return LRUCache(maxsize=int(kind[3:]))
    return {}


def check_history(spec):
    """spec: {"cache": kind, "calls": [[letters...], ...]} — consecutive qp.execute calls sharing the cache
    object (for cache=True each call gets its own internal cache)."""
    import pennylane as qp

    kind, calls = spec["cache"], spec["calls"]
    cache = _mk_cache(kind)
    seen_hashes = {}
    hits = 0
    dev = qp.device("default.qubit")
    for ci, letters in enumerate(calls):
        tapes = [_tape(l) for l in letters]
        ref_dev = qp.device("default.qubit")
        ref = [_flat(r) for r in qp.execute(tapes, ref_dev, cache=False)] if tapes else []
        try:
            got = [_flat(r) for r in qp.execute(tapes, dev, cache=cache)] if tapes else []
        except RuntimeError as e:
            if "missing from the execution cache" in str(e):
                return bad(f"cache-raised:{kind}", str(e), "results", call=ci)
            raise
        except KeyError as e:
            # a bounded user cache: an entry that was a HIT when the batch was split is evicted by a later miss of the same batch
            # before the hit's post-processing reads it
            import traceback

            if kind.startswith("lru") and "cache_hit_postprocessing" in traceback.format_exc():
                return bad("history:bounded-cache:hit-evicted-before-postprocessing:KeyError", f"KeyError: {e}", "the results of cache=False",
                           call=ci, cache=kind)
            raise
        if kind == "true":
            seen_hashes = {}
        for i, (l, t) in enumerate(zip(letters, tapes)):
            h = t.hash
            prev = seen_hashes.get(h)
            if prev is not None:
                hits += 1
            if not _same(got[i], ref[i]):
                # the partner is a DIFFERENT letter with the same hash: seen before, or earlier/later in this very batch
                same_hash = ([prev] if prev is not None else []) + [x for x, tx in zip(letters, tapes) if tx.hash == h]
                others = [x for x in same_hash if x.rstrip("'") != l.rstrip("'")]
                other = others[0] if others else (prev if prev is not None else "?")
                pair = "~".join(sorted([other.rstrip("'"), l.rstrip("'")]))
                return bad(f"history:collide:{pair}", got[i], ref[i], call=ci, position=i, cache=kind)
            seen_hashes.setdefault(h, l)
    return ok(outcome=[hits, len(seen_hashes)], nontrivial=hits > 0)


# ---------------------------------------------------------------------------------------------- collision pairs
GATES = {
    "RX": (1, 1), "RY": (1, 1), "RZ": (1, 1), "PhaseShift": (1, 1), "U1": (1, 1), "Rot": (3, 1), "U2": (2, 1), "U3": (3, 1),
    "CRX": (1, 2), "CRY": (1, 2), "CRZ": (1, 2), "CRot": (3, 2), "ControlledPhaseShift": (1, 2),
    "IsingXX": (1, 2), "IsingZZ": (1, 2), "MultiRZ": (1, 2), "SingleExcitation": (1, 2), "PSWAP": (1, 2),
}
WRAPPERS = ["plain", "adjoint", "pow0.5", "pow2", "ctrl1", "ctrl2", "prod", "sprod"]


def _wrapped(name, params, wrapper):
    import pennylane as qp

    npar, nw = GATES[name]
    wires = list(range(nw))
    base = getattr(qp, name)(*params, wires=wires)
    extra = [nw, nw + 1]
    pre = [qp.RY(0.7, w) for w in wires] + [qp.CNOT([0, 1])] if nw > 1 else [qp.RY(0.7, 0)]
    if wrapper == "plain":
        mid = [base]
    elif wrapper == "adjoint":
        mid = [qp.adjoint(base)]
    elif wrapper == "pow0.5":
        mid = [qp.pow(base, 0.5)]
    elif wrapper == "pow2":
        mid = [qp.pow(base, 2, lazy=True)]
    elif wrapper == "ctrl1":
        mid = [qp.H(extra[0]), qp.ctrl(qp.adjoint(base), control=[extra[0]]), qp.H(extra[0])]
    elif wrapper == "ctrl2":
        mid = [qp.H(extra[0]), qp.H(extra[1]), qp.ctrl(base, control=extra), qp.H(extra[0]), qp.H(extra[1])]
    elif wrapper == "prod":
        mid = [qp.prod(base, qp.X(0))]
    elif wrapper == "sprod":
        mid = [qp.exp(qp.s_prod(1.0, qp.Z(0)), 0.5j), base]
    else:
        raise AssertionError(wrapper)
    post = [qp.RX(0.4, w) for w in wires]
    return pre + mid + post, sorted({w for o in pre + mid + post for w in o.wires})


def check_pair(spec):
    import pennylane as qp

    name, shift, wrapper, meas, which = spec["gate"], spec["shift"], spec["wrapper"], spec["meas"], spec["param"]
    npar, nw = GATES[name]
    p0 = [G + 0.21 * i for i in range(npar)]
    p1 = list(p0)
    p1[which] += shift * math.pi
    tapes = []
    for p in (p0, p1):
        ops, wires = _wrapped(name, p, wrapper)
        ms = [qp.state()] if meas == "state" else [qp.probs(wires=wires)]
        tapes.append(qp.tape.QuantumScript(ops, ms))
    collided = tapes[0].hash == tapes[1].hash
    ref = [_flat(r) for r in qp.execute(tapes, qp.device("default.qubit", wires=tapes[0].wires), cache=False)]
    got = [_flat(r) for r in qp.execute(tapes, qp.device("default.qubit", wires=tapes[0].wires), cache=True)]
    for i in (0, 1):
        if not _same(got[i], ref[i]):
            grp = "2pi-group" if name in TWO_PI_GROUP else name
            nest = "plain" if wrapper in ("plain", "sprod") else "nested"
            return bad(f"collide:{nest}:{grp}:{meas}", got[i], ref[i], gate=name, wrapper=wrapper, shift=f"{shift}pi", hash_equal=collided)
    return ok(outcome=[collided, meas], nontrivial=collided)


# ---------------------------------------------------------------------------------------------- measurement pairs
def _meas_alphabet():
    import pennylane as qp
    import numpy as np

    A = np.array([[0.7, 0.2 - 0.4j], [0.2 + 0.4j, -1.1]])
    M = {
        "eZ0": lambda: qp.expval(qp.Z(0)), "eZ1": lambda: qp.expval(qp.Z(1)), "eX0": lambda: qp.expval(qp.X(0)),
        "vZ0": lambda: qp.var(qp.Z(0)), "eZ0Z1": lambda: qp.expval(qp.Z(0) @ qp.Z(1)), "eZ1Z0": lambda: qp.expval(qp.Z(1) @ qp.Z(0)),
        "e2Z0": lambda: qp.expval(2.0 * qp.Z(0)), "eH": lambda: qp.expval(qp.Hermitian(A, 0)), "eH1": lambda: qp.expval(qp.Hermitian(A, 1)),
        "eHt": lambda: qp.expval(qp.Hermitian(A.T, 0)), "eP0": lambda: qp.expval(qp.Projector([0], 0)), "eP1": lambda: qp.expval(qp.Projector([1], 0)),
        "eSum": lambda: qp.expval(0.5 * qp.X(0) + 2.0 * qp.Z(1)), "eSum2": lambda: qp.expval(2.0 * qp.X(0) + 0.5 * qp.Z(1)),
        "p01": lambda: qp.probs(wires=[0, 1]), "p10": lambda: qp.probs(wires=[1, 0]), "p0": lambda: qp.probs(wires=[0]), "p012": lambda: qp.probs(wires=[0, 1, 2]),
        "state": lambda: qp.state(), "dm0": lambda: qp.density_matrix([0]), "dm01": lambda: qp.density_matrix([0, 1]), "dm10": lambda: qp.density_matrix([1, 0]),
        "pur0": lambda: qp.purity([0]), "pur01": lambda: qp.purity([0, 1]),
        "vn0": lambda: qp.vn_entropy([0]), "vn0b2": lambda: qp.vn_entropy([0], log_base=2), "vn01": lambda: qp.vn_entropy([0, 1]),
        "mi0_1": lambda: qp.mutual_info([0], [1]), "mi0_12": lambda: qp.mutual_info([0], [1, 2]), "mi01_2": lambda: qp.mutual_info([0, 1], [2]),
        "mi0_1b2": lambda: qp.mutual_info([0], [1], log_base=2), "mi1_0": lambda: qp.mutual_info([1], [0]),
    }
    return M


MEAS_NAMES = ["eZ0", "eZ1", "eX0", "vZ0", "eZ0Z1", "eZ1Z0", "e2Z0", "eH", "eH1", "eHt", "eP0", "eP1", "eSum", "eSum2", "p01", "p10", "p0", "p012",
              "state", "dm0", "dm01", "dm10", "pur0", "pur01", "vn0", "vn0b2", "vn01", "mi0_1", "mi0_12", "mi01_2", "mi0_1b2", "mi1_0"]


def check_meas_pair(spec):
    """Two tapes with identical operations and different measurement processes through one cache."""
    import pennylane as qp

    M = _meas_alphabet()
    ops = lambda: [qp.RY(0.7, 0), qp.RX(0.4, 1), qp.CNOT([0, 1]), qp.RY(1.1, 2), qp.CNOT([1, 2]), qp.RX(0.3, 0)]
    tapes = [qp.tape.QuantumScript(ops(), [M[spec["m1"]]()]), qp.tape.QuantumScript(ops(), [M[spec["m2"]]()])]
    ref = [_flat(r) for r in qp.execute(tapes, qp.device("default.qubit", wires=3), cache=False)]
    cache = {} if spec["cache"] == "dict" else True
    if spec["cache"] == "dict":
        got = [_flat(qp.execute([t], qp.device("default.qubit", wires=3), cache=cache)[0]) for t in tapes]
    else:
        got = [_flat(r) for r in qp.execute(tapes, qp.device("default.qubit", wires=3), cache=cache)]
    for i in (0, 1):
        if not _same(got[i], ref[i]):
            kinds = sorted({spec["m1"].rstrip("0123456789_b"), spec["m2"].rstrip("0123456789_b")})
            return bad("measurement-collide:" + "~".join(kinds), got[i], ref[i], m1=spec["m1"], m2=spec["m2"])
    return ok(outcome=[tapes[0].hash == tapes[1].hash], nontrivial=spec["m1"] != spec["m2"])


def run(ctx):
    n = 2 if ctx.quick else 3
    batches = list(words(LETTERS, n, 1))
    specs = []
    for kind in ("true", "lru1", "lru2"):
        for b in batches:
            specs.append({"cache": kind, "calls": [b]})
    singles = [[l] for l in LETTERS]
    for first in singles + ([] if ctx.quick else [b for b in batches if len(b) == 2][::7]):
        for second in [b for b in batches if len(b) <= 2]:
            specs.append({"cache": "dict", "calls": [first, second]})
            if not ctx.quick or len(second) == 1:
                specs.append({"cache": "lru1", "calls": [first, second]})
    ctx.enumerate(specs, fn="check_history", axis="histories")
    pairs = []
    for name, (npar, nw) in GATES.items():
        for which in range(npar):
            for shift in (2, 4):
                for wrapper in WRAPPERS:
                    for meas in ("probs", "state"):
                        pairs.append({"gate": name, "param": which, "shift": shift, "wrapper": wrapper, "meas": meas})
    ctx.enumerate(pairs, fn="check_pair", axis="collision-pairs")
    ctx.enumerate([{"m1": a, "m2": b, "cache": k} for a in MEAS_NAMES for b in MEAS_NAMES for k in (("true",) if ctx.quick else ("true", "dict"))],
                  fn="check_meas_pair", axis="measurement-pairs")
    ctx.coverage.update({
        "states": len(specs), "transitions": sum(sum(len(c) for c in s["calls"]) for s in specs),
        "traces_validated_against_impl": len(specs),
        "alphabet": {"tapes": LETTERS, "caches": ["True", "LRUCache(1)", "LRUCache(2)", "user dict across 2 executes"],
                     "gates": list(GATES), "wrappers": WRAPPERS, "shifts": ["2pi", "4pi"], "measurement_pairs": MEAS_NAMES},
        "bound": {"batch_len": n, "calls": 2},
        "explanation": "states = execution histories explored; transitions = tape executions through the cache",
    })
