"""C34 — Every accepted differentiation configuration gives the true derivative (DESIGN §5.6).

E2 x configuration product.  Circuits = words over a 16-letter gate alphabet (1- and 3-parameter rotations, controlled
and two-qubit rotations, excitations, PauliRot / MultiRZ, qp.exp with a trainable coefficient, a constant-parameter gate,
H, CNOT) behind a fixed parameter-free prefix, with a classical pre-processing pattern between the QNode argument vector
and the gate parameters (distinct / one argument shared by two gates / 2x / x^2 / sin x), optionally a trainable
broadcast batch of size 3; measurement lists expval / [expval, expval] / probs / [expval, probs] / var / Hamiltonian;
wire labels standard, strings, mixed.  Configuration = interface x diff_method (+ gradient kwargs) x grad_on_execution x
device_vjp.  The Jacobian of the flattened results w.r.t. the QNode argument vector is compared with 8th-order central
differences of an independent plain-numpy simulation.  A configuration may reject the circuit with a documented error
(counted).  spsa: the Rademacher sampler's generator is a scripted numpy Generator; ALL sign vectors are enumerated and the
exact average of the estimator is compared with the reference ("in expectation" decided exactly, no sampling).
"""
import itertools

import numpy as np

from mc.engine import ok, bad, skip
from mc import x_diff as XD

PROPERTY = "C34"
LEVEL = "exploration"
TECHNIQUE = "bounded exhaustive circuit x configuration enumeration vs finite differences of an independent simulator; spsa by exhaustive sign-vector enumeration through a scripted RNG"
LEVEL_TEXT = ("Every circuit word up to the length bound (quick: all 1-letter words + 2-letter words over 7 letters; thorough: all 2-letter words "
              "+ 3-letter words over 5 letters) x pre-processing patterns x measurement lists is differentiated under every autograd "
              "diff_method (12) and under param_shift / finite_diff applied to the QNode as transforms; the full configuration product (4 interfaces x 12 methods x grad_on_execution x device_vjp) runs on a fixed "
              "circuit subset; every Jacobian is compared with an independent finite-difference reference (1e-7; finite-diff 5e-6 / 1e-6; "
              "spsa: exact average over all 2^p sign vectors, 1e-6). Composite costs (two classical rows in front of the QNode rows; a second QNode "
              "evaluation) x interface x method x device_vjp on the fixed subset.")
LEVEL_NOTE = ("Reference = plain-numpy state-vector simulation from closed-form gate matrices + 8th-order central differences (h=1e-2). "
              "Device = default.qubit without shots. Not decided: spsa with samplers other than the default Rademacher sampler; "
              "TensorFlow (not installed); finite shots (stochastic).")
DESIGN_REF = "5.6 C34"
START = "spawn"
PARALLEL = True
RULE = ("one case = (circuit word, pre-processing, measurement list, labels, broadcast) x (interface, diff_method, grad_on_execution, "
        "device_vjp); non-trivial = the configuration accepted the circuit and the reference Jacobian is not identically zero")

METHODS = ["backprop", "parameter-shift", "ps-broadcast", "adjoint", "hadamard", "reversed-hadamard", "direct-hadamard",
           "reversed-direct-hadamard", "finite-diff", "fd-center2", "spsa", "spsa-center"]
# gradient transforms applied to the QNode itself (classical Jacobian contracted by the transform, not by the ML framework)
TF_METHODS = ["tf-parameter-shift", "tf-finite-diff"]
TOL = {"finite-diff": 5e-6, "fd-center2": 1e-6, "spsa": 1e-6, "spsa-center": 1e-6, "tf-finite-diff": 5e-6}

# documented rejections: (exception type name, message fragment)
REJECT = [
    ("QuantumFunctionError", "does not support adjoint"), ("QuantumFunctionError", "does not support backprop"),
    ("QuantumFunctionError", "device_vjp=True is not supported"), ("DeviceError", ""),
    ("ValueError", "Computing the gradient of"), ("ValueError", "grad_on_execution"),
    ("NotImplementedError", "does not support multiple measurements"), ("NotImplementedError", "Broadcasting"), ("NotImplementedError", "broadcast"),
    ("ValueError", "broadcast"), ("ValueError", "Hadamard"), ("ValueError", "hadamard"), ("ValueError", "aux"),
    ("ValueError", "does not support"), ("ValueError", "Can only differentiate"), ("ValueError", "Cannot differentiate"),
    ("QuantumFunctionError", "not supported"), ("DecompositionUndefinedError", ""),
]


def method_args(method, gen=None):
    """-> (diff_method, gradient_kwargs)"""
    if method == "ps-broadcast":
        return "parameter-shift", {"broadcast": True}
    if method == "fd-center2":
        return "finite-diff", {"h": 1e-4, "approx_order": 2, "strategy": "center"}
    if method == "spsa":
        return "spsa", {"h": 1e-4, "sampler_rng": gen}
    if method == "spsa-center":
        return "spsa", {"h": 1e-4, "approx_order": 2, "strategy": "center", "sampler_rng": gen}
    if method in ("hadamard", "reversed-hadamard"):
        return method, {"aux_wire": "aux"}
    return method, {}


COSTS = ["plain", "classical-rows", "two-qnodes"]


def _compose(cfg, x, rows, reshape, sin, again):
    """The differentiated cost: the flattened QNode results, optionally stacked BEHIND two purely classical rows (their cotangents reach
    the QNode as zeros) or followed by a second evaluation of the same QNode (each QNode sees zero cotangents for the other's rows)."""
    cost = cfg.get("cost", "plain")
    if cost == "classical-rows":
        return [reshape(x[0] ** 2, (-1,)), reshape(sin(x[-1]), (-1,))] + rows
    if cost == "two-qnodes":
        r2 = again()
        r2 = r2 if isinstance(r2, tuple) else (r2,)
        return rows + [reshape(t, (-1,)) for t in r2]
    return rows


def compose_reference(cfg, Jq, z):
    cost = cfg.get("cost", "plain")
    if cost == "classical-rows":
        top = np.zeros((2, Jq.shape[1]))
        top[0, 0] = 2 * z[0]
        top[1, -1] += np.cos(z[-1])
        return np.vstack([top, Jq])
    if cost == "two-qnodes":
        return np.vstack([Jq, Jq])
    return Jq


def jacobian(spec, cfg, gen=None):
    """Jacobian (M x nargs) of the flattened QNode results under the configuration; raises what PennyLane raises."""
    import pennylane as qp

    iface, method = cfg["iface"], cfg["method"]
    if method.startswith("tf-"):
        from pennylane import numpy as anp

        tf = {"tf-parameter-shift": qp.gradients.param_shift, "tf-finite-diff": qp.gradients.finite_diff}[method]
        qn = XD.make_qnode(spec, qp.device("default.qubit"), "autograd", "parameter-shift")
        z = XD.z0(spec)
        res = tf(qn)(anp.array(z, requires_grad=True))
        res = res if isinstance(res, tuple) and len(XD.measurements(spec["meas"], [0, 1])) > 1 else (res,)
        return np.concatenate([np.asarray(np.stack(r) if isinstance(r, tuple) else r, dtype=float).reshape(-1, len(z)) for r in res])
    diff_method, gkw = method_args(method, gen)
    kw = {}
    if cfg.get("goe", "best") != "best":
        kw["grad_on_execution"] = cfg["goe"]
    if cfg.get("dvjp"):
        kw["device_vjp"] = True
    dev = qp.device("default.qubit")
    qn = XD.make_qnode(spec, dev, "jax-jit" if iface == "jax-jit" else iface, diff_method, gradient_kwargs=gkw, **kw)
    z = XD.z0(spec)
    if iface == "autograd":
        from pennylane import numpy as anp

        def f(x):
            r = qn(x)
            r = r if isinstance(r, tuple) else (r,)
            return anp.concatenate(_compose(cfg, x, [anp.reshape(t, (-1,)) for t in r], anp.reshape, anp.sin, lambda: qn(x)))

        return np.asarray(qp.jacobian(f)(anp.array(z, requires_grad=True)), dtype=float)
    if iface in ("jax", "jax-jit"):
        import jax

        jax.config.update("jax_enable_x64", True)
        import jax.numpy as jnp

        def f(x):
            r = qn(x)
            r = r if isinstance(r, tuple) else (r,)
            return jnp.concatenate(_compose(cfg, x, [jnp.reshape(t, (-1,)) for t in r], jnp.reshape, jnp.sin, lambda: qn(x)))

        jf = jax.jacobian(f)
        if iface == "jax-jit":
            jf = jax.jit(jf)
        return np.asarray(jf(jnp.asarray(z)), dtype=float)
    if iface == "torch":
        import torch

        def f(x):
            r = qn(x)
            r = r if isinstance(r, tuple) else (r,)
            return torch.cat(_compose(cfg, x, [torch.reshape(t, (-1,)) for t in r], torch.reshape, torch.sin, lambda: qn(x)))

        J = torch.autograd.functional.jacobian(f, torch.tensor(z, dtype=torch.float64, requires_grad=True))
        return np.asarray(J.detach().numpy(), dtype=float)
    raise KeyError(iface)


SPSA_MAX_ARGS = 4
SHIFT_LIKE = ("parameter-shift", "ps-broadcast", "finite-diff", "fd-center2", "spsa", "spsa-center")


def culprit(circ, cfg):
    """Names of input classes with a recorded (known) defect, so that their signature does not depend on the rest of the case."""
    m = cfg["method"]
    c = []
    if "exp" in circ["w"] and m != "backprop":
        c.append("exp-imaginary-coefficient")
    if m == "adjoint" and circ["lab"] != "std" and ("cRY" in circ["w"] or circ["meas"] == "Ham"):
        c.append("relabelled-wires+nontrainable-parameter")  # constant gate angle or Hamiltonian coefficients
    if circ.get("bcast") and cfg["iface"] == "jax-jit" and m not in ("backprop", "adjoint"):
        c.append("trainable-broadcast")  # documented NotImplementedError is replaced by a TypeError under jit
    return "|".join(c) or None


def rejected(e):
    name, msg = type(e).__name__, str(e)
    for n, frag in REJECT:
        if name == n and frag in msg:
            return f"{name}:{frag or '*'}"
        # under jax.jit the documented error surfaces inside a host callback and is wrapped by XLA
        if name == "XlaRuntimeError" and frag and f"{n}: " in msg and frag in msg:
            return f"{n}:{frag}"
    return None


def spsa_expectation(spec, cfg):
    """Exact expectation of the spsa Jacobian estimator over the Rademacher sampler: enumerate the scripted generator's
    answers.  Each `choice` call (one per direction draw) is varied over all its sign vectors; entries of the Jacobian must
    depend on exactly one call (checked), which makes the expectation the sum of per-call averages."""
    from mc.explore import Chooser
    from mc.seams import ScriptedGenerator

    def run(prefix):
        ch = Chooser(prefix)
        gen = ScriptedGenerator(ch)
        J = jacobian(spec, cfg, gen)
        calls = [len(rec["answers"]) for rec in gen.log if rec["fn"] == "choice"]
        return J, calls, ch.choices

    J0, calls, _ = run([])
    total = sum(calls)
    n_exec = 1
    if total <= 10:  # small: the full tree
        acc = np.zeros_like(J0)
        for bits in itertools.product((0, 1), repeat=total):
            J, c2, _ = run(list(bits))
            if c2 != calls:
                raise AssertionError("number of RNG questions depends on the answers")
            acc += J
            n_exec += 1
        return acc / 2 ** total, {"calls": calls, "execs": n_exec, "mode": "full"}
    # separable enumeration
    E = np.zeros_like(J0)
    touched = np.zeros(J0.shape, dtype=int)
    lo = 0
    for c in calls:
        acc = np.zeros_like(J0)
        moved = np.zeros(J0.shape, dtype=bool)
        for bits in itertools.product((0, 1), repeat=c):
            prefix = [0] * lo + list(bits)
            J, c2, _ = run(prefix)
            n_exec += 1
            acc += J
            moved |= np.abs(J - J0) > 1e-12
        touched += moved
        E += acc / 2 ** c - J0
        lo += c
    if np.any(touched > 1):
        raise AssertionError("a Jacobian entry depends on more than one RNG call; separable enumeration not applicable")
    return E + J0, {"calls": calls, "execs": n_exec, "mode": "separable"}


def check(spec):
    circ, cfg = spec["c"], spec["cfg"]
    method = cfg["method"]
    if method.startswith("spsa") and XD.n_args(circ) > SPSA_MAX_ARGS:
        return skip("spsa: more than %d arguments (enumeration bound)" % SPSA_MAX_ARGS)
    try:
        if method.startswith("spsa"):
            J, info = spsa_expectation(circ, cfg)
        else:
            J, info = jacobian(circ, cfg), None
    except Exception as e:  # noqa: BLE001
        r = rejected(e)
        if r is None:
            cul = culprit(circ, cfg)
            if cul:
                return bad(f"raised:{cfg['iface']}:{method}:{cul}:{type(e).__name__}", f"{type(e).__name__}: {e}"[:300], "Jacobian or documented rejection")
            if method == "adjoint" and type(e).__name__ == "ValueError" and "expected 'arg_specs' dtype" in str(e) and "complex128" in str(e):
                return bad(f"raised:{cfg['iface']}:adjoint:state-measurement-complex-cast", f"{type(e).__name__}: {e}"[:300],
                           "Jacobian or documented rejection")
            raise
        return skip(f"{method}:{r}")
    Jref = compose_reference(cfg, XD.ref_jacobian(circ), np.asarray(XD.z0(circ), dtype=float))
    tol = TOL.get(method, 1e-7)
    cls = (f"{cfg['iface']}:{method}" + (":goe=%s" % cfg["goe"] if cfg.get("goe", "best") != "best" else "") + (":dvjp" if cfg.get("dvjp") else "")
           + ("" if cfg.get("cost", "plain") == "plain" else ":cost=" + cfg["cost"]))
    cul = culprit(circ, cfg)
    feat = ("bcast:" if circ.get("bcast") else "") + ("" if circ["lab"] == "std" else "labels:") + ("const-gate:" if "cRY" in circ["w"] else "")
    where = cul if cul else f"{feat}{circ['share']}:{circ['meas']}:{'+'.join(sorted(set(circ['w'])))}"
    if cul:
        cls = f"{cfg['iface']}:{method}"
    if J.shape != Jref.shape:
        return bad(f"jacobian-shape:{cls}:{where}", list(J.shape), list(Jref.shape))
    err = float(np.max(np.abs(J - Jref))) if J.size else 0.0
    if not err <= tol:
        return bad(f"jacobian-value:{cls}:{where}", np.round(J, 8), np.round(Jref, 8), err=err)
    return ok(outcome=[np.round(Jref, 5).tolist()[:2], info and info["mode"]], nontrivial=bool(np.any(np.abs(Jref) > 1e-9)))


# ------------------------------------------------------------------------------------------------ driver
A1 = ["RX", "RY", "RZ", "Rot", "CRX", "IsingXX", "PhaseShift", "SingleExcitation", "MultiRZ", "PauliRot", "U3", "exp", "DoubleExcitation"]
A_FREE = ["H", "CNOT", "cRY"]
A2_QUICK = ["RX", "Rot", "CRX", "exp", "CNOT", "cRY", "RY"]
A3 = ["RY", "Rot", "CRX", "CNOT", "cRY"]
SHARES = ["distinct", "shared", "2x", "sq", "sin"]
MEAS = ["E", "EE", "P", "EP", "V", "Ham"]


def circuits(ctx):
    """(circuit spec) list; simplest first.  Thinning of the (pre-processing x measurement) product for longer words is a fixed
    arithmetic pattern (no sampling): every letter, every pattern and every measurement list occurs with every other."""
    q = ctx.quick
    out = []
    words = [[l] for l in A1 if not (q and l == "DoubleExcitation")]
    two = A2_QUICK if q else A1[:-1] + A_FREE
    words += [[a, b] for a in two for b in two]
    if not q:
        words += [list(w) for w in itertools.product(A3, repeat=3)]
    for wi, w in enumerate(words):
        p = XD.n_gate_params(w)
        if p == 0:
            continue
        shares = [s for s in SHARES if s != "shared" or p >= 2]
        keep = {1: 2 if q else 1, 2: 9 if q else 8, 3: 14}[len(w)]
        for si, share in enumerate(shares):
            for mi, meas in enumerate(MEAS):
                if (si * len(MEAS) + mi + wi) % keep:
                    continue
                lab = ["std", "str", "mix"][(wi + si + mi) % 3]
                out.append({"w": w, "share": share, "meas": meas, "lab": lab, "bcast": False})
        if p >= 2 and len(w) <= 2 and wi % (3 if q else 2) == 0:
            for meas in ("E", "EP"):
                out.append({"w": w, "share": "distinct", "meas": meas, "lab": "std", "bcast": True})
    return out


FULL_PRODUCT_CIRCS = [
    {"w": ["RX", "CRX"], "share": "distinct", "meas": "EE", "lab": "std", "bcast": False},
    {"w": ["Rot", "CNOT"], "share": "sin", "meas": "EP", "lab": "str", "bcast": False},
    {"w": ["cRY", "RY", "exp"], "share": "shared", "meas": "E", "lab": "str", "bcast": False},
    {"w": ["RX", "IsingXX"], "share": "distinct", "meas": "E", "lab": "std", "bcast": True},
    {"w": ["U3"], "share": "2x", "meas": "V", "lab": "mix", "bcast": False},
]


def run(ctx):
    q = ctx.quick
    circs = circuits(ctx)
    # (1) every circuit x every autograd method (default grad_on_execution / device_vjp)
    specs = [{"c": c, "cfg": {"iface": "autograd", "method": m}} for c in circs for m in METHODS + TF_METHODS]
    ctx.enumerate(specs, axis="autograd-all-methods", chunk=24)
    # (2) full configuration product on the fixed circuit subset
    specs = []
    for c in FULL_PRODUCT_CIRCS[: 3 if q else 5]:
        for iface in ("autograd", "jax", "torch", "jax-jit"):
            for m in METHODS:
                for goe in ("best", True, False):
                    for dvjp in (False, True):
                        if iface == "jax-jit" and q and (goe != "best" or dvjp or m in ("spsa-center", "fd-center2", "reversed-direct-hadamard", "direct-hadamard")):
                            continue
                        if m.startswith("spsa") and iface != "autograd" and (goe != "best" or dvjp):
                            continue
                        specs.append({"c": c, "cfg": {"iface": iface, "method": m, "goe": goe, "dvjp": dvjp}})
    ctx.enumerate(specs, axis="config-product", chunk=6)
    # (2b) composite costs: classical rows / a second QNode next to the QNode's rows (zero cotangent blocks reach the VJP machinery)
    specs = []
    for c in FULL_PRODUCT_CIRCS[: 3 if q else 5]:
        if c.get("bcast"):
            continue
        for iface in ("autograd", "jax", "torch") + (() if q else ("jax-jit",)):
            for m in (("backprop", "parameter-shift", "adjoint", "hadamard", "finite-diff") if q else [x for x in METHODS if not x.startswith("spsa")]):
                for dvjp in (False, True):
                    for cost in COSTS[1:]:
                        specs.append({"c": c, "cfg": {"iface": iface, "method": m, "goe": "best", "dvjp": dvjp, "cost": cost}})
    ctx.enumerate(specs, axis="composite-costs", chunk=6)
    # (3) other interfaces on a larger circuit family, main methods
    fam = [c for i, c in enumerate(circs) if i % (40 if q else 9) == 0]
    specs = [{"c": c, "cfg": {"iface": iface, "method": m}} for c in fam for iface in ("jax", "torch") for m in
             ("backprop", "parameter-shift", "adjoint", "hadamard", "finite-diff")]
    if not q:
        specs += [{"c": c, "cfg": {"iface": "jax-jit", "method": m}} for c in fam[::6] for m in ("backprop", "parameter-shift", "adjoint")]
    ctx.enumerate(specs, axis="interfaces", chunk=6)
    ctx.coverage["alphabet"] = {"gates_len1": A1, "gates_len2": A2_QUICK if q else A1[:-1] + A_FREE, "gates_len3": [] if q else A3,
                                "pre_processing": SHARES, "measurements": MEAS, "labels": XD.LABS, "methods": METHODS + TF_METHODS,
                                "interfaces": ["autograd", "jax", "jax-jit", "torch"], "grad_on_execution": ["best", True, False],
                                "device_vjp": [False, True], "broadcast_batch": 3}
    ctx.coverage["bound"] = {"word_len": 2 if q else 3, "circuits": len(circs), "full_product_circuits": 3 if q else 5}
