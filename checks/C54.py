"""C54 — Boson-to-qubit mappings represent truncated boson operators (DESIGN §5.9 C54).

E1: every bosonic word of length <= 3 on 1-2 modes (3 thorough) x truncation n_states 2..5 (8 thorough, powers of two
and not) x {binary, unary, christiansen}; all pairs of words of length <= 2 for sums / scalar multiples / adjoints.
Oracle: with E the documented encoding isometry, E^+ M(w) E = product of truncated ladder matrices in word order, the
code space is invariant (no leakage), M(S^+) = M(S)^+ and M is linear, all as (sparse) matrices."""
from mc.engine import ok, bad, skip
from mc import x_bose as R

PROPERTY = "C54"
LEVEL = "exploration"
TECHNIQUE = "exhaustive enumeration of bosonic words/pairs vs. truncated ladder matrices compressed through the documented encoding"
LEVEL_TEXT = ("All bosonic words of length <=3 on 1-2 modes (3 thorough) for n_states 2..5 (2..8 thorough) under binary and unary mapping, "
              "words on 1-3 modes under the Christiansen mapping, all pairs of words of length <=2 on 2 modes with a scalar menu, and the "
              "ps/wire_map/tol grid; the image restricted to the code space is compared with the product of truncated ladder matrices.")
LEVEL_NOTE = ("Trusted base: numpy/scipy; PauliSentence.to_mat(format='csr') / Operator.sparse_matrix to read images. Encodings assumed: "
              "binary = standard binary with the least significant bit on the lowest wire of the mode's block (confirmed by the docstring "
              "example), unary = one-hot, Christiansen = two-level. Unary images are bounded to <=10 (thorough 16) qubits. The action of "
              "the images outside the code space is not constrained (only that the code space is not left).")
DESIGN_REF = "5.9 C54"
START = "fork"
PARALLEL = True
RULE = ("one case = (mapping, modes, n_states, word, options) or (mapping, modes, n_states, word pair, scalar pair); "
        "non-trivial = the reference matrix is non-zero and not the identity")

TOL = 1e-9
SCAL = [[[1, 0], [1, 0]], [[0.5, 0], [-0.5, 0]], [[0, 0.5], [2, 1]], [[-1.5, 0], [0, -1]]]
WM = ["none", "str", "perm"]


def bword(word, ins=None):
    """The word as a BoseWord; `ins` = order in which the (position, mode) keys are INSERTED into the dict (the word order is given by the
    positions alone, so every insertion order denotes the same operator)."""
    from pennylane.bose import BoseWord

    items = [((i, m), s) for i, (m, s) in enumerate(word)]
    if ins is not None:
        items = [items[k] for k in ins]
    return BoseWord(dict(items))


def wire_map(kind, nq):
    if kind == "none":
        return None, list(range(nq))
    if kind == "str":
        m = {i: f"q{i}" for i in range(nq)}
    else:
        m = {i: (i + 1) % nq for i in range(nq)}
    return m, [m[i] for i in range(nq)]


def image(mapping, op, nq, d, ps=True, wm="none", tol=None):
    """scipy csr matrix of the image on nq wires (first wire most significant)."""
    import pennylane as qp
    import scipy.sparse as sp

    wmap, order = wire_map(wm, nq)
    kw = {"ps": ps, "wire_map": wmap, "tol": tol}
    if mapping == "binary":
        res = qp.binary_mapping(op, n_states=d, **kw)
    elif mapping == "unary":
        res = qp.unary_mapping(op, n_states=d, **kw)
    else:
        res = qp.christiansen_mapping(op, **kw)
    if ps:
        if len(res) == 0:
            return sp.csr_matrix((2 ** nq, 2 ** nq), dtype=complex)
        return sp.csr_matrix(res.to_mat(wire_order=order, format="csr", buffer_size=2 ** 24))
    if nq <= 8:
        return sp.csr_matrix(qp.matrix(res, wire_order=order))
    return sp.csr_matrix(res.sparse_matrix(wire_order=order))


def amax(S):
    return float(abs(S).max()) if S.nnz else 0.0


def compress(M, idx):
    """(E^+ M E as dense, leakage = max |entry| of M E outside the code space)."""
    import numpy as np

    cols = M[:, idx].tocsr()
    sub = cols[idx, :].toarray()
    mask = np.ones(M.shape[0], dtype=bool)
    mask[idx] = False
    out = cols[np.nonzero(mask)[0], :]
    return sub, amax(out)


def differs(A, B):
    import numpy as np

    return float(np.abs(A - B).max()) > TOL * max(1.0, float(np.abs(B).max()))


def sdiffers(A, B, scale=1.0):
    return amax(A - B) > TOL * max(1.0, scale)


def nontriv(F):
    import numpy as np

    return bool(np.abs(F).max() > 0 and np.abs(F - np.eye(F.shape[0])).max() > 0)


def cplx(c):
    return complex(c[0], c[1]) if c[1] else float(c[0])


def check(spec):
    k = spec["k"]
    if k == "word":
        return check_word(spec)
    if k == "pair":
        return check_pair(spec)
    if k == "reject":
        return check_reject(spec)
    if k == "shift":
        return check_shift(spec)
    raise AssertionError(k)


def check_shift(spec):
    """History: word -> BoseWord.shift_operator(i, j) (re-orders the underlying dict) -> mapping. Every word of the returned sentence is
    read off by POSITION and the image of the sentence must act as the coefficient-weighted sum of those words' ladder products."""
    import numpy as np

    m, nm, d, word, i, j = spec["m"], spec["nm"], spec["d"], spec["w"], spec["i"], spec["j"]
    idx, nq = R.encoded(m, nm, d)
    try:
        S = bword(word).shift_operator(i, j)
    except ValueError as e:
        return skip(f"shift-rejected:{str(e)[:40]}")
    F = np.zeros((d ** nm, d ** nm), dtype=complex)
    for w, cf in S.items():
        F = F + cf * R.word_matrix([(mode, w[(pos, mode)]) for pos, mode in sorted(w.keys())], nm, d)
    M = image(m, S, nq, d)
    sub, leak = compress(M, idx)
    if differs(sub, F):
        return bad(f"code-space-action:{m}:d={d}:after-shift_operator", float(np.abs(sub - F).max()), "sum_w c_w F(w), words read by position",
                   word=str(bword(word)), shift=[i, j], sentence=str(S))
    if leak > TOL:
        return bad(f"leaves-code-space:{m}:d={d}:after-shift_operator", leak, 0.0, word=str(bword(word)), shift=[i, j])
    Ma = image(m, S.adjoint(), nq, d)
    if sdiffers(Ma, M.conj().T, max(amax(M), 1.0)):
        return bad(f"adjoint:{m}:d={d}:after-shift_operator", amax(Ma - M.conj().T), "M(S^+) = M(S)^+", word=str(bword(word)), shift=[i, j])
    return ok(outcome=[m, nm, d, len(word), i, j, round(float(np.abs(F).sum()), 6)], nontrivial=nontriv(F))


def check_word(spec):
    import numpy as np

    m, nm, d, word, ps, wm, tol = spec["m"], spec["nm"], spec["d"], spec["w"], spec["ps"], spec["wm"], spec["tol"]
    opt = f"ps={ps}:wm={wm}:tol={'None' if tol is None else 'set'}"
    idx, nq = R.encoded(m, nm, d)
    bw = bword(word, spec.get("ins"))
    F = R.word_matrix(word, nm, d)
    M = image(m, bw, nq, d, ps, wm, tol)
    sub, leak = compress(M, idx)
    tag = f"{m}:d={d}:len={len(word)}:{opt}" + (":insertion-order-permuted" if spec.get("ins") is not None else "")
    if differs(sub, F):
        x = np.unravel_index(int(np.argmax(np.abs(sub - F))), F.shape)
        return bad(f"code-space-action:{tag}", {"maxdiff": float(np.abs(sub - F).max()), "entry": [int(x[0]), int(x[1])], "got": complex(sub[x]), "want": float(F[x])},
                   "E^+ M(w) E = product of truncated ladder matrices", word=str(bw) if word else "I", modes=nm)
    if leak > TOL:
        return bad(f"leaves-code-space:{tag}", leak, 0.0, word=str(bw) if word else "I", modes=nm)
    if ps and wm == "none" and tol is None:
        Ma = image(m, bw.adjoint(), nq, d)
        if sdiffers(Ma, M.conj().T, amax(M)):
            return bad(f"adjoint:{m}:d={d}:len={len(word)}", amax(Ma - M.conj().T), "M(w^+) = M(w)^+", word=str(bw), modes=nm)
    return ok(outcome=[m, nm, d, len(word), opt, round(float(np.abs(F).sum()), 6), int(M.nnz)], nontrivial=nontriv(F))


def check_pair(spec):
    import numpy as np

    m, nm, d, a, b = spec["m"], spec["nm"], spec["d"], spec["a"], spec["b"]
    c1, c2 = cplx(spec["c"][0]), cplx(spec["c"][1])
    idx, nq = R.encoded(m, nm, d)
    ba, bb = bword(a), bword(b)
    Fa, Fb = R.word_matrix(a, nm, d), R.word_matrix(b, nm, d)
    Ma, Mb = image(m, ba, nq, d), image(m, bb, nq, d)
    info = {"a": str(ba) if a else "I", "b": str(bb) if b else "I", "c": [str(c1), str(c2)], "modes": nm}
    tag = f"{m}:d={d}"
    S = c1 * ba + c2 * bb
    Ms = image(m, S, nq, d)
    scale = max(amax(Ma), amax(Mb), 1.0) * 3
    if sdiffers(Ms, c1 * Ma + c2 * Mb, scale):
        return bad(f"sum:{tag}", amax(Ms - c1 * Ma - c2 * Mb), "M(c1 a + c2 b) = c1 M(a) + c2 M(b)", **info)
    Md = image(m, ba - bb, nq, d)
    if sdiffers(Md, Ma - Mb, scale):
        return bad(f"difference:{tag}", amax(Md - Ma + Mb), "M(a - b) = M(a) - M(b)", **info)
    Msa = image(m, S.adjoint(), nq, d)
    if sdiffers(Msa, Ms.conj().T, scale):
        return bad(f"adjoint:{tag}:sentence", amax(Msa - Ms.conj().T), "M(S^+) = M(S)^+", **info)
    Fs = c1 * Fa + c2 * Fb
    sub, leak = compress(Ms, idx)
    if differs(sub, Fs):
        return bad(f"code-space-action:{tag}:sentence", float(np.abs(sub - Fs).max()), "E^+ M(S) E = c1 F(a) + c2 F(b)", **info)
    if leak > TOL:
        return bad(f"leaves-code-space:{tag}:sentence", leak, 0.0, **info)
    # word * word (BoseWord.__mul__) and sentence * word: product of truncated matrices in order
    sub, leak = compress(image(m, ba * bb, nq, d), idx)
    if differs(sub, Fa @ Fb) or leak > TOL:
        return bad(f"code-space-action:{tag}:word*word", float(np.abs(sub - Fa @ Fb).max()), "F(a) F(b)", **info)
    sub, leak = compress(image(m, S * bb, nq, d), idx)
    if differs(sub, Fs @ Fb) or leak > TOL:
        return bad(f"code-space-action:{tag}:sentence*word", float(np.abs(sub - Fs @ Fb).max()), "(c1 F(a) + c2 F(b)) F(b)", **info)
    Mo = image(m, S, nq, d, ps=False, wm="str", tol=1e-8)
    if sdiffers(Mo, Ms, scale):
        return bad(f"sentence-image:{tag}:ps=False:wm=str:tol=set", amax(Mo - Ms), "same operator as ps=True", **info)
    return ok(outcome=[m, nm, d, len(a), len(b), round(float(np.abs(Fs).sum()), 6), round(float(np.abs(Fa @ Fb).sum()), 6)],
              nontrivial=nontriv(Fs) or nontriv(Fa @ Fb))


def check_reject(spec):
    import pennylane as qp

    m, what = spec["m"], spec["what"]
    f = {"binary": qp.binary_mapping, "unary": qp.unary_mapping, "christiansen": qp.christiansen_mapping}[m]
    exp = TypeError if what == "not-bose" else ValueError
    try:
        if what == "n_states<2":
            r = f(bword([[0, "+"]]), n_states=spec["d"])
        elif what == "sentence-n_states<2":
            r = f(1.0 * bword([[0, "+"]]) + 2.0 * bword([[1, "-"]]), n_states=spec["d"])
        else:
            r = f("b+(0)")
    except (ValueError, TypeError) as e:
        if isinstance(e, exp):
            return ok(outcome=type(e).__name__, nontrivial=False)
        return bad(f"wrong-error:{m}:{what}", type(e).__name__, exp.__name__)
    return bad(f"invalid-accepted:{m}:{what}", repr(r)[:200], exp.__name__)


def run(ctx):
    R.selftest()
    dmax = 5 if ctx.quick else 8
    qcap = 10 if ctx.quick else 16
    modes = (1, 2) if ctx.quick else (1, 2, 3)
    words, grid = [], []
    for m in ("binary", "unary"):
        for d in range(2, dmax + 1):
            for nm in modes:
                if R.qubits_per_mode(m, d) * nm > qcap or (nm == 3 and d > 4):
                    continue
                for w in R.all_words(nm, 3):
                    words.append({"k": "word", "m": m, "nm": nm, "d": d, "w": w, "ps": True, "wm": "none", "tol": None})
    for nm in (1, 2, 3):
        for w in R.all_words(nm, 3):
            words.append({"k": "word", "m": "christiansen", "nm": nm, "d": 2, "w": w, "ps": True, "wm": "none", "tol": None})
    ctx.enumerate(words, axis="word")
    for m, ds in (("binary", (2, 3, 4)), ("unary", (2, 3)), ("christiansen", (2,))):
        for d in ds:
            for w in R.all_words(2, 2):
                for ps in (True, False):
                    for wm in WM:
                        for tol in (None, 1e-8):
                            if ps and wm == "none" and tol is None:
                                continue
                            grid.append({"k": "word", "m": m, "nm": 2, "d": d, "w": w, "ps": ps, "wm": wm, "tol": tol})
    ctx.enumerate(grid, axis="options")
    # the same word from every insertion order of its dict (word order = positions), and after shift_operator (which re-inserts keys)
    import itertools

    routes = []
    for m, ds in (("binary", (2, 3)), ("unary", (2, 3)), ("christiansen", (2,))):
        for d in ds:
            for nm in (1, 2):
                for w in R.all_words(nm, 3, 2):
                    for ins in itertools.permutations(range(len(w))):
                        if list(ins) != sorted(ins):
                            routes.append({"k": "word", "m": m, "nm": nm, "d": d, "w": w, "ps": True, "wm": "none", "tol": None, "ins": list(ins)})
                    for i in range(len(w)):
                        for j in range(len(w)):
                            if i != j:
                                routes.append({"k": "shift", "m": m, "nm": nm, "d": d, "w": w, "i": i, "j": j})
    ctx.enumerate(routes, axis="construction-route")
    pairs = []
    for m, ds in (("binary", (2, 3) if ctx.quick else (2, 3, 4, 5)), ("unary", (2, 3) if ctx.quick else (2, 3, 4)), ("christiansen", (2,))):
        for d in ds:
            scal = SCAL[2:] if (ctx.quick or d > 3) else SCAL
            for a in R.all_words(2, 2):
                for b in R.all_words(2, 2):
                    for c in scal:
                        pairs.append({"k": "pair", "m": m, "nm": 2, "d": d, "a": a, "b": b, "c": c})
    ctx.enumerate(pairs, axis="pair")
    ctx.enumerate([{"k": "reject", "m": m, "d": d, "what": what} for m in ("binary", "unary") for d in (1, 0, -1) for what in ("n_states<2", "sentence-n_states<2")]
                  + [{"k": "reject", "m": m, "what": "not-bose"} for m in ("binary", "unary", "christiansen")], axis="reject")
    ctx.coverage["alphabet"] = {"letters": "b_m, b_m^+ for m < modes", "mappings": ["binary", "unary", "christiansen"], "n_states": list(range(2, dmax + 1)),
                                "scalars": SCAL, "wire_maps": WM, "ps": [True, False], "tol": [None, 1e-8]}
    ctx.coverage["bound"] = {"max_word_len": 3, "modes": list(modes), "pair_word_len": 2, "max_qubits_unary": qcap}
