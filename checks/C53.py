"""C53 — Fermion-to-qubit mappings are faithful representations (DESIGN §5.9 C53).

E1: every fermionic word of length <= 3 on n <= 4 modes (thorough 6) under jordan_wigner / parity_transform /
bravyi_kitaev; products, sums, scalar multiples and adjoints of all pairs of short words; the canonical
anticommutation relations for all i, j on n <= 7 (thorough 8) qubits; option grid ps x wire_map x tol.
Oracle: plain numpy ladder matrices (documented Jordan-Wigner formula); for parity / Bravyi-Kitaev the image of every
word must equal U F(w) U^+ with ONE unitary U per (mapping, n), computed from the images of the single ladder
operators (Fock states built on the computed vacuum) — which is exactly 'unitarily equivalent'."""
from mc.engine import ok, bad, skip
from mc import x_fermi as R

PROPERTY = "C53"
LEVEL = "exploration"
TECHNIQUE = "exhaustive enumeration of fermionic words/pairs vs. numpy ladder-operator algebra and a computed intertwiner"
LEVEL_TEXT = ("All fermionic words of length <=3 on up to 4 modes (6 thorough), all pairs of words of length <=2 on 2-3 modes (thorough 3-4) "
              "with a 4-entry scalar menu, all (i,j) anticommutators on up to 7 (8) qubits, for the three mappings and the ps/wire_map/tol "
              "grid; each image is compared as a dense matrix with the reference algebra conjugated by one computed unitary per (mapping, n).")
LEVEL_NOTE = ("Trusted base: numpy; qp.matrix / PauliSentence.to_mat to read the images. This pinned version has no fermionic normal_order(); "
              "the re-ordering API FermiWord.shift_operator (anticommutation-based) is checked instead for every (initial, final) position. "
              "tol is explored only at None and 1e-8 (large tolerances that change the operator are not modelled).")
DESIGN_REF = "5.9 C53"
START = "fork"
PARALLEL = True
RULE = ("one case = (mapping, n, word, options) or (mapping, n, word pair, scalar pair) or (mapping, n) for the CAR table; "
        "non-trivial = the reference matrix of the word / sentence is non-zero and not the identity")

TOL = 1e-9
MAPS = ["jw", "par", "bk"]
SCAL = [[[1, 0], [1, 0]], [[0.5, 0], [-0.5, 0]], [[0, 0.5], [2, 1]], [[-1.5, 0], [0, -1]]]  # pairs of [re, im]
WM = ["none", "str", "perm"]

_CACHE = {}


def fword(word):
    from pennylane.fermi import FermiWord

    return FermiWord({(i, o): s for i, (o, s) in enumerate(word)})


def wire_map(kind, n):
    if kind == "none":
        return None, list(range(n))
    if kind == "str":
        m = {i: f"q{i}" for i in range(n)}
    else:
        m = {i: (i + 1) % n for i in range(n)}
    return m, [m[i] for i in range(n)]


def image(mapname, op, n, ps=True, wm="none", tol=None):
    """Dense matrix (first wire most significant) of the mapping's image."""
    import numpy as np
    import pennylane as qp

    wmap, order = wire_map(wm, n)
    kw = {"ps": ps, "wire_map": wmap, "tol": tol}
    if mapname == "jw":
        res = qp.jordan_wigner(op, **kw)
    elif mapname == "par":
        res = qp.parity_transform(op, n, **kw)
    else:
        res = qp.bravyi_kitaev(op, n, **kw)
    if ps:
        if len(res) == 0:
            return np.zeros((2 ** n, 2 ** n), dtype=complex)
        return np.asarray(res.to_mat(wire_order=order), dtype=complex)
    return np.asarray(qp.matrix(res, wire_order=order), dtype=complex)


def basis_change(mapname, n):
    """(U, problems) for (mapping, n): identity for Jordan-Wigner (documented formula = reference)."""
    import numpy as np

    key = (mapname, n)
    if key not in _CACHE:
        if mapname == "jw":
            _CACHE[key] = (np.eye(2 ** n, dtype=complex), [])
        else:
            ann = [image(mapname, fword([[j, "-"]]), n) for j in range(n)]
            _CACHE[key] = R.fock_basis_change(ann)
    return _CACHE[key]


def expected(mapname, n, M):
    U, problems = basis_change(mapname, n)
    if U is None or problems:
        return None, problems
    return U @ M @ U.conj().T, []


def differs(A, B):
    import numpy as np

    return float(np.abs(A - B).max()) > TOL * max(1.0, float(np.abs(B).max()))


def nontriv(F):
    import numpy as np

    return bool(np.abs(F).max() > 0 and np.abs(F - np.eye(F.shape[0])).max() > 0)


def cplx(c):
    return complex(c[0], c[1]) if c[1] else float(c[0])


def check(spec):
    k = spec["k"]
    if k == "word":
        return check_word(spec)
    if k == "pair":
        return check_pair(spec)
    if k == "car":
        return check_car(spec)
    if k == "reject":
        return check_reject(spec)
    raise AssertionError(k)


def check_word(spec):
    import numpy as np

    m, n, word, ps, wm, tol = spec["m"], spec["n"], spec["w"], spec["ps"], spec["wm"], spec["tol"]
    opt = f"ps={ps}:wm={wm}:tol={'None' if tol is None else 'set'}"
    fw = fword(word)
    F = R.word_matrix(word, n)
    E, problems = expected(m, n, F)
    if problems:
        return bad(f"equivalence:{m}:n={n}", problems, "one unitary intertwining the mapping with the Jordan-Wigner reference")
    M = image(m, fw, n, ps, wm, tol)
    if differs(M, E):
        return bad(f"word-image:{m}:len={len(word)}:{opt}", {"maxdiff": float(np.abs(M - E).max())}, "U F(word) U^+", word=fw.to_string() if word else "I")
    base = ps and wm == "none" and tol is None
    if base:
        # adjoint (implementation's FermiWord.adjoint) -> adjoint matrix
        Ma = image(m, fw.adjoint(), n)
        if differs(Ma, M.conj().T):
            return bad(f"adjoint:{m}:len={len(word)}", {"maxdiff": float(np.abs(Ma - M.conj().T).max())}, "M(w^+) = M(w)^+")
        # re-ordering with the anticommutation relations keeps the image
        nshift = 0
        for i in range(len(word)):
            for j in range(len(word)):
                if i == j and i > 0:
                    continue
                fs = fw.shift_operator(i, j)
                Ms = image(m, fs, n)
                nshift += len(fs)
                if differs(Ms, M):
                    return bad(f"reorder-image:{m}:len={len(word)}", {"maxdiff": float(np.abs(Ms - M).max()), "shift": [i, j], "result": str(fs)},
                               "image unchanged by shift_operator", word=fw.to_string())
        return ok(outcome=[m, n, len(word), round(float(np.abs(F).sum()), 6), int(np.count_nonzero(np.abs(M) > 1e-12)), nshift], nontrivial=nontriv(F))
    return ok(outcome=[m, n, len(word), opt, int(np.count_nonzero(np.abs(M) > 1e-12))], nontrivial=nontriv(F))


def check_pair(spec):
    import numpy as np

    m, n, a, b = spec["m"], spec["n"], spec["a"], spec["b"]
    c1, c2 = cplx(spec["c"][0]), cplx(spec["c"][1])
    fa, fb = fword(a), fword(b)
    Fa, Fb = R.word_matrix(a, n), R.word_matrix(b, n)
    U, problems = basis_change(m, n)
    if U is None or problems:
        return bad(f"equivalence:{m}:n={n}", problems, "one unitary intertwining the mapping with the Jordan-Wigner reference")
    Ma, Mb = image(m, fa, n), image(m, fb, n)

    def conj(F):
        return U @ F @ U.conj().T

    # products: word * word (FermiWord.__mul__) -> matrix product of the images
    Mab = image(m, fa * fb, n)
    if differs(Mab, Ma @ Mb):
        return bad(f"product:{m}:word*word", {"maxdiff": float(np.abs(Mab - Ma @ Mb).max())}, "M(a*b) = M(a) M(b)", a=str(fa), b=str(fb))
    # sums / scalar multiples
    S = c1 * fa + c2 * fb
    Fs = c1 * Fa + c2 * Fb
    Ms = image(m, S, n)
    if differs(Ms, c1 * Ma + c2 * Mb):
        return bad(f"sum:{m}", {"maxdiff": float(np.abs(Ms - c1 * Ma - c2 * Mb).max())}, "M(c1 a + c2 b) = c1 M(a) + c2 M(b)", a=str(fa), b=str(fb), c=[str(c1), str(c2)])
    D = fa - fb
    Md = image(m, D, n)
    if differs(Md, Ma - Mb):
        return bad(f"difference:{m}", {"maxdiff": float(np.abs(Md - Ma + Mb).max())}, "M(a - b) = M(a) - M(b)", a=str(fa), b=str(fb))
    # adjoint of a sentence
    Msa = image(m, S.adjoint(), n)
    if differs(Msa, Ms.conj().T):
        return bad(f"adjoint:{m}:sentence", {"maxdiff": float(np.abs(Msa - Ms.conj().T).max())}, "M(S^+) = M(S)^+", a=str(fa), b=str(fb), c=[str(c1), str(c2)])
    # sentence * sentence, sentence * word, word * sentence
    T = c2 * fa.adjoint() + fb
    Mt = image(m, T, n)
    for name, prod, Mexp in (("sentence*sentence", S * T, Ms @ Mt), ("sentence*word", S * fb, Ms @ Mb), ("word*sentence", fa * T, Ma @ Mt)):
        Mp = image(m, prod, n)
        if differs(Mp, Mexp):
            return bad(f"product:{m}:{name}", {"maxdiff": float(np.abs(Mp - Mexp).max())}, "M(S*T) = M(S) M(T)", a=str(fa), b=str(fb), c=[str(c1), str(c2)])
    # and against the reference algebra
    if differs(Ms, conj(Fs)):
        return bad(f"sentence-image:{m}", {"maxdiff": float(np.abs(Ms - conj(Fs)).max())}, "U (c1 F(a) + c2 F(b)) U^+", a=str(fa), b=str(fb))
    # operator form and PauliSentence form agree for sentences
    Mo = image(m, S, n, ps=False, wm="str", tol=1e-8)
    if differs(Mo, Ms):
        return bad(f"sentence-image:{m}:ps=False:wm=str:tol=set", {"maxdiff": float(np.abs(Mo - Ms).max())}, "same operator as ps=True", a=str(fa), b=str(fb))
    return ok(outcome=[m, n, len(a), len(b), round(float(np.abs(Fs).sum()), 6), round(float(np.abs(Fa @ Fb).sum()), 6)],
              nontrivial=nontriv(Fs) or nontriv(Fa @ Fb))


def check_car(spec):
    import numpy as np

    m, n = spec["m"], spec["n"]
    dim = 2 ** n
    Id = np.eye(dim)
    A = [image(m, fword([[j, "-"]]), n) for j in range(n)]
    C = [image(m, fword([[j, "+"]]), n) for j in range(n)]
    for i in range(n):
        if differs(C[i], A[i].conj().T):
            return bad(f"adjoint:{m}:ladder", i, "M(a_i^+) = M(a_i)^+", n=n)
        for j in range(n):
            if differs(A[i] @ C[j] + C[j] @ A[i], (i == j) * Id):
                return bad(f"car:{m}:a-adag", [i, j], "{a_i, a_j^+} = delta_ij", n=n)
            if differs(A[i] @ A[j] + A[j] @ A[i], 0 * Id):
                return bad(f"car:{m}:a-a", [i, j], "{a_i, a_j} = 0", n=n)
            if differs(C[i] @ C[j] + C[j] @ C[i], 0 * Id):
                return bad(f"car:{m}:adag-adag", [i, j], "{a_i^+, a_j^+} = 0", n=n)
    if n <= 5:
        # the same relations through the implementation's sentence arithmetic
        for i in range(n):
            for j in range(n):
                s = fword([[i, "-"], [j, "+"]]) + fword([[j, "+"], [i, "-"]])
                if differs(image(m, s, n), (i == j) * Id):
                    return bad(f"car:{m}:sentence", [i, j], "M(a_i a_j^+ + a_j^+ a_i) = delta_ij", n=n)
    U, problems = R.fock_basis_change(A)
    if problems:
        return bad(f"equivalence:{m}:n={n}", problems, "unique vacuum and orthonormal Fock states")
    ref = R.ladders(n)
    for j in range(n):
        if differs(A[j], U @ ref[j] @ U.conj().T):
            return bad(f"equivalence:{m}:ladder-not-intertwined", j, "U a_j U^+", n=n)
    if m == "jw":
        for j in range(n):
            if differs(A[j], ref[j]):
                return bad("documented-formula:jw", j, "Z..Z (X+iY)/2", n=n)
    if m == "par":
        for j in range(n):
            if differs(A[j], R.parity_ladder_doc(j, n)):
                return bad("documented-formula:par", j, "1/2 (Z_{j-1} X_j + i Y_j) X_{j+1}..X_{n-1}", n=n)
    # equal spectra of Hermitian test operators across mappings (number operators, hoppings, pairings)
    spectra = []
    if n <= 5:
        tests = [[[i, "+"], [j, "-"]] for i in range(n) for j in range(i, n)] + [[[i, "+"], [j, "+"]] for i in range(n) for j in range(i + 1, n)]
        for w in tests:
            h = fword(w) + fword(w).adjoint()
            ev = np.linalg.eigvalsh(image(m, h, n))
            evr = np.linalg.eigvalsh(R.word_matrix(w, n) + R.word_matrix(w, n).conj().T)
            if np.abs(np.sort(ev) - np.sort(evr)).max() > 1e-8:
                return bad(f"spectrum:{m}", {"word": w, "eig": np.round(ev, 8).tolist()}, np.round(evr, 8).tolist(), n=n)
            spectra.append(round(float(ev.max()), 6))
    perm = bool(np.abs(np.abs(U) - (np.abs(U) > 0.5)).max() < 1e-9)
    return ok(outcome=[m, n, "perm" if perm else "dense", int(np.argmax(np.abs(U[:, -1]))), len(spectra)], nontrivial=n > 1)


def check_reject(spec):
    import pennylane as qp

    m, n, what = spec["m"], spec["n"], spec["what"]
    try:
        if what == "orbital>=n":
            op = fword([[n, "+"]])
            r = qp.parity_transform(op, n) if m == "par" else qp.bravyi_kitaev(op, n)
        elif what == "sentence-orbital>=n":
            op = 1.0 * fword([[0, "+"]]) + 2.0 * fword([[n, "-"]])
            r = qp.parity_transform(op, n) if m == "par" else qp.bravyi_kitaev(op, n)
        else:
            f = {"jw": qp.jordan_wigner, "par": qp.parity_transform, "bk": qp.bravyi_kitaev}[m]
            r = f("a+(0)") if m == "jw" else f("a+(0)", n)
    except ValueError:
        return ok(outcome="ValueError", nontrivial=False)
    return bad(f"invalid-accepted:{m}:{what}", repr(r)[:200], "ValueError")


def run(ctx):
    R.selftest()
    nmax = 4 if ctx.quick else 6
    words = []
    for n in range(1, nmax + 1):
        for w in R.all_words(n, 3):
            for m in MAPS:
                words.append({"k": "word", "m": m, "n": n, "w": w, "ps": True, "wm": "none", "tol": None})
    ctx.enumerate(words, axis="word")
    opts = []
    for n in range(1, 5):
        for w in R.all_words(n, 2):
            for m in MAPS:
                for ps in (True, False):
                    for wm in WM:
                        for tol in (None, 1e-8):
                            if ps and wm == "none" and tol is None:
                                continue
                            opts.append({"k": "word", "m": m, "n": n, "w": w, "ps": ps, "wm": wm, "tol": tol})
    ctx.enumerate(opts, axis="options")
    pairs = []

    def add_pairs(n, la, lb, scal):
        for a in R.all_words(n, la):
            for b in R.all_words(n, lb):
                for m in MAPS:
                    for c in scal:
                        pairs.append({"k": "pair", "m": m, "n": n, "a": a, "b": b, "c": c})

    add_pairs(2, 2, 2, SCAL)
    if ctx.quick:
        add_pairs(3, 2, 1, SCAL[2:3])
        add_pairs(3, 1, 2, SCAL[3:4])
    else:
        add_pairs(3, 2, 2, SCAL)
        add_pairs(4, 2, 1, SCAL[2:3])
        add_pairs(4, 1, 2, SCAL[3:4])
        add_pairs(5, 1, 1, SCAL[2:3])
    ctx.enumerate(pairs, axis="pair")
    cmax = 7 if ctx.quick else 8
    ctx.enumerate([{"k": "car", "m": m, "n": n} for n in range(1, cmax + 1) for m in MAPS], axis="car", chunk=1)
    ctx.enumerate([{"k": "reject", "m": m, "n": n, "what": what} for m in ("par", "bk") for n in (1, 2, 3, 5) for what in ("orbital>=n", "sentence-orbital>=n")]
                  + [{"k": "reject", "m": m, "n": 2, "what": "not-fermi"} for m in MAPS], axis="reject")
    ctx.coverage["alphabet"] = {"letters": "a_j, a_j^+ for j < n", "mappings": MAPS, "scalars": SCAL, "wire_maps": WM, "ps": [True, False], "tol": [None, 1e-8]}
    ctx.coverage["bound"] = {"max_modes_words": nmax, "max_word_len": 3, "pair_word_len": 2, "car_max_qubits": cmax}
