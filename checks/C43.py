"""C43 — Tape-mode control flow equals plain Python control flow (DESIGN §5.7).

E1/E2, exhaustive over integer bounds and predicates.  qp.for_loop / qp.while_loop / qp.cond (program capture
disabled) are run inside a recording context and the recorded operations and the returned values are compared with
the literal Python for / while / if-elif-else written out in this file.  qp.cond on measurement values: the recorded
Conditional operations must carry exactly the truth table of the Python predicate (else-branch = its negation), and
executing the program with deferred measurements must give the branch-enumerating reference value (mc/x_mcm.py).
"""
import itertools

from mc.engine import ok, bad, skip

PROPERTY = "C43"
LEVEL = "exploration"
TECHNIQUE = "exhaustive loop bounds / predicates / truth assignments vs. literal Python control flow; MCM cond vs. branch reference"
LEVEL_TEXT = ("for_loop: every (start, stop, step) in [-3..4]^2 x ([-3..3] incl. 0) x 3 call forms x 5 body shapes (plain, 1 and 2 "
              "carried values, nested depth 2, illegal return); while_loop: 4 predicates x n in [-1..5] x init in [0..2]; cond: all "
              "2^3 truth assignments x 0..2 elifs x with/without else x 4 call styles; cond on measurement values: all programs "
              "of <=3 statements over 12 measure variants and 20 (thorough 27) conditionals (9 expressions) checked structurally and by "
              "deferred execution against a branch-enumerating reference.")
LEVEL_NOTE = ("Only tape mode (qp.capture disabled, no qjit). Non-integer / traced bounds are not explored. The deferred-semantics "
              "clause reuses the C21 reference (refsim.run_branches on a plain-Python reading of the program).")
DESIGN_REF = "5.7 C43"
START = "fork"
PARALLEL = True
RULE = ("full product of the declared integer ranges / truth assignments / statement words; non-trivial = at least one "
        "iteration or branch body is executed (for MCM cond: more than one reachable history)")

RNG_START = list(range(-3, 5))
RNG_STEP = [-3, -2, -1, 0, 1, 2, 3]
BODIES = ["plain", "carry1", "carry2", "nested", "badret"]
FORMS = ["3arg", "2arg", "1arg"]


def _ops_fingerprint(ops):
    out = []
    for op in ops:
        out.append([op.name, [round(float(p), 12) for p in op.data], [w for w in op.wires]])
    return out


# ------------------------------------------------------------------------------------------------ for_loop
def _py_for(start, stop, step, body):
    """Literal Python rendition: returns (op descriptions, return value)."""
    rec = []
    if body == "plain":
        for i in range(start, stop, step):
            rec.append(["RX", [round(0.1 * i + 0.05, 12)], [i % 3]])
            rec.append(["CNOT", [], [i % 3, (i + 1) % 3]])
        return rec, None
    if body == "carry1":
        x = 0.25
        for i in range(start, stop, step):
            rec.append(["RY", [round(x, 12)], [0]])
            x = x + 0.5 * i
        return rec, x
    if body == "carry2":
        x, y = 0.25, -1.5
        for i in range(start, stop, step):
            rec.append(["RZ", [round(x * y, 12)], [1]])
            x, y = y, x + i
        return rec, (x, y)
    if body == "nested":
        acc = 0.0
        for i in range(start, stop, step):
            rec.append(["Hadamard", [], [i % 3]])
            for j in range(i % 3, -1, -1):
                rec.append(["RX", [round(0.1 * j + acc, 12)], [j]])
                acc = acc + 0.01 * (i + j)
        return rec, acc
    if body == "badret":
        n = len(range(start, stop, step))
        if n:
            rec.append(["PauliX", [], [0]])
            raise ValueError("returns a value without carried arguments")
        return rec, None
    raise KeyError(body)


def _pl_for(start, stop, step, body, form):
    import pennylane as qp

    if form == "3arg":
        deco = lambda: qp.for_loop(start, stop, step)  # noqa: E731
    elif form == "2arg":
        deco = lambda: qp.for_loop(start, stop)  # noqa: E731
    else:
        deco = lambda: qp.for_loop(stop)  # noqa: E731
    out = {}

    def program():
        if body == "plain":
            @deco()
            def loop(i):
                qp.RX(0.1 * i + 0.05, wires=i % 3)
                qp.CNOT([i % 3, (i + 1) % 3])
            out["ret"] = loop()
        elif body == "carry1":
            @deco()
            def loop(i, x):
                qp.RY(x, wires=0)
                return x + 0.5 * i
            out["ret"] = loop(0.25)
        elif body == "carry2":
            @deco()
            def loop(i, x, y):
                qp.RZ(x * y, wires=1)
                return y, x + i
            out["ret"] = loop(0.25, -1.5)
        elif body == "nested":
            @deco()
            def outer(i, acc):
                qp.Hadamard(i % 3)

                @qp.for_loop(i % 3, -1, -1)
                def inner(j, acc):
                    qp.RX(0.1 * j + acc, wires=j)
                    return acc + 0.01 * (i + j)
                return inner(acc)
            out["ret"] = outer(0.0)
        elif body == "badret":
            @deco()
            def loop(i):
                qp.PauliX(0)
                return 1.0
            out["ret"] = loop()

    tape = qp.tape.make_qscript(program)()
    return _ops_fingerprint(tape.operations), out.get("ret")


def _same_value(a, b):
    if a is None or b is None:
        return a is None and b is None
    if isinstance(b, tuple):
        return isinstance(a, tuple) and len(a) == len(b) and all(abs(float(x) - float(y)) <= 1e-12 for x, y in zip(a, b))
    return not isinstance(a, tuple) and abs(float(a) - float(b)) <= 1e-12


def check_for(spec):
    start, stop, step, body, form = spec["start"], spec["stop"], spec["step"], spec["body"], spec["form"]
    if form == "2arg":
        pstart, pstop, pstep = start, stop, 1
    elif form == "1arg":
        pstart, pstop, pstep = 0, stop, 1
    else:
        pstart, pstop, pstep = start, stop, step
    try:
        exp = _py_for(pstart, pstop, pstep, body)
    except ValueError as e:
        exp = e
    try:
        got = _pl_for(start, stop, step, body, form)
    except ValueError as e:
        got = e
    if isinstance(exp, Exception) or isinstance(got, Exception):
        if isinstance(exp, Exception) and isinstance(got, Exception):
            return ok(outcome=["ValueError", "step0" if pstep == 0 else "badret"], nontrivial=True)
        return bad(f"for:{body}:{form}:exception-mismatch", repr(got)[:200], repr(exp)[:200])
    if got[0] != exp[0]:
        return bad(f"for:{body}:{form}:recorded-ops", got[0][:12], exp[0][:12], n_got=len(got[0]), n_exp=len(exp[0]))
    if not _same_value(got[1], exp[1]):
        return bad(f"for:{body}:{form}:return-value", repr(got[1]), repr(exp[1]))
    return ok(outcome=[len(exp[0]), repr(exp[1])[:40]], nontrivial=len(exp[0]) > 0)


# ------------------------------------------------------------------------------------------------ while_loop
def check_while(spec):
    import pennylane as qp

    pred, n, i0 = spec["pred"], spec["n"], spec["init"]
    rec = []
    if pred == "lt":
        i = i0
        while i < n:
            rec.append(["RX", [round(0.1 * i, 12)], [i % 3]])
            i += 1
        exp_ret = i
    elif pred == "sq":
        i = i0
        while i * i < n:
            rec.append(["RX", [round(0.1 * i, 12)], [i % 3]])
            i += 2
        exp_ret = i
    elif pred == "never":
        exp_ret = i0
    elif pred == "two":
        i, x = i0, 0.1
        while i < n and x < 0.9:
            rec.append(["RY", [round(x, 12)], [1]])
            rec.append(["CZ", [], [0, 1]])
            i, x = i + 1, x + 0.3
        exp_ret = (i, x)
    elif pred == "noargs":
        exp_ret = None
    out = {}

    def program():
        if pred == "lt":
            @qp.while_loop(lambda i: i < n)
            def loop(i):
                qp.RX(0.1 * i, wires=i % 3)
                return i + 1
            out["ret"] = loop(i0)
        elif pred == "sq":
            @qp.while_loop(lambda i: i * i < n)
            def loop(i):
                qp.RX(0.1 * i, wires=i % 3)
                return i + 2
            out["ret"] = loop(i0)
        elif pred == "never":
            @qp.while_loop(lambda i: False)
            def loop(i):
                qp.PauliX(0)
                return i + 1
            out["ret"] = loop(i0)
        elif pred == "two":
            @qp.while_loop(lambda i, x: i < n and x < 0.9)
            def loop(i, x):
                qp.RY(x, wires=1)
                qp.CZ([0, 1])
                return i + 1, x + 0.3
            out["ret"] = loop(i0, 0.1)
        elif pred == "noargs":
            @qp.while_loop(lambda: False)
            def loop():
                qp.PauliX(0)
            out["ret"] = loop()

    tape = qp.tape.make_qscript(program)()
    got = _ops_fingerprint(tape.operations)
    if got != rec:
        return bad(f"while:{pred}:recorded-ops", got[:12], rec[:12], n_got=len(got), n_exp=len(rec))
    if not _same_value(out["ret"], exp_ret):
        return bad(f"while:{pred}:return-value", repr(out["ret"]), repr(exp_ret))
    return ok(outcome=[len(rec), repr(exp_ret)], nontrivial=len(rec) > 0)


# ------------------------------------------------------------------------------------------------ cond on Python bools
def check_cond(spec):
    import pennylane as qp

    p, n_elif, has_else, style = spec["p"], spec["n_elif"], spec["else"], spec["style"]
    # literal Python
    rec = []
    ret = None
    x = 0.3
    if p[0]:
        rec.append(["RX", [x], [0]])
        ret = 1.0
    elif n_elif >= 1 and p[1]:
        rec.append(["RY", [x], [1]])
        ret = 2.0
    elif n_elif >= 2 and p[2]:
        rec.append(["RZ", [x], [2]])
        ret = 3.0
    elif has_else:
        rec.append(["PhaseShift", [x], [0]])
        ret = 4.0

    def f_true(x):
        qp.RX(x, 0)
        return 1.0

    def f_e1(x):
        qp.RY(x, 1)
        return 2.0

    def f_e2(x):
        qp.RZ(x, 2)
        return 3.0

    def f_else(x):
        qp.PhaseShift(x, 0)
        return 4.0

    out = {}

    def program():
        elifs = [(p[1], f_e1), (p[2], f_e2)][:n_elif]
        if style == "args":
            c = qp.cond(p[0], f_true, f_else if has_else else None, elifs=elifs)
        elif style == "elif-pair":
            # elifs given as one bare (pred, fn) pair
            c = qp.cond(p[0], f_true, f_else if has_else else None, elifs=tuple(elifs[0]) if n_elif == 1 else elifs)
        elif style == "decorator":
            c = qp.cond(p[0])(f_true)
            for pr, fn in elifs:
                c.else_if(pr)(fn)
            if has_else:
                c.otherwise(f_else)
        elif style == "methods":
            c = qp.cond(p[0], f_true)
            for pr, fn in elifs:
                c = c.else_if(pr)(fn)
            if has_else:
                c = c.otherwise(f_else)
        out["ret"] = c(x)

    tape = qp.tape.make_qscript(program)()
    got = _ops_fingerprint(tape.operations)
    if got != rec:
        return bad(f"cond:{style}:recorded-ops", got, rec)
    if not _same_value(out["ret"], ret):
        return bad(f"cond:{style}:return-value", repr(out["ret"]), repr(ret))
    return ok(outcome=[rec[0][0] if rec else None], nontrivial=bool(rec))


def check_cond_misc(spec):
    """Operator class as branch, operator instance as argument (must be de-queued), no-branch-taken."""
    import pennylane as qp

    p, kind = spec["p"], spec["kind2"]
    rec = []
    if kind == "opclass":
        if p:
            rec.append(["RX", [0.3], [1]])

        def program():
            qp.cond(p, qp.RX)(0.3, wires=1)
    elif kind == "opclass-else":
        rec.append(["RX", [0.3], [1]] if p else ["RY", [0.3], [1]])

        def program():
            qp.cond(p, qp.RX, qp.RY)(0.3, wires=1)
    elif kind == "oparg":
        rec.append(["Hadamard", [], [2]])
        if p:
            rec.append(["Adjoint(S)", [], [0]])

        def program():
            qp.Hadamard(2)
            qp.cond(p, lambda op: qp.adjoint(op))(qp.S(0))
    elif kind == "nested":
        q = spec["q"]
        if p:
            rec.append(["PauliX", [], [0]])
            if q:
                rec.append(["PauliY", [], [1]])
            else:
                rec.append(["PauliZ", [], [1]])
        else:
            rec.append(["Hadamard", [], [0]])

        def program():
            def inner_t():
                qp.PauliX(0)
                qp.cond(q, lambda: qp.PauliY(1), lambda: qp.PauliZ(1))()
            qp.cond(p, inner_t, lambda: qp.Hadamard(0))()

    tape = qp.tape.make_qscript(program)()
    got = _ops_fingerprint(tape.operations)
    if got != rec:
        return bad(f"cond:{kind}:recorded-ops", got, rec)
    return ok(outcome=[len(rec)], nontrivial=bool(rec))


# ------------------------------------------------------------------------------------------------ cond on measurement values
def check_mcm_structure(spec):
    """The tape recorded by qp.cond(mv, ...) = plain operations + Conditional(base op) whose measurement value has the
    truth table of the Python predicate (negated for the else branch), in program order."""
    import pennylane as qp
    from mc import x_mcm as X

    tape = qp.tape.make_qscript(X.qfunc(spec))()
    ref_ops, ref_mcms = X.reference_ops(spec)
    ops = tape.operations
    if len(ops) != len(ref_ops):
        return bad("mcm-cond:number-of-recorded-ops", [o.name for o in ops], [o.name for o in ref_ops])
    impl_mcms = [o for o in ops if type(o).__name__ in ("MidMeasure", "MidMeasureMP")]
    index = {id(m): k for k, m in enumerate(impl_mcms)}
    rindex = {id(m): k for k, m in enumerate(ref_mcms)}
    n_cond = 0
    for pos, (o, r) in enumerate(zip(ops, ref_ops)):
        tn, rn = type(o).__name__, type(r).__name__
        if tn != rn:
            return bad("mcm-cond:op-type", [pos, tn], [pos, rn])
        if tn == "Conditional":
            n_cond += 1
            if _ops_fingerprint([o.base]) != _ops_fingerprint([r.base]):
                return bad("mcm-cond:base-op", _ops_fingerprint([o.base]), _ops_fingerprint([r.base]))
            k = len(r.meas_val.measurements)
            for bits in itertools.product((0, 1), repeat=k):
                try:
                    iv = o.meas_val.processing_fn(*[bits[index[id(m)]] for m in o.meas_val.measurements])
                except KeyError:
                    return bad("mcm-cond:refers-to-unknown-measurement", repr(o.meas_val), "measurements of the program")
                rv = r.meas_val.processing_fn(*[bits[rindex[id(m)]] for m in r.meas_val.measurements])
                if bool(iv) != bool(rv):
                    expr = [s for s in spec["body"] if s[0] == "?"]
                    return bad("mcm-cond:truth-table", [list(bits), bool(iv)], [list(bits), bool(rv)], conds=expr, pos=pos)
        elif tn in ("MidMeasure", "MidMeasureMP"):
            if (list(o.wires), o.reset, o.postselect) != (list(r.wires), r.reset, r.postselect):
                return bad("mcm-cond:measure", [list(o.wires), o.reset, o.postselect], [list(r.wires), r.reset, r.postselect])
        else:
            if _ops_fingerprint([o]) != _ops_fingerprint([r]):
                return bad("mcm-cond:plain-op", _ops_fingerprint([o]), _ops_fingerprint([r]))
    return ok(outcome=[len(ops), n_cond], nontrivial=n_cond > 0)


def check_mcm_deferred(spec):
    """cond on measurement values == deferring the measurement: QNode(mcm_method='deferred') vs branch reference."""
    import numpy as np
    import pennylane as qp
    from mc import x_mcm as X

    ref, tot, nbr = X.analytic_reference(spec)
    res = qp.QNode(X.qfunc(spec), qp.device("default.qubit"), mcm_method="deferred")()
    if ref is None:
        return ok(outcome="zero-prob-postselect", nontrivial=False)
    if len(spec["meas"]) == 1:
        res = (res,)
    for atom, r, e in zip(spec["meas"], res, ref):
        r = np.real(np.asarray(r)).astype(float)
        e = np.asarray(e, dtype=float)
        if r.shape != e.shape or not np.all(np.abs(r - e) <= 1e-9):
            return bad(f"mcm-cond:deferred:{atom}:{X.features(spec)}", r.tolist(), e.tolist())
    return ok(outcome=[np.round(np.asarray(ref[0]), 6).tolist(), round(tot, 6)], nontrivial=nbr > 1)


def check_mcm_reject(spec):
    """Documented rejections of qp.cond with measurement values."""
    import pennylane as qp
    from pennylane.exceptions import ConditionalTransformError

    kind = spec["kind2"]

    def program():
        qp.Hadamard(0)
        m = qp.measure(0)
        m2 = qp.measure(1)
        if kind == "elifs":
            qp.cond(m, lambda: qp.PauliX(1), lambda: qp.PauliY(1), elifs=[(m2, lambda: qp.PauliZ(1))])()
        elif kind == "measurement-in-branch":
            qp.cond(m, lambda: qp.expval(qp.Z(1)))()
        elif kind == "mcm-in-branch":
            qp.cond(m, lambda: qp.measure(1))()
        elif kind == "mcm-in-else":
            qp.cond(m, lambda: qp.PauliX(1), lambda: qp.measure(1))()
        elif kind == "no-true-fn":
            qp.cond(m)
        elif kind == "non-callable":
            qp.cond(m, 3)()

    try:
        qp.tape.make_qscript(program)()
    except ConditionalTransformError:
        return ok(outcome="ConditionalTransformError:" + kind)
    except TypeError:
        if kind == "no-true-fn":
            return ok(outcome="TypeError:" + kind)
        raise
    return bad(f"mcm-cond:accepted:{kind}", "accepted", "ConditionalTransformError")


# ------------------------------------------------------------------------------------------------ driver
def check(spec):
    return {"for": check_for, "while": check_while, "cond": check_cond, "cond_misc": check_cond_misc,
            "mcm_structure": check_mcm_structure, "mcm_deferred": check_mcm_deferred, "mcm_reject": check_mcm_reject}[spec["kind"]](spec)


def run(ctx):
    import pennylane  # noqa: F401
    from mc import x_mcm as X, refsim  # noqa: F401
    from checks.C21 import bodies, MEASURES

    specs = []
    for start, stop, step in itertools.product(RNG_START, RNG_START, RNG_STEP):
        for body in BODIES:
            specs.append({"kind": "for", "start": start, "stop": stop, "step": step, "body": body, "form": "3arg"})
    for start, stop in itertools.product(RNG_START, RNG_START):
        for body in BODIES:
            specs.append({"kind": "for", "start": start, "stop": stop, "step": 1, "body": body, "form": "2arg"})
    for stop in RNG_START:
        for body in BODIES:
            specs.append({"kind": "for", "start": 0, "stop": stop, "step": 1, "body": body, "form": "1arg"})
    ctx.enumerate(specs, axis="for_loop")

    specs = [{"kind": "while", "pred": pred, "n": n, "init": i0}
             for pred in ["lt", "sq", "never", "two"] for n in range(-1, 6) for i0 in range(0, 3)]
    specs.append({"kind": "while", "pred": "noargs", "n": 0, "init": 0})
    ctx.enumerate(specs, axis="while_loop")

    specs = []
    for p in itertools.product((False, True), repeat=3):
        for n_elif in (0, 1, 2):
            for has_else in (False, True):
                for style in ("args", "elif-pair", "decorator", "methods"):
                    specs.append({"kind": "cond", "p": list(p), "n_elif": n_elif, "else": has_else, "style": style})
    for p in (False, True):
        for k in ("opclass", "opclass-else", "oparg"):
            specs.append({"kind": "cond_misc", "p": p, "kind2": k})
        for q in (False, True):
            specs.append({"kind": "cond_misc", "p": p, "q": q, "kind2": "nested"})
    ctx.enumerate(specs, axis="cond_bool")

    # cond on measurement values
    exprs = ["a", "na", "a0", "and", "or", "x1", "eq", "lin", "nb"]
    conds = []
    for e in exprs:
        conds += [f"?{e}:X1", f"?{e}:RX1/X0"] + ([f"?{e}:HX/CN01"] if (not ctx.quick or e in ("a", "and")) else [])
    sigma = MEASURES + conds + (["H0", "CN01"] if not ctx.quick else [])
    words = [b for b in bodies(sigma, 3, max_mcm=2) if any(s[0] == "?" for s in b)]
    specs = []
    for b in words:
        k = sum(1 for s in b if s[0] == "M")
        meas = ["eZ0", "p01", "ea"] if k == 1 else ["eZ0", "p01", "e2"]
        for uid in (["asc"] if k == 1 else ["asc", "desc"]):
            specs.append({"kind": "mcm_structure", "prep": "ent", "body": b, "meas": meas, "uid": uid, "lab": "A"})
            specs.append({"kind": "mcm_deferred", "prep": "ent", "body": b, "meas": meas, "uid": uid, "lab": "A"})
    ctx.enumerate(specs, axis="cond_mcm")
    ctx.enumerate([{"kind": "mcm_reject", "kind2": k} for k in
                   ["elifs", "measurement-in-branch", "mcm-in-branch", "mcm-in-else", "no-true-fn", "non-callable"]], axis="cond_mcm_reject")

    ctx.coverage["alphabet"] = {"for": {"start/stop": RNG_START, "step": RNG_STEP, "bodies": BODIES, "forms": FORMS},
                                "while": {"pred": ["lt", "sq", "never", "two", "noargs"], "n": list(range(-1, 6)), "init": [0, 1, 2]},
                                "cond": {"truth": "2^3", "n_elif": [0, 1, 2], "else": [False, True],
                                         "styles": ["args", "elif-pair", "decorator", "methods"]},
                                "cond_mcm": {"statements": sigma, "uid_order": ["asc", "desc"]}}
    ctx.coverage["bound"] = {"nesting": 2, "mcm_statements": 3, "max_mcm": 2}
