"""C28 — Noisy evolution stays physical and matches the Kraus definition (DESIGN §5.5).

E1: every Channel subclass (discovered with Channel.__subclasses__) x its documented parameter domain grid including the
end-points -> sum_k K_k^dagger K_k = I.
E2: every word of length <= 3 over a noisy-circuit alphabet (gates, every channel on wire 0 and wire 1, 2- and 3-qubit
QubitChannel / PauliError in both wire orders, a broadcast rotation) x device wire orders on default.mixed ->
density matrix is Hermitian, unit trace, positive semidefinite and equals the Kraus-sum reference mc.refsim.run_dm.
"""
import itertools
import math

import numpy as np

from mc.engine import ok, bad, skip
from mc.explore import words
from mc import x_circ as X
from mc import refsim as RS

PROPERTY = "C28"
LEVEL = "exploration"
TECHNIQUE = "exhaustive channel x parameter-grid Kraus completeness + bounded exhaustive noisy circuits vs. explicit Kraus-sum density-matrix reference"
LEVEL_TEXT = ("All 10 Channel subclasses over their documented parameter grids (end-points, both ThermalRelaxationError branches) satisfy "
              "sum K^dagger K = I at 1e-10; every noisy circuit of length <=3 over a 36-letter alphabet on 2-3 wires x 5 device wire "
              "orders on default.mixed yields a Hermitian, trace-1, PSD density matrix equal (1e-9) to mc.refsim.run_dm.")
LEVEL_NOTE = ("Reference Kraus sums use the channel's own kraus_matrices() (the Kraus *definition*), gate matrices from mc.refgates. "
              "Not decided: parameters between grid points, circuits longer than 3, >3 wires (the >7-wire tensordot branch), "
              "non-numpy interfaces, finite shots. Genuine ThermalRelaxationError defects (T2 > T1 with tg >= 5 T1; exp underflow for tg >= 700 T1) are recorded in "
              "known_findings/C28.json.")
DESIGN_REF = "5.5 C28"
START = "fork"
PARALLEL = True
RULE = ("complete product channel-class x parameter grid; all words <= bound over the noisy alphabet x device wire orders; "
        "non-trivial = channel strength > 0 / circuit contains a channel acting on a non-|0> state")

G = 0.137
TOL_K = 1e-10
ATOL = 1e-9


# ------------------------------------------------------------------------------------------------ E1: Kraus completeness
def prob_grid(quick):
    return [0.0, 1.0, 0.5, G] if quick else [0.0, 1.0, 0.5, G, 0.25, 0.75, 1e-8, 1 - 1e-8, 1 / 3]


def kraus_specs(quick):
    P = prob_grid(quick)
    out = []
    for name in ("AmplitudeDamping", "PhaseDamping", "DepolarizingChannel", "BitFlip", "PhaseFlip"):
        out += [{"k": "kraus", "cls": name, "p": [p]} for p in P]
    out += [{"k": "kraus", "cls": "GeneralizedAmplitudeDamping", "p": [g, p]} for g in P for p in P]
    out += [{"k": "kraus", "cls": "ResetError", "p": [p0, p1]} for p0 in P for p1 in P if p0 + p1 <= 1.0]
    for word in ("X", "Y", "Z", "I", "XY", "ZI", "YY", "XYZ", "IZY"):
        out += [{"k": "kraus", "cls": "PauliError", "p": [p], "h": {"operators": word}} for p in P]
    out += [{"k": "kraus", "cls": "QubitChannel", "p": [t]} for t in ("K1u", "K1ad", "K2u", "K2x", "K3u")]
    # ThermalRelaxationError: T2 < T1, T2 == T1 (boundary of the first branch), T1 < T2 < 2 T1, T2 == 2 T1 (end-point)
    pes = [0.0, G, 1.0] if quick else [0.0, G, 0.5, 1.0]
    t12 = [(1.2, 0.8), (1.0, 1.0), (1.2, 1.3), (1.0, 2.0)] + ([] if quick else [(100.0, 0.01), (0.01, 0.02), (1.0, 1.0 + 1e-9)])
    tgs = [0.0, 0.1, 10.0] if quick else [0.0, 1e-6, 0.1, 1.0, 10.0, 1000.0]
    out += [{"k": "kraus", "cls": "ThermalRelaxationError", "p": [pe, t1, t2, tg]} for pe in pes for (t1, t2) in t12 for tg in tgs]
    return out


def channel_classes():
    from pennylane.operation import Channel

    def subs(c):
        out = []
        for s in c.__subclasses__():
            out.append(s)
            out += subs(s)
        return out

    return sorted({c.__name__ for c in subs(Channel)})


def check_kraus(spec):
    name, params, hyper = spec["cls"], spec["p"], spec.get("h", {})
    nw = {"PauliError": len(hyper.get("operators", "X")), "QubitChannel": None}.get(name, 1)
    if name == "QubitChannel":
        nw = int(round(math.log2(X.kraus_token(params[0])[0].shape[0])))
    letter = [name, list(range(nw)), params] + ([hyper] if hyper else [])
    op = X.build_op(letter, list(range(nw)))
    Ks = [np.asarray(K, dtype=complex) for K in op.kraus_matrices()]
    d = 2 ** nw
    if not Ks or any(K.shape != (d, d) for K in Ks):
        return bad(f"kraus-shape:{name}", [K.shape for K in Ks], (d, d))
    S = sum(K.conj().T @ K for K in Ks)
    dev = float(np.max(np.abs(S - np.eye(d))))
    if not dev <= TOL_K:
        regime = ""
        if name == "ThermalRelaxationError":  # the two documented branches x relaxation strength tg / T1
            _, t1, t2, tg = params
            regime = (":T2>T1" if t2 > t1 else ":T2<=T1") + (":tg<5*T1" if tg < 5 * t1 else ":5*T1<=tg<700*T1" if tg < 700 * t1
                                                               else ":tg>=700*T1(exp underflow)")
        return bad(f"kraus-incomplete:{name}{regime}", {"params": params, "hyper": hyper, "sum": S, "maxdev": dev}, "identity")
    strength = [p for p in params if isinstance(p, float)]
    fp = [len(Ks)] + [round(float(np.linalg.norm(K)), 6) for K in Ks]
    return ok(outcome=[name, fp], nontrivial=any(0 < p for p in strength) or name == "QubitChannel")


# ------------------------------------------------------------------------------------------------ E2: noisy circuits
def sigma():
    L = [["Hadamard", [0], []], ["CNOT", [0, 1], []], ["CNOT", [1, 0], []], ["RX", [1], [0.3]], ["RX", [0], [X.B3]],
         ["RZ", [1], [X.G2]], ["PauliX", [1], []], ["S", [0], []]]
    for w in (0, 1):
        L += [["AmplitudeDamping", [w], [G]], ["GeneralizedAmplitudeDamping", [w], [G, 0.3]], ["PhaseDamping", [w], [G]],
              ["DepolarizingChannel", [w], [G]], ["BitFlip", [w], [G]], ["PhaseFlip", [w], [G]], ["ResetError", [w], [G, 0.3]],
              ["PauliError", [w], [G], {"operators": "Y"}], ["ThermalRelaxationError", [w], [G, 1.2, 0.8, 0.5]],
              ["ThermalRelaxationError", [w], [G, 1.2, 1.3, 0.5]], ["QubitChannel", [w], ["K1ad"]]]
    L += [["PauliError", [0, 1], [G], {"operators": "XY"}], ["PauliError", [1, 0], [G], {"operators": "XY"}],
          ["QubitChannel", [0, 1], ["K2x"]], ["QubitChannel", [1, 0], ["K2x"]], ["QubitChannel", [1, 0], ["K2u"]]]
    return L


def sigma3():
    """Letters that need a third wire: 3-qubit channels (tensordot path in numpy) and channels on the last wire."""
    return [["QubitChannel", [2, 0, 1], ["K3u"]], ["QubitChannel", [0, 1, 2], ["K3u"]],
            ["PauliError", [1, 2, 0], [G], {"operators": "XYZ"}], ["AmplitudeDamping", [2], [G]],
            ["QubitChannel", [2, 0], ["K2x"]], ["CNOT", [2, 1], []], ["Toffoli", [2, 0, 1], []]]


DEVS2 = [[0, 1], [1, 0], [1, 2, 0]]  # positions; position 2 is an idle extra device wire in the 2-wire family
DEVS3 = [[0, 1, 2], [2, 0, 1]]
CHANNELS = ("AmplitudeDamping", "GeneralizedAmplitudeDamping", "PhaseDamping", "DepolarizingChannel", "BitFlip", "PhaseFlip",
            "ResetError", "PauliError", "QubitChannel", "ThermalRelaxationError")


def check(spec):
    if spec.get("k") == "kraus":
        return check_kraus(spec)
    import pennylane as qp

    letters = spec["word"]
    dev = spec["dev"]
    n = max(dev) + 1
    lab = spec.get("lab") or list(range(n))
    B, consistent = X.circuit_batch(letters)
    if not consistent:
        return skip("inconsistent broadcast sizes")
    ops = [X.build_op(l, lab) for l in letters]
    dwires = [lab[i] for i in dev]
    tape = qp.tape.QuantumScript(ops, [qp.density_matrix(dwires), qp.state()])
    device = qp.device("default.mixed", wires=dwires)
    res = qp.execute([tape], device, diff_method=None)[0]
    rho_dm, rho_state = np.asarray(res[0]), np.asarray(res[1])
    # reference: explicit Kraus sums, one run per broadcast entry
    refs = []
    for b in ([None] if B is None else range(B)):
        live = [X.build_op(X.unbatch(l, b) if b is not None else l, list(range(n))) for l in letters]
        rho = RS.run_dm(live, list(range(n)))
        refs.append(RS.dm_reduce(rho, list(dev), n))
    ref = refs[0] if B is None else np.stack(refs)
    chans = sorted({l[0] for l in letters if l[0] in CHANNELS})
    cls = "+".join(chans) if chans else "unitary"
    bt = "" if B is None else f":batch{B}"
    last = X.letter_code(letters[-1]) if letters else "-"
    for nm, rho in (("density_matrix", rho_dm), ("state", rho_state)):
        if rho.shape != ref.shape:
            return bad(f"dm-shape:{nm}{bt}", rho.shape, ref.shape)
        for r in (rho if B is not None else [rho]):
            herm = float(np.max(np.abs(r - r.conj().T)))
            tr = complex(np.trace(r))
            lmin = float(np.min(np.linalg.eigvalsh((r + r.conj().T) / 2)))
            if herm > ATOL:
                return bad(f"not-hermitian:{nm}:{cls}{bt}", herm, 0.0)
            if abs(tr - 1) > ATOL:
                return bad(f"trace:{nm}:{cls}{bt}", tr, 1.0)
            if lmin < -1e-10:
                return bad(f"not-psd:{nm}:{cls}{bt}", lmin, ">= -1e-10")
        d = float(np.max(np.abs(rho - ref)))
        if not d <= ATOL:
            k = first_bad_prefix(letters, n)
            where = X.letter_code(letters[k]) if k is not None else "device-wire-order"
            return bad(f"dm-mismatch:{nm}:{where}{bt}", {"got": rho, "maxdiff": d}, ref)
    mixed = any(l[0] in CHANNELS for l in letters)
    purity = float(np.real(np.trace(refs[0] @ refs[0])))
    return ok(outcome=[X.fingerprint([rho_dm]), round(purity, 6)], nontrivial=mixed and purity < 1 - 1e-9)


def first_bad_prefix(letters, n):
    """Index of the first letter at which default.mixed (natural wire order) deviates from the reference."""
    import pennylane as qp

    device = qp.device("default.mixed", wires=list(range(n)))
    B, _ = X.circuit_batch(letters)
    for k in range(1, len(letters) + 1):
        pre = letters[:k]
        Bk, _ = X.circuit_batch(pre)
        try:
            tape = qp.tape.QuantumScript([X.build_op(l, list(range(n))) for l in pre], [qp.state()])
            got = np.asarray(qp.execute([tape], device, diff_method=None)[0])
        except Exception:  # pylint: disable=broad-except
            return k - 1
        refs = []
        for b in ([None] if Bk is None else range(Bk)):
            live = [X.build_op(X.unbatch(l, b) if b is not None else l, list(range(n))) for l in pre]
            refs.append(RS.run_dm(live, list(range(n))))
        ref = refs[0] if Bk is None else np.stack(refs)
        if got.shape != ref.shape or float(np.max(np.abs(got - ref))) > ATOL:
            return k - 1
    return None


# ------------------------------------------------------------------------------------------------ driver
def run(ctx):
    quick = ctx.quick
    ks = kraus_specs(quick)
    ctx.enumerate(ks, axis="E1:kraus-completeness", chunk=32)
    classes = channel_classes()
    covered = sorted({s["cls"] for s in ks})
    uncovered = [c for c in classes if c not in covered]
    ctx.coverage["channel_classes_discovered"] = classes
    ctx.coverage["channel_classes_uncovered"] = uncovered
    if uncovered:
        ctx.note(f"Channel subclasses without a parameter recipe (not checked): {uncovered}")

    S2, S3 = sigma(), sigma3()
    L = 2 if quick else 3
    specs = []
    for w in words(S2, L):
        for dev in DEVS2:
            specs.append({"k": "circ", "word": w, "dev": dev})
    if quick:  # length 3 on one device order
        for w in words(S2, 3, 3):
            specs.append({"k": "circ", "word": w, "dev": DEVS2[1]})
    # three-wire letters: every word <= 2 (thorough 3) that contains at least one of them, prefixed by an entangling layer
    S23 = S2 + S3
    pre = [["Hadamard", [0], []], ["CNOT", [0, 2], []], ["RX", [1], [0.3]]]
    for w in words(S23, 2):
        if any(l in S3 for l in w):
            for dev in DEVS3:
                specs.append({"k": "circ", "word": pre + w, "dev": dev})
    # wire labels
    for lab in (["a", "b", "c"], [2, "q", 0]):
        for l in S23:
            specs.append({"k": "circ", "word": pre + [l], "dev": DEVS3[1], "lab": lab})
    ctx.enumerate(specs, axis="E2:noisy-circuits", chunk=64)
    ctx.coverage["alphabet"] = {"letters": [X.letter_code(l) for l in S23], "prob_grid": prob_grid(quick),
                                "device_wire_orders": {"2-wire": DEVS2, "3-wire": DEVS3}}
    ctx.coverage["bound"] = {"word_len": 3 if not quick else "3 on one device order, 2 on all", "wires": 3, "broadcast": [None, 3]}
