"""C64 — Dataset attributes survive HDF5 round trips (DESIGN §5.10).

(a) E1 round trips: every value of the alphabet (scalars, strings, None, arrays, tensors, lists/tuples/dicts with
    nesting <= 2, every operator type of the explicit operator codec, operators/Hamiltonians/sums through the pytree
    codec, sparse matrices of every scipy class, molecules, tapes and measurements, nested datasets) x wrappers x
    routes (memory, setattr, file w->r, file copy mode, append-mode reopen, write into another Dataset, nested).
(b) E3 histories: every enabled word up to a depth bound over create/set/del/get/write(w, a, a+overwrite)/open(r, a,
    copy)/read(+overwrite)/copy-into-dataset/nested-dataset-attach on files in a per-case temp dir; the reference is a
    plain nested dict model carried along the history; memory AND every file are compared at the end.
"""
import itertools
import os
import shutil
import tempfile

from mc.engine import ok, bad, skip
from mc.explore import words

PROPERTY = "C64"
LEVEL = "model_checking"
TECHNIQUE = "explicit-state exploration of dataset write/open/read/copy/set/delete histories on temporary HDF5 files against a nested-dict reference model, plus exhaustive per-type round trips"
LEVEL_TEXT = ("Every enabled history of length <=3 (thorough 4; 4 extra events up to length 3) over 15 events from two initial worlds on one in-memory dataset and up to two HDF5 files is executed on the "
              "real Dataset API and compared (memory and every file, type-aware) with a plain nested-dict model; additionally each of ~150 value specs "
              "(all supported operator classes, arrays of 5 dtypes x 4 shapes, 14 sparse classes, containers of nesting <=2, molecules, pytrees, nested "
              "datasets) is round-tripped through 7 routes. Alias family: every enabled history of length <=4 (5) over 11 events in which ONE "
              "qp.data.attribute() object is assigned under several names and lists are appended to in place.")
LEVEL_NOTE = ("Reference = nested Python dict + type-aware equality (qp.equal for operators/tapes, array_equal+dtype, sparse class/shape/dtype/values). "
              "Python ints beyond int64, str arrays, sets and bytes are outside the documented value family and not explored; info/identifier metadata only "
              "for the attribute() wrapper. Composite operators stored with the explicit operator codec are compared up to simplify().")
DESIGN_REF = "5.10 C64"
START = "fork"
PARALLEL = True
RULE = ("rt: one case = (value spec, route); hist: one case = an enabled word over the event alphabet (enabledness decided by the reference model); "
        "non-trivial = something other than None/empty was written and read back through HDF5")

FLOAT_SHAPES = [[], [0], [2, 3], [1, 2, 2]]


def _tmpdir():
    base = "/dev/shm" if os.path.isdir("/dev/shm") else None
    return tempfile.mkdtemp(prefix="c64-", dir=base)


# ------------------------------------------------------------------------------------------------ value alphabet
def leaf_values():
    V = [["none"], ["int", 0], ["int", -7], ["int", 2**62], ["float", -1.5], ["float", 0.0], ["special", "nan"], ["special", "inf"],
         ["special", "-0.0"], ["complex", 2, 1], ["bool", True], ["bool", False], ["str", ""], ["str", "abc"], ["str", "ü中"],
         ["str", "two\nlines / slash"], ["npscalar", "float32", 1.5], ["npscalar", "int8", -3], ["npscalar", "complex64", 2.0]]
    for dt in ("int64", "float64", "complex128", "bool", "float32"):
        for sh in FLOAT_SHAPES:
            V.append(["arr", dt, sh])
    V += [["pnp", "float64", [3], True], ["pnp", "float64", [3], False], ["pnp", "int64", [], False]]
    return V


def container_values():
    a, b, c, n = ["int", 1], ["str", "a"], ["float", 2.5], ["none"]
    arr = ["arr", "float64", [2, 3]]
    return [("empty-list", ["list", []]), ("empty-tuple", ["tuple", []]), ("empty-dict", ["dict", []]), ("list3", ["list", [a, b, n]]),
            ("tuple3", ["tuple", [a, b, n]]), ("dict2", ["dict", [["k", a], ["other key", b]]]),
            ("list-tuple-list", ["list", [["tuple", [c, ["list", [a]]]], arr]]),
            ("tuple-list-dict", ["tuple", [["list", [a, ["tuple", [b]]]], ["dict", [["k", arr]]]]]),
            ("dict-tuple-list-dict", ["dict", [["k", ["tuple", [a, n]]], ["l", ["list", [["dict", [["m", c]]]]]]]]),
            ("list12", ["list", [["int", i] for i in range(12)]]), ("tuple11", ["tuple", [["int", i] for i in range(11)]]),
            ("list-of-empties", ["list", [["list", []], ["tuple", []], ["dict", []]]]), ("dict-key-with-slash", ["dict", [["a/b", a]]]),
            ("list-of-arrays", ["list", [arr, ["arr", "int64", [2]]]]), ("tuple-array-bool", ["tuple", [["arr", "complex128", []], ["bool", True]]])]


def object_values():
    from mc.x_dataset import COMPOSITES, OPS, PYTREE_ONLY

    V = []
    for name in list(OPS) + COMPOSITES:
        V.append(["xop", name])
    for name in list(OPS) + COMPOSITES + PYTREE_ONLY:
        V.append(["op", name])
    for cls in ("bsr_array", "coo_array", "csc_array", "csr_array", "dia_array", "dok_array", "lil_array",
                "csc_matrix", "csr_matrix", "bsr_matrix", "coo_matrix", "dia_matrix", "dok_matrix", "lil_matrix"):
        V.append(["sparse", cls, "float64", [2, 3], "some"])
    V += [["sparse", "csr_matrix", "complex128", [3, 3], "some"], ["sparse", "csr_array", "float64", [2, 4], "lastcol_empty"],
          ["sparse", "csc_matrix", "int64", [3, 2], "empty"], ["sparse", "coo_matrix", "float64", [1, 1], "lastcol_empty"]]
    V += [["mol", "h2"], ["mol", "heh+"], ["mol", "h3+_631g"], ["pytree", "tape"], ["pytree", "tape_empty"], ["pytree", "expval"], ["pytree", "sample"]]
    V += [["dataset", [["q", ["int", 1]], ["r", ["tuple", [["str", "a"], ["none"]]]]]], ["dataset", []]]
    return V


ROUTES = ["mem", "setattr", "file_w_r", "file_copy", "file_a_reopen", "write_into", "nested_file"]
WRAPS = ["bare", "list", "tuple", "dict", "list_list", "dict_tuple"]


def wrap(v, w):
    one = ["int", 1]
    return {"bare": v, "list": ["list", [v, one]], "tuple": ["tuple", [one, v]], "dict": ["dict", [["k", v]]],
            "list_list": ["list", [["list", [v]], one]], "dict_tuple": ["dict", [["k", ["tuple", [v, ["str", "s"]]]]]]}[w]


# ------------------------------------------------------------------------------------------------ (a) round trips
def check_rt(spec):
    import pennylane as qp

    from mc import x_dataset as XD

    vspec, route = spec["v"], spec["route"]
    D = qp.data.Dataset
    tmp = _tmpdir()
    opened = []
    label = spec["label"]
    try:
        XD.build(vspec, raw=True)
    except Exception as e:  # the harness' own value builder failed: not a verdict about PennyLane
        raise OSError(f"harness: cannot build value {vspec}: {type(e).__name__}: {e}") from e
    try:
        try:
            value = XD.build(vspec)
            if spec.get("attr"):
                value = qp.data.attribute(value, doc="the doc", extra=3)
            path = os.path.join(tmp, "f.h5")
            if route == "mem":
                ds = D(x=value)
                opened.append(ds)
                src = ds
            elif route == "setattr":
                ds = D()
                opened.append(ds)
                ds.x = value
                src = ds
            elif route in ("file_w_r", "file_copy"):
                ds = D(x=value)
                opened.append(ds)
                ds.write(path, mode="w")
                src = D.open(path, "r" if route == "file_w_r" else "copy")
                opened.append(src)
            elif route == "file_a_reopen":
                ds = D.open(path, "a")
                ds.x = value
                ds.close()
                src = D.open(path, "r")
                opened.append(src)
            elif route == "write_into":
                ds = D(x=value)
                dest = D()
                opened += [ds, dest]
                ds.write(dest)
                src = dest
            elif route == "nested_file":
                ds = D(sub=D(x=value), other=1)
                opened.append(ds)
                ds.write(path, mode="w")
                top = D.open(path, "r")
                opened.append(top)
                src = top.sub
            else:
                raise AssertionError(route)
            got = src.x
            why = XD.same(vspec, got)
            if why is None and spec.get("attr"):
                info = src.attr_info["x"]
                if info.get("doc") != "the doc" or int(info.get("extra", -1)) != 3:
                    why = f"attr_info:{dict(info)}"
            if why is None and route in ("mem", "setattr", "file_w_r"):  # a second read must give the same answer
                why2 = XD.same(vspec, src.x)
                if why2:
                    why = "second-read/" + why2
        except Exception as e:  # implementation raised on a supported value
            return bad(f"roundtrip-raises:{label}:{type(e).__name__}", f"{type(e).__name__}: {e}"[:300], "value stored and read back", route=route)
        if why:
            return bad(f"roundtrip-mismatch:{label}:{why.split('/')[-1].split(':')[0]}", why, "equal to what was written", route=route)
        return ok(outcome=[label, route, repr(type(got).__name__)], nontrivial=vspec[0] != "none")
    finally:
        for d in opened:
            try:
                d.close()
            except Exception:
                pass
        shutil.rmtree(tmp, ignore_errors=True)


def check_catalogue(spec):
    """The hard-coded operator catalogue covers exactly the classes the explicit operator codec declares supported."""
    import pennylane as qp

    from mc import x_dataset as XD

    names = {c.__name__ for c in qp.data.DatasetOperator.supported_ops()}
    mine = set(XD.ALL_SUPPORTED) | {"PauliX", "PauliY", "PauliZ"}
    missing = sorted(names - mine)
    if missing:
        return bad("catalogue:uncovered-supported-ops", missing, [])
    return ok(outcome=len(names), nontrivial=True)


def check_readonly(spec):
    """Documented rejection: setting an attribute on a dataset opened read-only raises DatasetNotWriteableError."""
    import pennylane as qp

    from mc import x_dataset as XD

    D = qp.data.Dataset
    tmp = _tmpdir()
    try:
        path = os.path.join(tmp, "f.h5")
        D(x=1).write(path, mode="w")
        r = D.open(path, "r")
        try:
            r.y = XD.build(spec["v"])
        except Exception as e:
            names = [c.__name__ for c in type(e).__mro__]
            r.close()
            if "DatasetNotWriteableError" in names or isinstance(e, (ValueError, KeyError, OSError, TypeError)):
                # groups (list/dict/...) are rejected by h5py itself before PennyLane's own error type can be raised
                return ok(outcome=type(e).__name__, nontrivial=True)
            return bad("readonly:set:unexpected-exception", type(e).__name__, "DatasetNotWriteableError")
        names = r.list_attributes()
        r.close()
        return bad("readonly:set:accepted", names, "DatasetNotWriteableError")
    finally:
        shutil.rmtree(tmp, ignore_errors=True)


# ------------------------------------------------------------------------------------------------ (b) histories
HV = {"1": ["int", 1], "2": ["list", [["int", 1], ["tuple", [["float", 2.5], ["str", "a"]]]]], "3": ["str", "s"], "4": ["arr", "float64", [2, 3]],
      "L": ["list", [["int", 1], ["int", 2], ["int", 3]]]}
# alias family: ONE qp.data.attribute(...) object (created once per history) assigned under several names ("seta"), in-place list appends ("app")
EVENTS_ALIAS = ["seta:x", "seta:y", "set:x:L", "app:x", "app:y", "get", "del:x", "write:f1:w", "open:f1:copy", "open:f1:a", "copy"]
EVENTS_QUICK = ["set:x:1", "set:x:2", "set:y:3", "del:x", "get", "write:f1:w", "write:f1:a", "write:f1:aow", "open:f1:r", "open:f1:a",
                "open:f1:copy", "read:f1", "read:f1:ow", "copy", "nest:1"]
EVENTS_MORE = ["new", "write:f2:w", "read:f2:ow", "set:y:4"]


class Model:
    """Plain nested dicts: files[name] = {attr: value spec} or None; cur = attrs of the live dataset."""

    def __init__(self, world="empty"):
        self.files = {"f1": None, "f2": None}
        self.cur = {}
        self.backing = None  # (file, mode) for mode in r / a
        # the shared attribute object is a HANDLE: after `ds.k = obj` it is bound to ds.k, so in-place changes of ds.k are changes of the
        # object; it dies with the storage it is bound to (attribute replaced / deleted, dataset closed)
        self.shared_val, self.shared_loc, self.shared_dead = HV["L"], None, False
        if world == "seeded":  # create(attrs): A = Dataset(x=1); f1 was written earlier by another dataset {x: list, y: "s"}
            self.cur = {"x": HV["1"]}
            self.files["f1"] = {"x": HV["2"], "y": HV["3"]}

    def enabled(self, ev):
        p = ev.split(":")
        ro = self.backing is not None and self.backing[1] == "r"
        bf = self.backing[0] if self.backing else None
        if p[0] == "seta":
            return not ro and not self.shared_dead
        if p[0] in ("set", "nest"):
            return not ro
        if p[0] == "app":
            return not ro and p[1] in self.cur and self.cur[p[1]][0] == "list"
        if p[0] == "del":
            return not ro and p[1] in self.cur
        if p[0] in ("get", "new", "copy"):
            return True
        if p[0] == "write":
            return bf != p[1]
        if p[0] == "open":
            return p[2] == "a" or self.files[p[1]] is not None
        if p[0] == "read":
            return not ro and bf != p[1] and self.files[p[1]] is not None
        raise AssertionError(ev)

    def apply(self, ev):
        p = ev.split(":")
        if self.shared_loc is not None and ((p[0] in ("set", "del") and p[1] == self.shared_loc) or p[0] in ("open", "copy", "new", "read")):
            self.shared_dead = True
        if p[0] == "set":
            self.cur[p[1]] = HV[p[2]]
        elif p[0] == "seta":
            self.cur[p[1]] = self.shared_val  # assigning an attribute object stores its current VALUE under that name ...
            self.shared_loc = p[1]            # ... and binds the object to that attribute
        elif p[0] == "app":
            self.cur[p[1]] = ["list", list(self.cur[p[1]][1]) + [["int", 4]]]  # only the named attribute changes
            if self.shared_loc == p[1]:
                self.shared_val = self.cur[p[1]]
        elif p[0] == "nest":
            self.cur["sub"] = ["dataset", [["q", HV[p[1]]]]]
        elif p[0] == "del":
            del self.cur[p[1]]
        elif p[0] == "write":
            f, mode = p[1], p[2]
            if mode == "w" or self.files[f] is None:
                self.files[f] = dict(self.cur)
            else:
                for k, v in self.cur.items():
                    if k not in self.files[f] or mode == "aow":
                        self.files[f][k] = v
        elif p[0] == "open":
            f, mode = p[1], p[2]
            if self.files[f] is None:
                self.files[f] = {}
            if mode == "copy":
                self.cur, self.backing = dict(self.files[f]), None
            else:
                self.cur, self.backing = self.files[f], (f, mode)
        elif p[0] == "read":
            for k, v in self.files[p[1]].items():
                if k not in self.cur or len(p) > 2:
                    self.cur[k] = v
        elif p[0] == "copy":
            self.cur, self.backing = dict(self.cur), None
        elif p[0] == "new":
            self.cur, self.backing = {}, None


def enabled_words(events, depth, world="empty"):
    """All words all of whose events are enabled in the reference model (shortest first)."""
    out = []

    def rec(word):
        if word:
            out.append(list(word))
        if len(word) == depth:
            return
        m = Model(world)
        for e in word:
            m.apply(e)
        for e in events:
            if m.enabled(e):
                rec(word + [e])

    rec([])
    out.sort(key=len)
    return out


def check_hist(spec):
    import pennylane as qp

    from mc import x_dataset as XD

    D = qp.data.Dataset
    hist = spec["hist"]
    tmp = _tmpdir()
    path = {f: os.path.join(tmp, f + ".h5") for f in ("f1", "f2")}
    m = Model(spec.get("world", "empty"))
    if spec.get("world") == "seeded":
        seed = D(x=XD.build(HV["2"]), y=XD.build(HV["3"]))
        seed.write(path["f1"], mode="w")
        seed.close()
        A = D(x=XD.build(HV["1"]))
    else:
        A = D()
    accessed, stale_src = set(), {}
    shared = [None]
    last_mut = "create"
    through_hdf5 = False

    def verify(ds, attrs, where):
        names = sorted(ds.list_attributes())
        if names != sorted(attrs):
            return bad(f"attribute-set:{where}:after-{last_mut}", names, sorted(attrs), hist=hist)
        for k in sorted(attrs):
            try:
                got = getattr(ds, k)
                why = XD.same(attrs[k], got)
            except Exception as e:
                return bad(f"read-raises:{where}:after-{last_mut}:{type(e).__name__}", f"{k}: {type(e).__name__}: {e}"[:300], "value", hist=hist)
            if where == "mem":
                accessed.add(k)
            if why:
                if where == "mem" and k in stale_src and XD.same(stale_src[k][0], got) is None:
                    return bad(f"stale-cached-value:overwritten-by-{stale_src[k][1]}", f"{k}: {why} (still the value read before the overwrite)",
                               "the overwriting value", hist=hist)
                return bad(f"mismatch:{where}:after-{last_mut}:{why.split('/')[-1].split(':')[0]}", f"{k}: {why}", "equal to what was written", hist=hist)
        return None

    try:
        for pos, ev in enumerate(hist):
            p = ev.split(":")
            if not m.enabled(ev):
                raise AssertionError(f"driver enumerated a disabled event {ev} in {hist}")
            before = dict(m.cur)
            try:
                if p[0] == "set":
                    existing = p[1] in m.cur
                    try:
                        setattr(A, p[1], XD.build(HV[p[2]]))
                    except Exception as e:
                        if existing:
                            return bad(f"set-existing-attribute:raises:{type(e).__name__}", f"{type(e).__name__}: {e}"[:200],
                                       "attribute replaced (AttributeTypeMapper.set_item: 'Creates or replaces attribute')", hist=hist, event=pos)
                        raise
                elif p[0] == "seta":
                    if shared[0] is None:
                        shared[0] = qp.data.attribute(XD.build(HV["L"]))
                    setattr(A, p[1], shared[0])
                elif p[0] == "app":
                    getattr(A, p[1]).append(4)
                elif p[0] == "nest":
                    existing = "sub" in m.cur
                    try:
                        A.sub = D(q=XD.build(HV[p[1]]))
                    except Exception as e:
                        if existing:
                            return bad(f"set-existing-attribute:nested-dataset:raises:{type(e).__name__}", f"{type(e).__name__}: {e}"[:200],
                                       "attribute replaced", hist=hist, event=pos)
                        raise
                elif p[0] == "del":
                    delattr(A, p[1])
                    accessed.discard(p[1])
                elif p[0] == "get":
                    m_cur = m.cur
                    v = verify(A, m_cur, "mem")
                    if v:
                        return v
                    continue
                elif p[0] == "write":
                    A.write(path[p[1]], mode="w" if p[2] == "w" else "a", overwrite=p[2] == "aow")
                    through_hdf5 = True
                elif p[0] == "open":
                    A.close()
                    A = D.open(path[p[1]], p[2])
                    accessed.clear()
                    before = None
                    through_hdf5 = True
                elif p[0] == "read":
                    A.read(path[p[1]], overwrite=len(p) > 2)
                    through_hdf5 = True
                elif p[0] == "copy":
                    B = D()
                    A.write(B)
                    A.close()
                    A = B
                    accessed.clear()
                    before = None
                elif p[0] == "new":
                    A.close()
                    A = D()
                    accessed.clear()
                    before = None
            except Exception as e:
                return bad(f"event-raises:{':'.join(p[:1] + p[2:])}:{type(e).__name__}", f"{type(e).__name__}: {e}"[:300], "event succeeds (enabled in the model)",
                           hist=hist, event=pos)
            m.apply(ev)
            last_mut = ":".join(p[:1] + p[2:]) if p[0] not in ("set", "nest", "seta", "app") else p[0]
            if before is None:
                stale_src.clear()
            else:  # attributes that were read (cached) before and whose stored value has just been replaced or removed
                for k in list(stale_src):
                    if k not in m.cur:
                        del stale_src[k]
                for k in m.cur:
                    if k in before and before[k] != m.cur[k] and k in accessed:
                        stale_src[k] = (before[k], last_mut)
        v = verify(A, m.cur, "mem")
        if v:
            return v
        A.close()
        A = None
        for f in ("f1", "f2"):
            if m.files[f] is None:
                if os.path.exists(path[f]):
                    return bad("file-exists-unexpectedly", f, None, hist=hist)
                continue
            try:
                r = D.open(path[f], "r")
            except Exception as e:
                return bad(f"final-open-raises:{type(e).__name__}", str(e)[:200], "file readable", hist=hist)
            try:
                v = verify(r, m.files[f], "file")
            finally:
                r.close()
            if v:
                return v
        fp = [sorted(m.cur), {f: (None if m.files[f] is None else sorted(m.files[f])) for f in m.files}]
        return ok(outcome=fp, nontrivial=through_hdf5 and any(m.files[f] for f in m.files))
    finally:
        try:
            if A is not None:
                A.close()
        except Exception:
            pass
        shutil.rmtree(tmp, ignore_errors=True)


CHECKS = {"rt": check_rt, "hist": check_hist, "catalogue": check_catalogue, "readonly": check_readonly}


def check(spec):
    return CHECKS[spec["fam"]](spec)


def run(ctx):
    from mc import x_dataset as XD

    only = ctx.only
    n_rt = 0
    if only in (None, "rt"):
        specs = [{"fam": "catalogue"}]
        leaves, conts, objs = leaf_values(), container_values(), object_values()
        for v in leaves:
            for w in WRAPS:
                for r in ROUTES:
                    if w in ("list_list", "dict_tuple") and r not in ("mem", "file_w_r", "file_copy"):
                        continue
                    specs.append({"fam": "rt", "v": wrap(v, w), "route": r, "label": XD.kind_of(v) + ("" if v[0] != "arr" else ":" + v[1])})
        for name, v in conts:
            for r in ROUTES:
                specs.append({"fam": "rt", "v": v, "route": r, "label": name})
        for v in objs:
            for w in (["bare", "list"] if v[0] == "xop" else ["bare", "list", "dict_tuple"]):
                for r in (ROUTES if w == "bare" else ["mem", "file_w_r", "file_copy"]):
                    if v[0] == "dataset" and r == "nested_file" and w != "bare":
                        continue
                    specs.append({"fam": "rt", "v": wrap(v, w), "route": r, "label": XD.kind_of(v) + (":" + v[1] if v[0] in ("sparse", "mol", "pytree") else "")})
        for v in [["int", 1], ["arr", "float64", [2, 3]], ["list", [["int", 1]]], ["op", "RX"], ["str", "abc"]]:
            for r in ROUTES:
                specs.append({"fam": "rt", "v": v, "route": r, "attr": True, "label": "attribute():" + XD.kind_of(v)})
            specs.append({"fam": "readonly", "v": v})
        n_rt = len(specs)
        ctx.enumerate(specs, axis="roundtrips")
        ctx.coverage["value_alphabet"] = {"leaves": len(leaves), "containers": len(conts), "objects": len(objs), "wrappers": WRAPS, "routes": ROUTES}
    n_hist = n_ev = 0
    if only in (None, "hist"):
        depth = 3 if ctx.quick else 4
        events = EVENTS_QUICK if ctx.quick else EVENTS_QUICK + EVENTS_MORE
        for world in ("empty", "seeded"):
            ws = enabled_words(EVENTS_QUICK, depth, world)
            if not ctx.quick:  # the four extra events (second file, new dataset, array value) up to depth 3
                have = {tuple(w) for w in ws}
                ws += [w for w in enabled_words(events, 3, world) if tuple(w) not in have]
            n_hist, n_ev = n_hist + len(ws), n_ev + sum(len(w) for w in ws)
            ctx.enumerate([{"fam": "hist", "world": world, "hist": w} for w in ws], axis=f"histories:{world}")
        wa = enabled_words(EVENTS_ALIAS, 4 if ctx.quick else 5, "empty")
        wa = [w for w in wa if any(e.startswith("seta") for e in w) and any(e.startswith("app") for e in w)]
        n_hist, n_ev = n_hist + len(wa), n_ev + sum(len(w) for w in wa)
        ctx.enumerate([{"fam": "hist", "world": "empty", "hist": w} for w in wa], axis="histories:shared-attribute-object")
        ctx.coverage["alias_family"] = {"events": EVENTS_ALIAS, "depth": 4 if ctx.quick else 5, "histories": len(wa)}
        ctx.coverage["alphabet"] = {"events": events, "history_values": HV, "initial_worlds": {"empty": "A = Dataset()", "seeded": "A = Dataset(x=1); file f1 = {x: [1, (2.5, 'a')], y: 's'}"}}
        ctx.coverage["bound"] = {"depth": depth, "depth_with_extra_events": 3, "files": 2}
    ctx.coverage.update({"states": max(1, n_hist), "transitions": max(1, n_ev), "traces_validated_against_impl": max(1, n_hist),
                         "roundtrip_cases": n_rt,
                         "explanation": "states = enabled histories replayed on a fresh dataset + temp dir (model carried along, memory and files compared at the end); transitions = events executed"})
