"""C30 — Sample post-processing is exact (DESIGN §5.5 C30).

E1, fully exhaustive: EVERY binary sample array of shape (shots<=3, wires<=3) (thorough: shots<=4) and every
batched array (2, shots<=2, wires<=2) x every measurement process of a finite alphabet (ordered wire subsets,
eigenvalue tables, diagonal observables, mid-circuit measurement values, all_outcomes) x every shot_range.
Oracle: direct arithmetic on the array (per-shot value by explicit bit lookup, then mean / population
variance / frequency table / Counter); `process_counts` is fed the histogram built from the same array."""
import itertools

import numpy as np

from mc.engine import ok, bad, skip

PROPERTY = "C30"
LEVEL = "exploration"
TECHNIQUE = "exhaustive enumeration of all small binary sample arrays x measurement-process alphabet vs. direct arithmetic"
LEVEL_TEXT = ("Every 0/1 sample array with shots<=3 (thorough 4) and wires<=3, and every batched array (2, shots<=2, wires<=2) "
              "(thorough also (2,<=2,3) and (3,1,<=2)), is post-processed by every measurement process of the alphabet "
              "(expval/var/sample/counts/probs on every ordered wire subset, 6 eigenvalue tables, 5 diagonal observable families, "
              "MCM values and MCM lists, all_outcomes T/F), for every shot_range, through process_samples and process_counts, "
              "and compared with plain arithmetic on the array.")
LEVEL_NOTE = ("Reference = explicit bit lookup + numpy mean/Counter written here. bin_size (legacy, output layout undocumented) and "
              "abstract (traced) sample arrays are not explored; observables are restricted to ones diagonal in the computational "
              "basis (samples are assumed already rotated). Key ORDER of counts dictionaries is not compared.")
DESIGN_REF = "5.5 C30"
PARALLEL = True
RULE = ("all binary arrays up to the shape bound x all measurement processes of the alphabet that fit the wire count; "
        "non-trivial = array has both a 0 and a 1, or more than one shot")
ASSUMPTIONS = ["input samples are int64 numpy arrays (what the devices produce)",
               "observables are diagonal in the computational basis with no diagonalizing gates, so the value of basis state k is <k|O|k>"]

TABLES = {  # eigenvalue tables by number of wires
    "pm1": [1.0, -1.0],  # takes the +-1 shortcut
    "mp1": [-1.0, 1.0],  # narrowly misses it
    "asym": [0.5, -2.0],
    "int2": [3, 3, -1, 0],  # degenerate, integer dtype
    "zz": [1.0, -1.0, -1.0, 1.0],
    "lin3": [0.0, 0.5, 1.0, 1.5, 2.0, 2.5, 3.0, -3.5],
}
TABLE_WIRES = {"pm1": 1, "mp1": 1, "asym": 1, "int2": 2, "zz": 2, "lin3": 3}
OBS = {"Z": (1, 1), "sZ": (1, 1), "ZZ": (2, 3), "sum": (2, 2), "proj": (1, 3)}  # name -> (min wires, max wires)
MCM1 = ["m", "~m", "3m-1"]
MCM2 = ["a+2b", "a&b", "2.5b-a"]
WIRE_LABELS = {"perm": [2, 0, 1], "plain": [0, 1, 2], "mixed": ["b", -1, "a"]}


# ------------------------------------------------------------------------------------------- reference
def obs_value(name, bits):
    """<k|O|k> for the diagonal observable families, bits listed in the observable's own wire order."""
    if name == "Z":
        return 1.0 - 2 * bits[0]
    if name == "sZ":
        return 2.5 * (1.0 - 2 * bits[0])
    if name == "ZZ":
        return float((-1) ** sum(bits))
    if name == "sum":
        return (1.0 - 2 * bits[0]) + 0.5 * (1.0 - 2 * bits[1])
    if name == "proj":  # projector on |1,0,0..>
        return 1.0 if list(bits) == [1] + [0] * (len(bits) - 1) else 0.0
    raise AssertionError(name)


def mcm_value(expr, bits):
    a = bits[0]
    b = bits[1] if len(bits) > 1 else None
    return {"m": lambda: a, "~m": lambda: int(not a), "3m-1": lambda: 3 * a - 1, "a+2b": lambda: a + 2 * b,
            "a&b": lambda: int(bool(a) and bool(b)), "2.5b-a": lambda: 2.5 * b - a}[expr]()


def all_values(mp):
    """All possible per-shot values (for all_outcomes=True), or None for bit-row valued measurements."""
    f = mp["f"]
    if f == "eig":
        return [float(x) for x in TABLES[mp["t"]]]
    k = len(mp["w"])
    rows = list(itertools.product((0, 1), repeat=k))
    if f == "obs":
        return [obs_value(mp["o"], r) for r in rows]
    if f == "mcm" and mp["e"] != "list":
        return [float(mcm_value(mp["e"], r)) for r in rows]
    return None


def shot_values(mp, S, wo):
    """S: (shots, n) int array.  Returns ("rows", (shots,k) int array) or ("vals", (shots,) float array)."""
    pos = {w: i for i, w in enumerate(wo)}
    W = mp["w"] if mp["w"] is not None else list(wo)
    cols = [pos[w] for w in W]
    rows = np.array([[int(S[i, c]) for c in cols] for i in range(S.shape[0])], dtype=int).reshape(S.shape[0], len(cols))
    f = mp["f"]
    if f == "wires" or (f == "mcm" and mp["e"] == "list") or mp["k"] == "probs":
        return "rows", rows
    if f == "eig":
        t = TABLES[mp["t"]]
        return "vals", np.array([float(t[int("".join(map(str, r)), 2)]) for r in rows])
    if f == "obs":
        return "vals", np.array([obs_value(mp["o"], list(r)) for r in rows])
    if f == "mcm":
        return "vals", np.array([float(mcm_value(mp["e"], list(r))) for r in rows])
    raise AssertionError(f)


def bitstr(r):
    return "".join(str(int(b)) for b in r)


def reference(mp, S, wo):
    """Expected result of processing the (shots, n) array S."""
    kind = mp["k"]
    tag, v = shot_values(mp, S, wo)
    if kind == "sample":
        return v
    if kind == "expval":
        return float(np.sum(v) / len(v))
    if kind == "var":
        m = np.sum(v) / len(v)
        return float(np.sum((v - m) ** 2) / len(v))
    if kind == "probs":
        k = v.shape[1]
        p = np.zeros(2 ** k)
        for r in v:
            p[int(bitstr(r), 2) if k else 0] += 1.0 / len(v)
        return p
    if kind == "counts":
        d = {}
        if tag == "rows":
            if mp.get("ao"):
                for r in itertools.product((0, 1), repeat=v.shape[1]):
                    d[bitstr(r)] = 0
            for r in v:
                d[bitstr(r)] = d.get(bitstr(r), 0) + 1
        else:
            if mp.get("ao"):
                for x in all_values(mp):
                    d[float(x)] = 0
            for x in v:
                d[float(x)] = d.get(float(x), 0) + 1
        return d
    raise AssertionError(kind)


# ------------------------------------------------------------------------------------------- live objects
def build(mp):
    import pennylane as qp
    from pennylane.measurements import CountsMP, ExpectationMP, SampleMP, VarianceMP
    from pennylane.ops import MeasurementValue, MidMeasure

    kind, f, W = mp["k"], mp["f"], mp["w"]
    ao = bool(mp.get("ao"))
    if f == "wires":
        if kind == "sample":
            return qp.sample(wires=W, dtype=mp.get("dt"))
        if kind == "counts":
            return qp.counts(wires=W, all_outcomes=ao)
        if kind == "probs":
            return qp.probs(wires=W)
    if f == "eig":
        ev = TABLES[mp["t"]]
        if kind == "counts":
            return CountsMP(eigvals=ev, wires=W, all_outcomes=ao)
        return {"expval": ExpectationMP, "var": VarianceMP, "sample": SampleMP}[kind](eigvals=ev, wires=W)
    if f == "obs":
        o = mp["o"]
        if o == "Z":
            op = qp.Z(W[0])
        elif o == "sZ":
            op = 2.5 * qp.Z(W[0])
        elif o == "ZZ":
            op = qp.prod(*[qp.Z(w) for w in W])
        elif o == "sum":
            op = qp.Z(W[0]) + 0.5 * qp.Z(W[1])
        elif o == "proj":
            op = qp.Projector([1] + [0] * (len(W) - 1), wires=W)
        if op.diagonalizing_gates() or list(op.wires) != list(W):
            raise AssertionError("harness assumption broken: observable not diagonal / wire order changed")
        arg = op
    if f == "mcm":
        uids = mp.get("ids") or "abc"
        ms = [MeasurementValue([MidMeasure(wires=[w], meas_uid=uids[i])]) for i, w in enumerate(W)]
        e = mp["e"]
        arg = {"m": lambda: ms[0], "~m": lambda: ~ms[0], "3m-1": lambda: 3 * ms[0] - 1, "a+2b": lambda: ms[0] + 2 * ms[1],
               "a&b": lambda: ms[0] & ms[1], "2.5b-a": lambda: 2.5 * ms[1] - ms[0], "list": lambda: list(ms)}[e]()
    if kind == "sample":
        return qp.sample(arg)
    if kind == "counts":
        return qp.counts(arg, all_outcomes=ao)
    if kind == "probs":
        return qp.probs(op=arg)
    return {"expval": qp.expval, "var": qp.var}[kind](arg)


# ------------------------------------------------------------------------------------------- comparison
def norm_counts(d):
    out = {}
    for k, v in d.items():
        kk = str(k) if isinstance(k, str) else float(k)
        if kk in out:
            return None
        out[kk] = int(v)
    return out


def same(kind, got, exp, mp):
    """None if equal, else a short reason."""
    if kind == "counts":
        if not isinstance(got, dict):
            return "not-a-dict"
        g = norm_counts(got)
        if g is None:
            return "duplicate-keys"
        return None if g == exp else "mismatch"
    g = np.asarray(got)
    e = np.asarray(exp)
    if g.shape != e.shape:
        return "shape"
    if g.dtype == object or not np.all(np.abs(g.astype(float) - e.astype(float)) <= 1e-9):
        return "mismatch"
    if kind == "sample" and mp.get("dt") and g.dtype != np.dtype(mp["dt"]):
        return "dtype"
    return None


def last_wins_model(mp, S, wo):
    """What `{eigval(bitstring): count}` built by a dict comprehension gives when eigenvalues repeat."""
    m2 = dict(mp, f="wires")
    d = reference(m2, S, wo)
    t = TABLES[mp["t"]]
    out = {}
    # bitstring keys in numeric order (all of them if all_outcomes); a later duplicate eigenvalue overwrites an earlier one
    for key in sorted(d):
        out[float(t[int(key, 2)])] = d[key]
    return out


def check(spec):
    mp = spec["mp"]
    wo = spec["wo"]
    A = np.array(spec["s"], dtype=np.int64)
    batched = A.ndim == 3
    kind, form = mp["k"], mp["f"]
    try:
        m = build(mp)
    except ValueError as e:
        if kind == "probs" and form == "mcm" and "arithmetic operators" in str(e):
            return skip("probs of an arithmetic MCM value is rejected (documented)")
        raise
    shots = A.shape[-2]
    ranges = [None] + [[lo, hi] for lo in range(shots) for hi in range(lo + 1, shots + 1)]
    fp = None
    for rg in ranges:
        B = A if rg is None else A[..., rg[0]:rg[1], :]
        exp = [reference(mp, b, wo) for b in B] if batched else reference(mp, B, wo)
        if batched and kind != "counts":
            exp = np.stack([np.asarray(x) for x in exp])
        got = m.process_samples(A.copy(), wo) if rg is None else m.process_samples(A.copy(), wo, shot_range=tuple(rg))
        if batched and kind == "counts":
            if not isinstance(got, list) or len(got) != len(exp):
                return bad(f"process_samples:counts:{form}:batched-structure", repr(got)[:300], exp, shot_range=rg)
            why = next((w for w in (same(kind, g, e, mp) for g, e in zip(got, exp)) if w), None)
        else:
            why = same(kind, got, exp, mp)
        if why:
            sig = f"process_samples:{kind}:{form}:{why}"
            if kind == "counts" and form == "eig" and len(set(TABLES[mp["t"]])) < len(TABLES[mp["t"]]):
                pairs = list(zip(got, B)) if batched else [(got, B)]
                if all(isinstance(g, dict) and norm_counts(g) == last_wins_model(mp, b, wo) for g, b in pairs):
                    sig = "process_samples:counts:eigvals-degenerate:last-duplicate-wins"
            return bad(sig, _show(got), _show(exp), shot_range=rg)
        if rg is None:
            fp = _show(exp)
    # process_counts on the histogram of the same samples (unbatched arrays only: a histogram has no batch axis)
    if not batched:
        hist = {}
        for r in A:
            hist[bitstr(r)] = hist.get(bitstr(r), 0) + 1
        full = {bitstr(r): 0 for r in itertools.product((0, 1), repeat=A.shape[1])}
        full.update(hist)
        exp = reference(mp, A, wo)
        for label, h in (("observed-only", hist), ("all-outcomes", full)):
            allw = mp["w"] is None
            try:
                got = m.process_counts(dict(h), wo)
            except ValueError as e:
                if allw and "empty list of wires" in str(e):
                    return bad(f"process_counts:all-wires:{kind}", f"ValueError: {e}", _show(exp), input=label)
                raise
            if kind == "sample":
                why = same_multiset(got, exp)
                if why and np.asarray(exp).ndim == 2:
                    g = np.asarray(got)
                    if allw:
                        return bad("process_counts:all-wires:sample", _show(got), _show(exp), input=label)
                    if form == "mcm" and g.ndim == 1 and not same_multiset(g, [int(bitstr(r), 2) for r in exp]):
                        return bad("process_counts:mcm-list:sample:int-encoded", _show(got), _show(exp), input=label)
                    if form == "wires" and g.ndim == 1 and np.asarray(exp).shape[1] == 1 and not same_multiset(g, np.asarray(exp)[:, 0]):
                        return bad("process_counts:sample:single-wire-squeezed", _show(got), _show(exp), input=label)
            else:
                why = same(kind, got, exp, mp)
                if why and allw:
                    return bad(f"process_counts:all-wires:{kind}", _show(got), _show(exp), input=label)
                if why and kind == "counts" and form == "mcm" and mp["e"] == "list":
                    if norm_counts(got) == {float(int(k, 2)): v for k, v in exp.items()}:
                        return bad("process_counts:mcm-list:counts:int-encoded", _show(got), _show(exp), input=label)
            if why:
                return bad(f"process_counts:{kind}:{form}:{why}", _show(got), _show(exp), input=label)
    flat = A.reshape(-1)
    return ok(outcome=[kind, fp], nontrivial=bool(shots > 1 or (flat.min() != flat.max())))


def same_multiset(got, exp):
    g = np.asarray(got)
    e = np.asarray(exp)
    if g.shape != e.shape:
        return "shape"
    if g.ndim == 1:
        return None if np.all(np.abs(np.sort(g.astype(float)) - np.sort(e.astype(float))) <= 1e-9) else "mismatch"
    return None if sorted(map(tuple, g.tolist())) == sorted(map(tuple, e.tolist())) else "mismatch"


def _show(x):
    if isinstance(x, dict):
        return {str(k): int(v) for k, v in x.items()}
    if isinstance(x, list):
        return [_show(y) for y in x]
    a = np.asarray(x)
    if a.dtype == object:
        return repr(x)[:300]
    return np.round(a.astype(float), 9).tolist()


# ------------------------------------------------------------------------------------------- enumeration
def ordered_subsets(wo, kmin, kmax):
    for k in range(kmin, min(kmax, len(wo)) + 1):
        for c in itertools.permutations(wo, k):
            yield list(c)


def mp_alphabet(wo, core=False):
    """Every measurement process of the alphabet that fits on the wires `wo` (core=True: wires and eigvals forms only)."""
    n = len(wo)
    out = []
    for W in [None] + list(ordered_subsets(wo, 1, n)):
        out.append({"k": "sample", "f": "wires", "w": W})
        out.append({"k": "probs", "f": "wires", "w": W})
        for ao in (False, True):
            out.append({"k": "counts", "f": "wires", "w": W, "ao": ao})
    out.append({"k": "sample", "f": "wires", "w": [wo[-1]], "dt": "int8"})
    out.append({"k": "sample", "f": "wires", "w": None, "dt": "float32"})
    stat = [("expval", {}), ("var", {}), ("sample", {}), ("counts", {"ao": False}), ("counts", {"ao": True})]
    for t, k in TABLE_WIRES.items():
        for W in ordered_subsets(wo, k, k):
            for kind, extra in stat:
                out.append({"k": kind, "f": "eig", "w": W, "t": t, **extra})
    if core:
        return out
    for o, (lo, hi) in OBS.items():
        for W in ordered_subsets(wo, lo, hi):
            for kind, extra in stat + [("probs", {})]:
                out.append({"k": kind, "f": "obs", "w": W, "o": o, **extra})
    for e in MCM1:
        for W in ordered_subsets(wo, 1, 1):
            for kind, extra in stat + [("probs", {})]:
                out.append({"k": kind, "f": "mcm", "w": W, "e": e, **extra})
    for e in MCM2:
        for W in ordered_subsets(wo, 2, 2):
            for ids in ("ab", "ba"):  # merge order of the two MCMs follows their uid, not the expression
                for kind, extra in stat + [("probs", {})]:
                    out.append({"k": kind, "f": "mcm", "w": W, "e": e, "ids": ids, **extra})
    for W in ordered_subsets(wo, 1, n):
        for kind, extra in [("sample", {}), ("counts", {"ao": False}), ("counts", {"ao": True}), ("probs", {})]:
            out.append({"k": kind, "f": "mcm", "w": W, "e": "list", **extra})
    return out


def arrays(shape):
    size = int(np.prod(shape))
    for bits in itertools.product((0, 1), repeat=size):
        yield np.array(bits).reshape(shape).tolist()


def run(ctx):
    max_shots = 3 if ctx.quick else 4
    shapes = [(s, n) for n in (1, 2, 3) for s in range(1, max_shots + 1)]
    bshapes = [(2, s, n) for n in (1, 2) for s in (1, 2)]
    labelings = ["perm"]
    if not ctx.quick:
        bshapes += [(2, 1, 3), (2, 2, 3), (3, 1, 1), (3, 1, 2)]
        labelings += ["mixed"]
    n_mp = {}
    for lab in labelings:
        for shape in shapes + bshapes:
            if lab != "perm" and (len(shape) == 3 or shape[0] > 2):
                continue  # second labelling: unbatched arrays with <= 2 shots (labels only affect the column lookup)
            wo = WIRE_LABELS[lab][: shape[-1]]
            # the largest arrays (>= 512 arrays per shape) get the wires/eigvals forms only; observable and MCM forms
            # are enumerated on every smaller shape
            core = int(np.prod(shape)) >= (9 if ctx.quick else 12)
            mps = mp_alphabet(wo, core=core)
            n_mp[f"{shape[-1]}{'-core' if core else ''}"] = len(mps)
            batch = []
            for a in arrays(shape):
                batch.extend({"s": a, "wo": wo, "mp": mp} for mp in mps)
                if len(batch) >= 100000:
                    ctx.enumerate(batch, axis=f"shape{list(shape)}:{lab}", chunk=256)
                    batch = []
            ctx.enumerate(batch, axis=f"shape{list(shape)}:{lab}", chunk=256)
    ctx.coverage["alphabet"] = {
        "sample_arrays": "ALL 0/1 arrays of the listed shapes", "shapes": [list(s) for s in shapes], "batched_shapes": [list(s) for s in bshapes],
        "wire_labelings": {k: WIRE_LABELS[k] for k in labelings}, "eigenvalue_tables": TABLES,
        "observables": {"Z": "Z(w)", "sZ": "2.5*Z(w)", "ZZ": "prod of Z on 2-3 wires", "sum": "Z(a)+0.5*Z(b)", "proj": "Projector(|10..>) on 1-3 wires"},
        "mcm_values": MCM1 + MCM2 + ["list of 1-3 MCMs"], "mcm_uid_orders": ["ab", "ba"],
        "kinds": ["expval", "var", "sample", "counts(all_outcomes=F/T)", "probs"], "methods": ["process_samples (+ every shot_range)", "process_counts (observed-only and all-outcomes histograms)"],
        "measurement_processes_per_wire_count": n_mp,
    }
    ctx.coverage["bound"] = {"max_shots": max_shots, "max_wires": 3, "batch": [2] if ctx.quick else [2, 3],
                             "reduced_alphabet_for": "shapes with shots*wires >= %d" % (9 if ctx.quick else 12)}
