"""C44 — Shots specifications are interpreted consistently (DESIGN §5.8).

E1, fully exhaustive: every sequence of length <= 4 over an 8-element alphabet of ints and (shots, copies)
pairs, every pair of sequences of length <= 2 for `+`, every (sequence, scalar) for `*`, invalid forms.
Oracle: the expanded flat list of shot counts (plain Python list)."""
import copy
import itertools

from mc.engine import ok, bad, skip
from mc.explore import words

PROPERTY = "C44"
LEVEL = "exploration"
TECHNIQUE = "bounded exhaustive enumeration of shot specifications vs. expanded-list reference model"
LEVEL_TEXT = ("Every shot specification of length <=4 (quick 3) over {1,2,3,(1,1),(1,2),(2,1),(2,3),(3,2)}, every pair for +, "
              "every scalar for *, and the documented invalid forms are enumerated and compared with a flat-list model.")
LEVEL_NOTE = "Reference = expanded Python list; shot counts outside the alphabet and abstract (traced) shots are not explored."
DESIGN_REF = "5.8 C44"
PARALLEL = False
RULE = ("all sequences over the element alphabet up to the length bound + all pairs (add) + all scalars (mul) + invalid forms; "
        "non-trivial = expanded list has >1 entry or the operation is add/mul/invalid")

ELEMS = [1, 2, 3, [1, 1], [1, 2], [2, 1], [2, 3], [3, 2]]
SCALARS = [1, 2, 3, 0.5, 1.5, 2.0, 0]
INVALID = [0, -1, 1.5, [1, 0], [[1, 0]], [[1, 2, 3]], "ab", [1.5], [[[1, 2]]], [-2], [[0, 2]], {"set": 1}]


def to_arg(seq):
    """list of elements -> constructor argument (pairs as tuples)."""
    if seq is None:
        return None
    return [tuple(e) if isinstance(e, list) else e for e in seq]


def expand(seq):
    if seq is None:
        return None
    L = []
    for e in seq:
        if isinstance(e, list):
            L += [e[0]] * e[1]
        else:
            L.append(e)
    return L


def rle(L):
    out = []
    for x in L:
        if out and out[-1][0] == x:
            out[-1][1] += 1
        else:
            out.append([x, 1])
    return [tuple(p) for p in out]


def check_against(s, L, what):
    """Compare a Shots object with the flat list L (None = analytic)."""
    if L is None:
        if s.total_shots is not None or tuple(s.shot_vector) != () or bool(s) or s.has_partitioned_shots or list(s) != []:
            return bad(f"{what}:none", repr(s), "analytic")
        return None
    if s.total_shots != sum(L):
        return bad(f"{what}:total_shots", s.total_shots, sum(L))
    if list(s) != L:
        return bad(f"{what}:iter", list(s), L)
    sv = [(int(c.shots), int(c.copies)) for c in s.shot_vector]
    if sv != rle(L):
        return bad(f"{what}:shot_vector", sv, rle(L))
    bins, lo = [], 0
    for x in L:
        bins.append((lo, lo + x))
        lo += x
    if [tuple(b) for b in s.bins()] != bins:
        return bad(f"{what}:bins", list(s.bins()), bins)
    if s.has_partitioned_shots != (len(L) > 1):
        return bad(f"{what}:has_partitioned_shots", s.has_partitioned_shots, len(L) > 1)
    if s.num_copies != len(L):
        return bad(f"{what}:num_copies", s.num_copies, len(L))
    if not bool(s):
        return bad(f"{what}:bool", False, True)
    return None


def check(spec):
    from pennylane.measurements import Shots

    kind = spec["kind"]
    if kind == "seq":
        L = expand(spec["a"])
        s = Shots(to_arg(spec["a"]))
        v = check_against(s, L, "seq")
        if v:
            return v
        if Shots(s) is not s or copy.copy(s) is not s or copy.deepcopy(s) is not s:
            return bad("seq:identity", "new object", "same object")
        # a second construction from the expanded list must be equal and hash-equal
        s2 = Shots(list(L)) if L else Shots(None)
        if not (s == s2 and hash(s) == hash(s2)):
            return bad("seq:eq-hash-expanded", [repr(s), repr(s2)], "equal")
        if spec.get("tuple"):
            st = Shots(tuple(to_arg(spec["a"])))
            if not (st == s and hash(st) == hash(s)):
                return bad("seq:tuple-vs-list", repr(st), repr(s))
        return ok(outcome=[s.total_shots, len(L)], nontrivial=len(L) > 1)
    if kind == "int":
        s = Shots(spec["a"])
        v = check_against(s, [spec["a"]], "int")
        return v or ok(outcome=spec["a"], nontrivial=False)
    if kind == "none":
        s = Shots(None)
        return check_against(s, None, "none") or ok(outcome=None, nontrivial=False)
    if kind == "eq":
        a, b = Shots(to_arg(spec["a"])), Shots(to_arg(spec["b"]))
        same = expand(spec["a"]) == expand(spec["b"])
        if (a == b) != same or (b == a) != same:
            return bad("eq:mismatch", [a == b, b == a], same)
        if same and hash(a) != hash(b):
            return bad("eq:hash", [hash(a), hash(b)], "equal hashes")
        return ok(outcome=same)
    if kind == "add":
        a, b = Shots(to_arg(spec["a"])), Shots(to_arg(spec["b"]))
        La, Lb = expand(spec["a"]), expand(spec["b"])
        if La is None:
            L = Lb
        elif Lb is None:
            L = La
        else:
            L = La + Lb
        s = a + b
        from pennylane.measurements import add_shots

        s3 = add_shots(a, b)
        if not (s3 == s):
            return bad("add:add_shots-differs", repr(s3), repr(s))
        return check_against(s, L, "add") or ok(outcome=[s.total_shots, None if L is None else len(L)])
    if kind == "mul":
        a = Shots(to_arg(spec["a"]))
        La, k = expand(spec["a"]), spec["k"]
        for form in ("mul", "rmul"):
            if La is None:
                L, bad_expected = None, False
            else:
                L = [int(x * k) for x in La]
                bad_expected = any(x < 1 for x in L)
            try:
                s = a * k if form == "mul" else k * a
            except ValueError:
                if bad_expected:
                    continue
                return bad(f"{form}:raised", "ValueError", L)
            if bad_expected:
                return bad(f"{form}:accepted-nonpositive", repr(s), "ValueError")
            v = check_against(s, L, form)
            if v:
                return v
        return ok(outcome=[k, None if La is None else sum(int(x * k) for x in La)])
    if kind == "invalid":
        arg = spec["a"]
        if isinstance(arg, list):
            arg = [tuple(e) if isinstance(e, list) else e for e in arg]
        if isinstance(arg, dict):
            arg = set(arg.values())
        try:
            s = Shots(arg)
        except ValueError:
            return ok(outcome="ValueError")
        return bad("invalid:accepted", repr(s), "ValueError")
    raise AssertionError(kind)


def run(ctx):
    n = 3 if ctx.quick else 4
    seqs = [w for w in words(ELEMS, n, 1)]
    ctx.enumerate([{"kind": "seq", "a": w, "tuple": True} for w in seqs], axis="seq")
    ctx.enumerate([{"kind": "int", "a": i} for i in (1, 2, 3, 7, 1000)] + [{"kind": "none"}], axis="scalar")
    short = [None] + [w for w in words(ELEMS, 2, 1)]
    ctx.enumerate([{"kind": "add", "a": a, "b": b} for a in short for b in short], axis="add")
    ctx.enumerate([{"kind": "eq", "a": a, "b": b} for a in short[1:] for b in short[1:]], axis="eq")
    ctx.enumerate([{"kind": "mul", "a": a, "k": k} for a in [None] + seqs[: 8 + 64 + (0 if ctx.quick else 512)] for k in SCALARS], axis="mul")
    ctx.enumerate([{"kind": "invalid", "a": a} for a in INVALID], axis="invalid")
    ctx.coverage["alphabet"] = {"elements": ELEMS, "scalars": SCALARS, "invalid": [repr(x) for x in INVALID]}
    ctx.coverage["bound"] = {"max_len": n, "pair_len": 2}
