"""C71 — Snapshots report the state of the circuit prefix (DESIGN §5.12).

E2: every word of length <= 4 over {H0, CNOT01, RX(g)1, RX(batch 3)0, Snapshot(), Snapshot("a"),
Snapshot("b", probs[1,0]), Snapshot(expval Z0), Snapshot("a", expval X1)} with <= 3 snapshots (duplicate tags included)
x terminal measurement lists x execution modes: QNode on default.qubit (debugger path, with and without device wires),
QNode on default.mixed (debugger path), QNode on reference.qubit (no debugger: tape-splitting path) and the bare
tape transform.  Oracle: tag -> reference measurement of the prefix (mc.x_circ), "execution_results" -> reference
results of the circuit and the real results of the same circuit without snapshots.
"""
import warnings

import numpy as np

from mc.engine import ok, bad, skip
from mc.explore import words
from mc import x_circ as X

PROPERTY = "C71"
LEVEL = "exploration"
TECHNIQUE = "bounded exhaustive enumeration of circuits with snapshots vs. prefix-wise state-vector reference"
LEVEL_TEXT = ("Every circuit of length <=4 (quick 3, and 4 on default.qubit) over 4 gates and 5 snapshot forms with <=3 snapshots, x 4 "
              "terminal measurement lists x 5 execution modes: each tag maps to the reference measurement of the circuit prefix and "
              "execution_results equal both the reference and the snapshot-free execution (1e-9).")
LEVEL_NOTE = ("Default (state) snapshots are compared on the wire set the device reports (device wires, circuit wires or prefix wires - "
              "the documentation leaves this open); duplicate tags may yield the list of all snapshots in order or a single one of them. "
              "Not decided: finite-shot snapshots, mid-circuit measurements, snapshots under compilation transforms (documented caveat).")
DESIGN_REF = "5.12 C71"
START = "fork"
PARALLEL = True
RULE = "all words <= bound with <= 3 snapshots x terminal lists x modes; non-trivial = at least one snapshot after a state-changing gate"

G = 0.3
GATES = [["Hadamard", [0], []], ["CNOT", [0, 1], []], ["RX", [1], [G]], ["RX", [0], [X.B3]], ["GlobalPhase", [], [0.7]]]
SNAPS = [["Snapshot", [], [], {}],
         ["Snapshot", [], [], {"tag": "a"}],
         ["Snapshot", [], [], {"tag": "b", "meas": ["probs", [1, 0]]}],
         ["Snapshot", [], [], {"meas": ["expval", ["Z", [0]]]}],
         ["Snapshot", [], [], {"tag": "a", "meas": ["expval", ["X", [1]]]}]]
TERMINALS = [[["expval", ["Z", [0]]]], [["probs", [0, 1]]], [["state"]], [["expval", ["X", [1]]], ["probs", [1, 0]]]]
MODES = ["dq", "dq-wires", "dm", "refq", "tape"]
DEVW = {"dq": None, "dq-wires": [1, 0, 2], "dm": [0, 1], "refq": [0, 1], "tape": None}
ATOL = 1e-9


def _np(x):
    return X.to_numpy(x)


def _close(a, b):
    a, b = np.asarray(a), np.asarray(b)
    return a.shape == b.shape and (a.size == 0 or float(np.max(np.abs(a - b))) <= ATOL)


def _is_snap(l):
    return l[0] == "Snapshot"


def _with_snapshot_wires(letters):
    """Letters in which every Snapshot carries the wires of its measurement (as the Snapshot operator does)."""
    out = []
    for l in letters:
        if _is_snap(l):
            m = l[3].get("meas")
            out.append(["Snapshot", X.meas_wires(m) if m else [], [], l[3]])
        else:
            out.append(l)
    return out


def _ref_values(prefix_gates, full_gates, mletter, term, dev, lab, n, mixed, all_letters=None):
    """All acceptable reference values for measurement `mletter` taken on the state after `prefix_gates`."""
    if mletter[0] != "state":
        _, ref, _ = X.ref_results(prefix_gates, [mletter], n, list(range(n)))
        return [ref[0]]
    cands = []
    if dev is not None:
        cands.append(list(dev))
    cands.append(X.tape_order(full_gates, [], lab))
    cands.append(X.tape_order(full_gates, term, lab))
    if all_letters is not None:
        cands.append(X.tape_order(all_letters, [], lab))
        cands.append(X.tape_order(all_letters, term, lab))
    cands.append(X.tape_order(prefix_gates, [], lab))
    out, seen = [], set()
    for order in cands:
        if tuple(order) in seen:
            continue
        seen.add(tuple(order))
        B, ref, _ = X.ref_results(prefix_gates, [["state"]], n, order)
        v = ref[0]
        if mixed:
            v = np.einsum("...i,...j->...ij", v, np.conj(v))
        out.append(v)
    return out


def run_real(letters, term, mode, lab):
    import pennylane as qp

    dev = DEVW[mode]
    kw = {} if dev is None else {"wires": [lab[i] for i in dev]}
    name = {"dq": "default.qubit", "dq-wires": "default.qubit", "dm": "default.mixed", "refq": "reference.qubit", "tape": "default.qubit"}[mode]
    device = qp.device(name, **kw)
    if mode == "tape":
        tape = qp.tape.QuantumScript([X.build_op(l, lab) for l in letters], [X.build_meas(m, lab) for m in term])
        tapes, fn = qp.snapshots(tape)
        return fn(qp.execute(tapes, device, diff_method=None))

    def circuit():
        for l in letters:
            X.build_op(l, lab)
        ms = [X.build_meas(m, lab) for m in term]
        return ms[0] if len(ms) == 1 else tuple(ms)

    node = qp.QNode(circuit, device, diff_method=None)
    with warnings.catch_warnings():  # reference.qubit: "Snapshots are not supported for the given device" (documented)
        warnings.simplefilter("ignore")
        return qp.snapshots(node)()


def check(spec):
    import pennylane as qp

    letters, term, mode = spec["word"], spec["term"], spec["mode"]
    lab = [0, 1, 2]
    n = 3
    dev = DEVW[mode]
    mixed = mode == "dm"
    gates = [l for l in letters if not _is_snap(l)]
    wl = _with_snapshot_wires(letters)
    snaps = [(i, l) for i, l in enumerate(letters) if _is_snap(l)]
    out = run_real(letters, term, mode, lab)
    if not isinstance(out, dict):
        return bad(f"not-a-dict:{mode}", type(out).__name__, "dict")
    # expected keys: the tag, or the index among all snapshots in order of appearance
    expected = {}
    for si, (pos, l) in enumerate(snaps):
        h = l[3]
        key = h.get("tag") if h.get("tag") is not None else si
        prefix = [g for g in letters[:pos] if not _is_snap(g)]
        m = h.get("meas") or ["state"]
        expected.setdefault(key, []).append((m, prefix))
    want_keys = set(expected) | {"execution_results"}
    if set(out.keys()) != want_keys:
        return bad(f"keys:{mode}", sorted(map(str, out.keys())), sorted(map(str, want_keys)))
    matched = []
    for key, items in expected.items():
        val = out[key]
        refs = [_ref_values(prefix, gates, m, term, dev, lab, n, mixed and m[0] == "state", wl) for m, prefix in items]
        kinds = "+".join(m[0] for m, _ in items)

        def match_one(v, cands):
            return any(_close(_np(v), c) for c in cands)

        if len(items) == 1:
            if not match_one(val, refs[0]):
                return bad(f"snapshot-value:{mode}:{kinds}" + (":tagged" if isinstance(key, str) else ""),
                           {"key": key, "got": _np(val)}, refs[0][0])
            matched.append(1)
        else:
            if isinstance(val, list) and len(val) == len(items):
                if not all(match_one(v, r) for v, r in zip(val, refs)):
                    return bad(f"duplicate-tag-list:{mode}:{kinds}", {"key": key, "got": [_np(v) for v in val]}, [r[0] for r in refs])
                matched.append(len(items))
            else:
                if isinstance(val, list) or not any(match_one(val, r) for r in refs):
                    return bad(f"duplicate-tag-value:{mode}:{kinds}", {"key": key, "got": val if isinstance(val, list) else _np(val)},
                               [r[0] for r in refs])
                matched.append(-1)
    # final results: reference and the same circuit without snapshots
    res = out["execution_results"]
    res = [res] if len(term) == 1 else list(res)
    # Without declared device wires the circuit's wire set is inferred from the circuit, and a Snapshot carries the
    # wires of its measurement: state()/probs() are then compared on the wire set each circuit actually has.
    # (the tape transform strips the snapshots from the final tape, so nothing changes there)
    order_with = list(dev) if dev is not None else X.tape_order(gates if mode == "tape" else wl, term, lab)
    order_plain = list(dev) if dev is not None else X.tape_order(gates, term, lab)
    B, ref, states = X.ref_results(gates, term, n, order_with)
    _, ref_plain, _ = X.ref_results(gates, term, n, order_plain)
    if len(res) != len(ref):
        return bad(f"result-count:{mode}", len(res), len(ref))
    plain = run_real(gates, term, mode, lab)["execution_results"]
    plain = [plain] if len(term) == 1 else list(plain)
    for m, r, e, p, ep in zip(term, res, ref, plain, ref_plain):
        if m[0] == "state" and mixed:
            e = np.einsum("...i,...j->...ij", e, np.conj(e))
            ep = np.einsum("...i,...j->...ij", ep, np.conj(ep))
        if order_with == order_plain and not _close(_np(r), _np(p)):
            return bad(f"results-changed-by-snapshots:{mode}:{m[0]}", _np(r), _np(p))
        if not _close(_np(p), ep):
            return bad(f"plain-results-vs-reference:{mode}:{m[0]}", _np(p), ep)
        if not _close(_np(r), e):
            return bad(f"results-vs-reference:{mode}:{m[0]}", _np(r), e)
    nontrivial = any(any(not _is_snap(g) for g in letters[:pos]) for pos, _ in snaps)
    return ok(outcome=[sorted(map(str, out.keys())), matched, X.fingerprint([_np(r) for r in res]), B], nontrivial=nontrivial)


def run(ctx):
    quick = ctx.quick
    S = GATES + SNAPS
    L = 3 if quick else 4
    specs = []

    def legal(w):
        return sum(1 for l in w if _is_snap(l)) <= 3

    for w in words(S, L):
        if not legal(w):
            continue
        for term in TERMINALS:
            for mode in MODES:
                specs.append({"word": w, "term": term, "mode": mode})
    if quick:  # length 4 on the two debugger devices, one terminal list
        for w in words(S, 4, 4):
            if legal(w):
                specs.append({"word": w, "term": TERMINALS[3], "mode": "dq"})
                specs.append({"word": w, "term": TERMINALS[0], "mode": "dm"})
    ctx.enumerate(specs, axis="words-x-terminals-x-modes", chunk=64)
    ctx.coverage["alphabet"] = {"gates": [X.letter_code(l) for l in GATES], "snapshots": [l[3] for l in SNAPS],
                                "terminal_lists": TERMINALS, "modes": MODES}
    ctx.coverage["bound"] = {"word_len": L if not quick else "3 on all modes, 4 on dq/dm", "max_snapshots": 3, "wires": 2}
