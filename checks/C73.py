"""C73 — The execution tracker counts what was executed (DESIGN §5.11).

E3: every history up to depth 3 (thorough 4) over QNode calls (analytic / shots / shot vector / non-commuting
measurements / broadcast), gradients (parameter-shift, adjoint device derivatives, backprop), qp.execute
batches, direct device calls (execute, compute_derivatives, execute_and_compute_derivatives, compute_vjp,
execute_and_compute_vjp, compute_jvp), tracker.reset and tracker enter/exit (persistent or not).
Oracle: an independent counter installed around the device's entry points (instance-level wrappers that see
every call before the tracking decorator does) + a reference for shots / hardware executions per circuit.
"""
import itertools

from mc.engine import ok, bad, skip
from mc.explore import words

PROPERTY = "C73"
LEVEL = "model_checking"
TECHNIQUE = "explicit-state exploration of tracked execution histories on default.qubit against an independent call counter wrapped around the device entry points"
LEVEL_TEXT = ("All histories of length <=3 (thorough 4) over 18 events (QNode calls, gradients via three methods, batches, direct device derivative "
              "calls, reset, tracker enter/exit) x persistent in {False, True} are executed; tracker.totals and the ordered tracker.history must "
              "equal an independent count of circuits, batches, shots, hardware executions and derivative calls; nothing may be counted while inactive.")
LEVEL_NOTE = ("Reference for 'executions' and 'shots' per circuit: number of groups of commuting measurements x broadcast size (x total shots), written "
              "from the tracker documentation. Only default.qubit; 'results' and 'resources' entries are compared by count and type.")
DESIGN_REF = "5.11 C73"
RULE = "history = word over the event alphabet; non-trivial = tracker active during at least one device call"

EVENTS = ["enter", "exit", "reset", "q_an", "q_s7", "q_sv", "q_nc", "q_bc", "g_ps", "g_adj", "g_bp", "ex1", "ex3", "exm", "d_ex", "d_der", "d_exder", "d_vjp", "d_exvjp", "d_jvp"]


def _tapes(k, shots=None):
    import pennylane as qp

    out = []
    for i in range(k):
        out.append(qp.tape.QuantumScript([qp.RX(0.1 * (i + 1), 0), qp.CNOT([0, 1])], [qp.expval(qp.Z(i % 2))], shots=shots))
    return out


def _ref_exec_shots(tape):
    """(hardware executions, shots) for one circuit of THIS check's alphabet: one execution per group of
    mutually commuting measurements, times the broadcast size; shots = total shots per execution."""
    obs = []
    for m in tape.measurements:
        obs.append(None if m.obs is None else (m.obs.name, tuple(m.obs.wires)))
    groups = 1
    # alphabet: at most [expval(Z0), expval(X0)] is non-commuting
    names = {o for o in obs if o is not None}
    if ("PauliZ", (0,)) in names and ("PauliX", (0,)) in names:
        groups = 2
    b = tape.batch_size or 1
    ex = groups * b
    sh = (tape.shots.total_shots * ex) if tape.shots else None
    return ex, sh


class Counter:
    """Independent count: instance-level wrappers on the device's entry points."""

    def __init__(self, dev):
        self.dev = dev
        self.log = []  # (method, [circuits])
        for name in ("execute", "compute_derivatives", "execute_and_compute_derivatives", "compute_vjp",
                     "execute_and_compute_vjp", "compute_jvp", "execute_and_compute_jvp"):
            orig = getattr(dev, name)
            setattr(dev, name, self._wrap(name, orig))

    def _wrap(self, name, orig):
        import pennylane as qp

        def f(circuits, *a, **k):
            batch = [circuits] if isinstance(circuits, qp.tape.QuantumScript) else list(circuits)
            self.log.append((name, batch, bool(self.dev.tracker.active)))
            return orig(circuits, *a, **k)

        return f


def _expected(log):
    """Reference totals/history from the independent log (only entries made while the tracker was active)."""
    tot, hist = {}, {}

    def upd(**kw):
        for k, v in kw.items():
            hist.setdefault(k, []).append(v)
            if v is not None and isinstance(v, (int, float)):
                tot[k] = tot.get(k, 0) + v

    for name, batch, active in log:
        if not active:
            continue
        n = len(batch)
        if name == "execute":
            upd(batches=1)
            for c in batch:
                ex, sh = _ref_exec_shots(c)
                if sh is not None:
                    upd(simulations=1, executions=ex, shots=sh)
                else:
                    upd(simulations=1, executions=ex)
        elif name == "compute_derivatives":
            upd(derivative_batches=1, derivatives=n)
        elif name == "execute_and_compute_derivatives":
            upd(execute_and_derivative_batches=1, executions=n, derivatives=n)
        elif name == "compute_vjp":
            upd(vjp_batches=1, vjps=n)
        elif name == "execute_and_compute_vjp":
            upd(execute_and_vjp_batches=1, executions=n, vjps=n)
        elif name == "compute_jvp":
            upd(jvp_batches=1, jvps=n)
        elif name == "execute_and_compute_jvp":
            upd(execute_and_jvp_batches=1, executions=n, jvps=n)
    return tot, hist


def check(spec):
    import pennylane as qp
    from pennylane import numpy as pnp
    from pennylane.devices import ExecutionConfig

    hist_ev, persistent = spec["hist"], spec["persistent"]
    dev = qp.device("default.qubit")
    tracker = qp.Tracker(dev, persistent=persistent)
    counter = Counter(dev)

    def circ(x):
        qp.RX(x, 0)
        qp.CNOT([0, 1])
        return qp.expval(qp.Z(0))

    def circ_nc(x):
        qp.RX(x, 0)
        return qp.expval(qp.Z(0)), qp.expval(qp.X(0))

    x = pnp.array(0.3, requires_grad=True)
    adj_cfg = ExecutionConfig(gradient_method="adjoint", use_device_gradient=True)
    segments = []  # reference: the tracker restarts its books on enter unless persistent, and on reset
    start = 0
    mark = 0
    active = False
    for ev in hist_ev:
        if ev == "enter":
            tracker.__enter__()  # entering again while active is legal: it restarts the books unless persistent
            active = True
            if not persistent:
                mark = len(counter.log)
        elif ev == "exit":
            if active:
                tracker.__exit__(None, None, None)
                active = False
        elif ev == "reset":
            tracker.reset()
            mark = len(counter.log)
        elif ev == "q_an":
            qp.QNode(circ, dev, diff_method="parameter-shift")(0.3)
        elif ev == "q_s7":
            qp.set_shots(qp.QNode(circ, dev, diff_method="parameter-shift"), shots=7)(0.3)
        elif ev == "q_sv":
            qp.set_shots(qp.QNode(circ, dev, diff_method="parameter-shift"), shots=(3, 4))(0.3)
        elif ev == "q_nc":
            qp.set_shots(qp.QNode(circ_nc, dev, diff_method="parameter-shift"), shots=5)(0.3)
        elif ev == "q_bc":
            qp.QNode(circ, dev, diff_method="parameter-shift")(pnp.array([0.1, 0.2, 0.3]))
        elif ev == "g_ps":
            qp.grad(qp.QNode(circ, dev, diff_method="parameter-shift"))(x)
        elif ev == "g_adj":
            qp.grad(qp.QNode(circ, dev, diff_method="adjoint"))(x)
        elif ev == "g_bp":
            qp.grad(qp.QNode(circ, dev, diff_method="backprop"))(x)
        elif ev == "ex1":
            qp.execute(_tapes(1), dev, diff_method=None)
        elif ev == "ex3":
            qp.execute(_tapes(3, shots=4), dev, diff_method=None)
        elif ev == "exm":  # one batch mixing a finite-shot tape with analytic ones (and a shot vector last)
            ts = _tapes(1, shots=4) + _tapes(2) + _tapes(1, shots=(2, 3)) + _tapes(1)
            dev.execute(tuple(ts))
        elif ev == "d_ex":
            dev.execute(_tapes(1)[0])
        elif ev == "d_der":
            dev.compute_derivatives(_tapes(2), adj_cfg)
        elif ev == "d_exder":
            dev.execute_and_compute_derivatives(_tapes(2), adj_cfg)
        elif ev == "d_vjp":
            dev.compute_vjp(_tapes(2), (1.0, 1.0), adj_cfg)
        elif ev == "d_exvjp":
            dev.execute_and_compute_vjp(_tapes(1), (1.0,), adj_cfg)
        elif ev == "d_jvp":
            ts = _tapes(1)
            dev.compute_jvp(ts, ((1.0,),), adj_cfg)
    if active:
        tracker.__exit__(None, None, None)
    exp_tot, exp_hist = _expected(counter.log[mark:])
    got_tot = {k: v for k, v in tracker.totals.items() if k not in ("results",)}
    got_hist = {k: list(v) for k, v in tracker.history.items() if k not in ("results", "resources")}
    n_active = sum(1 for e in counter.log[mark:] if e[2])
    n_exec_circuits = sum(len(b) for n, b, a in counter.log[mark:] if a and n == "execute")
    for k in set(exp_tot) | set(got_tot):
        if k == "resources":
            continue
        if exp_tot.get(k, 0) != got_tot.get(k, 0):
            return bad(f"totals:{k}", {k: got_tot.get(k)}, {k: exp_tot.get(k)}, log=[(n, len(b), a) for n, b, a in counter.log])
    for k in set(exp_hist) | set(got_hist):
        if exp_hist.get(k, []) != got_hist.get(k, []):
            return bad(f"history:{k}", {k: got_hist.get(k)}, {k: exp_hist.get(k)}, log=[(n, len(b), a) for n, b, a in counter.log])
    # results / resources: one entry per simulated circuit (+ per circuit of execute_and_compute_* for resources)
    n_res = len(tracker.history.get("results", []))
    if n_res != n_exec_circuits:
        return bad("history:results-count", n_res, n_exec_circuits)
    n_rsrc = len(tracker.history.get("resources", []))
    exp_rsrc = n_exec_circuits + sum(len(b) for n, b, a in counter.log[mark:] if a and n.startswith("execute_and"))
    if n_rsrc != exp_rsrc:
        return bad("history:resources-count", n_rsrc, exp_rsrc)
    return ok(outcome=[sorted(got_tot.items())], nontrivial=n_active > 0)


def run(ctx):
    depth = 3 if ctx.quick else 4
    evs = EVENTS if not ctx.quick else [e for e in EVENTS if e not in ("q_sv", "d_jvp", "g_bp")]
    specs = []
    for w in words(evs, depth, 1):
        if "enter" not in w and len(w) > 1:
            continue  # without a tracker entry nothing is observable; keep only the length-1 words of those
        for persistent in (False, True):
            specs.append({"hist": w, "persistent": persistent})
    ctx.enumerate(specs, axis="histories")
    ctx.coverage.update({"states": len(specs), "transitions": sum(len(s["hist"]) for s in specs), "traces_validated_against_impl": len(specs),
                         "alphabet": {"events": evs}, "bound": {"depth": depth},
                         "explanation": "states = histories executed on a fresh device+tracker; transitions = events executed"})
