"""C17 — Optimisation passes preserve semantics and accept all valid circuits (DESIGN §5.3).

E2, one enumeration per pass: ALL words up to a length bound over a per-pass alphabet of gate letters (mc/x_passes
grammar) x every option combination of the pass.  Each alphabet is built from the pass's matching logic: every
branch of the matcher has a letter that takes it and one that narrowly misses it (same gate on permuted wires,
adjoint pairs, rotations summing to 0 / 2pi / 4pi, controlled gates with the 1-qubit gate on control vs target).

Oracle (per word): the pass returns without raising (documented rejections are counted as skips), returns exactly
one tape and an identity post-processing, keeps measurements and shots, and the reference unitary of the returned
operations (plain numpy, documentation formulas) equals the reference unitary of the input word *computed from the
spec alone* up to a global phase -- composed with the documented wire permutation for undo_swaps / rowcol, compared
as prepared states for merge_amplitude_embedding, and on the data register for rz_phase_gradient.
"""
import itertools
import math

from mc.engine import ok, bad, skip
from mc.explore import words

PROPERTY = "C17"
LEVEL = "exploration"
TECHNIQUE = "bounded exhaustive enumeration of gate words per compilation pass vs. independent dense-unitary reference"
LEVEL_TEXT = ("For each of 20 passes (cancel_inverses, merge_rotations, commute_controlled, single_qubit_fusion, undo_swaps, "
              "combine_global_phases, remove_barrier, unitary_to_rot, merge_amplitude_embedding, compile, match_controlled_iX_gate, "
              "match_relative_phase_toffoli, pattern_matching_optimization, rowcol, rz_phase_gradient, 4 ZX passes) every gate word up to "
              "length 2-3 (quick) / 3-6 (thorough) over a per-pass alphabet of 6-34 letters on 2-4 wires, times every option combination, "
              "is pushed through the real pass and compared with a plain-numpy unitary of the input word up to global phase (tolerance "
              "1e-9; 1e-6 for the documented numerically unstable Rot fusion and two-qubit synthesis).")
LEVEL_NOTE = ("Trusted base: mc.refgates closed-form matrices, numpy. Output operators outside the refgates table fall back to qp.matrix "
              "(declared). Not decided: angles outside the alphabets, words longer than the bound, differentiable/abstract parameters, "
              "the qjit/capture variants of the passes; passes not listed in coverage.passes_covered.")
DESIGN_REF = "5.3 C17"
START = "fork"
PARALLEL = True
RULE = ("per pass: all words over the pass alphabet up to the length bound x all option combinations (plus relabelled wires for "
        "words of length <= 2); non-trivial = the pass changed the operation list")
ASSUMPTIONS = ["reference gate matrices (mc.refgates) are correct (self-tested identities)",
               "qp.matrix is trusted only for output operators that are not in the reference table (none for the 8 core passes)"]

PI = math.pi
G = 0.3
G2 = -1.234
N = 3
LABS = [None, ["b", -1, "q"]]


# ------------------------------------------------------------------------------------------------ letters
def L(name, ws, *p):
    return [name, list(ws), list(p)] if p else [name, list(ws)]


def A(letter):
    return ["adj", letter]


def C(letter, ctrl, vals=None):
    return ["ctrl", letter, list(ctrl)] + ([list(vals)] if vals is not None else [])


H0, H1, H2 = L("Hadamard", [0]), L("Hadamard", [1]), L("Hadamard", [2])
X0, X1, X2 = L("PauliX", [0]), L("PauliX", [1]), L("PauliX", [2])
Y0, Y1 = L("PauliY", [0]), L("PauliY", [1])
Z0, Z1 = L("PauliZ", [0]), L("PauliZ", [1])
S0, S1, S2 = L("S", [0]), L("S", [1]), L("S", [2])
T0, T1 = L("T", [0]), L("T", [1])
SX0, SX1 = L("SX", [0]), L("SX", [1])
CNOT01, CNOT10, CNOT12, CNOT21, CNOT02 = (L("CNOT", w) for w in ([0, 1], [1, 0], [1, 2], [2, 1], [0, 2]))
CZ01, CZ10 = L("CZ", [0, 1]), L("CZ", [1, 0])
SWAP01, SWAP10, SWAP12, SWAP02 = L("SWAP", [0, 1]), L("SWAP", [1, 0]), L("SWAP", [1, 2]), L("SWAP", [0, 2])
TOF012, TOF102, TOF021 = L("Toffoli", [0, 1, 2]), L("Toffoli", [1, 0, 2]), L("Toffoli", [0, 2, 1])


def alphabets(tier):
    """pass -> dict(alphabet=[letters], maxlen=int, options=[dict], extra=[(alphabet, minlen, maxlen)], tol=float, kind=str)."""
    q = tier == "quick"
    P = {}

    # ---- cancel_inverses: _are_inverses (self-inverse by NAME / Adjoint with equal base) x _can_cancel wire logic
    ci = [H0, H1, X0, S0, A(S0), T0, A(T0), CNOT01, CNOT10, CZ01, CZ10, TOF012, TOF102, TOF021, SWAP01, SWAP10,
          L("RX", [0], G), A(L("RX", [0], G)), L("CRZ", [0, 1], G)]
    ci_more = [L("CCZ", [0, 1, 2]), L("CCZ", [2, 0, 1]), A(TOF102)]
    ci_more3 = [L("CY", [0, 1]), A(H0), A(A(S0)), L("ISWAP", [0, 1]), A(L("ISWAP", [1, 0])), A(L("CRZ", [1, 0], G))]
    ci_deep = [H0, X0, S0, A(S0), CNOT01, CNOT10, TOF012, TOF102]
    ci_hyper = [["MCX", [0, 1, 2], [1, 1]], ["MCX", [0, 1, 2], [1, 0]], ["MCX", [1, 0, 2], [1, 0]], A(["MCX", [0, 1, 2], [1, 0]]),
                ["PauliRot", [0, 1], [G], "XY"], A(["PauliRot", [0, 1], [G], "XY"]), A(["PauliRot", [0, 1], [G], "YX"]),
                A(["PauliRot", [1, 0], [G], "XY"]), L("CH", [0, 1]), L("CH", [1, 0]), H1, ["QU", "haar2", [0]], A(["QU", "haar2", [0]]),
                A(["QU", "H", [0]])]
    P["cancel_inverses"] = dict(
        fn="cancel_inverses", alphabet=ci if q else ci + ci_more, maxlen=3 if q else 4,
        options=[{"recursive": True}, {"recursive": False}],
        extra=[(ci_deep, 4, 4 if q else 5), (ci_hyper, 1, 2 if q else 3)]
        + ([] if q else [(ci_deep[:2] + ci_deep[4:], 6, 6), (ci + ci_more + ci_more3, 1, 3)]), tol=1e-9, kind="unitary")

    # ---- merge_rotations: same type & same wire ORDER, cumulative angle ~ 0 (atol), Rot fusion, Adjoint expansion
    rot_a, rot_b = [0.4, 1.1, -0.7], [0.7, -1.1, -0.4]  # rot_b = inverse of rot_a
    mr = [L("RX", [0], G), L("RX", [0], -G), L("RX", [0], 2 * PI - G), L("RX", [0], 4 * PI - G), L("RY", [0], G), L("RZ", [0], G),
          L("RX", [1], G), L("Rot", [0], *rot_a), L("Rot", [0], *rot_b), L("Rot", [0], G, 0.0, -G),
          L("CRX", [0, 1], G), L("CRX", [0, 1], -G), L("CRX", [1, 0], G), L("CRX", [0, 1], 2 * PI - G),
          L("IsingXX", [0, 1], G), L("IsingXX", [1, 0], -G), A(L("RX", [0], G)), H0, CNOT01]
    mr_more = [L("RX", [0], PI), L("PhaseShift", [0], G), L("PhaseShift", [0], -G), L("CRZ", [0, 1], G), L("CRZ", [0, 1], 4 * PI - G),
               L("Rot", [0], 0.1, PI, 0.2), L("RZ", [0], -G), A(S0), L("ControlledPhaseShift", [0, 1], -G)]
    P["merge_rotations"] = dict(
        fn="merge_rotations", alphabet=mr if q else mr + mr_more, maxlen=2 if q else 3,
        options=[{}, {"atol": 0.0}, {"include_gates": ["RX", "CRX"]}, {"include_gates": ["Rot", "IsingXX"], "atol": 1e-6}],
        extra=[(mr, 3, 3, [{}, {"include_gates": ["RX", "CRX"]}])] if q else [(mr, 4, 4, [{}, {"include_gates": ["RX", "CRX"]}])],
        tol=1e-6, kind="unitary")

    # ---- commute_controlled: 1-qubit gates on control / target of controlled gates, both directions, multi-hop index arithmetic
    cc_single = [X0, X1, Z0, Z1, S0, L("RZ", [1], G), L("RX", [0], G), L("RX", [1], G), L("RY", [1], G), Y1, H0, H1,
                 L("PhaseShift", [0], G), X2, L("RZ", [2], G)]
    cc_ctrl = [CNOT01, CNOT10, CZ01, L("CY", [0, 1]), L("CRX", [0, 1], G), L("CRZ", [0, 1], G), L("CRY", [0, 1], G), TOF012, CNOT12,
               SWAP01]
    cc_more = [T0, SX1, L("RY", [0], G), L("ControlledPhaseShift", [0, 1], G), L("CSWAP", [0, 1, 2]), TOF021, L("IsingZZ", [0, 1], G),
               L("CH", [0, 1]), C(L("RY", [2], G), [0, 1], [1, 0])]
    P["commute_controlled"] = dict(
        fn="commute_controlled", alphabet=cc_single + cc_ctrl if q else cc_single + cc_ctrl + cc_more, maxlen=3,
        options=[{"direction": "right"}, {"direction": "left"}],
        extra=[] if q else [([X0, X1, Z0, S0, L("RZ", [1], G), L("RX", [1], G), H1, X2, L("RZ", [2], G), CNOT01, CNOT10, CZ01,
                              L("CRX", [0, 1], G), TOF012, CNOT12, SWAP01], 4, 4)], tol=1e-9, kind="unitary")

    # ---- single_qubit_fusion: zyz angles of every 1-qubit gate, fuse_rot_angles special cases, exclude_gates, drop-if-trivial
    sf = [H0, X0, S0, A(S0), T0, SX0, L("RX", [0], G), L("RY", [0], G), L("RZ", [0], G), L("RZ", [0], -G), L("Rot", [0], *rot_a),
          L("Rot", [0], *rot_b), L("PhaseShift", [0], G), H1, L("RZ", [1], G), CNOT01, CNOT10, ["QU", "haar2", [0]]]
    sf_more = [Y0, Z0, L("RY", [0], -G), L("U3", [0], 0.1, 0.2, 0.3), L("RY", [0], PI), L("Identity", [0]), ["QU", "iX", [0]], CZ01]
    P["single_qubit_fusion"] = dict(
        fn="single_qubit_fusion", alphabet=sf if q else sf + sf_more, maxlen=2 if q else 3,
        options=[{}, {"atol": 0.0}, {"exclude_gates": ["RZ"]}, {"exclude_gates": ["Hadamard", "CNOT"]}],
        extra=[(sf, 3, 3, [{}, {"exclude_gates": ["RZ"]}])] if q else [([H0, S0, A(S0), L("RX", [0], G), L("RZ", [0], G), L("RZ", [0], -G), L("Rot", [0], *rot_a),
                              L("Rot", [0], *rot_b), H1, CNOT01, CNOT10, ["QU", "haar2", [0]]], 4, 4)], tol=1e-6, kind="unitary")

    # ---- undo_swaps: wire map run right-to-left; SWAP by name only
    us = [SWAP01, SWAP10, SWAP12, SWAP02, H0, X1, S2, CNOT01, CNOT12, L("RX", [0], G), L("CSWAP", [0, 1, 2]), A(SWAP01), TOF021,
          L("CRZ", [2, 0], G)]
    us_more = [L("ISWAP", [0, 1]), C(SWAP12, [0]), ["QU", "haar4", [2, 0]], L("Rot", [1], *rot_a)]
    P["undo_swaps"] = dict(fn="undo_swaps", alphabet=us if q else us + us_more, maxlen=3 if q else 4, options=[{}],
                           extra=[([SWAP01, SWAP12, SWAP02, H0, CNOT01, CNOT12], 4, 4 if q else 6)], tol=1e-9, kind="undo_swaps")

    # ---- combine_global_phases: isinstance(GlobalPhase) only (not controlled / adjoint wrappers), sum appended at the end
    gp = [["GP", G, None], ["GP", -G, None], ["GP", PI, None], ["GP", G2, [0]], C(["GP", G], [0]), A(["GP", G, None]), H0, CNOT01,
          L("RZ", [0], G), C(["GP", G], [0, 1], [1, 0])]
    P["combine_global_phases"] = dict(fn="combine_global_phases", alphabet=gp, maxlen=3 if q else 5, options=[{}], extra=[],
                                      tol=1e-9, kind="unitary")

    # ---- remove_barrier: filter by name
    rb = [["Barrier", [0]], ["Barrier", [0, 1]], ["Barrier", [0, 1, 2]], ["Barrier", [1, 2], True], A(["Barrier", [0, 1]]), H0, CNOT01,
          L("RX", [1], G), C(["Barrier", [1, 2]], [0])]
    P["remove_barrier"] = dict(fn="remove_barrier", alphabet=rb, maxlen=3 if q else 5, options=[{}], extra=[], tol=1e-9, kind="unitary")

    # ---- unitary_to_rot: 1-qubit ZYZ, 2-qubit decomposition classes (0/1/2/3 CNOTs), >= 3 qubits kept, non-QubitUnitary kept
    ur1 = [["QU", m, [0]] for m in ("I", "X", "H", "S", "T", "SX", "RZg", "RYg", "iX", "mI", "haar2")] + [["QU", "haar2", [1]]]
    ur2 = [["QU", m, [0, 1]] for m in ("I4", "CNOT", "CNOTr", "CZ", "SWAP", "ISWAP", "HT", "XI", "CRYg", "SISWAP", "two_cnot", "haar4",
                                       "mSWAP")]
    ur2 += [["QU", "CNOT", [1, 0]], ["QU", "haar4", [2, 0]], ["QU", "two_cnot", [1, 2]]]
    ur3 = [["QU", "Toffoli", [0, 1, 2]], ["CQU", "haar2", [0, 1]], H0, CNOT01, A(["QU", "haar2", [0]])]
    ur_sub = [ur1[2], ur1[10], ur1[11], ur2[1], ur2[4], ur2[6], ur2[10], ur2[11], ur2[13], ur2[14], ur3[0], ur3[3]]
    P["unitary_to_rot"] = dict(fn="unitary_to_rot", alphabet=ur1 + ur2 + ur3, maxlen=2, options=[{}],
                               extra=[] if q else [(ur_sub, 3, 3)],
                               tol=1e-6, kind="unitary")

    # ---- merge_amplitude_embedding: embeddings on disjoint wires merged at the front; used wire -> DeviceError; broadcasting
    ae = [["AE", "g", [0]], ["AE", "i", [1]], ["AE", "bell", [1, 2]], ["AE", "1", [2]], ["AE", "B+", [0]], ["AE", "Bg", [2]],
          ["AE", "g4", [2, 0]], H0, X1, CNOT01, CNOT12, L("RX", [2], G)]
    P["merge_amplitude_embedding"] = dict(fn="merge_amplitude_embedding", alphabet=ae, maxlen=3 if q else 4, options=[{}], extra=[],
                                          tol=1e-9, kind="state")

    # ---- compile: every ordering of every subset (<= 3) of the default passes x num_passes x basis_set
    default = ["commute_controlled", "cancel_inverses", "merge_rotations", "remove_barrier"]
    pipes = [list(p) for k in range(0, 4) for p in itertools.permutations(default, k)]
    copts = [{"pipeline": p, "num_passes": k, "basis_set": b} for p in pipes for k in (1, 2) for b in (None, ["RX", "RY", "RZ", "CNOT"])]
    copts += [{}, {"num_passes": 2}, {"basis_set": ["RX", "RY", "RZ", "CNOT"], "num_passes": 2}]
    cp = [H0, X1, S0, A(S0), L("RX", [0], G), L("RX", [0], -G), L("RZ", [1], G), CNOT01, CNOT10, CZ10, ["Barrier", [0, 1]],
          L("CRX", [0, 1], G)]
    cp8 = [H0, S0, A(S0), L("RX", [0], G), L("RX", [0], -G), CNOT01, CNOT10, ["Barrier", [0, 1]]]
    P["compile"] = dict(fn="compile", alphabet=cp8 if q else cp, maxlen=2, options=copts,
                        extra=[] if q else [([H0, S0, A(S0), L("RX", [0], G), L("RX", [0], -G), CNOT01, CNOT10, ["Barrier", [0, 1]]], 3, 3)],
                        tol=1e-6, kind="unitary")

    # ---- pattern matching passes (4 wires)
    cs1, cs2 = C(S1, [0]), C(S2, [0, 1])
    mcx4 = ["MCX", [0, 1, 2, 3], [1, 1, 1]]
    T2, T3, H3 = L("T", [2]), L("T", [3]), L("Hadamard", [3])
    ix1 = [cs1, TOF012, C(S2, [1]), TOF021, H2, T2, A(T2), CNOT12, CNOT02]
    ix2 = [cs2, mcx4, C(S1, [0, 2]), H3, T3, A(T3), L("CNOT", [2, 3]), TOF012]
    P["match_controlled_iX_gate"] = dict(fn="match_controlled_iX_gate", alphabet=ix1, maxlen=2 if q else 3, n=4,
                                         options=[{"num_controls": 1}], extra=[], tol=1e-9, kind="unitary")
    P["match_controlled_iX_gate/2"] = dict(fn="match_controlled_iX_gate", alphabet=ix2, maxlen=2 if q else 3, n=4,
                                           options=[{"num_controls": 2}], extra=[], tol=1e-9, kind="unitary")
    rpt = [L("CCZ", [0, 1, 3]), cs1, cs2, mcx4, L("CCZ", [0, 1, 2]), H3, T3, L("CNOT", [2, 3]), L("CNOT", [1, 3])]
    P["match_relative_phase_toffoli"] = dict(fn="match_relative_phase_toffoli", alphabet=rpt, maxlen=2 if q else 3, n=4,
                                             options=[{}], extra=[([L("CCZ", [0, 1, 3]), cs1, cs2, mcx4, H3], 4, 4)], tol=1e-9,
                                             kind="unitary")
    lib = [[S0, S0, Z0], [H0, X0, H0, Z0], [CNOT01, CNOT01], [CNOT01, CNOT12, CNOT01, CNOT12, CNOT02]]
    pm = [CNOT01, CNOT12, CNOT02, CNOT10, H0, X0, Z0, S0] + ([] if q else [H1, Z1, A(S0)])
    P["pattern_matching_optimization"] = dict(fn="pattern_matching_optimization", alphabet=pm, maxlen=3, options=[{"patterns": lib}],
                                              extra=[], tol=1e-9, kind="unitary")

    # ---- rowcol: CNOT-only words x every connected connectivity graph on 3 nodes (+ None), 4 nodes in thorough
    cn3 = [L("CNOT", [a, b]) for a in range(3) for b in range(3) if a != b]
    g3 = [None, [[0, 1], [1, 2]], [[0, 1], [0, 2]], [[0, 2], [1, 2]], [[0, 1], [1, 2], [0, 2]]]
    P["rowcol"] = dict(fn="rowcol", alphabet=cn3, maxlen=3 if q else 4,
                       options=[{} if g is None else {"graph": g, "graph_nodes": 3} for g in g3], extra=[], tol=1e-9, kind="unitary")

    # ---- rz_phase_gradient: RZ angles exactly representable with 2 bits (multiples of pi/2); aux registers prepared by the oracle
    rz = [L("RZ", [0], PI / 2), L("RZ", [0], PI), L("RZ", [0], 3 * PI / 2), L("RZ", [1], PI / 2), H0, CNOT01, L("RX", [0], G),
          L("RZ", [1], -PI / 2)]
    P["rz_phase_gradient"] = dict(fn="rz_phase_gradient", alphabet=rz, maxlen=2 if q else 3, n=2,
                                  options=[{"angle_wires": ["a0", "a1"], "phase_grad_wires": ["p0", "p1"], "work_wires": ["w0"]}],
                                  extra=[], tol=1e-9, kind="rzpg")

    # ---- ZX passes (pyzx): Clifford+T alphabet
    zxa = [H0, H1, S0, T0, A(T0), T1, X0, Z1, CNOT01, CNOT10, CNOT12, CZ01]
    for z in ("optimize_t_count", "push_hadamards", "reduce_non_clifford", "todd"):
        P["zx." + z] = dict(fn="zx." + z, alphabet=zxa, maxlen=2 if q else 3, options=[{}], extra=[], tol=1e-9, kind="unitary")
    return P


COVERED = ["cancel_inverses", "merge_rotations", "commute_controlled", "single_qubit_fusion", "undo_swaps", "combine_global_phases",
           "remove_barrier", "unitary_to_rot", "merge_amplitude_embedding", "compile", "match_controlled_iX_gate",
           "match_controlled_iX_gate/2", "match_relative_phase_toffoli", "pattern_matching_optimization", "rowcol", "rz_phase_gradient",
           "zx.optimize_t_count", "zx.push_hadamards", "zx.reduce_non_clifford", "zx.todd"]


# ------------------------------------------------------------------------------------------------ the check
def _slug(e):
    """First words of an exception message, digits/punctuation stripped: part of the failure-class signature."""
    import re

    return "-".join(re.sub(r"[^A-Za-z ]", " ", str(e)).split()[:7]).lower()


def _sig(op):
    import numpy as np

    return (op.name, tuple(op.wires), tuple(np.asarray(d).tobytes() for d in op.data))


def _names(ops):
    return [op.name for op in ops]


def check(spec):
    import numpy as np
    import pennylane as qp

    from mc import x_passes as XP

    pname, opts, word, lab = spec["pass"], spec.get("opts", {}), spec["word"], spec.get("lab")
    n = spec.get("n", N)
    order = list(range(n)) if lab is None else list(lab)
    cfgkind = spec.get("kind", "unitary")
    tol = spec.get("tol", 1e-9)
    ops = XP.build_ops(word, lab)
    meas = [qp.expval(qp.Z(order[0])), qp.probs(wires=order)]
    tape = qp.tape.QuantumScript(ops, meas, shots=spec.get("shots"))
    expect_reject = None
    if cfgkind == "state":  # merge_amplitude_embedding documents a DeviceError for an embedding on an already used wire
        seen = set()
        for l in word:
            ws = set(XP.letter_wires(l))
            if l[0] == "AE" and seen & ws:
                expect_reject = "DeviceError"
            seen |= ws
    try:
        batch, post = _call_pass(qp, XP, pname, opts, tape, lab)
    except Exception as e:  # the pass must accept every word over its documented gates
        if expect_reject and type(e).__name__ == expect_reject:
            return skip(f"{pname}:{expect_reject}")
        if pname == "pattern_matching_optimization" and "less qubits than the pattern" in str(e):
            return skip(f"{pname}:documented QuantumFunctionError (circuit has fewer qubits than a pattern)")
        return bad(f"raised:{pname}:{type(e).__name__}:{_slug(e)}", f"{type(e).__name__}: {e}"[:300], "no exception",
                   word=[XP.name_of(l) for l in word])
    if expect_reject:
        return bad(f"missing-rejection:{pname}:{expect_reject}", "returned", expect_reject)
    if len(batch) != 1:
        return bad(f"batch-size:{pname}", len(batch), 1)
    out = batch[0]
    sentinel = ("r",)
    try:
        r = post((sentinel,))
    except Exception as e:
        return bad(f"postprocessing-raised:{pname}", repr(e), "identity")
    if r is not sentinel:
        return bad(f"postprocessing:{pname}", repr(r), "results[0]")
    if len(out.measurements) != len(meas) or not all(qp.equal(a, b) for a, b in zip(out.measurements, meas)):
        return bad(f"measurements-changed:{pname}", repr(out.measurements), repr(meas))
    if out.shots != tape.shots:
        return bad(f"shots-changed:{pname}", repr(out.shots), repr(tape.shots))
    aux = [w for k in ("angle_wires", "phase_grad_wires", "work_wires") for w in opts.get(k, [])]
    extra_wires = [w for op in out.operations for w in op.wires if w not in order and w not in aux]
    if extra_wires:
        if _relabelled(XP, tape, out, word, order, n, tol):
            return bad(f"wires-relabelled:{pname}", [repr(o) for o in out.operations], [XP.name_of(l) for l in word], lab=lab)
        return bad(f"new-wires:{pname}", repr(extra_wires), "no wires outside the input circuit")

    out_ops = list(out.operations)
    if cfgkind == "state":
        return _check_states(XP, pname, word, ops, out_ops, order, n, tol)
    if cfgkind == "rzpg":
        return _check_rzpg(XP, pname, word, out_ops, opts, n, tol)
    U_in = XP.word_unitary(word, n)
    U_out = XP.ops_unitary(out_ops, order)
    if cfgkind == "undo_swaps":
        # documented: SWAPs are removed and the gates to their left are re-wired, i.e. U_in = U_out . (product of the SWAPs)
        P = XP.word_unitary([l for l in word if l[0] == "SWAP"], n)
        U_out = U_out @ P
        if any(op.name == "SWAP" for op in out_ops):
            return bad("undo_swaps:swap-left", _names(out_ops), "no SWAP in the output")
    d = XP.phase_distance(U_in, U_out)
    if not d <= tol * max(1, len(word)):
        if cfgkind == "unitary" and _relabelled(XP, tape, out, word, order, n, tol):
            return bad(f"wires-relabelled:{pname}", [repr(o) for o in out_ops], [XP.name_of(l) for l in word], lab=lab)
        sig_ops = sorted({l[0] if l[0] not in ("adj", "ctrl") else l[0] + ":" + l[1][0] for l in word})
        return bad(f"unitary-mismatch:{pname}:{'+'.join(sig_ops)}", {"distance": d, "out": [repr(o) for o in out_ops]},
                   {"tolerance": tol, "in": [XP.name_of(l) for l in word]}, opts=opts)
    changed = len(out_ops) != len(ops) or any(a is not b and _sig(a) != _sig(b) for a, b in zip(out_ops, ops))
    return ok(outcome=[pname, len(ops) - len(out_ops), _names(out_ops)], nontrivial=changed)


def _relabelled(XP, tape, out, word, order, n, tol):
    """Diagnosis only: does the output equal the input once its wires 0..k-1 are read as positions in tape.wires?"""
    tw = list(tape.wires)
    try:
        mapped = []
        for op in out.operations:
            if not all(isinstance(w, int) and 0 <= w < len(tw) for w in op.wires):
                return False
            mapped.append(op.map_wires({i: tw[i] for i in range(len(tw))}))
        d = XP.phase_distance(XP.word_unitary(word, n), XP.ops_unitary(mapped, order))
    except Exception:
        return False
    return d <= tol * max(1, len(word))


def _call_pass(qp, XP, pname, opts, tape, lab):
    """Resolve the pass and turn JSON options into live arguments."""
    mod = qp.transforms
    for part in pname.split(".")[:-1]:
        mod = getattr(mod, part)
    fn = getattr(mod, pname.split(".")[-1])
    kw = dict(opts)
    if "pipeline" in kw:
        kw["pipeline"] = [getattr(qp.transforms, t) for t in kw["pipeline"]]
    if "graph" in kw:
        import networkx as nx

        g = nx.Graph()
        g.add_nodes_from(range(kw.pop("graph_nodes")))
        g.add_edges_from(kw.pop("graph"))
        kw["connectivity"] = g
    if "patterns" in kw:
        kw["pattern_tapes"] = [qp.tape.QuantumScript(XP.build_ops(w, lab)) for w in kw.pop("patterns")]
    return fn(tape, **kw)


def _check_states(XP, pname, word, ops, out_ops, order, n, tol):
    """merge_amplitude_embedding: compare the prepared states (per broadcast entry) instead of unitaries."""
    import numpy as np

    from mc import refsim as RS

    def batch_of_letters():
        sizes = {len(XP.VECS[l[1]]) for l in word if l[0] == "AE" and isinstance(XP.VECS[l[1]][0], list)}
        return sizes

    sizes = batch_of_letters()
    B = sizes.pop() if sizes else None
    idx = {w: i for i, w in enumerate(order)}
    worst = 0.0
    for b in ([None] if B is None else range(B)):
        st = RS.zero_state(n)
        for l in word:
            if l[0] == "AE":
                v = np.asarray(XP.VECS[l[1]], dtype=complex)
                v = v[b] if v.ndim == 2 else v
                st = _prep(st, v, l[2], n)
            else:
                M, ws = XP.letter_matrix(l)
                st = RS.apply_matrix(st, M, ws, n)
        so = RS.zero_state(n)
        for op in out_ops:
            axes = [idx[w] for w in op.wires]
            if op.name == "AmplitudeEmbedding":
                v = np.asarray(op.data[0], dtype=complex)
                if v.ndim == 2:
                    if b is None:
                        return bad(f"unexpected-broadcast:{pname}", list(v.shape), "unbatched embedding")
                    v = v[b]
                so = _prep(so, v, axes, n)
            else:
                so = RS.apply_matrix(so, XP.op_matrix_ref(op), axes, n)
        worst = max(worst, XP.phase_distance(st.reshape(-1), so.reshape(-1)))
    if not worst <= tol * max(1, len(word)):
        return bad(f"state-mismatch:{pname}", {"distance": worst, "out": [repr(o) for o in out_ops]},
                   {"in": [XP.name_of(l) for l in word]})
    n_ae_in = sum(1 for l in word if l[0] == "AE")
    n_ae_out = sum(1 for o in out_ops if o.name == "AmplitudeEmbedding")
    if n_ae_out > 1:
        return bad(f"not-merged:{pname}", n_ae_out, "at most one AmplitudeEmbedding")
    return ok(outcome=[pname, n_ae_in, n_ae_out, B, _names(out_ops)], nontrivial=n_ae_in > 1)


def _check_rzpg(XP, pname, word, out_ops, opts, n, tol):
    """rz_phase_gradient: with |0..0> on the angle/work wires and the phase-gradient state on phase_grad_wires the output
    must act on the data wires like the input word and leave the auxiliary registers as they were (global phase free)."""
    import cmath

    import numpy as np

    from mc import refsim as RS

    ang, phg, wrk = opts["angle_wires"], opts["phase_grad_wires"], opts["work_wires"]
    order = list(range(n)) + list(ang) + list(phg) + list(wrk)
    N = len(order)
    idx = {w: i for i, w in enumerate(order)}
    M = 2 ** len(phg)
    grad = np.array([cmath.exp(-2j * cmath.pi * m / M) for m in range(M)]) / np.sqrt(M)
    aux = np.kron(np.kron(np.eye(2 ** len(ang))[0], grad), np.eye(2 ** len(wrk))[0])
    U_in = XP.word_unitary(word, n)
    cols_exp, cols_out = [], []
    mats = {}
    for x in range(2 ** n):
        e = np.zeros(2 ** n, dtype=complex)
        e[x] = 1
        st = np.kron(e, aux).reshape((2,) * N)
        for op in out_ops:
            if len(op.wires) == 0:
                if op.name == "GlobalPhase":
                    st = st * cmath.exp(-1j * float(op.data[0]))
                continue
            if id(op) not in mats:
                mats[id(op)] = XP.op_matrix_ref(op)
            st = RS.apply_matrix(st, mats[id(op)], [idx[w] for w in op.wires], N)
        cols_out.append(st.reshape(-1))
        cols_exp.append(np.kron(U_in[:, x], aux))
    d = XP.phase_distance(np.stack(cols_exp, axis=1), np.stack(cols_out, axis=1))
    if not d <= tol * max(1, len(word)):
        return bad(f"data-register-mismatch:{pname}", {"distance": d, "out": [repr(o)[:80] for o in out_ops]},
                   {"in": [XP.name_of(l) for l in word]})
    n_rz = sum(1 for l in word if l[0] == "RZ")
    return ok(outcome=[pname, n_rz, _names(out_ops)], nontrivial=n_rz > 0)


def _prep(state, vec, axes, n):
    """Replace the |0..0> factor on `axes` by `vec` (valid because those wires are untouched so far)."""
    import numpy as np

    k = len(axes)
    sl = [slice(None)] * n
    for a in axes:
        sl[a] = 0
    rest = state[tuple(sl)]
    out = np.tensordot(np.asarray(vec).reshape((2,) * k), rest, axes=0)
    return np.moveaxis(out, list(range(k)), list(axes))


# ------------------------------------------------------------------------------------------------ driver
def specs_for(pname, cfg):
    out = []
    spaces = [(cfg["alphabet"], 0, cfg["maxlen"])] + list(cfg.get("extra", []))
    for si, sp in enumerate(spaces):
        alpha, lo, hi = sp[:3]
        for w in words(alpha, hi, lo):
            for o in (sp[3] if len(sp) > 3 else cfg["options"]):
                for lab in (LABS if 1 <= len(w) <= 2 and si == 0 and cfg.get("n", N) == N and len(cfg["options"]) < 10 else LABS[:1]):
                    s = {"pass": cfg["fn"], "opts": o, "word": w, "kind": cfg["kind"], "tol": cfg["tol"]}
                    if cfg.get("n", N) != N:
                        s["n"] = cfg["n"]
                    if lab is not None:
                        s["lab"] = lab
                    out.append(s)
    return out


def run(ctx):
    from mc import x_passes as XP

    P = alphabets(ctx.tier)
    only = ctx.only.split(",") if ctx.only else None
    cov_alpha, cov_bound = {}, {}
    for pname in COVERED:
        if only and pname not in only:
            continue
        cfg = P[pname]
        specs = specs_for(pname, cfg)
        ctx.enumerate(specs, fn="check", axis=pname)
        cov_alpha[pname] = {"letters": [XP.name_of(l) for l in cfg["alphabet"]],
                            "extra": [{"letters": [XP.name_of(l) for l in a], "len": [lo, hi]} for a, lo, hi in [e[:3] for e in cfg.get("extra", [])]],
                            "options": cfg["options"] if len(cfg["options"]) < 10 else {"count": len(cfg["options"]), "first": cfg["options"][:3]}}
        cov_bound[pname] = {"max_len": cfg["maxlen"], "tolerance": cfg["tol"], "wires": cfg.get("n", N)}
    ctx.coverage["alphabet"] = cov_alpha
    ctx.coverage["bound"] = cov_bound
    ctx.coverage["passes_covered"] = [p for p in COVERED if not only or p in only]
    ctx.coverage["passes_not_covered"] = {"parity_matrix": "informative transform (returns a matrix, no circuit); exercised inside rowcol",
                                          "phase_polynomial": "informative transform, not a circuit-to-circuit pass"}
    ctx.note("rowcol: semantics are checked here; separately observed (not part of C17's statement): the connectivity graph is interpreted "
             "in positions of tape.wires (order of first appearance), not wire labels, e.g. rowcol([CNOT(0,2)], line 0-1-2) returns "
             "CNOT(0,2); and rowcol(empty circuit, connectivity=G) raises IndexError")
    ctx.note("single_qubit_fusion(atol=None) raises TypeError although the annotation is `float | None` (docstring says float; not enumerated)")


ALL_PASSES = ["cancel_inverses", "merge_rotations", "commute_controlled", "single_qubit_fusion", "undo_swaps", "combine_global_phases",
              "remove_barrier", "pattern_matching_optimization", "unitary_to_rot", "match_relative_phase_toffoli",
              "match_controlled_iX_gate", "rz_phase_gradient", "rowcol", "parity_matrix", "optimize_t_count", "push_hadamards",
              "reduce_non_clifford", "todd", "merge_amplitude_embedding", "compile"]
