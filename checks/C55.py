"""C55 — Lie-algebra tools compute closed algebras and correct structure constants (DESIGN §5.9 C55).

E1: generator sets = all subsets of size 1-3 of a 10-element pool of Pauli words / sentences on 3 qubits (incl. linearly
dependent pairs; 4-qubit pool in the thorough tier) x forms {operator, PauliSentence, dense matrix} x max_iterations;
PauliVSpace: every basis subset x every candidate; involutions: every Pauli word on <=3 qubits x every exported
involution x forms; Cartan decompositions and horizontal CSAs of the computed closures.
Oracle (mc/x_lie.py): dense linear algebra — rank by SVD, span membership by least squares, commutators as matrix
products, the documented involution maps applied as matrices."""
import itertools

from mc.engine import ok, bad, skip
from mc import x_lie as R

PROPERTY = "C55"
LEVEL = "exploration"
TECHNIQUE = "exhaustive enumeration of generator subsets / bases / Pauli words vs. dense linear-algebra reference"
LEVEL_TEXT = ("All subsets of size 1-3 of a 10-element generator pool on 3 qubits (thorough: +4-qubit pool) in operator, PauliSentence and "
              "matrix form with max_iterations in {1,2,default}: independence, span, closure, dimension vs. a brute-force closure; structure "
              "constants (orthogonal / non-orthogonal / matrix paths) reproduce every commutator; PauliVSpace.is_independent vs. SVD rank for "
              "every basis subset x candidate; every involution on every Pauli word of <=3 qubits vs. its documented map; Cartan relations, "
              "check_cartan_decomp and the horizontal CSA on every closure x involution.")
LEVEL_NOTE = ("Trusted base: numpy (SVD rank tol 1e-9, least squares), qp.matrix / PauliSentence.to_mat to read results. Involutions A, BD, C are "
              "only decided on block-diagonal inputs (I/Z on the block wire) where 'x(+)y -> y(+)x' is defined. Sentence-valued bases whose "
              "elements have mixed parity are rejected by the involutions (AssertionError/ValueError) and skipped. tol arguments left at default. "
              "The horizontal CSA is only checked for orthogonal bases (default is_orthogonal=True precondition) of dimension <=16.")
DESIGN_REF = "5.9 C55"
START = "fork"
PARALLEL = True
RULE = ("one case = (generator subset, form, max_iterations) | (basis subset, candidate) | (involution, Pauli word, form) | (closure, involution); "
        "non-trivial = closure strictly larger than the generator span / candidate in the word support of the basis / non-identity word")

POOL3 = [
    [[1.0, "XXI"]],
    [[1.0, "ZII"]],
    [[1.0, "IZI"]],
    [[1.0, "IYY"]],
    [[1.0, "XXI"], [1.0, "YYI"]],
    [[1.0, "XXI"], [1.0, "YYI"], [1.0, "ZZI"]],
    [[2.0, "XXI"]],
    [[1.0, "IXX"]],
    [[1.0, "ZII"], [1.0, "IZI"]],
    [[0.5, "YII"], [-1.5, "IIZ"]],
]
POOL4 = [
    [[1.0, "XXII"]], [[1.0, "IXXI"]], [[1.0, "IIXX"]], [[1.0, "ZIII"], [1.0, "IZII"], [1.0, "IIZI"], [1.0, "IIIZ"]],
    [[1.0, "IIYY"], [1.0, "IIXX"]], [[1.0, "ZIII"]], [[1.0, "IIIY"]],
]
INVOLUTIONS = [
    ["even_odd_involution", {}], ["concurrence_involution", {}], ["AI", {}], ["CI", {}], ["AII", {}], ["AII", {"wire": 1}], ["DIII", {}], ["DIII", {"wire": 1}],
    ["AIII", {"qubit": True}], ["AIII", {"qubit": True, "wire": 1}], ["BDI", {"qubit": True}], ["CII", {"qubit": True}], ["CII", {"qubit": True, "wire": 0}],
    ["A", {}], ["BD", {}], ["C", {"wire": 1}],
]
TOL = 1e-8
CII_SIG = "CII:matrix:qubit-case:K_pq-built-on-too-few-qubits"


# ------------------------------------------------------------------------------------------------ conversions
def to_ps(spec):
    from pennylane.pauli import PauliSentence, PauliWord

    return PauliSentence({PauliWord({i: ch for i, ch in enumerate(s) if ch != "I"}): c for c, s in spec})


def to_op(spec):
    return to_ps(spec).operation()


def to_form(spec, form):
    return {"ps": to_ps, "op": to_op, "matrix": R.dense}[form](spec)


def as_dense(x, n):
    import numpy as np
    import pennylane as qp
    from pennylane.pauli import PauliSentence, PauliWord

    if isinstance(x, (PauliSentence, PauliWord)):
        if len(x) == 0:
            return np.zeros((2 ** n, 2 ** n), dtype=complex)
        return np.asarray(x.to_mat(wire_order=list(range(n))), dtype=complex)
    if isinstance(x, np.ndarray):
        return x.astype(complex)
    return np.asarray(qp.matrix(x, wire_order=list(range(n))), dtype=complex)


def inv_callable(name, kw, n):
    import functools

    import pennylane as qp

    f = getattr(qp.liealg, name)
    kw = dict(kw)
    tkw = {}
    if kw.pop("qubit", False):
        half = 2 ** (n - 1) if name != "CII" else 2 ** (n - 2)
        kw["p"] = kw["q"] = half
        tkw["p"] = tkw["q"] = half
        tkw["wire"] = kw.get("wire", 1 if name == "CII" else 0)
    else:
        for key in ("wire", "p", "q"):
            if key in kw:
                tkw[key] = kw[key]
    return (functools.partial(f, **kw) if kw else f), tkw


# ------------------------------------------------------------------------------------------------ checks
def check(spec):
    return {"closure": check_closure, "vspace": check_vspace, "vseq": check_vseq, "inv": check_inv, "cartan": check_cartan,
            "sc": check_sc}[spec["k"]](spec)


def relation_holds(A, B, target):
    """[A, B] subset span(target), by least squares on dense matrices."""
    for a in A:
        for b in B:
            c = R.com(a, b)
            if abs(c).max() > 1e-12 and not R.in_span(target, c, TOL):
                return False
    return True


def check_structure(f, mats, sig, info):
    """[iG_a, iG_b] = sum_c f[c, a, b] iG_c  for all a, b."""
    import numpy as np

    d = len(mats)
    f = np.asarray(f)
    if f.shape != (d, d, d):
        return bad(sig + ":shape", list(f.shape), [d, d, d], **info)
    G = np.array(mats)
    for a in range(d):
        for b in range(d):
            lhs = R.com(1j * G[a], 1j * G[b])
            rhs = np.tensordot(f[:, a, b], 1j * G, axes=1)
            if np.abs(lhs - rhs).max() > 1e-7 * max(1.0, np.abs(lhs).max()):
                return bad(sig, {"a": a, "b": b, "f": np.round(f[:, a, b].real, 6).tolist(), "maxdiff": float(np.abs(lhs - rhs).max())},
                           "[iG_a, iG_b] = sum_c f^c_ab iG_c", **info)
    return None


def check_closure(spec):
    import warnings

    import numpy as np
    import pennylane as qp

    n, gens, form, mi = spec["n"], spec["g"], spec["f"], spec["mi"]
    inp = [to_form(g, form) for g in gens]
    kw = {"pauli": True} if form == "ps" else ({"matrix": True} if form == "matrix" else {})
    if mi is not None:
        kw["max_iterations"] = mi
    with warnings.catch_warnings():
        warnings.simplefilter("ignore")
        res = qp.liealg.lie_closure(inp, **kw)
    G = [R.dense(g) for g in gens]
    B = [as_dense(b, n) for b in res]
    tag = f"{form}:mi={mi}"
    info = {"generators": gens}
    if R.rank(B) != len(B):
        return bad(f"closure:dependent-basis:{tag}", {"len": len(B), "rank": R.rank(B)}, "linearly independent", **info)
    for i, g in enumerate(G):
        if not R.in_span(B, g, TOL):
            return bad(f"closure:generator-not-in-span:{tag}", i, "span contains every generator", **info)
    dims, ref = R.closure_dims(G, mi)
    full = R.full_closure(G)
    if mi is None and dims[-1] != len(full):
        raise AssertionError("reference closures disagree")
    if len(B) != dims[-1]:
        return bad(f"closure:dimension:{tag}", len(B), {"expected": dims[-1], "per_depth": dims}, **info)
    for b in B:  # the returned space is the reference space, not just equally large
        if not R.in_span(ref, b, TOL):
            return bad(f"closure:element-outside-algebra:{tag}", len(B), "subset of the nested-commutator span", **info)
    if mi is None or len(full) == dims[-1]:
        for i in range(len(B)):
            for j in range(i + 1, len(B)):
                c = R.com(B[i], B[j])
                if abs(c).max() > 1e-12 and not R.in_span(B, c, TOL):
                    return bad(f"closure:not-closed:{tag}", [i, j], "[b_i, b_j] in span", **info)
    # structure constants of the returned basis (only for closed results)
    nsc = 0
    if len(B) == len(full) and len(B) <= (40 if form != "matrix" else 64):
        gram = np.array([[np.trace(a.conj().T @ b) for b in B] for a in B])
        orth = bool(np.abs(gram - np.diag(np.diag(gram))).max() < 1e-9)
        flags = [False, True] if orth else [False]
        for io in flags:
            skw = {"is_orthogonal": io}
            if form == "ps":
                skw["pauli"] = True
            if form == "matrix":
                skw["matrix"] = True
            f = qp.liealg.structure_constants(res, **skw)
            v = check_structure(f, B, f"structure-constants:{form}:is_orthogonal={io}", info)
            if v:
                return v
            nsc += 1
    return ok(outcome=[form, mi, dims, len(B), nsc], nontrivial=dims[-1] > dims[0])


def check_sc(spec):
    """structure_constants on a deliberately non-orthogonal / non-normalised basis of a closure."""
    import numpy as np
    import pennylane as qp

    n, gens, form, mix = spec["n"], spec["g"], spec["f"], spec["mix"]
    G = [R.dense(g) for g in gens]
    base = qp.liealg.lie_closure([to_ps(g) for g in gens], pauli=True)
    d = len(base)
    if d < 2 or d > 20:
        return ok(outcome=["skip-dim", d], nontrivial=False)
    T = np.eye(d)
    if mix == "scale":
        T = np.diag([1.0 + 0.5 * i for i in range(d)])
    elif mix == "shear":
        for i in range(d - 1):
            T[i, i + 1] = 0.5
        T[d - 1, 0] = -0.25
    newb = []
    for i in range(d):
        ps = None
        for j in range(d):
            if T[i, j] != 0:
                term = float(T[i, j]) * base[j]
                ps = term if ps is None else ps + term
        ps.simplify()
        newb.append(ps)
    mats = [as_dense(b, n) for b in newb]
    gram = np.array([[np.trace(a.conj().T @ b) for b in mats] for a in mats])
    orth = bool(np.abs(gram - np.diag(np.diag(gram))).max() < 1e-9)
    info = {"generators": gens, "mix": mix}
    if form == "ps":
        inp, kw = newb, {"pauli": True}
    elif form == "op":
        inp, kw = [b.operation() for b in newb], {}
    else:
        inp, kw = np.array(mats), {"matrix": True}
    for io in ([True, False] if orth else [False]):
        f = qp.liealg.structure_constants(inp, is_orthogonal=io, **kw)
        v = check_structure(f, mats, f"structure-constants:{form}:{mix}:is_orthogonal={io}", info)
        if v:
            return v
    return ok(outcome=[form, mix, d, orth], nontrivial=True)


def candidate(cspec, basis):
    """cspec: ['pool', i] | ['comb', [coeffs]] | ['zero-new', i] | ['zero']."""
    from pennylane.pauli import PauliSentence, PauliWord

    kind = cspec[0]
    if kind == "pool":
        return to_ps(POOL3[cspec[1]])
    if kind == "comb":
        ps = PauliSentence({})
        for c, b in zip(cspec[1], basis):
            ps = ps + c * to_ps(b)
        ps.simplify()
        return ps
    if kind == "zero-new":  # element of the span plus an explicit zero coefficient on a word the space has never seen
        w = PauliSentence({PauliWord({0: "Y", 1: "Z", 2: "X"}): 1.0})
        return (to_ps(basis[cspec[1]]) + w) - w
    if kind == "zero":
        return PauliSentence({})
    if kind == "zero-only-new":  # the zero vector written with an explicit zero coefficient on an unseen word
        return PauliSentence({PauliWord({0: "Y", 1: "Z", 2: "X"}): 0.0})
    raise AssertionError(kind)


def check_vspace(spec):
    from pennylane.pauli import PauliVSpace

    n, basis, cspec = spec["n"], spec["b"], spec["c"]
    V = PauliVSpace([to_ps(b) for b in basis])
    Bm = [R.dense(b) for b in basis]
    r = R.rank(Bm)
    if len(V) != r:
        return bad("vspace:basis-length", len(V), r, basis=basis)
    cand = candidate(cspec, basis)
    Cm = as_dense(cand, n)
    exp = R.rank(Bm + [Cm]) > r
    try:
        got = bool(V.is_independent(cand))
    except ValueError as e:
        if cspec[0] == "zero" and "infs or NaNs" in str(e):
            return bad("vspace:zero-sentence-raises-ValueError-NaN", f"ValueError: {e}", False, basis=basis)
        raise
    if got != exp:
        if cspec[0] in ("zero-new", "zero-only-new"):
            return bad("vspace:explicit-zero-coefficient-on-new-word-deemed-independent", got, exp, basis=basis, candidate=str(cand))
        return bad(f"vspace:is_independent:{cspec[0]}", got, exp, basis=basis, candidate=str(cand))
    if len(V) != r:
        return bad("vspace:is_independent-mutated-space", len(V), r)
    V.add(cand)
    if len(V) != r + int(exp):
        if cspec[0] in ("zero-new", "zero-only-new"):
            return bad("vspace:explicit-zero-coefficient-on-new-word-deemed-independent", len(V), r + int(exp), basis=basis, candidate=str(cand))
        return bad(f"vspace:add:{cspec[0]}", len(V), r + int(exp), basis=basis, candidate=str(cand))
    support = {s for b in basis for _, s in b}
    return ok(outcome=[r, exp, cspec[0]], nontrivial=cspec[0] != "pool" or any(s in support for _, s in POOL3[cspec[1]]))


def check_vseq(spec):
    """add() one by one in the given order: length == rank of the prefix at every step; constructor agrees."""
    from pennylane.pauli import PauliVSpace

    seq = spec["s"]
    V = PauliVSpace([])
    mats = []
    trace = []
    for i in seq:
        V.add(to_ps(POOL3[i]))
        mats.append(R.dense(POOL3[i]))
        r = R.rank(mats)
        trace.append(len(V))
        if len(V) != r:
            return bad("vspace:add-sequence", trace, r, sequence=seq)
    V2 = PauliVSpace([to_op(POOL3[i]) for i in seq])
    if len(V2) != len(V) or not (V2 == V):
        return bad("vspace:constructor-vs-add", len(V2), len(V), sequence=seq)
    return ok(outcome=trace, nontrivial=len(set(seq)) > 1)


def check_inv(spec):
    import numpy as np

    name, kw, n, wspec, form = spec["inv"], spec["kw"], spec["n"], spec["w"], spec["f"]
    if name == "CII" and n < 2:
        return ok(outcome="n/a", nontrivial=False)
    f, tkw = inv_callable(name, kw, n)
    H = R.dense(wspec)
    x = 1j * H
    tx = R.theta(name, x, n, **tkw)
    plus = bool(np.allclose(tx, x))
    minus = bool(np.allclose(tx, -x))
    tag = f"{name}:{'+'.join(f'{k}={v}' for k, v in sorted(kw.items())) or '-'}:{form}"
    if name in ("A", "BD", "C") and np.abs(R.com(H, R._on("Z", tkw.get("wire", 0), n))).max() > 1e-12:
        return ok(outcome=[name, "not-block-diagonal"], nontrivial=False)
    try:
        got = f(to_form(wspec, form))
    except (AssertionError, ValueError) as e:
        if name == "CII" and form == "matrix" and kw.get("qubit") and isinstance(e, ValueError):
            return bad(CII_SIG, f"{type(e).__name__}: {e}"[:200], plus, operator=wspec, n=n)
        if not plus and not minus:
            return ok(outcome=["rejected-mixed-parity", type(e).__name__], nontrivial=False)
        return bad(f"involution:raised:{tag}", f"{type(e).__name__}: {e}"[:200], plus, operator=wspec)
    if not plus and not minus:
        # neither eigenspace: the documented answer to "is it in the +1 eigenspace" is False; parity-counting paths may not notice
        if got is False or got == 0:
            return ok(outcome=[name, "not-eigen", False], nontrivial=True)
        return bad(f"involution:non-eigen-input-reported-plus:{tag}", got, False, operator=wspec)
    if bool(got) != plus:
        return bad(f"involution:wrong-eigenspace:{tag}", bool(got), plus, operator=wspec)
    return ok(outcome=[name, sorted(kw.items()), form, plus], nontrivial=True)


def check_cartan(spec):
    import warnings

    import numpy as np
    import pennylane as qp

    n, gens, form, name, kw = spec["n"], spec["g"], spec["f"], spec["inv"], spec["kw"]
    if name == "CII" and n < 2:
        return ok(outcome="n/a", nontrivial=False)
    inp = [to_form(g, form) for g in gens]
    ckw = {"pauli": True} if form == "ps" else ({"matrix": True} if form == "matrix" else {})
    with warnings.catch_warnings():
        warnings.simplefilter("ignore")
        g = list(qp.liealg.lie_closure(inp, **ckw))
    f, tkw = inv_callable(name, kw, n)
    tag = f"{name}:{'+'.join(f'{k}={v}' for k, v in sorted(kw.items())) or '-'}:{form}"
    info = {"generators": gens}
    G = [as_dense(b, n) for b in g]
    # every basis element must be an eigen-operator of the documented map, otherwise the decomposition is not defined
    eig = []
    for M in G:
        tx = R.theta(name, 1j * M, n, **tkw)
        eig.append(1 if np.allclose(tx, 1j * M) else (-1 if np.allclose(tx, -1j * M) else 0))
    blockwire = tkw.get("wire", 0)
    if name in ("A", "BD", "C"):
        # only defined on block-diagonal elements
        Zb = R._on("Z", blockwire if blockwire is not None else 0, n)
        if any(np.abs(R.com(M, Zb)).max() > 1e-12 for M in G):
            return ok(outcome=[name, "not-block-diagonal"], nontrivial=False)
    try:
        k, m = qp.liealg.cartan_decomp(g, f)
    except (AssertionError, ValueError) as e:
        if name == "CII" and form == "matrix" and kw.get("qubit") and isinstance(e, ValueError):
            return bad(CII_SIG, f"{type(e).__name__}: {e}"[:200], "a decomposition", **info)
        if 0 in eig:
            return ok(outcome=[name, "mixed-parity-basis", type(e).__name__], nontrivial=False)
        return bad(f"cartan:raised:{tag}", f"{type(e).__name__}: {e}"[:200], "a decomposition", **info)
    if 0 in eig:
        # a basis element that is not an eigen-operator was silently sorted; relations are not promised
        return ok(outcome=[name, "non-eigen-basis-accepted"], nontrivial=False)
    K = [as_dense(b, n) for b in k]
    M_ = [as_dense(b, n) for b in m]
    if len(K) + len(M_) != len(G) or R.rank(K + M_) != len(G):
        return bad(f"cartan:not-a-partition:{tag}", [len(K), len(M_)], len(G), **info)
    expk = [i for i, e in enumerate(eig) if e == 1]
    gotk = [i for i, b in enumerate(G) if any(np.allclose(b, kk) for kk in K)]
    if gotk != expk:
        return bad(f"cartan:wrong-eigenspaces:{tag}", gotk, expk, **info)
    rel = {"kk": relation_holds(K, K, K), "km": relation_holds(K, M_, M_), "mm": relation_holds(M_, M_, K)}
    if not all(rel.values()):
        return bad(f"cartan:relations:{tag}", rel, "all True", **info)
    if len(K) and len(M_) and form != "op":
        chk = qp.liealg.check_cartan_decomp(k, m, verbose=False)
        if chk is not True and not (chk == True):  # noqa: E712
            return bad(f"cartan:check_cartan_decomp-false-negative:{tag}", bool(chk), True, **info)
        # perturbed split: move the first element of k to m; compare with the brute-force truth
        k2, m2 = list(k[1:]), [k[0]] + list(m)
        K2, M2 = K[1:], [K[0]] + M_
        truth = relation_holds(K2, K2, K2) and relation_holds(K2, M2, M2) and relation_holds(M2, M2, K2)
        if len(k2):
            chk2 = bool(qp.liealg.check_cartan_decomp(np.array(k2) if form == "matrix" else k2, np.array(m2) if form == "matrix" else m2, verbose=False))
            if chk2 != truth:
                return bad(f"cartan:check_cartan_decomp-perturbed:{tag}", chk2, truth, **info)
    na = None
    gram = np.array([[np.trace(a_.conj().T @ b_) for b_ in K + M_] for a_ in K + M_])
    orthogonal = bool(np.abs(gram - np.diag(np.diag(gram))).max() < 1e-9)  # documented precondition of the default call
    if form in ("ps", "matrix") and len(M_) and len(K) and len(G) <= 16 and spec.get("csa") and orthogonal:
        kk, mm = (np.array(k), np.array(m)) if form == "matrix" else (list(k), list(m))
        newg, k3, mt, a, new_adj = qp.liealg.horizontal_cartan_subalgebra(kk, mm, verbose=0)
        Am = [as_dense(b, n) for b in a]
        Mt = [as_dense(b, n) for b in mt]
        if any(not R.in_span(M_, x_, 1e-7) for x_ in Am):
            return bad(f"csa:not-in-m:{tag}", len(Am), "a subset of span(m)", **info)
        if any(np.abs(R.com(x_, y_)).max() > 1e-7 for x_ in Am for y_ in Am):
            return bad(f"csa:not-abelian:{tag}", len(Am), "all commute", **info)
        if R.rank(Am) != len(Am) or R.rank(Am + Mt) != len(M_) or len(Am) + len(Mt) != len(M_):
            return bad(f"csa:m-not-split:{tag}", [len(Am), len(Mt)], len(M_), **info)
        # maximality: the centraliser of a inside m is a itself
        rows = []
        Mv = R.stack(M_)
        for x_ in Am:
            rows.append(np.array([R.com(x_, mj).reshape(-1) for mj in M_]).T)
        big = np.vstack(rows)  # coefficients c with sum_j c_j [a_i, m_j] = 0 for all i
        null_dim = len(M_) - int(np.linalg.matrix_rank(big, tol=1e-8))
        if null_dim != len(Am):
            central = [i for i, x_ in enumerate(Am) if all(np.abs(R.com(x_, y_)).max() < 1e-9 for y_ in G)]
            if central:  # recognised class: ad(a_i) is numerically (not exactly) zero and null_space(ad, rcond=tol) uses a relative cut-off
                return bad("csa:not-maximal:element-of-a-is-central-in-g", {"dim_a": len(Am), "centraliser_in_m": null_dim, "central": central}, "equal", form=form, involution=name, **info)
            return bad(f"csa:not-maximal:{tag}", {"dim_a": len(Am), "centraliser_in_m": null_dim}, "equal", **info)
        na = len(Am)
    return ok(outcome=[name, sorted(kw.items()), form, len(K), len(M_), na], nontrivial=len(K) > 0 and len(M_) > 0)


# ------------------------------------------------------------------------------------------------ driver
def subsets(pool, kmax):
    out = []
    for k in range(1, kmax + 1):
        out += [list(c) for c in itertools.combinations(range(len(pool)), k)]
    return out


def run(ctx):
    R.selftest()
    q = ctx.quick
    sets3 = subsets(POOL3, 3)
    clo = []
    for s in sets3:
        g = [POOL3[i] for i in s]
        for form in ("ps", "op", "matrix"):
            for mi in (None, 1, 2):
                if mi is not None and form == "op":
                    continue
                clo.append({"k": "closure", "n": 3, "g": g, "f": form, "mi": mi})
    if not q:
        for s in subsets(POOL4, 3):
            g = [POOL4[i] for i in s]
            for form in ("ps", "matrix"):
                clo.append({"k": "closure", "n": 4, "g": g, "f": form, "mi": None})
    ctx.enumerate(clo, axis="lie_closure", chunk=4)
    sc = [{"k": "sc", "n": 3, "g": [POOL3[i] for i in s], "f": form, "mix": mix} for s in subsets(POOL3, 2 if q else 3)
          for form in ("ps", "op", "matrix") for mix in ("scale", "shear")]
    ctx.enumerate(sc, axis="structure_constants", chunk=4)
    vs = []
    for s in subsets(POOL3, 3):
        b = [POOL3[i] for i in s]
        cands = [["pool", i] for i in range(len(POOL3))] + [["zero"], ["zero-only-new"], ["zero-new", 0]]
        cands += [["comb", list(c)] for c in ([1.0] * len(b), [2.0] + [-1.0] * (len(b) - 1), [0.0] * (len(b) - 1) + [3.0])]
        vs += [{"k": "vspace", "n": 3, "b": b, "c": c} for c in cands]
    ctx.enumerate(vs, axis="vspace")
    seqs = [list(p) for k in (1, 2, 3) for p in itertools.permutations(range(len(POOL3)), k)] if not q else \
           [list(p) for k in (1, 2) for p in itertools.permutations(range(len(POOL3)), k)] + [list(p) for p in itertools.permutations([0, 4, 5, 6, 8, 1, 2], 3)]
    ctx.enumerate([{"k": "vseq", "s": s} for s in seqs], axis="vspace_sequence")
    inv = []
    for n in (1, 2, 3):
        words = [[[1.0, w]] for w in R.all_words(n)]
        if n == 2:
            words += [[[1.0, "XX"], [0.5, "YY"]], [[1.0, "XY"], [-2.0, "YX"]], [[1.0, "XI"], [1.0, "YI"]], [[1.0, "ZZ"], [1.0, "XZ"]], [[1.0, "XX"], [1.0, "ZI"]]]
        for name, kw in INVOLUTIONS:
            if kw.get("wire", 0) >= n or (name == "CII" and n < 2) or (name == "CII" and kw.get("wire", 1) >= n):
                continue
            for w in words:
                for form in ("ps", "op", "matrix"):
                    inv.append({"k": "inv", "inv": name, "kw": kw, "n": n, "w": w, "f": form})
    # non-qubit p, q (matrix path)
    for p, qq in ((1, 3), (3, 1)):
        for w in [[[1.0, s]] for s in R.all_words(2)]:
            for form in ("ps", "matrix"):
                if form == "ps" and "I" in w[0][1]:
                    continue  # the PauliSentence path infers the Hilbert space from the operator's own wires
                inv.append({"k": "inv", "inv": "AIII", "kw": {"p": p, "q": qq}, "n": 2, "w": w, "f": form})
    ctx.enumerate(inv, axis="involution")
    car = []
    csets = subsets(POOL3, 2) if q else sets3
    for s in csets:
        g = [POOL3[i] for i in s]
        for name, kw in INVOLUTIONS:
            for form in ("ps", "matrix") + (() if q else ("op",)):
                car.append({"k": "cartan", "n": 3, "g": g, "f": form, "inv": name, "kw": kw, "csa": name in ("even_odd_involution", "concurrence_involution", "AIII")})
    ctx.enumerate(car, axis="cartan", chunk=4)
    ctx.coverage["alphabet"] = {"pool3": POOL3, "pool4": POOL4 if not q else [], "forms": ["ps", "op", "matrix"], "max_iterations": [None, 1, 2],
                                "involutions": INVOLUTIONS}
    ctx.coverage["bound"] = {"subset_size": 3, "qubits": 3 if q else 4, "pauli_words_qubits": 3}
