"""C62 — Quantum-chemistry Hamiltonians are physically correct (DESIGN §5.10).

E1: molecules x geometry grid x unit interface x back-end (differentiable HF, PySCF) x mapping (Jordan-Wigner, parity,
Bravyi-Kitaev) [x active space in the thorough tier].
Oracle: an independent PySCF calculation (RHF, FCI / CASCI total energies); plain-numpy Jordan-Wigner number, S_z and S^2
matrices; brute-force excitation lists.  For every case: Hermiticity; lowest eigenvalue in the (N, S_z = 0) sector = FCI
energy; [H, N] = [H, S^2] = 0 for the reference observables AND for qchem.particle_number / spin2 (which must equal the
reference); <HF|H|HF> = RHF energy with hf_state in every basis and weight = electrons; parity / BK Hamiltonians are
isospectral to the JW one; taper(): spectrum = spectrum of H on the symmetry sector, optimal_sector = sector of the HF
state, FCI energy retained; excitations() = brute-force lists for every delta_sz.
"""
import math

from mc.engine import ok, bad, skip

PROPERTY = "C62"
LEVEL = "exploration"
TECHNIQUE = "bounded exhaustive enumeration of small molecules x geometries x back-ends x mappings vs. independent PySCF FCI/CASCI energies and plain-numpy Jordan-Wigner symmetry operators"
LEVEL_TEXT = ("H2, HeH+, H3+ (linear, triangular) in STO-3G on a bond-length grid (quick 3-4 lengths, thorough 5) in Bohr and Angstrom interfaces, back-ends dhf "
              "and pyscf, mappings JW/parity/BK (thorough adds the H4 chain and LiH active spaces (2e,2o), (2e,3o)); sector ground energy vs PySCF FCI/CASCI at "
              "1e-6 Ha, symmetries, HF states, excitations and tapering checked on every case.")
LEVEL_NOTE = ("For method='pyscf' the integrals come from the same library as the reference (the FCI solve and the fermion-to-qubit pipeline stay independent); "
              "for 'dhf' the reference is fully independent. The openfermion back-end, open-shell molecules, bases beyond STO-3G and LiH in the full space "
              "(12 qubits with dhf) are not explored. Parity/BK sectors are decided through isospectrality with the JW Hamiltonian and the HF-state energy.")
DESIGN_REF = "5.10 C62"
START = "fork"
PARALLEL = True
RULE = ("one case = (molecule, bond length, unit interface, back-end, active space) evaluated for all three mappings; non-trivial = correlation energy "
        "E_RHF - E_FCI > 1e-6 Ha")

MAPPINGS = ["jordan_wigner", "parity", "bravyi_kitaev"]
E_TOL = 1e-6


def check(spec):
    import numpy as np
    import pennylane as qp

    from mc import x_qchem as XQ

    name, d, unit, method, active = spec["mol"], spec["d"], spec["unit"], spec["method"], spec.get("active")
    m = XQ.MOLS[name]
    ang = XQ.geometry_angstrom(name, d)
    if unit == "angstrom":
        mol = qp.qchem.Molecule(m["symbols"], ang, charge=m["charge"], unit="angstrom")
    else:
        mol = qp.qchem.Molecule(m["symbols"], ang * XQ.ANG, charge=m["charge"])
    e_hf, e_ref, n_orb = XQ.pyscf_energies(name, d, active)
    n_e_total = XQ.n_electrons(name)
    n_e = n_e_total if active is None else active[0]
    sig = f"{name}:{method}" + ("" if active is None else f":cas{active[0]}{active[1]}")
    kw = {} if active is None else {"active_electrons": active[0], "active_orbitals": active[1]}
    tol = E_TOL if active is None or method == "pyscf" else 1e-5
    eig_jw = None
    out, err = {}, 0.0
    for mapping in spec.get("mappings", MAPPINGS):
        H, n = qp.qchem.molecular_hamiltonian(mol, method=method, mapping=mapping, **kw)
        n_expected = 2 * (n_orb if active is None else active[1])
        if n != n_expected:
            return bad(f"qubit-count:{sig}:{mapping}", n, n_expected)
        M = np.asarray(qp.matrix(H, wire_order=list(range(n))))
        if np.max(np.abs(M - M.conj().T)) > 1e-10:
            return bad(f"not-hermitian:{sig}:{mapping}", float(np.max(np.abs(M - M.conj().T))), 0.0)
        eig = np.linalg.eigvalsh(M)
        hf = np.asarray(qp.qchem.hf_state(n_e, n, basis={"jordan_wigner": "occupation_number"}.get(mapping, mapping)))
        e_hf_got = float(np.real(M[XQ.basis_index(hf), XQ.basis_index(hf)]))
        if abs(e_hf_got - e_hf) > max(tol, 1e-6):
            return bad(f"hf-energy:{sig}:{mapping}", e_hf_got, e_hf, d=d)
        if mapping == "jordan_wigner":
            eig_jw = eig
            if list(hf) != [1] * n_e + [0] * (n - n_e):
                return bad(f"hf_state:{sig}", hf.tolist(), [1] * n_e + [0] * (n - n_e))
            N, Sz, S2 = XQ.number_sz_s2(n)
            for lab, O in (("N", N), ("Sz", Sz), ("S2", S2)):
                c = float(np.max(np.abs(M @ O - O @ M)))
                if c > 1e-9:
                    return bad(f"commutator:{lab}:{sig}", c, 0.0)
            # documented spin2: 3/4 * (number of electrons, a constant) + two-body part = S^2 + 3/4 (n_e - N)
            S2_doc = S2 - 0.75 * N + 0.75 * n_e * np.eye(2**n)
            for lab, obs, O in (("particle_number", qp.qchem.particle_number(n), N), ("spin2", qp.qchem.spin2(n_e, n), S2_doc), ("spinz", qp.qchem.spinz(n), Sz)):
                Mo = np.asarray(qp.matrix(obs, wire_order=list(range(n))))
                if np.max(np.abs(Mo - O)) > 1e-10:
                    return bad(f"observable:{lab}:n{n}", float(np.max(np.abs(Mo - O))), 0.0)
                if np.max(np.abs(M @ Mo - Mo @ M)) > 1e-9:
                    return bad(f"commutator:{lab}:{sig}", float(np.max(np.abs(M @ Mo - Mo @ M))), 0.0)
            sel = XQ.sector_indices(n, n_e, 0)
            e_sector = float(np.linalg.eigvalsh(M[np.ix_(sel, sel)])[0])
            if abs(e_sector - e_ref) > tol:
                return bad(f"sector-ground-energy:{sig}", e_sector, e_ref, d=d, unit=unit)
            out["e"] = round(e_sector, 6)
            err = abs(e_sector - e_ref)
            # ---- tapering
            gens = qp.qchem.symmetry_generators(H)
            pxo = qp.qchem.paulix_ops(gens, n)
            sector = qp.qchem.optimal_sector(H, gens, n_e)
            Gm = [np.asarray(qp.matrix(g, wire_order=list(range(n)))) for g in gens]
            hf_vec = np.zeros(2**n)
            hf_vec[XQ.basis_index(hf)] = 1
            sector_exp = [int(round(float(np.real(hf_vec @ G @ hf_vec)))) for G in Gm]
            if [int(s) for s in sector] != sector_exp:
                return bad(f"optimal_sector:{sig}", [int(s) for s in sector], sector_exp)
            for G in Gm:
                if np.max(np.abs(M @ G - G @ M)) > 1e-9:
                    return bad(f"symmetry-generator-does-not-commute:{sig}", float(np.max(np.abs(M @ G - G @ M))), 0.0)
            Ht = qp.qchem.taper(H, gens, pxo, sector)
            wt = sorted(Ht.wires.tolist())
            if len(wt) > n - len(gens):
                return bad(f"taper:qubit-count:{sig}", len(wt), n - len(gens))
            nt = n - len(gens)
            order = wt + [w for w in range(n) if w not in wt][: nt - len(wt)]
            Mt = np.asarray(qp.matrix(Ht, wire_order=order)) if nt > 0 else np.array([[0.0]])
            P = np.eye(2**n, dtype=complex)
            for G, s in zip(Gm, sector_exp):
                P = P @ (np.eye(2**n) + s * G) / 2
            w, V = np.linalg.eigh(P)
            B = V[:, w > 0.5]
            spec_sector = np.sort(np.linalg.eigvalsh(B.conj().T @ M @ B))
            spec_tapered = np.sort(np.linalg.eigvalsh(Mt))
            if spec_sector.shape != spec_tapered.shape or np.max(np.abs(spec_sector - spec_tapered)) > 1e-8:
                return bad(f"taper:spectrum:{sig}", spec_tapered.tolist(), spec_sector.tolist())
            if np.min(np.abs(spec_tapered - e_ref)) > tol:
                return bad(f"taper:ground-energy-lost:{sig}", spec_tapered.tolist(), e_ref)
            out["tapered_qubits"] = nt
        else:
            if eig_jw is not None and np.max(np.abs(np.sort(eig) - np.sort(eig_jw))) > 1e-8:
                return bad(f"not-isospectral-to-JW:{sig}:{mapping}", float(np.max(np.abs(np.sort(eig) - np.sort(eig_jw)))), 0.0)
    # ---- excitations (depends only on the electron / orbital counts)
    n = 2 * (n_orb if active is None else active[1])
    for dsz in (0, 1, -1, 2, -2):
        singles, doubles = qp.qchem.excitations(n_e, n, delta_sz=dsz)
        rs, rd = XQ.excitations_ref(n_e, n, dsz)
        if len(singles) != len(rs) or {tuple(x) for x in singles} != rs:
            return bad(f"excitations:singles:dsz{dsz}", sorted(map(tuple, singles)), sorted(rs), n_e=n_e, n=n)
        if len(doubles) != len(rd) or {tuple(x) for x in doubles} != rd:
            return bad(f"excitations:doubles:dsz{dsz}", sorted(map(tuple, doubles)), sorted(rd), n_e=n_e, n=n)
    out["corr"] = round(e_hf - e_ref, 6)
    return ok(outcome=[name, d, method, out], nontrivial=(e_hf - e_ref) > 1e-6, err=err)


def run(ctx):
    quick = ctx.quick
    only = ctx.only
    specs = []
    lengths = {"H2": [0.5, 0.74, 1.5, 2.5], "HeH+": [0.5, 0.74, 1.5, 2.5], "H3+lin": [0.74, 1.0, 1.5], "H3+tri": [0.74, 1.0, 1.5]} if quick else \
        {k: [0.5, 0.74, 1.0, 1.5, 2.5] for k in ("H2", "HeH+", "H3+lin", "H3+tri")}
    for name, ds in lengths.items():
        for i, d in enumerate(ds):
            for method in ("dhf", "pyscf"):
                units = ["bohr", "angstrom"] if not quick else [["bohr", "angstrom"][i % 2]]
                for unit in units:
                    specs.append({"mol": name, "d": d, "unit": unit, "method": method})
    # frozen cores: 1 core orbital (H4 (2e,2o)) and 2 core orbitals (H6 (2e,2o)): core-core terms only exist from two cores on
    for method in ("dhf", "pyscf"):
        specs.append({"mol": "H4", "d": 1.0, "unit": "bohr", "method": method, "active": [2, 2], "mappings": ["jordan_wigner"]})
        specs.append({"mol": "H6", "d": 1.0, "unit": "angstrom", "method": method, "active": [2, 2], "mappings": ["jordan_wigner"] if quick else MAPPINGS})
    if not quick:
        for method in ("dhf", "pyscf"):
            specs.append({"mol": "H6", "d": 0.8, "unit": "bohr", "method": method, "active": [2, 3], "mappings": ["jordan_wigner"]})
            specs.append({"mol": "H6", "d": 1.2, "unit": "bohr", "method": method, "active": [4, 3], "mappings": ["jordan_wigner"]})
        specs.append({"mol": "H4", "d": 1.0, "unit": "bohr", "method": "pyscf"})
        specs.append({"mol": "H4", "d": 1.5, "unit": "angstrom", "method": "dhf", "mappings": ["jordan_wigner"]})
        for d in (1.2, 1.6, 2.2):
            for active in ([2, 2], [2, 3]):
                specs.append({"mol": "LiH", "d": d, "unit": "bohr", "method": "pyscf", "active": active})
        specs.append({"mol": "LiH", "d": 1.6, "unit": "angstrom", "method": "dhf", "active": [2, 2], "mappings": ["jordan_wigner"]})
    if only:
        specs = [s for s in specs if only in (s["mol"], s["method"])]
    ctx.enumerate(specs, axis="molecules", chunk=1)
    ctx.coverage["alphabet"] = {"molecules": sorted({s["mol"] for s in specs}), "bond_lengths_angstrom": lengths, "methods": ["dhf", "pyscf"],
                                "mappings": MAPPINGS, "units": ["bohr", "angstrom"], "active_spaces": [[2, 2]] if quick else [[2, 2], [2, 3], [4, 3]]}
    ctx.coverage["bound"] = {"basis": "sto-3g", "energy_tolerance_hartree": E_TOL}
