"""C25 — Noise insertion and error mitigation follow their definitions (DESIGN §5.4 C25).

E2/E1.  fold_global: every word (len <= 3, thorough 4) over a 7-gate alphabet x a complete grid of scale factors
(quarter steps of the fold count + the design's fixed menu); oracle = documented structure U (U^+ U)^n (L_d^+..L_s^+)(L_s..L_d),
gate count, unitary.  insert / add_noise: output operation list vs a reference interpreter of positions / conditionals
evaluated on the spec; executed results on default.mixed vs an own Kraus-sum density-matrix reference (strength 0 = noiseless).
Extrapolators: every polynomial with coefficients in {-1,0,2} up to degree 3 on several grids; exponentials on a 3x3x3 grid.
"""
import itertools
import math
from fractions import Fraction

from mc.engine import ok, bad, skip

PROPERTY = "C25"
LEVEL = "exploration"
TECHNIQUE = "bounded exhaustive enumeration of circuits x scale factors / noise models / data sets vs reference interpreter"
LEVEL_TEXT = ("fold_global on all words of length <=3 (thorough 4) over 7 gates x all scale factors 1+m/(2d), m=0..4d, plus {1.5,2.5,3.4,5}; "
              "insert over all positions x before x 4 inserted ops; add_noise over 25 conditionals (5 atoms, all and/or pairs) x 3 channels x "
              "strength {0,g} and ordered two-entry models with metadata and readout maps; extrapolators on all 120 polynomials of degree <=3 "
              "with coefficients in {-1,0,2} x grids, and 27 exponentials.")
LEVEL_NOTE = ("fold count for fractional scale: accepts the documented floor and the nearest integer (the docstring's formula and "
              "its worked example disagree with each other only there). Channels' Kraus operators are written in the check. "
              "QNode-level `level=` handling of add_noise and device-transform forms of insert are not explored (tape transform only).")
DESIGN_REF = "5.4 C25"
START = "fork"
PARALLEL = True
RULE = ("complete enumeration of (word, scale factor), (word, position, before, inserted op), (word, noise model), (polynomial, grid); "
        "non-trivial = output differs from input (something folded / inserted) or data not constant")

G1, G2 = 0.3731, 1.2345
GAMMA = 0.2
ALPH = [["RX", [0], [G1]], ["RY", [1], [G2]], ["S", [0], []], ["T", [1], []], ["CNOT", [0, 1], []], ["RX", [2], [G2]], ["CZ", [2, 1], []]]
WIRES = [0, 1, 2]


# ---------------------------------------------------------------------------------------------- reference side
def ref_unitary(ops):
    """ops: list of [name, wires, params, adjoint?]"""
    import numpy as np
    from mc import refgates as RG
    from mc import refsim as RS

    n = 3
    st = np.eye(2 ** n, dtype=complex).reshape((2,) * n + (2 ** n,))
    for o in ops:
        M = RG.matrix(o[0], o[2])
        if len(o) > 3 and o[3]:
            M = M.conj().T
        st = RS.apply_matrix(st, M, list(o[1]), n)
    return st.reshape(2 ** n, 2 ** n)


def kraus(name, p):
    import numpy as np
    from mc import refgates as RG

    if name == "AmplitudeDamping":
        return [np.array([[1, 0], [0, math.sqrt(1 - p)]], dtype=complex), np.array([[0, math.sqrt(p)], [0, 0]], dtype=complex)]
    if name == "DepolarizingChannel":
        return [math.sqrt(1 - p) * RG.I2] + [math.sqrt(p / 3) * P for P in (RG.X, RG.Y, RG.Z)]
    if name == "PhaseFlip":
        return [math.sqrt(1 - p) * RG.I2, math.sqrt(p) * RG.Z]
    if name == "BitFlip":
        return [math.sqrt(1 - p) * RG.I2, math.sqrt(p) * RG.X]
    raise KeyError(name)


CHANNELS = ("AmplitudeDamping", "DepolarizingChannel", "PhaseFlip", "BitFlip")


def ref_dm(ops, n=3):
    """Density matrix after `ops` ([name, wires, params]); channels by explicit Kraus sums."""
    import numpy as np
    from mc import refgates as RG
    from mc import refsim as RS

    rho = RS.dm_zero(n)
    for o in ops:
        Ks = kraus(o[0], o[2][0]) if o[0] in CHANNELS else [RG.matrix(o[0], o[2])]
        rho = RS.dm_apply_kraus(rho, Ks, list(o[1]), n)
    return rho


def ref_expvals(rho, n=3):
    """<Z0>, <Z1 Z2>, <X1>, probs on [0,1]"""
    import numpy as np
    from mc import refgates as RG
    from mc import refsim as RS

    out = []
    for word, ws in (("Z", [0]), ("ZZ", [1, 2]), ("X", [1])):
        M = RS.embed(RG.pauli_word_matrix(word), ws, list(range(n)))
        out.append(float(np.real(np.trace(rho @ M))))
    return out


def live(qp, o):
    return getattr(qp, o[0])(*o[2], wires=o[1])


def same_op(qp, op, o, adj=False):
    """live operator == spec [name, wires, params] (optionally wrapped in Adjoint)"""
    import numpy as np

    if adj:
        if type(op).__name__ not in ("Adjoint", "AdjointOperation", "AdjointOpObs") and not op.name.startswith("Adjoint("):
            return False
        op = op.base
    return (op.name == o[0] and list(op.wires) == list(o[1]) and len(op.data) == len(o[2])
            and all(abs(float(a) - float(b)) <= 1e-12 for a, b in zip(op.data, o[2])))


def describe(op):
    return [op.name, list(op.wires), [round(float(x), 6) for x in op.data]]


# ---------------------------------------------------------------------------------------------- fold_global
def check_fold(spec):
    import numpy as np
    import pennylane as qp
    from mc import refsim as RS

    word = spec["ops"]
    d = len(word)
    lam = Fraction(spec["lam"][0], spec["lam"][1])
    tape = qp.tape.QuantumScript([live(qp, o) for o in word], [qp.expval(qp.Z(0) @ qp.Z(2)), qp.probs(wires=[1])], shots=spec.get("shots"))
    arg = float(lam) if lam.denominator != 1 or spec.get("as_float") else int(lam)
    (new,), fn = qp.noise.fold_global(tape, arg)
    n = (lam - 1) // 2
    frac = (lam - 1) - 2 * n
    x = frac * d / 2
    fl = x.numerator // x.denominator
    allowed = {fl} if (x - fl) < Fraction(1, 2) else {fl, fl + 1}
    if x == fl:
        allowed = {fl}
    got = list(new.operations)
    base_count = d * (1 + 2 * n)
    extra = len(got) - base_count
    if extra < 0 or extra % 2 or (extra // 2) not in allowed:
        return bad("fold:gate-count", len(got), [base_count + 2 * s for s in sorted(allowed)], lam=str(lam), d=d)
    s = extra // 2
    # documented structure
    exp = [(o, False) for o in word]
    for _ in range(int(n)):
        exp += [(o, True) for o in word[::-1]] + [(o, False) for o in word]
    if s:
        exp += [(o, True) for o in word[::-1][:s]] + [(o, False) for o in word[d - s:]]
    for i, (op, (o, adj)) in enumerate(zip(got, exp)):
        if not same_op(qp, op, o, adj):
            return bad("fold:structure", [i, repr(op)], [o, "adjoint" if adj else "plain"], lam=str(lam))
    # unitary
    U0 = ref_unitary(word)
    # evaluate the *returned* operations with the reference matrices (Adjoint = conjugate transpose)
    ops_spec = []
    for op in got:
        a = op.name.startswith("Adjoint(")
        b = op.base if a else op
        ops_spec.append([b.name, list(b.wires), [float(v) for v in b.data], a])
    U1 = ref_unitary(ops_spec)
    if not RS.close(U0, U1, 1e-9):
        return bad("fold:unitary", RS.maxdiff(U0, U1), 0.0, lam=str(lam))
    if [repr(m) for m in new.measurements] != [repr(m) for m in tape.measurements] or new.shots != tape.shots:
        return bad("fold:measurements-or-shots-changed", [repr(m) for m in new.measurements], [repr(m) for m in tape.measurements])
    if fn(("r",)) != "r":
        return bad("fold:postprocessing", repr(fn(("r",))), "r")
    return ok(outcome=[int(n), s, len(got) - d], nontrivial=len(got) > d)


def check_fold_channel(spec):
    import pennylane as qp

    tape = qp.tape.QuantumScript([qp.RX(G1, 0), qp.AmplitudeDamping(0.1, 0)], [qp.expval(qp.Z(0))])
    try:
        qp.noise.fold_global(tape, spec["lam"])
    except ValueError:
        return ok(outcome="ValueError", nontrivial=True)
    return bad("fold:channel-accepted", "no error", "ValueError (documented)")


# ---------------------------------------------------------------------------------------------- insert
INS_OPS = {
    "AmplitudeDamping": lambda qp: (qp.AmplitudeDamping, lambda a: [["AmplitudeDamping", [a]]]),
    "DepolarizingChannel": lambda qp: (qp.DepolarizingChannel, lambda a: [["DepolarizingChannel", [a]]]),
    "PhaseFlip": lambda qp: (qp.PhaseFlip, lambda a: [["PhaseFlip", [a]]]),
}
POSITIONS = ["all", "start", "end", ["RX"], ["CNOT"], ["RX", "CNOT"], ["T", "RY", "CZ"], "RX-bare", ["Hadamard"]]


def qfunc_op(qp):
    def op(x, y, wires):
        qp.RX(x, wires=wires)
        qp.PhaseShift(y, wires=wires)

    return op


def ref_insert(word, prep, meas_wires, pos, before, mk):
    """mk(w) -> list of [name, params] inserted on wire w.  Returns list of [name, wires, params]."""
    out = []
    ops = list(word)
    tape_wires = []
    for o in ([prep] if prep else []) + ops:
        for w in o[1]:
            if w not in tape_wires:
                tape_wires.append(w)
    for w in meas_wires:
        if w not in tape_wires:
            tape_wires.append(w)
    if prep:
        out.append(prep)
    ins = lambda w: [[nm, [w], pr] for nm, pr in mk(w)]
    if pos == "start":
        for w in tape_wires:
            out += ins(w)
    names = None
    if isinstance(pos, list):
        names = pos
    elif pos == "RX-bare":
        names = ["RX"]
    for o in ops:
        if not before:
            out.append(o)
        if pos == "all":
            for w in o[1]:
                out += ins(w)
        if names:
            for nm in names:
                if o[0] == nm:
                    for w in o[1]:
                        out += ins(w)
        if before:
            out.append(o)
    if pos == "end":
        for w in tape_wires:
            out += ins(w)
    return out


def check_insert(spec):
    import numpy as np
    import pennylane as qp
    from mc import refsim as RS

    word, pos, before, what, strength = spec["ops"], spec["pos"], spec["before"], spec["op"], spec["p"]
    prep = spec.get("prep")
    plops = ([qp.BasisState(np.array(prep[2]), wires=prep[1])] if prep else []) + [live(qp, o) for o in word]
    mps = [qp.expval(qp.Z(0)), qp.expval(qp.Z(1) @ qp.Z(2)), qp.expval(qp.X(1))]
    if spec.get("narrow_meas"):
        mps = [qp.expval(qp.Z(1))]
    meas_wires = [w for m in mps for w in m.wires]
    tape = qp.tape.QuantumScript(plops, mps)
    if what == "qfunc":
        op, args = qfunc_op(qp), [strength, 0.3]
        mk = lambda w: [["RX", [strength]], ["PhaseShift", [0.3]]]
    else:
        op, args = getattr(qp, what), strength
        mk = lambda w: [[what, [strength]]]
    if isinstance(pos, list):
        plpos = [getattr(qp, nm) for nm in pos]
    elif pos == "RX-bare":
        plpos = qp.RX
    else:
        plpos = pos
    (new,), fn = qp.noise.insert(tape, op, args, position=plpos, before=before)
    want = ref_insert(word, ["BasisState", prep[1], []] if prep else None, meas_wires, pos, before, mk)
    got = list(new.operations)
    if len(got) != len(want):
        return bad("insert:op-count", [describe(o) for o in got], want)
    for i, (g, w) in enumerate(zip(got, want)):
        if w[0] == "BasisState":
            if g.name != "BasisState":
                return bad("insert:prep-moved", describe(g), w)
            continue
        if not same_op(qp, g, w):
            return bad("insert:position", [i, describe(g)], w, got=[describe(o) for o in got])
    if [repr(m) for m in new.measurements] != [repr(m) for m in tape.measurements]:
        return bad("insert:measurements-changed", [repr(m) for m in new.measurements], [repr(m) for m in tape.measurements])
    inserted = len(got) - len(plops)
    # executed result vs own Kraus-sum reference; strength 0 must equal the noiseless circuit
    if spec.get("exec") and not spec.get("narrow_meas"):
        pre = [["PauliX", [w], []] for b, w in zip(prep[2], prep[1]) if b] if prep else []
        noisy_ref = ref_expvals(ref_dm(pre + [w for w in want if w[0] != "BasisState"]))
        clean_ref = ref_expvals(ref_dm(pre + word))
        res = qp.execute([new], qp.device("default.mixed", wires=3))[0]
        res = [float(r) for r in res]
        if any(abs(a - b) > 1e-9 for a, b in zip(res, noisy_ref)):
            return bad("insert:executed-result", res, noisy_ref)
        if strength == 0 and what != "qfunc" and any(abs(a - b) > 1e-9 for a, b in zip(res, clean_ref)):
            return bad("insert:zero-strength-differs-from-noiseless", res, clean_ref)
    return ok(outcome=[inserted, [i for i, w in enumerate(want) if w[0] in CHANNELS or w[0] == "PhaseShift"][:6]], nontrivial=inserted > 0)


def check_insert_invalid(spec):
    import pennylane as qp

    tape = qp.tape.QuantumScript([qp.RX(G1, 0), qp.CNOT([0, 1])], [qp.expval(qp.Z(0))])
    what = spec["what"]
    try:
        if what == "two-wire-op":
            qp.noise.insert(tape, qp.CNOT, [], position="all")
        elif what == "bad-position-str":
            qp.noise.insert(tape, qp.PhaseFlip, 0.1, position="middle")
        elif what == "bad-position-obj":
            qp.noise.insert(tape, qp.PhaseFlip, 0.1, position=[qp.RX, 3])
        elif what == "bad-position-int":
            qp.noise.insert(tape, qp.PhaseFlip, 0.1, position=1)
    except ValueError:
        return ok(outcome="ValueError", nontrivial=True)
    return bad(f"insert:invalid-accepted:{what}", "no error", "ValueError (documented)")


# ---------------------------------------------------------------------------------------------- add_noise
ATOMS = [["op_eq", "RX"], ["op_in", ["RX", "CNOT", "T"]], ["wires_in", [0, 1]], ["wires_eq", [2]], ["angle_gt", 0.5]]


def conds():
    out = [a for a in ATOMS]
    for a, b in itertools.combinations(ATOMS, 2):
        out.append(["and", a, b])
        out.append(["or", a, b])
    out += [["not", ATOMS[2]], ["xor", ATOMS[0], ATOMS[2]], ["op_eq_str", "CNOT"], ["op_eq_inst", "RY"], ["wires_in_op", [2, 1]], ["wires_eq", [1, 0]]]
    return out


def ref_cond(c, o):
    k = c[0]
    if k in ("op_eq", "op_eq_str", "op_eq_inst"):
        return o[0] == c[1]
    if k == "op_in":
        return o[0] in c[1]
    if k in ("wires_in", "wires_in_op"):
        return set(o[1]) <= set(c[1])
    if k == "wires_eq":
        return set(o[1]) == set(c[1])
    if k == "angle_gt":
        return len(o[2]) > 0 and o[2][0] > c[1]
    if k == "and":
        return ref_cond(c[1], o) and ref_cond(c[2], o)
    if k == "or":
        return ref_cond(c[1], o) or ref_cond(c[2], o)
    if k == "xor":
        return ref_cond(c[1], o) != ref_cond(c[2], o)
    if k == "not":
        return not ref_cond(c[1], o)
    raise KeyError(k)


def live_cond(qp, c):
    k = c[0]
    if k == "op_eq":
        return qp.noise.op_eq(getattr(qp, c[1]))
    if k == "op_eq_str":
        return qp.noise.op_eq(c[1])
    if k == "op_eq_inst":
        return qp.noise.op_eq(getattr(qp, c[1])(0.77, wires="zz"))
    if k == "op_in":
        return qp.noise.op_in([getattr(qp, n) for n in c[1]])
    if k == "wires_in":
        return qp.noise.wires_in(c[1])
    if k == "wires_in_op":
        return qp.noise.wires_in(qp.CNOT(c[1]))
    if k == "wires_eq":
        return qp.noise.wires_eq(c[1] if len(c[1]) > 1 else c[1][0])
    if k == "angle_gt":
        thr = c[1]

        @qp.BooleanFn
        def angle_gt(op, **kwargs):
            return len(op.parameters) > 0 and op.parameters[0] > thr

        return angle_gt
    if k == "and":
        return live_cond(qp, c[1]) & live_cond(qp, c[2])
    if k == "or":
        return live_cond(qp, c[1]) | live_cond(qp, c[2])
    if k == "xor":
        return live_cond(qp, c[1]) ^ live_cond(qp, c[2])
    if k == "not":
        return ~live_cond(qp, c[1])
    raise KeyError(k)


def live_noise(qp, nz):
    """nz: ["partial", channel, p] | ["meta", channel]  (strength from metadata key 'p1') | ["angle", channel] (p = 0.1*angle)"""
    if nz[0] == "partial":
        return qp.noise.partial_wires(getattr(qp, nz[1]), nz[2])
    if nz[0] == "meta":
        ch = getattr(qp, nz[1])

        def meta_noise(op, **kwargs):
            for w in op.wires:
                ch(kwargs["p1"], wires=w)

        return meta_noise
    if nz[0] == "angle":
        ch = getattr(qp, nz[1])

        def angle_noise(op, **kwargs):
            ch(0.1 * op.parameters[0], wires=op.wires[0])

        return angle_noise
    raise KeyError(nz[0])


def ref_noise(nz, o, meta):
    if nz[0] == "partial":
        return [[nz[1], [w], [nz[2]]] for w in o[1]]
    if nz[0] == "meta":
        return [[nz[1], [w], [meta["p1"]]] for w in o[1]]
    if nz[0] == "angle":
        return [[nz[1], [o[1][0]], [0.1 * o[2][0]]]]
    raise KeyError(nz[0])


def check_noise(spec):
    import numpy as np
    import pennylane as qp

    word, model, meta = spec["ops"], spec["model"], spec.get("meta", {})
    plops = [live(qp, o) for o in word]
    mps = [qp.expval(qp.Z(0)), qp.expval(qp.Z(1) @ qp.Z(2)), qp.expval(qp.X(1))]
    tape = qp.tape.QuantumScript(plops, mps)
    nm = qp.NoiseModel({live_cond(qp, c): live_noise(qp, nz) for c, nz in model}, **meta)
    if len(nm.model_map) != len(model):
        return skip("conditionals collided as dict keys")
    (new,), fn = qp.add_noise(tape, nm)
    want = []
    for o in word:
        want.append(o)
        for c, nz in model:
            if nz[0] == "angle" and not o[2]:
                if ref_cond(c, o):
                    return skip("angle noise on a parameterless gate")
                continue
            if ref_cond(c, o):
                want += ref_noise(nz, o, meta)
    got = list(new.operations)
    if len(got) != len(want):
        return bad("add_noise:op-count", [describe(o) for o in got], want, model=model)
    for i, (g, w) in enumerate(zip(got, want)):
        if not same_op(qp, g, w):
            return bad("add_noise:position", [i, describe(g)], w, got=[describe(o) for o in got], model=model)
    if [repr(m) for m in new.measurements] != [repr(m) for m in tape.measurements]:
        return bad("add_noise:measurements-changed", [repr(m) for m in new.measurements], [repr(m) for m in tape.measurements])
    n_ins = len(got) - len(word)
    if spec.get("exec"):
        res = [float(r) for r in fn(qp.execute([new], qp.device("default.mixed", wires=3)))]
        noisy_ref = ref_expvals(ref_dm(want))
        if any(abs(a - b) > 1e-9 for a, b in zip(res, noisy_ref)):
            return bad("add_noise:executed-result", res, noisy_ref)
        strengths = [w[2][0] for w in want if w[0] in CHANNELS]
        if all(s == 0 for s in strengths):
            clean = ref_expvals(ref_dm(word))
            if any(abs(a - b) > 1e-9 for a, b in zip(res, clean)):
                return bad("add_noise:zero-strength-differs-from-noiseless", res, clean)
    return ok(outcome=[n_ins, [i for i, w in enumerate(want) if w[0] in CHANNELS][:6]], nontrivial=n_ins > 0)


def check_readout(spec):
    """meas_map: readout noise appended before the measurements it selects; results re-assembled in the original order."""
    import numpy as np
    import pennylane as qp
    from mc import refgates as RG
    from mc import refsim as RS

    word = spec["ops"]
    plops = [live(qp, o) for o in word]
    MEAS = {"eZ0": lambda: qp.expval(qp.Z(0)), "eZ1": lambda: qp.expval(qp.Z(1)), "eX2": lambda: qp.expval(qp.X(2)), "vZ0": lambda: qp.var(qp.Z(0)),
            "eZ0Z1": lambda: qp.expval(qp.Z(0) @ qp.Z(1)), "p1": lambda: qp.probs(wires=[1]), "p02": lambda: qp.probs(wires=[0, 2])}
    INFO = {"eZ0": ("expval", [0]), "eZ1": ("expval", [1]), "eX2": ("expval", [2]), "vZ0": ("var", [0]), "eZ0Z1": ("expval", [0, 1]), "p1": ("probs", [1]), "p02": ("probs", [0, 2])}
    mnames = spec["meas"]
    tape = qp.tape.QuantumScript(plops, [MEAS[m]() for m in mnames])
    mconds = {"expval": lambda: qp.noise.meas_eq(qp.expval), "expval&w01": lambda: qp.noise.meas_eq(qp.expval) & qp.noise.wires_in([0, 1]),
              "probs": lambda: qp.noise.meas_eq(qp.probs), "w0": lambda: qp.noise.wires_in([0])}

    def ref_mcond(name, m):
        kind, ws = INFO[m]
        return {"expval": kind == "expval", "expval&w01": kind == "expval" and set(ws) <= {0, 1}, "probs": kind == "probs", "w0": set(ws) <= {0}}[name]

    mm = spec["meas_map"]  # list of [condname, channel, p]
    op_model = spec.get("model", [])
    nm = qp.NoiseModel({live_cond(qp, c): live_noise(qp, nz) for c, nz in op_model},
                       meas_map={mconds[c](): qp.noise.partial_wires(getattr(qp, ch), p) for c, ch, p in mm})
    tapes, fn = qp.add_noise(tape, nm)
    base = []
    for o in word:
        base.append(o)
        for c, nz in op_model:
            if ref_cond(c, o):
                base += ref_noise(nz, o, {})
    want = []
    ntapes = []
    for m in mnames:
        kind, ws = INFO[m]
        ops = list(base)
        for c, ch, p in mm:
            if ref_mcond(c, m):
                ops += [[ch, [w], [p]] for w in ws]
        if ops not in ntapes:
            ntapes.append(ops)
        rho = ref_dm(ops)
        if kind == "probs":
            want.append(np.real(np.diag(RS.dm_reduce(rho, ws, 3))))
        else:
            word_ = {"eZ0": "Z", "eZ1": "Z", "eX2": "X", "vZ0": "Z", "eZ0Z1": "ZZ"}[m]
            M = RS.embed(RG.pauli_word_matrix(word_), ws, [0, 1, 2])
            e = float(np.real(np.trace(rho @ M)))
            want.append(e if kind == "expval" else float(np.real(np.trace(rho @ M @ M))) - e * e)
    if len(tapes) != len(ntapes):
        return bad("add_noise:readout:tape-count", len(tapes), len(ntapes))
    res = fn(qp.execute(list(tapes), qp.device("default.mixed", wires=3)))
    res = list(res) if len(mnames) > 1 else [res]
    for m, g, w in zip(mnames, res, want):
        g = np.asarray(g, dtype=float)
        if g.shape != np.asarray(w).shape or np.any(np.abs(g - w) > 1e-9):
            return bad("add_noise:readout:result", [m, g.tolist()], np.asarray(w).tolist(), meas=mnames, meas_map=mm)
    return ok(outcome=[len(tapes), [round(float(np.sum(np.asarray(w))), 4) for w in want]], nontrivial=len(ntapes) > 1 or any(ref_mcond(c, m) for c, _, _ in mm for m in mnames))


# ---------------------------------------------------------------------------------------------- extrapolation
def check_extrap(spec):
    import numpy as np
    import pennylane as qp

    kind = spec["k"]
    x = np.array(spec["x"], dtype=float)
    if kind in ("poly", "richardson"):
        cs = spec["coeffs"]  # c0 + c1 x + c2 x^2 + ...
        y = sum(c * x ** i for i, c in enumerate(cs))
        if kind == "poly":
            got = qp.noise.poly_extrapolate(x, y, spec["order"])
        else:
            got = qp.noise.richardson_extrapolate(x, y)
        want = float(cs[0])
        if not abs(float(got) - want) <= 1e-7:
            return bad(f"extrapolate:{kind}:not-exact", float(got), want, spec=spec)
        return ok(outcome=[kind, want, len(x), spec.get("order")], nontrivial=any(c != 0 for c in cs[1:]))
    if kind == "poly-batch":
        cs_list = spec["coeffs"]
        y = np.stack([sum(c * x ** i for i, c in enumerate(cs)) for cs in cs_list], axis=1)  # shape (len(x), batch)
        got = np.asarray(qp.noise.poly_extrapolate(x, y, spec["order"]))
        want = np.array([cs[0] for cs in cs_list], dtype=float)
        if got.shape != want.shape or np.any(np.abs(got - want) > 1e-7):
            return bad("extrapolate:poly-batch:not-exact", got.tolist(), want.tolist())
        return ok(outcome=["batch", want.tolist()], nontrivial=True)
    if kind == "exp":
        a, b, c = spec["abc"]
        y = a * np.exp(-b * x) + c
        if spec["asym"]:
            got = qp.noise.exponential_extrapolate(x, y, asymptote=c)
        else:
            got = qp.noise.exponential_extrapolate(x, y)
        want = a + c
        if not abs(float(got) - want) <= 1e-7:
            return bad("extrapolate:exp:not-exact", float(got), want, spec=spec)
        return ok(outcome=["exp", round(want, 6), spec["asym"]], nontrivial=True)
    raise AssertionError(kind)


# ---------------------------------------------------------------------------------------------- driver
def words(maxlen):
    out = []
    for n in range(maxlen + 1):
        out += [list(w) for w in itertools.product(ALPH, repeat=n)]
    return out


def run(ctx):
    only = ctx.only

    def want(f):
        return only is None or only == f

    L = 3 if ctx.quick else 4
    ctx.coverage["alphabet"] = {"gates": ALPH, "positions": POSITIONS, "conditionals": len(conds()), "channels": list(CHANNELS[:3])}
    ctx.coverage["bound"] = {"fold_word_len": L, "insert_word_len": 2 if ctx.quick else 3, "noise_word_len": 2 if ctx.quick else 3, "poly_degree": 3}
    if want("fold"):
        specs = []
        for w in words(L):
            d = len(w)
            lams = {Fraction(1), Fraction(3, 2), Fraction(2), Fraction(5, 2), Fraction(3), Fraction(17, 5), Fraction(5), Fraction(7), Fraction(9, 2)}
            if d:
                lams |= {1 + Fraction(m, 2 * d) for m in range(0, 4 * d + 1)} | {3 + Fraction(m, 2 * d) for m in (1, 2, 3, 2 * d - 1)}
            for lam in sorted(lams):
                specs.append({"k": "fold", "ops": w, "lam": [lam.numerator, lam.denominator]})
        specs += [{"k": "fold", "ops": w, "lam": [l, 1], "as_float": True, "shots": 10} for w in words(2) for l in (1, 2, 3)]
        ctx.enumerate(specs, fn="check_fold", axis="fold")
        ctx.enumerate([{"k": "foldch", "lam": l} for l in (1, 2, 3.5)], fn="check_fold_channel", axis="fold:channel")
    if want("insert"):
        Li = 2 if ctx.quick else 3
        specs = []
        for w in words(Li):
            for pos in POSITIONS:
                for before in (False, True):
                    for what, p in (("AmplitudeDamping", GAMMA), ("PhaseFlip", 0.0), ("DepolarizingChannel", GAMMA), ("qfunc", 0.0), ("qfunc", GAMMA)):
                        specs.append({"k": "ins", "ops": w, "pos": pos, "before": before, "op": what, "p": p, "exec": len(w) <= 2})
        preps = [["BasisState", [0, 1], [1, 0]], ["BasisState", [2], [1]]]
        for w in words(1 if ctx.quick else 2):
            for pos in POSITIONS[:4]:
                for before in (False, True):
                    for prep in preps:
                        specs.append({"k": "ins", "ops": w, "pos": pos, "before": before, "op": "AmplitudeDamping", "p": GAMMA, "prep": prep, "exec": True})
                    specs.append({"k": "ins", "ops": w, "pos": pos, "before": before, "op": "PhaseFlip", "p": GAMMA, "narrow_meas": True})
        ctx.enumerate(specs, fn="check_insert", axis="insert")
        ctx.enumerate([{"k": "insbad", "what": x} for x in ("two-wire-op", "bad-position-str", "bad-position-obj", "bad-position-int")], fn="check_insert_invalid", axis="insert:invalid")
    if want("noise"):
        Ln = 2 if ctx.quick else 3
        specs = []
        C = conds()
        for w in words(Ln):
            if not w:
                continue
            for c in C:
                for ch in CHANNELS[:3]:
                    for p in (0.0, GAMMA):
                        specs.append({"k": "noise", "ops": w, "model": [[c, ["partial", ch, p]]], "exec": len(w) <= 2 and ch != "DepolarizingChannel" and (p == 0.0 or c in ATOMS)})
        # ordered two-entry models (documented: noise added in the order the conditionals appear), metadata, angle-dependent noise
        two = [(ATOMS[0], ATOMS[2]), (ATOMS[2], ATOMS[0]), (ATOMS[1], ATOMS[4]), (["or", ATOMS[3], ATOMS[0]], ["and", ATOMS[2], ATOMS[1]]), (ATOMS[4], ATOMS[4][:1] + [0.2])]
        for w in words(Ln):
            if not w:
                continue
            for c1, c2 in two:
                specs.append({"k": "noise", "ops": w, "model": [[c1, ["partial", "AmplitudeDamping", GAMMA]], [c2, ["partial", "PhaseFlip", 0.1]]], "exec": len(w) <= 2})
                specs.append({"k": "noise", "ops": w, "model": [[c1, ["meta", "BitFlip"]], [c2, ["partial", "AmplitudeDamping", 0.0]]], "meta": {"p1": 0.15, "unused": 3}, "exec": len(w) <= 1})
            specs.append({"k": "noise", "ops": w, "model": [[ATOMS[4], ["angle", "PhaseFlip"]], [ATOMS[0], ["angle", "BitFlip"]]], "exec": len(w) <= 1})
        ctx.enumerate(specs, fn="check_noise", axis="add_noise")
    if want("readout"):
        meas_sets = [["eZ0"], ["eZ0", "eZ1"], ["eZ0", "p1", "eX2"], ["p02", "eZ0Z1", "vZ0", "eZ1"], ["eX2", "eZ0", "eX2"], ["p1", "p02"]]
        mmaps = [[["expval", "PhaseFlip", 0.1]], [["expval&w01", "BitFlip", 0.2]], [["probs", "BitFlip", 0.3], ["w0", "AmplitudeDamping", 0.25]],
                 [["expval", "BitFlip", 0.0]], [["w0", "BitFlip", 0.5], ["expval", "BitFlip", 0.1]]]
        ws = [w for w in words(2 if ctx.quick else 3) if len(w) >= 1][:: (3 if ctx.quick else 1)]
        ctx.enumerate([{"k": "ro", "ops": w, "meas": ms, "meas_map": mm, "model": mdl} for w in ws for ms in meas_sets for mm in mmaps
                       for mdl in ([], [[ATOMS[0], ["partial", "AmplitudeDamping", GAMMA]]])], fn="check_readout", axis="add_noise:readout")
    if want("extrap"):
        specs = []
        grids = lambda m: [[1 + i for i in range(m)], [1, 1.5, 2, 3, 4.5, 5, 7][:m], [1.0, 1.25, 1.5, 2.0, 2.5, 3.0, 3.5][:m]]
        for deg in range(0, 4):
            for cs in itertools.product((-1, 0, 2), repeat=deg + 1):
                if deg and cs[-1] == 0:
                    continue  # listed under its true degree
                for order in range(deg, 4):
                    for m in range(order + 1, order + 4):
                        for x in grids(m):
                            specs.append({"k": "poly", "coeffs": list(cs), "order": order, "x": x})
                for m in range(deg + 1, deg + 3):
                    for x in grids(m):
                        specs.append({"k": "richardson", "coeffs": list(cs), "x": x})
        specs.append({"k": "poly-batch", "coeffs": [[1, 2, 0], [-1, 0, 2], [0, 0, 0], [2, -1, -1]], "order": 2, "x": [1, 2, 3, 4]})
        specs.append({"k": "poly-batch", "coeffs": [[1, 2], [-1, 0.5]], "order": 1, "x": [1, 1.5, 3]})
        for a in (0.5, 1.0, -2.0):
            for b in (0.1, 0.5, 1.0):
                for c in (0.0, 0.3, -1.0):
                    for x in ([1, 2, 3], [1, 1.5, 2, 3, 5], [1.0, 3.0]):
                        specs.append({"k": "exp", "abc": [a, b, c], "x": x, "asym": True})
                        if c == 0.0:
                            specs.append({"k": "exp", "abc": [a, b, c], "x": x, "asym": False})
        ctx.enumerate(specs, fn="check_extrap", axis="extrapolate")
