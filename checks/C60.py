"""C60 — Classical-shadow estimators are exactly unbiased (DESIGN §5.11 C60).

E4, full tree.  (a) Estimator side (no randomness left): for each fixed state the FULL sum over all 3^n recipes x
2^n outcomes, weighted 3^-n * P(outcome | recipe) with P from the reference density matrix, of
ClassicalShadow.global_snapshots / local_snapshots / pauli_expval / ClassicalShadow.expval must equal the density
matrix / the exact Pauli expectation.  (b) Device side: the recipe generator (numpy RandomState) and the bit
sampler (`Generator.random(size) > p`) are both scripted; every recipe x outcome answer vector is explored, which
yields the exact joint distribution of (bits, recipes) returned by `qp.classical_shadow` and the exact mean of
`qp.shadow_expval`; they must equal 3^-(shots*n) * prod P(b|r) and the exact expectation value."""
import itertools

import numpy as np

from mc.engine import ok, bad, skip

PROPERTY = "C60"
LEVEL = "exploration"
TECHNIQUE = "full enumeration of all 3^n recipes x 2^n outcomes (estimator identity) and full answer tree of scripted recipe/bit draws (device)"
LEVEL_TEXT = ("For 11 fixed 1-2 qubit states (thorough: + 3 three-qubit states) the probability-weighted sum over ALL recipe/outcome pairs of the "
              "snapshot equals the density matrix (1e-12) and of the single-snapshot Pauli estimators equals the exact expectation for ALL Pauli "
              "words and 3 sums; on default.qubit and default.mixed every scripted recipe/bit answer vector for shots<=2 is explored and the "
              "exact joint distribution of (bits, recipes) and the exact mean of shadow_expval are compared with the reference.")
LEVEL_NOTE = ("Reference = plain numpy (eigenvectors of X, Y, Z; reference density matrix from mc.refsim). median-of-means with k>1 and the entropy "
              "estimator are not covered (not claimed unbiased). Trusted: RandomState.randint is uniform, Generator.random is uniform on [0,1).")
DESIGN_REF = "5.11 C60"
PARALLEL = True
RULE = ("states x quantities (snapshot sums on every ordered wire subset, every Pauli word, sums) + device cases (state x measured wires x "
        "shots x device); non-trivial = the state is not an eigenstate of every measured Pauli (more than one outcome has weight)")
ASSUMPTIONS = ["numpy RandomState.randint(0,3) is uniform; Generator.random() is uniform on [0,1) (so `u > p` is Bernoulli(1-p))"]

S2 = 1 / np.sqrt(2)
EIGVECS = {  # recipe -> [eigenvector for bit 0 (eigenvalue +1), for bit 1 (eigenvalue -1)]
    0: [np.array([S2, S2]), np.array([S2, -S2])],
    1: [np.array([S2, 1j * S2]), np.array([S2, -1j * S2])],
    2: [np.array([1, 0]), np.array([0, 1])],
}
PAULI = {"I": np.eye(2), "X": np.array([[0, 1], [1, 0]]), "Y": np.array([[0, -1j], [1j, 0]]), "Z": np.array([[1, 0], [0, -1]])}

STATES = {  # name -> (n wires, list of (gate, params, wires)) ; "mix:" entries are convex mixtures of two pure states
    "0": (1, []),
    "1": (1, [("PauliX", [], [0])]),
    "+": (1, [("Hadamard", [], [0])]),
    "+i": (1, [("Hadamard", [], [0]), ("S", [], [0])]),
    "ry": (1, [("RY", [0.7], [0])]),
    "rot": (1, [("Rot", [0.3, 1.1, -0.8], [0])]),
    "00": (2, []),
    "bell": (2, [("Hadamard", [], [0]), ("CNOT", [], [0, 1])]),
    "prod": (2, [("Hadamard", [], [0]), ("RY", [0.7], [1]), ("S", [], [0])]),
    "ent": (2, [("RY", [0.9], [0]), ("CNOT", [], [0, 1]), ("RZ", [0.4], [1]), ("RX", [1.3], [0]), ("S", [], [1])]),
    "mix": (2, "mix"),
    "ghz": (3, [("Hadamard", [], [0]), ("CNOT", [], [0, 1]), ("CNOT", [], [1, 2])]),
    "gen3": (3, [("RY", [0.9], [0]), ("CNOT", [], [0, 1]), ("RX", [1.3], [2]), ("CNOT", [], [2, 1]), ("RZ", [0.4], [1]), ("S", [], [0]), ("RY", [-0.6], [1])]),
    "w3": (3, [("RY", [1.2], [0]), ("CNOT", [], [0, 2]), ("Hadamard", [], [1]), ("CNOT", [], [1, 2]), ("RX", [0.5], [2])]),
}
SUMS = {"s1": [(0.5, "XX"), (1.0, "ZI"), (-0.3, "YZ")], "s2": [(1.0, "ZZ"), (1.0, "XX")], "s3": [(2.0, "IY"), (-1.5, "XZ"), (0.25, "II")]}


# ------------------------------------------------------------------------------------------- reference
def build_ops(gates):
    import pennylane as qp

    return [getattr(qp, g)(*p, wires=w) for g, p, w in gates]


def ref_rho(name):
    from mc import refsim

    n, gates = STATES[name]
    if gates == "mix":
        a, b = ref_rho("bell"), ref_rho("prod")
        return 0.3 * a + 0.7 * b
    psi = refsim.run_state(build_ops(gates), list(range(n))).reshape(-1)
    return np.outer(psi, psi.conj())


def reduce_rho(rho, axes, n):
    from mc import refsim

    return refsim.dm_reduce(rho, list(axes), n)


def p_outcome(rho, recipe, bits):
    phi = np.array([1.0 + 0j])
    for r, b in zip(recipe, bits):
        phi = np.kron(phi, EIGVECS[r][b])
    return float(np.real(phi.conj() @ rho @ phi))


def pauli_matrix(word):
    M = np.array([[1.0 + 0j]])
    for c in word:
        M = np.kron(M, PAULI[c])
    return M


def all_rows(k):
    rec = list(itertools.product((0, 1, 2), repeat=k))
    bit = list(itertools.product((0, 1), repeat=k))
    return [(r, b) for r in rec for b in bit]


def word_op(word, wires):
    import pennylane as qp

    fs = [{"X": qp.X, "Y": qp.Y, "Z": qp.Z, "I": qp.Identity}[c](w) for c, w in zip(word, wires)]
    return fs[0] if len(fs) == 1 else qp.prod(*fs)


# ------------------------------------------------------------------------------------------- (a) estimator identities
def check(spec):
    kind = spec["kind"]
    if kind in ("device", "device_expval"):
        return check_device(spec)
    import pennylane as qp
    from pennylane.shadows import ClassicalShadow
    from pennylane.shadows.classical_shadow import pauli_expval

    name = spec["state"]
    n = STATES[name][0]
    rho = ref_rho(name)
    rows = all_rows(n)
    wts = np.array([3.0 ** -n * p_outcome(rho, r, b) for r, b in rows])
    if abs(wts.sum() - 1) > 1e-12:
        raise OSError("harness: reference weights do not sum to 1")
    bits = np.array([b for _, b in rows], dtype=np.int8)
    recs = np.array([r for r, _ in rows], dtype=np.int8)
    nontriv = bool(np.sum(wts > 1e-12) > 3 ** n)
    labels = spec.get("wire_map") or list(range(n))
    shadow = ClassicalShadow(bits, recs, wire_map=list(labels))
    if kind == "snapshot":
        sub = spec["wires"]  # column indices or None
        snaps = shadow.global_snapshots(wires=sub)
        if snaps.shape != (len(rows), 2 ** len(sub or range(n)), 2 ** len(sub or range(n))):
            return bad("snapshot:shape", list(snaps.shape), [len(rows)])
        est = np.tensordot(wts, snaps, axes=(0, 0))
        exp = rho if sub is None else reduce_rho(rho, sub, n)
        err = float(np.max(np.abs(est - exp)))
        if err > 1e-12:
            return bad(f"snapshot-sum-differs-from-state:{'all-wires' if sub is None else 'wire-subset'}", _c(est), _c(exp), err=err)
        loc = shadow.local_snapshots(wires=sub)
        for j, col in enumerate(sub if sub is not None else range(n)):
            e1 = np.tensordot(wts, loc[:, j], axes=(0, 0))
            x1 = reduce_rho(rho, [col], n)
            if np.max(np.abs(e1 - x1)) > 1e-12:
                return bad("local-snapshot-sum-differs-from-reduced-state", _c(e1), _c(x1), qubit=int(col))
        # each snapshot individually is Hermitian with unit trace (documented form of the inverse channel)
        tr = np.trace(snaps, axis1=1, axis2=2)
        if np.max(np.abs(tr - 1)) > 1e-12 or np.max(np.abs(snaps - np.conj(np.transpose(snaps, (0, 2, 1))))) > 1e-12:
            return bad("snapshot:not-hermitian-unit-trace", _c(tr[:4]), 1.0)
        return ok(outcome=["snapshot", round(float(np.real(np.trace(exp @ exp))), 9), len(rows)], nontrivial=nontriv)
    if kind == "pauli":
        word = spec["word"]
        exact = float(np.real(np.trace(rho @ pauli_matrix(word))))
        code = np.array([[{"X": 0, "Y": 1, "Z": 2, "I": -1}[c] for c in word]])
        vals = np.asarray(pauli_expval(bits, recs, code))
        if vals.shape != (len(rows), 1):
            return bad("pauli_expval:shape", list(vals.shape), [len(rows), 1])
        est = float(wts @ vals[:, 0])
        if abs(est - exact) > 1e-12:
            return bad("pauli_expval:biased", est, exact, word=word)
        # the public estimator on every single-snapshot shadow (k=1)
        op = word_op(word, labels)
        tot = 0.0
        for (r, b), w in zip(rows, wts):
            if w <= 0:
                continue
            one = ClassicalShadow(np.array([b], dtype=np.int8), np.array([r], dtype=np.int8), wire_map=list(labels))
            tot += w * float(np.real(one.expval(op, k=1)))
        if abs(tot - exact) > 1e-12:
            return bad("ClassicalShadow.expval:biased:pauli-word", tot, exact, word=word)
        return ok(outcome=["pauli", word, round(exact, 9)], nontrivial=nontriv and abs(exact) > 1e-9)
    if kind == "sum":
        terms = SUMS[spec["sum"]]
        exact = sum(c * float(np.real(np.trace(rho @ pauli_matrix(w)))) for c, w in terms)
        forms = {"sum": lambda: qp.sum(*[qp.s_prod(c, word_op(w, labels)) for c, w in terms]),
                 "hamiltonian": lambda: qp.Hamiltonian([c for c, _ in terms], [word_op(w, labels) for _, w in terms])}
        for fname, mk in forms.items():
            op = mk()
            tot = 0.0
            for (r, b), w in zip(rows, wts):
                if w <= 0:
                    continue
                one = ClassicalShadow(np.array([b], dtype=np.int8), np.array([r], dtype=np.int8), wire_map=list(labels))
                tot += w * float(np.real(one.expval(op, k=1)))
            if abs(tot - exact) > 1e-12:
                return bad(f"ClassicalShadow.expval:biased:{fname}", tot, exact, sum=spec["sum"])
        # a list of observables is estimated entry-wise
        ops = [word_op(w, labels) for _, w in terms]
        tots = np.zeros(len(ops))
        for (r, b), w in zip(rows, wts):
            if w <= 0:
                continue
            one = ClassicalShadow(np.array([b], dtype=np.int8), np.array([r], dtype=np.int8), wire_map=list(labels))
            tots += w * np.real(np.asarray(one.expval(ops, k=1))).reshape(-1)
        ex = np.array([float(np.real(np.trace(rho @ pauli_matrix(w)))) for _, w in terms])
        if np.max(np.abs(tots - ex)) > 1e-12:
            return bad("ClassicalShadow.expval:biased:list", _c(tots), _c(ex), sum=spec["sum"])
        return ok(outcome=["sum", spec["sum"], round(exact, 9)], nontrivial=nontriv)
    raise AssertionError(kind)


def _c(a):
    a = np.asarray(a)
    return {"re": np.round(a.real, 9).tolist(), "im": np.round(a.imag, 9).tolist()} if np.iscomplexobj(a) else np.round(a, 9).tolist()


# ------------------------------------------------------------------------------------------- (b) device side
def check_device(spec):
    import pennylane as qp
    from mc.explore import Chooser
    from mc.seams import own_numpy_rng
    from mc.x_sampling import ScriptedRandomState, explore, own_random_state, scripted_generator, canon, compare_dist

    name = spec["state"]
    n, gates = STATES[name]
    W = spec["wires"]
    shots = spec["shots"]
    k = len(W)
    rho = ref_rho(name)
    terms = SUMS[spec["sum"]] if spec["kind"] == "device_expval" else None

    def run(ch):
        gen = scripted_generator(ch)
        rs = ScriptedRandomState(ch, gen.log)
        import autoray.autoray as ar

        for key in [key for key in list(getattr(ar, "_FUNCS", {})) if isinstance(key, tuple) and key[-1] == "random.default_rng"]:
            ar._FUNCS.pop(key, None)
        try:
            with own_numpy_rng(gen), own_random_state(rs):
                dev = qp.device(spec["dev"], wires=n, seed=(7 if spec["dev"] == "default.mixed" else gen))
                if dev._rng is not gen:
                    raise OSError("harness: scripted generator was not installed in the device")

                @qp.set_shots(shots)
                @qp.qnode(dev)
                def circuit():
                    build_ops(gates)
                    if terms is None:
                        return qp.classical_shadow(wires=W, seed=5)
                    H = qp.sum(*[qp.s_prod(c, word_op(w, list(range(n)))) for c, w in terms])
                    return qp.shadow_expval(H, k=1, seed=5)

                res = circuit()
        finally:
            for key in [key for key in list(getattr(ar, "_FUNCS", {})) if isinstance(key, tuple) and key[-1] == "random.default_rng"]:
                ar._FUNCS.pop(key, None)
        return (res, list(gen.log)), gen.log

    (r0, l0), _ = run(Chooser([]))
    (r1, l1), _ = run(Chooser([]))
    if canon(r0) != canon(r1):
        return bad("nondeterministic-under-owned-rng", repr(r0)[:300], repr(r1)[:300])
    fns = [e["fn"] for e in l0]
    if fns[:1] != ["randint"] or "bernoulli" not in fns:
        return bad("unexpected-random-draws", fns, ["randint", "bernoulli", "..."])

    violations = []

    def keys(out):
        res, log = out
        if terms is not None:
            return [canon(res)]
        a = np.asarray(res)
        if a.shape != (2, shots, k):
            violations.append(("shape", list(a.shape), [2, shots, k]))
            return [("badshape",)]
        bits, recs = a[0], a[1]
        if not np.all(np.isin(bits, (0, 1))) or not np.all(np.isin(recs, (0, 1, 2))):
            violations.append(("value-range", a.tolist(), "bits in {0,1}, recipes in {0,1,2}"))
        asked = np.array([x for e in log if e["fn"] == "randint" for x in e["answers"]]).reshape(shots, k)
        if not np.array_equal(recs, asked):
            violations.append(("recipes-not-passed-through", recs.tolist(), asked.tolist()))
        return [canon([bits, recs])]

    dists, leaves, total = explore(run, keys, max_execs=6 ** (shots * n) + 1)
    if violations:
        v = violations[0]
        return bad(f"classical_shadow:{v[0]}", v[1], v[2])
    if abs(total - 1) > 1e-9:
        return bad("supplied-probabilities-do-not-sum-to-1", total, 1.0)
    got = dists[0]
    if terms is None:
        sub = reduce_rho(rho, W, n)
        exp = {}
        per = all_rows(k)
        for combo in itertools.product(per, repeat=shots):
            w = 1.0
            for r, b in combo:
                w *= 3.0 ** -k * p_outcome(sub, r, b)
            if w > 1e-15:
                key = canon([np.array([b for _, b in combo]), np.array([r for r, _ in combo])])
                exp[key] = exp.get(key, 0.0) + w
        why = compare_dist(got, exp)
        if why:
            return bad(f"classical_shadow:{why[0]}", why[1], {"n_ref": len(exp), "n_impl": len(got)}, leaves=leaves)
        return ok(outcome=["device", leaves, len(got)], nontrivial=len(got) > 3 ** (shots * k))
    exact = sum(c * float(np.real(np.trace(rho @ pauli_matrix(w)))) for c, w in terms)
    mean = sum(p * kx for kx, p in got.items())
    if abs(mean - exact) > 1e-9:
        return bad("shadow_expval:biased", mean, exact, leaves=leaves)
    return ok(outcome=["device_expval", leaves, round(exact, 9), len(got)], nontrivial=len(got) > 1)


# ------------------------------------------------------------------------------------------- enumeration
def run(ctx):
    names = [s for s in STATES if STATES[s][0] <= (2 if ctx.quick else 3)]
    specs = []
    for s in names:
        n = STATES[s][0]
        subsets = [None] + [list(c) for kk in range(1, n + 1) for c in itertools.permutations(range(n), kk)]
        for sub in subsets:
            specs.append({"kind": "snapshot", "state": s, "wires": sub})
        for word in itertools.product("IXYZ", repeat=n):
            w = "".join(word)
            specs.append({"kind": "pauli", "state": s, "word": w})
            if n >= 2 and w.count("I") < n:
                specs.append({"kind": "pauli", "state": s, "word": w, "wire_map": ["b", "a", 7][:n]})
        if n == 2:
            for sm in SUMS:
                specs.append({"kind": "sum", "state": s, "sum": sm})
                specs.append({"kind": "sum", "state": s, "sum": sm, "wire_map": ["b", "a"]})
    ctx.enumerate(specs, axis="estimator", chunk=4)
    dspecs = []
    for s in names:
        n = STATES[s][0]
        for dev in ("default.qubit", "default.mixed"):
            if STATES[s][1] == "mix":
                continue  # prepared states only (a mixture is not a circuit)
            wire_sets = [list(range(n))] + ([[n - 1]] if n > 1 else []) + ([[1, 0]] if n == 2 else []) + ([[2, 0]] if n == 3 else [])
            for W in wire_sets:
                for shots in (1, 2):
                    if 6 ** (shots * len(W)) > (1296 if ctx.quick else 7776) or (ctx.quick and shots * len(W) > 3 and s not in ("bell", "ent")):
                        continue
                    dspecs.append({"kind": "device", "state": s, "dev": dev, "wires": W, "shots": shots})
            if n == 2:
                for sm in (["s1"] if ctx.quick else list(SUMS)):
                    for shots in (1,) if ctx.quick else (1, 2):
                        dspecs.append({"kind": "device_expval", "state": s, "dev": dev, "wires": [0, 1], "shots": shots, "sum": sm})
    ctx.enumerate(dspecs, axis="device", chunk=1)
    ctx.coverage["alphabet"] = {"states": {k: (v[1] if v[1] == "mix" else [g[0] for g in v[1]]) for k, v in STATES.items() if k in names},
                                "recipes_x_outcomes": "ALL 3^n x 2^n per state", "pauli_words": "ALL 4^n words per state", "sums": SUMS,
                                "devices": ["default.qubit", "default.mixed"], "device_shots": [1, 2]}
    ctx.coverage["bound"] = {"max_qubits": 2 if ctx.quick else 3, "device_answer_tree": "full", "max_device_leaves": 1296 if ctx.quick else 7776}
