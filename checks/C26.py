"""C26 — default.qubit simulates every circuit exactly (DESIGN §5.5).

E2, exhaustive over a kernel-derived alphabet.  Every dispatch target / branch predicate of
`devices/qubit/apply_operation.py` (specialised X,Z,S,T,H,PhaseShift,RX,RY,RZ,CNOT,Identity,GlobalPhase kernels,
einsum vs tensordot by `len(op.wires) < 3` and `ndim(state) < 13`, the csr path, MultiControlledX / GroverOperator
`< 9` wires, broadcast parameter vs broadcast state) has one gate letter per wire-position class (first / middle /
last axis, ascending / descending / non-adjacent wire tuples).  Families:

  K  kernels      (prep) + every word of length <= L over the alphabet on 3 wires, `state()` compared in full
  M  measurements fixed states x every measurement list of length <= 2 x wire labels x device wire orders
  O  orders       every letter x wire labels x device wire orders (tape order, permuted, superset device wires)
  W  wide         every letter once on 12/13(/10/14) wires (ndim threshold crossed by wires or by the batch axis),
                  9-wire MultiControlledX / GroverOperator kernels, > 7-wire Sum/LinearCombination expectation paths
  I  interfaces   autograd / jax / torch (spawned workers): words, measurements and the wide family again

Oracle: mc.x_circ reference (closed-form matrices + tensordot on explicit axes + explicit index arithmetic), 1e-9.
"""
import os

os.environ.setdefault("OMP_NUM_THREADS", "1")
os.environ.setdefault("OPENBLAS_NUM_THREADS", "1")
os.environ.setdefault("MKL_NUM_THREADS", "1")
os.environ.setdefault("XLA_FLAGS", "--xla_cpu_multi_thread_eigen=false intra_op_parallelism_threads=1")
os.environ.setdefault("JAX_PLATFORMS", "cpu")

import numpy as np

from mc.engine import ok, bad, skip
from mc.explore import words
from mc import x_circ as X

PROPERTY = "C26"
LEVEL = "exploration"
TECHNIQUE = "bounded exhaustive circuit enumeration over a kernel-derived gate alphabet vs. independent tensordot state-vector reference"
LEVEL_TEXT = ("Every word of length <=2 (thorough 3) over an 81-letter alphabet with one letter per apply_operation kernel and "
              "wire-position class on 3 wires (x 9 state preparations), every measurement list of length <=2 over 63 measurement "
              "letters x 5 wire labellings x 4 device wire orders, every letter plus 8 many-wire letters on 12/13 (thorough 10/14) "
              "wires, and the autograd/jax/torch interfaces are executed through qp.execute on default.qubit and compared at 1e-9 "
              "with a plain numpy reference.")
LEVEL_NOTE = ("Trusted base: mc.refgates closed forms, mc.refsim tensordot, fixed token matrices in mc.x_circ. Not decided: circuits "
              "longer than the bound, >14 wires, ParametrizedEvolution (ODE solver, approximate by construction), mid-circuit "
              "measurement kernels (C29-C32), finite shots, float32 inputs, operations mixing different broadcast sizes; jax runs "
              "with jax_enable_x64; density-matrix based measurements (purity, entropies) only up to 13 wires (memory). Five genuine "
              "defects are recorded in known_findings/C26.json.")
DESIGN_REF = "5.5 C26"
START = "fork"
PARALLEL = True
RULE = ("complete enumeration: (prep x words<=L) + (state x measurement lists<=2 x labels x device wires) + (letters x labels x "
        "device wires) + wide family + interface family; non-trivial = reference state is not the initial |0..0> state")
ASSUMPTIONS = ["jax is run with jax_enable_x64=True (the property is stated for float64)",
               "state()/probs() on a device without declared wires follow the tape's standard wire order documented in "
               "QuantumScript.map_to_standard_wires (natural integer order if the labels are 0..k-1, else order of first appearance)"]

G1, G2, G3 = X.G1, X.G2, X.G3
ATOL = 1e-9


# ------------------------------------------------------------------------------------------------ alphabet
def sigma():
    L = []
    for name in ("PauliX", "PauliZ", "S", "T", "Hadamard"):
        for a in (0, 1, 2):
            L.append([name, [a], []])
    for name, g in (("PhaseShift", G1), ("RX", G2), ("RY", G3), ("RZ", G1)):
        for a in (0, 1, 2):
            L.append([name, [a], [g]])
    # broadcast parameter on the specialised kernels (batch 3 and the squeeze-prone batch 1)
    L += [["PhaseShift", [0], [X.B3]], ["PhaseShift", [2], [X.B3]], ["PhaseShift", [1], [X.B1]],
          ["RX", [1], [X.B3]], ["RX", [0], [X.B1]], ["RY", [2], [X.B3]], ["RZ", [0], [X.B3]], ["RZ", [2], [X.B1]]]
    L += [["GlobalPhase", [], [G1]], ["GlobalPhase", [1], [G2]], ["GlobalPhase", [], [X.B3]], ["GlobalPhase", [2], [X.B1]],
          ["Identity", [1], []], ["Identity", [0, 2], []]]
    for c, t in ((0, 1), (1, 0), (0, 2), (2, 0), (1, 2), (2, 1)):
        L.append(["CNOT", [c, t], []])
    # default path, one wire (einsum)
    L += [["PauliY", [0], []], ["SX", [2], []], ["Rot", [1], [G1, G2, G3]], ["Rot", [2], [X.B3, G2, G3]],
          ["QubitUnitary", [0], ["U1"]], ["QubitUnitary", [2], ["U1"]], ["QubitUnitary", [1], ["U1b3"]],
          ["QubitUnitary", [2], ["U1b1"]], ["QubitUnitary", [1], ["U1s"]]]
    # two wires (einsum): ascending, descending, non-adjacent
    L += [["SWAP", [0, 2], []], ["CRY", [2, 0], [G2]], ["CRY", [0, 1], [X.B3]], ["IsingXY", [1, 2], [G1]],
          ["QubitUnitary", [0, 1], ["U2"]], ["QubitUnitary", [2, 0], ["U2"]], ["QubitUnitary", [2, 1], ["U2"]],
          ["QubitUnitary", [2, 0], ["U2b3"]], ["QubitUnitary", [0, 1], ["U2b1"]],
          ["QubitUnitary", [2, 0], ["U2s"]], ["QubitUnitary", [0, 1], ["U2s"]],
          ["MultiControlledX", [0, 2], [], {"control_values": [0]}], ["GroverOperator", [2, 0], []]]
    # three wires (tensordot; einsum when both the operator and the state are broadcast)
    L += [["Toffoli", [0, 1, 2], []], ["Toffoli", [2, 0, 1], []], ["CSWAP", [1, 2, 0], []],
          ["QubitUnitary", [0, 1, 2], ["U3"]], ["QubitUnitary", [2, 0, 1], ["U3"]], ["QubitUnitary", [1, 2, 0], ["U3"]],
          ["QubitUnitary", [1, 2, 0], ["U3b3"]], ["QubitUnitary", [2, 0, 1], ["U3s"]],
          ["MultiControlledX", [2, 0, 1], [], {"control_values": [0, 1]}],
          ["MultiControlledX", [0, 1, 2], [], {"control_values": [1, 0]}],
          ["GroverOperator", [0, 1, 2], []], ["GroverOperator", [1, 2, 0], []]]
    return L


PREPS = [None,
         ["StatePrep", [0, 1, 2], ["V3"]],
         ["StatePrep", [0, 2], ["V2b3"]],
         ["StatePrep", [2, 0], ["V2"]],
         ["StatePrep", [1], ["V1"]],
         ["StatePrep", [0, 1, 2], ["V3b1"]],
         ["StatePrep", [0, 1, 2], ["V3s"]],
         ["BasisState", [0, 1, 2], ["bits:101"]],
         ["BasisState", [2, 0], ["bits:10"]]]


def observables():
    ovl = ["sum", ["sprod", 0.5, ["X", [0]]], ["sprod", 2.0, ["prod", ["Z", [0]], ["Z", [1]]]], ["sprod", -1.5, ["I", [0]]]]
    O = [["Z", [0]], ["X", [1]], ["Y", [2]], ["H", [1]], ["I", [1]],
         ["prod", ["Y", [0]], ["Z", [1]]], ["prod", ["Z", [2]], ["X", [0]]],
         ["sprod", 2.5, ["Z", [1]]], ovl, ["sum", ["X", [0]], ["Z", [2]]],
         ["lc", [0.5, 2.0, -1.5], [["X", [0]], ["prod", ["Z", [0]], ["Z", [1]]], ["I", [0]]]],
         ["lc", [1.0, 0.7], [["herm", "A1", [1]], ["Z", [2]]]],
         ["sum", ["proj", "bits:1", [2]], ["Y", [0]]],
         ["herm", "A1", [1]], ["herm", "A2", [2, 0]], ["herm", "A2", [0, 1]],
         ["proj", "bits:10", [0, 2]], ["projv", "V1", [1]]]
    return O


def measurements():
    O = observables()
    M = [["expval", o] for o in O] + [["expval", ["sparseH", "A3", [0, 1, 2]]], ["expval", ["sparseH", "A2", [2, 0]]]]
    M += [["var", o] for o in O]
    M += [["probs", w] for w in ([0], [1], [2], [0, 1], [1, 0], [0, 2], [2, 0], [1, 2], [2, 1], [0, 1, 2], [2, 0, 1], None)]
    M += [["probs_op", ["X", [1]]], ["probs_op", ["prod", ["Y", [0]], ["Z", [2]]]]]
    M += [["state"], ["dm", [1]], ["dm", [2, 0]], ["dm", [0, 1, 2]], ["purity", [0]], ["purity", [2, 1]], ["purity", [0, 1, 2]],
          ["vn", [1], None], ["vn", [0, 2], 2], ["mi", [0], [2], None], ["mi", [1], [2, 0], 2]]
    return M


# states for the measurement family: generic entangled / untouched wire / broadcast 3 / broadcast 1 / single wire / empty
MCIRCS = [
    [["StatePrep", [0, 1, 2], ["V3"]]],
    [["RY", [1], [G3]], ["CNOT", [1, 0], []], ["PhaseShift", [0], [G1]]],
    [["StatePrep", [0, 1, 2], ["V3"]], ["RX", [1], [X.B3]]],
    [["Hadamard", [2], []], ["PhaseShift", [2], [X.B1]], ["CNOT", [2, 0], []], ["RY", [0], [G2]]],
    [["RX", [2], [G2]]],
    [],
]

LABS = [[0, 1, 2], [2, 1, 0], ["a", "b", "c"], [2, "q", 0], [5, 6, 7]]
DEVS = [None, [0, 1, 2], [2, 0, 1], [1, 3, 0, 2]]  # positions; 3 = an extra device wire 'x' no gate touches
IFACES = ["autograd", "jax", "torch"]


# ------------------------------------------------------------------------------------------------ wide family
def widen(letter, W):
    """Map a 3-wire letter onto W wires: position 0 -> 0, 1 -> W//2, 2 -> W-1."""
    m = {0: 0, 1: W // 2, 2: W - 1}
    out = [letter[0], [m[w] for w in letter[1]], letter[2]]
    if len(letter) > 3:
        out.append(letter[3])
    return out


def big_letters(W):
    mid = W // 2
    L = [["MultiControlledX", [W - 1, 1, 3, 5, 7, 0, 2, 4, 6], [], {"control_values": [1, 0, 1, 1, 0, 1, 1, 0]}],
         ["MultiControlledX", [0, 1, 2, 3, 4, 5, 6, 7, W - 1], [], {"control_values": [1, 1, 1, 1, 1, 1, 1, 1]}],
         ["MultiControlledX", [8, 0, 1, 2, 3, 4, 5, 6], [], {"control_values": [0, 1, 1, 0, 1, 1, 1]}],  # 8 wires: matrix path
         ["GroverOperator", [8, 0, 1, 2, 3, 4, 5, 6, W - 1], []],
         ["GroverOperator", [7, 0, 1, 2, 3, 4, 5, 6], []],  # 8 wires: matrix path
         ["DoubleExcitation", [W - 1, 0, mid, 1], [G1]],
         ["PauliRot", [mid, W - 1, 0], [G2], {"pauli_word": "XYZ"}],
         ["MultiRZ", [W - 1, 0, mid, 2], [X.B3]]]
    if W < 13:
        L.append(["GroverOperator", list(range(W)), []])  # acts on all wires: the no-Kronecker shortcut
        L.append(["GroverOperator", list(range(W - 1, -1, -1)), []])
    return L


def wide_measurements(W):
    mid = W // 2
    ws = [0, 1, 2, 3, mid, mid + 1, W - 2, W - 1]
    paulis = ["sum"] + [["prod", ["X", [ws[i]]], ["Y", [ws[i + 1]]]] for i in range(7)] + [["sprod", 0.5, ["Z", [ws[0]]]]]
    nonp = ["sum", ["herm", "A1", [ws[0]]]] + [["prod", ["Z", [ws[i]]], ["X", [ws[i + 1]]]] for i in range(7)]
    lc = ["lc", [0.3, -1.1, 2.0, 0.5], [["prod", ["X", [ws[0]]], ["Y", [ws[7]]]], ["prod", ["Z", [ws[7]]], ["Z", [ws[3]]]],
                                        ["Y", [ws[4]]], ["prod", ["X", [ws[1]]], ["X", [ws[2]]], ["X", [ws[5]]], ["X", [ws[6]]]]]]
    small = ["sum", ["prod", ["X", [0]], ["Y", [W - 1]]], ["sprod", 0.5, ["Z", [0]]]]  # overlapping but < 8 wires
    return [["state"], ["expval", paulis], ["expval", nonp], ["expval", lc], ["expval", small], ["var", small],
            ["expval", ["sparseH", "A3", [W - 1, 0, mid]]], ["expval", ["herm", "A2", [W - 1, 0]]],
            ["probs", [W - 1, 0]], ["dm", [mid]], ["purity", [0, W - 1]], ["expval", ["Z", [W - 1]]],
            ["expval", ["prod", ["Y", [0]], ["Z", [mid]]]], ["vn", [W - 1], 2], ["mi", [0], [W - 1], None]]


# ------------------------------------------------------------------------------------------------ execution
def _labels(spec):
    W = spec.get("wide")
    if W:
        return list(range(W)), W
    lab = list(spec.get("lab") or [0, 1, 2])
    return lab + ["x"], 3


def _letters(spec):
    W = spec.get("wide")
    if W:
        pre = [["StatePrep", list(range(W)), [f"V{W}b3" if spec.get("bpre") else f"V{W}"]]]
        return pre + list(spec["word"])
    return ([spec["prep"]] if spec.get("prep") else []) + list(spec["word"])


def execute(letters, meas, lab, dev, iface, convmode):
    """Run the real implementation; returns list of numpy results (one per measurement)."""
    import pennylane as qp

    conv = X.make_conv(iface)
    ops = []
    for i, l in enumerate(letters):
        use = conv if (convmode != "alt" or i % 2 == 0) else None
        ops.append(X.build_op(l, lab, use))
    mps = [X.build_meas(m, lab) for m in meas]
    tape = qp.tape.QuantumScript(ops, mps)
    device = qp.device("default.qubit", wires=[lab[i] for i in dev]) if dev is not None else qp.device("default.qubit")
    kw = {} if iface in (None, "numpy") else {"interface": iface}
    res = qp.execute([tape], device, diff_method=None, **kw)[0]
    if len(meas) == 1:
        res = (res,)
    return [X.to_numpy(r) for r in res]


def _mismatch(obs, exp):
    obs = np.asarray(obs)
    exp = np.asarray(exp)
    if obs.shape != exp.shape:
        return f"shape {obs.shape} vs {exp.shape}"
    d = float(np.max(np.abs(obs - exp))) if obs.size else 0.0
    if not (d <= ATOL):  # catches nan
        return d
    return None


def locate(letters, lab, iface, convmode, n, dev=None):
    """First letter whose prefix circuit already fails (same labels and device wires, state() measured):
    -> (index, "raised"|"mismatch", exception type name) or None."""
    for k in range(1, len(letters) + 1):
        pre = letters[:k]
        order = list(dev) if dev is not None else X.tape_order(pre, [], lab)
        _, ref, _ = X.ref_results(pre, [["state"]], n, order)
        try:
            got = execute(pre, [["state"]], lab, dev, iface, convmode)[0]
        except (ImportError, MemoryError, OSError):
            raise
        except Exception as e:  # pylint: disable=broad-except
            return k - 1, "raised", type(e).__name__
        if _mismatch(got, ref[0]) is not None:
            return k - 1, "mismatch", None
    return None


def batch_context(letters, k):
    """How broadcasting meets at letter k: the failure classes the kernels distinguish."""
    opb = X.letter_batch(letters[k]) is not None
    stb = any(X.letter_batch(l) is not None for l in letters[:k])
    return {(False, False): "plain", (True, False): "bcast-op+unbatched-state", (True, True): "bcast-op+batched-state",
            (False, True): "plain-op+batched-state"}[(opb, stb)]


def op_code(letter, W, with_wires):
    """Signature name of a letter: class (+sparse flag); with wires in symbolic form (0 / m / L in the wide family)."""
    name = letter[0]
    toks = [p for p in letter[2] if isinstance(p, str)]
    if toks and X.token(toks[0])[3]:
        name += "(sparse)"
    if not with_wires or letter[0] == "GlobalPhase":
        return name
    sym = {0: "0", W // 2: "m", W - 1: "L"} if W else {}
    code = name + "[" + ",".join(sym.get(w, str(w)) for w in letter[1]) + "]"
    b = X.letter_batch(letter)
    if b is not None:
        code += f"b{b}"
    if len(letter) > 3 and letter[3].get("control_values"):
        code += "cv" + "".join(str(int(v)) for v in letter[3]["control_values"])
    return code


def op_signature(letters, loc, iface, W, n):
    k, how, exc = loc
    stb = any(X.letter_batch(l) is not None for l in letters[:k])
    nd = "ndim>=13" if (n + int(stb)) >= 13 else "ndim<13"
    if how == "raised":
        return f"op-raised:{iface}:{op_code(letters[k], W, False)}:{batch_context(letters, k)}:{nd}"
    return f"op-mismatch:{iface}:{op_code(letters[k], W, True)}:{batch_context(letters, k)}:{nd}"


def _mkind(m):
    return m[0] + (":" + m[1][0] if m[0] in ("expval", "var", "probs_op") else "")


def check(spec):
    lab, n = _labels(spec)
    letters = _letters(spec)
    meas = spec["meas"]
    dev = spec.get("dev")
    iface = spec.get("iface", "numpy")
    convmode = spec.get("conv", "all")
    B, consistent = X.circuit_batch(letters)
    if not consistent:
        return skip("operations with different broadcast sizes: not a valid batch (outside the property's domain)")
    if dev is not None and max(dev) >= n:
        n = max(dev) + 1
    W = spec.get("wide")
    wcls = "w3" if not W else (f"wide{W}" if W < 13 else "wide13+")
    try:
        got = execute(letters, meas, lab, dev, iface, convmode)
    except (ImportError, MemoryError, OSError):
        raise
    except Exception as e:  # pylint: disable=broad-except
        loc = locate(letters, lab, iface, convmode, n, dev)
        if loc is not None:
            sig = op_signature(letters, loc, iface, W, n)
        else:
            sig = f"meas-fail:{iface}:{wcls}:" + "+".join(_mkind(m) for m in meas)
        return bad(sig, f"{type(e).__name__}: {str(e)[:300]}", "no exception",
                   culprit=None if loc is None else X.letter_code(letters[loc[0]]))
    order = list(dev) if dev is not None else X.tape_order(letters, meas, lab)
    _, ref, states = X.ref_results(letters, meas, n, order)
    if len(got) != len(ref):
        return bad(f"result-count:{iface}:{wcls}", len(got), len(ref))
    for m, g, e in zip(meas, got, ref):
        d = _mismatch(g, e)
        if d is not None:
            loc = locate(letters, lab, iface, convmode, n, dev)
            if loc is not None:
                sig = op_signature(letters, loc, iface, W, n)
            elif isinstance(d, str):
                sig = f"result-shape:{iface}:{_mkind(m)}:batch{B}:{tuple(np.shape(g))}vs{tuple(np.shape(e))}".replace(" ", "")
            else:
                sig = f"meas-fail:{iface}:{wcls}:{_mkind(m)}"
            return bad(sig, {"measurement": m, "got": g, "maxdiff": d}, e, batched=B, device_wires=dev is not None,
                       culprit=None if loc is None else X.letter_code(letters[loc[0]]))
    z = np.zeros((2,) * n)
    z[(0,) * n] = 1
    nontrivial = bool(letters) and any(not np.allclose(st, z, atol=1e-12) for st in states)
    return ok(outcome=[X.fingerprint(got), B], nontrivial=nontrivial)


# ------------------------------------------------------------------------------------------------ driver
def run(ctx):
    S = sigma()
    M = measurements()
    quick = ctx.quick
    L = 2 if quick else 3
    only = ctx.only
    ST = [["state"]]

    def want(f):
        return only is None or only == f

    # K: kernels ------------------------------------------------------------------------------------
    if want("K"):
        specs = []
        full = PREPS[:4] if quick else PREPS
        for p in PREPS:
            maxlen = 2 if p in full else 1
            for w in words(S, maxlen):
                specs.append({"f": "K", "prep": p, "word": w, "meas": ST, "dev": DEVS[1]})
        if not quick:
            for p in PREPS[:2]:
                for w in words(S, 3, 3):
                    specs.append({"f": "K", "prep": p, "word": w, "meas": ST, "dev": DEVS[1]})
        ctx.enumerate(specs, axis="K:kernel-words", chunk=64)

    # M: measurements ---------------------------------------------------------------------------------
    if want("M"):
        specs = []
        for ci, c in enumerate(MCIRCS):
            for lab in LABS:
                for dev in DEVS:
                    for m in M:
                        specs.append({"f": "M", "prep": None, "word": c, "meas": [m], "lab": lab, "dev": dev})
        pair_circs = MCIRCS[1:3] if quick else MCIRCS
        pair_labs = [LABS[3]] if quick else LABS
        pair_devs = [DEVS[0], DEVS[2]] if quick else DEVS
        for c in pair_circs:
            for lab in pair_labs:
                for dev in pair_devs:
                    for m1 in M:
                        for m2 in M:
                            specs.append({"f": "M", "prep": None, "word": c, "meas": [m1, m2], "lab": lab, "dev": dev})
        ctx.enumerate(specs, axis="M:measurement-lists", chunk=64)

    # O: labels and device wire orders for every letter -----------------------------------------------
    if want("O"):
        specs = []
        for l in S:
            for lab in LABS:
                for dev in DEVS:
                    specs.append({"f": "O", "prep": PREPS[1], "word": [l], "meas": [["state"], ["probs", None]], "lab": lab, "dev": dev})
                    specs.append({"f": "O", "prep": None, "word": [["Hadamard", [l[1][-1] if l[1] else 0], []], l],
                                  "meas": [["probs", None], ["state"]], "lab": lab, "dev": dev})
        ctx.enumerate(specs, axis="O:labels-x-device-wires", chunk=64)

    # W: wide (numpy) ------------------------------------------------------------------------------------
    widths = [12, 13] if quick else [10, 12, 13, 14]
    wide_specs = []
    for W in widths:
        for bpre in (False, True):
            for l in [widen(l, W) for l in S] + big_letters(W):
                wide_specs.append({"f": "W", "wide": W, "bpre": bpre, "word": [l], "meas": ST})
            for m in wide_measurements(W):
                # purity / vn_entropy / mutual_info build the full 2^W x 2^W density matrix (1 GB at 13 wires):
                # kept to <= 13 wires, and to the non-broadcast state at 13
                if m[0] in ("purity", "vn", "mi") and (W > 13 or (W == 13 and bpre)):
                    continue
                if quick and m[0] in ("purity", "vn", "mi"):
                    continue  # quick runs these at 10 wires only (below)
                wide_specs.append({"f": "W", "wide": W, "bpre": bpre, "word": [], "meas": [m]})
    for bpre in (False, True):
        for m in wide_measurements(10):
            if m[0] in ("purity", "vn", "mi") and 10 not in widths:
                wide_specs.append({"f": "W", "wide": 10, "bpre": bpre, "word": [], "meas": [m]})
    if want("W"):
        ctx.enumerate(wide_specs, axis="W:wide", chunk=4)

    # I: interfaces (spawned workers; jax / torch are imported inside the workers only) --------------------
    if want("I"):
        specs = []
        ipreps = [PREPS[1], PREPS[2]]
        for iface in IFACES:
            for convmode in ("all", "alt"):
                for p in ipreps:
                    for w in words(S, 1 if quick else 2):
                        specs.append({"f": "I", "prep": p, "word": w, "meas": ST, "iface": iface, "conv": convmode})
            for p in PREPS[3:]:
                specs.append({"f": "I", "prep": p, "word": [], "meas": ST, "iface": iface})
            for c in (MCIRCS[0], MCIRCS[2], MCIRCS[3]):
                for m in M:
                    specs.append({"f": "I", "prep": None, "word": c, "meas": [m], "iface": iface, "lab": LABS[3], "dev": DEVS[2]})
            for s in wide_specs:
                if quick and s["wide"] != 13 and s["word"] and not s["bpre"]:
                    continue
                specs.append(dict(s, f="I", iface=iface))
        ctx.enumerate(specs, axis="I:interfaces", start="spawn", chunk=16)

    ctx.coverage["alphabet"] = {"gate_letters": [X.letter_code(l) for l in S], "n_gate_letters": len(S),
                                "preps": [X.letter_code(p) for p in PREPS],
                                "measurement_letters": len(M), "labels": LABS, "device_wire_orders": DEVS,
                                "interfaces": ["numpy"] + IFACES,
                                "big_letters": [X.letter_code(l) for l in big_letters(13)]}
    ctx.coverage["bound"] = {"word_len": L, "meas_list_len": 2, "wires": 3, "wide_wires": widths, "broadcast": [None, 1, 3]}
