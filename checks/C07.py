"""C07 — Operator class attribute claims are true (DESIGN §5.1 C07).

E1: for every name in each of the seven attribute sets of pennylane/ops/qubit/attributes.py (read at run time) the
claimed algebraic fact is evaluated on the operator's own matrix for every catalogue instance (ANG^k, wire labelings,
hyper-parameter menu): self-inverse, symmetric over all / over control wires, diagonal, composable rotation (pairs
(a, b) in ANG^2), unitary generator, broadcasting."""
import itertools

import numpy as np

from mc import refsim as RS
from mc import x_alphabet as A
from mc import x_catalog as cat
from mc.engine import HarnessError, bad, ok, skip

PROPERTY = "C07"
LEVEL = "exploration"
TECHNIQUE = "bounded exhaustive enumeration of attribute-set members x angle alphabet x permutations / angle pairs / batch shapes"
LEVEL_TEXT = ("Every member of the seven attribute sets (read at run time) is instantiated from the shared catalogue at ANG^k (7 angles quick, "
              "15 thorough), all hyper-parameter variants and 5 wire labelings; self-inverse: U^2=I; symmetric: P U P^dagger = U for every "
              "permutation of all (resp. control) wires, n<=4; diagonal: off-diagonal entries 0; composable: U(a)U(b)=U(a+b) for all (a,b) in "
              "ANG^2; unitary generator: G^dagger G = c*I; broadcasting: batched result (batch 1, 3, single batched parameter) = stack of "
              "un-batched results.")
LEVEL_NOTE = ("Rot is documented in the attribute's docstring as 'alternative accumulation': its clause is Rot(a)Rot(b) = Rot(fuse_rot_angles(a,b)) up "
              "to a global phase (tolerance 1e-7, pairwise-covering angle rows), which mostly exercises fuse_rot_angles. State-preparation members "
              "of supports_broadcasting (StatePrep, AmplitudeEmbedding) have no matrix; their state vectors are compared instead. The wire "
              "permutation is applied by the harness (mc.refsim.embed), not by PennyLane.")
DESIGN_REF = "5.1 C07"
START = "fork"
PARALLEL = True
RULE = ("attribute set x member x catalogue instances (variants x ANG^k x labelings) [x permutations | x ANG^2 pairs | x batch modes]; "
        "non-trivial = the operator is not the identity (self-inverse/symmetric/diagonal), a+b != a (composition), batch built from >= 1 row")
ASSUMPTIONS = ["numpy float64 linear algebra", "mc.refsim.embed permutes matrices correctly (explicit tensordot re-indexing)"]

SETS = ["self_inverses", "symmetric_over_all_wires", "symmetric_over_control_wires", "diagonal_in_z_basis", "composable_rotations",
        "has_unitary_generator", "supports_broadcasting"]
ALIAS = {"SQISW": "SISWAP", "CPhase": "ControlledPhaseShift"}
STATEPREP = ("StatePrep", "AmplitudeEmbedding")
TOL = 1e-9


def _close(a, b, tol=TOL):
    a, b = np.asarray(a), np.asarray(b)
    return a.shape == b.shape and (a.size == 0 or bool(np.max(np.abs(a - b)) <= tol * max(1.0, float(np.max(np.abs(b))))))


def _mat(op):
    import pennylane as qp

    return np.asarray(qp.matrix(op), dtype=complex)


def _vn(g):
    return g["op"] + (f"[{g['v']}]" if g["op"] in ("PauliRot", "PCPhase", "DiagonalQubitUnitary") and g.get("v") else "")


def check(spec):
    import pennylane as qp

    k = spec["k"]
    if k == "bcast":
        return check_bcast(spec)
    if k == "bcast-arr":
        return check_bcast_arr(spec)
    g = spec["g"]
    name = _vn(g)
    if k == "compose":
        return check_compose(spec)
    op = cat.build(g)
    n = len(op.wires)
    d = 2 ** n
    if k == "unitgen":
        G = op.generator()
        Gm = np.asarray(qp.matrix(G, wire_order=op.wires) if n else qp.matrix(G), dtype=complex)
        if Gm.shape == (1, 1) and d > 1:
            Gm = Gm[0, 0] * np.eye(d)
        P = Gm.conj().T @ Gm
        c = float(np.real(P[0, 0]))
        if not (c > 1e-12 and _close(P, c * np.eye(P.shape[0]))):
            return bad(f"generator-not-unitary:{name}", P, "c * identity, c > 0")
        return ok(outcome=[k, name, round(c, 9)], nontrivial=True)
    M = _mat(op)
    ident = _close(M, np.eye(d))
    if k == "selfinv":
        if not _close(M @ M, np.eye(d)):
            return bad(f"not-self-inverse:{name}", M @ M, "identity")
        return ok(outcome=[k, name], nontrivial=not ident)
    if k == "diag":
        off = M - np.diag(np.diag(M))
        if off.size and float(np.max(np.abs(off))) > TOL:
            return bad(f"not-diagonal:{name}", M, "diagonal matrix")
        return ok(outcome=[k, name, round(float(np.real(np.trace(M))), 6), round(float(np.imag(np.trace(M))), 6)], nontrivial=not ident)
    if k in ("symall", "symctrl"):
        wires = list(op.wires)
        m = n if k == "symall" else n - 1
        if m > 4:
            return skip("more-than-4-permuted-wires")
        cnt = 0
        for perm in itertools.permutations(range(m)):
            pw = [wires[i] for i in perm] + wires[m:]
            # the same gate applied to the permuted wires, written in the original wire order
            Mp = RS.embed(M, pw, wires) if n else M
            if not _close(Mp, M):
                return bad(f"not-symmetric:{k}:{name}", Mp, M, permutation=list(perm))
            # and the implementation's own expansion of the permuted instance must be that same map
            op2 = cat.build(cat.relabel(g, dict(zip(wires, pw))))
            M2 = np.asarray(qp.matrix(op2, wire_order=wires), dtype=complex) if n else _mat(op2)
            if not _close(M2, Mp):
                return bad(f"permuted-instance-mismatch:{k}:{name}", M2, Mp, permutation=list(perm))
            cnt += 1
        return ok(outcome=[k, name, cnt, round(float(np.abs(M).sum()), 6)], nontrivial=not ident and cnt > 1)
    raise AssertionError(k)


def check_compose(spec):
    import pennylane as qp

    g, a, b = spec["g"], spec["a"], spec["b"]
    name = g["op"]
    Ua, Ub = _mat(cat.build(cat.with_params(g, a))), _mat(cat.build(cat.with_params(g, b)))
    prod = Ub @ Ua  # first a, then b
    if len(a) == 1:
        Uab = _mat(cat.build(cat.with_params(g, [a[0] + b[0]])))
        if not _close(prod, Uab):
            return bad(f"not-composable:{name}", prod, Uab, a=a, b=b)
        return ok(outcome=["compose", name, round(float(np.real(np.trace(Uab))), 6), round(float(np.imag(np.trace(Uab))), 6)],
                  nontrivial=abs(b[0]) > 0 and abs(a[0]) > 0)
    # Rot-like member ("alternative accumulation"): documented fusion rule, up to a global phase
    from pennylane.transforms.optimization.optimization_utils import fuse_rot_angles

    f = [float(x) for x in np.asarray(fuse_rot_angles(np.array(a), np.array(b)), dtype=float)]
    Uf = _mat(cat.build(cat.with_params(g, f)))
    if not RS.close_up_to_phase(prod, Uf, 1e-7):
        return bad(f"not-composable(fused):{name}", prod, Uf, a=a, b=b, fused=f)
    return ok(outcome=["compose-fused", name, [round(x, 6) for x in f]], nontrivial=True)


def _rep(op):
    """matrix, or the state vector for state-preparation members."""
    if type(op).__name__ in STATEPREP or (not op.has_matrix and hasattr(op, "state_vector")):
        return np.asarray(op.state_vector(), dtype=complex)
    return _mat(op)


def _cmp_batch(tag, got, want, b):
    if got.shape != want.shape:
        if b == 1 and got.shape == want.shape[1:] and _close(got, want[0]):
            return bad(f"batch-axis-dropped:batch1:{tag}", list(got.shape), list(want.shape))
        return bad(f"broadcast-shape:{tag}", list(got.shape), list(want.shape))
    if not _close(got, want):
        return bad(f"broadcast-mismatch:{tag}", got, want)
    return None


def check_bcast(spec):
    g = spec["g"]
    name = _vn(g)
    ps = cat.params(g)
    b = len(next(v for v in ps if isinstance(v, list)))
    rows = [[(v[i] if isinstance(v, list) else v) for v in ps] for i in range(b)]
    partial = any(not isinstance(v, list) for v in ps)
    got = _rep(cat.build(g))
    want = np.stack([_rep(cat.build(cat.with_params(g, r))) for r in rows])
    v = _cmp_batch(name + (":partial" if partial else ""), got, want, b)
    if v:
        return v
    return ok(outcome=["bcast", name, b, partial, round(float(np.abs(want).sum()), 5)], nontrivial=True)


def _stack(specs):
    """Stack the array leaves ("$arr"/"$U") of structurally identical specs along a new leading axis."""

    def arr(x):
        if "$U" in x:
            return np.array(A.UTABLE[x["$U"]], dtype=complex)
        return cat._dec(x, {})

    def rec(xs):
        x0 = xs[0]
        if isinstance(x0, dict):
            if "$arr" in x0 or "$U" in x0:
                return cat.ARR(np.stack([arr(x) for x in xs]))
            return {kk: rec([x[kk] for x in xs]) for kk in x0}
        if isinstance(x0, list):
            return [rec([x[i] for x in xs]) for i in range(len(x0))]
        return x0

    s = dict(specs[0])
    s["a"] = rec([x["a"] for x in specs])
    s["kw"] = rec([x["kw"] for x in specs])
    return s


def check_bcast_arr(spec):
    gs = spec["gs"]
    name = gs[0]["op"]
    b = len(gs)
    got = _rep(cat.build(_stack(gs)))
    want = np.stack([_rep(cat.build(s)) for s in gs])
    v = _cmp_batch(f"{name}[{gs[0].get('v', '')}]", got, want, b)
    if v:
        return v
    return ok(outcome=["bcast-arr", name, b, round(float(np.abs(want).sum()), 5)], nontrivial=True)


# ---------------------------------------------------------------------------------------------------- enumeration
def _members(setname):
    from pennylane.ops.qubit import attributes as at

    return sorted(getattr(at, setname))


def _batched(insts):
    out = []
    groups = {}
    for s in insts:
        groups.setdefault((s["v"], tuple(map(str, cat.wires_of(s)))), []).append(s)
    for ss in groups.values():
        rows = [cat.params(s) for s in ss]
        k = len(rows[0])
        if not k:
            continue
        base = ss[0]
        out += [cat.batched(base, [r]) for r in rows]
        for i in range(0, len(rows), 3):
            tri = rows[i:i + 3] if len(rows[i:i + 3]) == 3 else (rows[-3:] if len(rows) >= 3 else None)
            if tri is None:
                continue
            out.append(cat.batched(base, tri))
            if k >= 2:
                for j in range(k):
                    out.append(cat.with_params(base, [([t[j] for t in tri] if jj == j else tri[0][jj]) for jj in range(k)]))
    return out


def _array_groups(name, tier):
    """Groups of structurally identical variants (same shapes / wires / non-array arguments) to be stacked into one batch."""
    sks = cat.skeletons(name, tier)

    def shape_key(s):
        def rec(x):
            if isinstance(x, dict):
                if "$arr" in x or "$U" in x:
                    a = np.array(A.UTABLE[x["$U"]]) if "$U" in x else cat._dec(x, {})
                    return ("arr", a.shape)
                return tuple((kk, rec(v)) for kk, v in sorted(x.items()))
            if isinstance(x, list):
                return tuple(rec(e) for e in x)
            return x
        return repr((rec(s["a"]), rec(s["kw"])))

    groups = {}
    for s in sks:
        groups.setdefault(shape_key(s), []).append(s)
    out = []
    for ss in groups.values():
        out.append([ss[0]])                      # batch of one
        if len(ss) >= 2:
            out.append(ss[:2])
        out.append((ss * 3)[:3])                 # batch of three (repeats allowed when the menu is short)
        if len(ss) > 3:
            out.append(ss)
    return out


def run(ctx):
    tier = ctx.tier
    have = set(cat.names())
    sizes = {}
    specs = {s: [] for s in SETS}
    missing = []
    for setname in SETS:
        mem = _members(setname)
        sizes[setname] = len(mem)
        for m in mem:
            nm = ALIAS.get(m, m)
            if nm not in have:
                missing.append(f"{setname}:{m}")
                continue
            insts = cat.instances(nm, tier)
            if m in ALIAS:  # reach the class through its alias attribute
                insts = [dict(s, f=m) for s in insts]
            if setname == "self_inverses":
                specs[setname] += [{"k": "selfinv", "g": s} for s in insts]
            elif setname == "symmetric_over_all_wires":
                specs[setname] += [{"k": "symall", "g": s} for s in insts]
            elif setname == "symmetric_over_control_wires":
                specs[setname] += [{"k": "symctrl", "g": s} for s in insts]
            elif setname == "diagonal_in_z_basis":
                specs[setname] += [{"k": "diag", "g": s} for s in insts]
            elif setname == "has_unitary_generator":
                specs[setname] += [{"k": "unitgen", "g": s} for s in insts]
            elif setname == "composable_rotations":
                sk0 = cat.skeletons(nm, tier)[0]
                kk = len(cat.params(sk0))
                ang = A.ANG(tier)
                if kk == 1:
                    specs[setname] += [{"k": "compose", "g": sk0, "a": [a], "b": [b]} for a in ang for b in ang]
                else:
                    for row in A.rows([ang] * (2 * kk), full_max=0) + [A.generic_row(2 * kk)]:
                        specs[setname].append({"k": "compose", "g": sk0, "a": row[:kk], "b": row[kk:]})
            elif setname == "supports_broadcasting":
                if any(cat.params(s) for s in insts):
                    specs[setname] += [{"k": "bcast", "g": s} for s in _batched(insts)]
                else:
                    specs[setname] += [{"k": "bcast-arr", "gs": grp} for grp in _array_groups(nm, tier)]
    if missing:
        raise HarnessError(f"attribute-set members without a catalogue recipe: {missing}")
    for setname in SETS:
        ctx.enumerate(specs[setname], axis=setname)
    ctx.coverage["alphabet"] = {"sets": sizes, "ANG": [A.ANG_NAMES[a] for a in A.ANG(tier)], "batch": [1, 3, "one-parameter-batched"],
                                "labelings": [x for x, _ in A.lab(2)]}
    ctx.coverage["bound"] = {"angles_per_parameter": len(A.ANG(tier)), "max_permuted_wires": 4, "compose_pairs": len(A.ANG(tier)) ** 2}
