"""C37 — Higher-order derivatives are correct (DESIGN §5.6).

E2 x route product.  Circuits = words of length <= 3 over {RX, RY, CRZ, IsingZZ, Rot, SingleExcitation, CNOT, H} with 1-4 gate
parameters behind a fixed parameter-free prefix, pre-processing patterns distinct / shared / 2x (linear) and x^2 / sin x
(non-linear, nested differentiation only), measurement lists expval and [expval, probs].  Routes:
  psh-qnode    qp.gradients.param_shift_hessian(qnode)(z)            (Hessian w.r.t. the QNode argument vector)
  psh-tape     param_shift_hessian(tape, argnum=..., diagonal_shifts=..., off_diagonal_shifts=...) executed on default.qubit
               argnum in {None, int, list, Boolean mask (diagonal only / one off-diagonal pair)}; custom shifts per frequency
  nested       jacobian(jacobian(qnode)) with max_diff=2 under parameter-shift and backprop in autograd / jax / torch
Oracle: nested 8th-order central differences of an independent plain-numpy simulation (mc.x_diff.ref_hessian), 1e-6.
"""
import itertools

import numpy as np

from mc.engine import ok, bad, skip
from mc import x_diff as XD

PROPERTY = "C37"
LEVEL = "exploration"
TECHNIQUE = "bounded exhaustive circuit x route enumeration vs nested finite differences of an independent simulator"
LEVEL_TEXT = ("Every word of length <=2 (thorough: + length 3 over 5 letters) over the 8-letter alphabet with 1-4 parameters x pre-processing "
              "x {expval, [expval, probs]} is differentiated twice through param_shift_hessian (QNode and tape level, argnum forms, custom "
              "shifts) and through nested autograd differentiation (parameter-shift and backprop, max_diff=2); jax and torch nesting on a "
              "fixed subset; all Hessians are compared with nested finite differences of a plain-numpy simulation (1e-6).")
LEVEL_NOTE = ("Reference = closed-form gate matrices + tensordot + 8th-order central differences nested twice (h=2e-2). param_shift_hessian "
              "on a QNode contracts the quantum Hessian with the classical Jacobian only (documented: 'works best if no classical "
              "processing is applied'), so it is compared for linear pre-processing only; non-linear pre-processing is decided through "
              "the nested-differentiation routes. Variance / state measurements are documented as unsupported by param_shift_hessian.")
DESIGN_REF = "5.6 C37"
START = "spawn"
PARALLEL = True
RULE = ("one case = (circuit, pre-processing, measurement list) x route (+ argnum / shifts / interface / diff_method); non-trivial = the "
        "reference Hessian has a non-zero off-diagonal or (single parameter) diagonal entry")

ALPHA = ["RX", "RY", "CRZ", "IsingZZ", "Rot", "SingleExcitation", "CNOT", "H"]
ALPHA3 = ["RX", "CRZ", "Rot", "SingleExcitation", "CNOT"]
NFREQ = {"RX": 1, "RY": 1, "CRZ": 2, "IsingZZ": 1, "Rot": 1, "SingleExcitation": 2}
TOL = 1e-6


def flat_h(h, n):
    """param_shift_hessian / nested-tuple layout (n, n, *out) per measurement -> (M, n, n)."""
    hs = h if (isinstance(h, tuple) and len(h) and not _is_row(h, n)) else (h,)
    out = []
    for x in hs:
        a = np.asarray(_to_np(x), dtype=float)
        if n == 1 and (a.ndim < 2 or a.shape[:2] != (1, 1)):
            a = a.reshape((1, 1) + a.shape)
        out.append(np.moveaxis(a.reshape(n, n, -1), 2, 0))
    return np.concatenate(out)


def _is_row(h, n):
    """Is the tuple `h` the (n x n) nested tuple of ONE measurement (rather than a tuple over measurements)?"""
    return len(h) == n and isinstance(h[0], tuple) and len(h[0]) == n and not isinstance(h[0][0], tuple)


def _to_np(x):
    if isinstance(x, (tuple, list)):
        return [_to_np(y) for y in x]
    if hasattr(x, "detach"):
        return x.detach().numpy()
    return np.asarray(x)


def gate_freqs(w):
    out = []
    for l in w:
        out += [NFREQ[l]] * XD.LETTERS[l][0] if l in NFREQ else []
    return out


def check(spec):
    import pennylane as qp

    c, route = spec["c"], spec["route"]
    dev = qp.device("default.qubit")
    n = XD.n_args(c)
    if route == "psh-qnode":
        from pennylane import numpy as anp

        qn = XD.make_qnode(c, dev, "autograd", "parameter-shift", max_diff=2)
        h = qp.gradients.param_shift_hessian(qn)(anp.array(XD.z0(c), requires_grad=True))
        H = flat_h(h, n)
        Href = XD.ref_hessian(c)
        return compare(H, Href, f"psh-qnode:{c['share']}:{c['meas']}", c)
    if route == "psh-tape":
        from pennylane import numpy as anp

        qn = XD.make_qnode(c, dev, "autograd", "parameter-shift", max_diff=2)
        tape = qp.workflow.construct_tape(qn)(anp.array(XD.z0(c), requires_grad=True))
        p = len(tape.trainable_params)
        if p != n:
            return bad("psh-tape:trainable-count", p, n)
        kw, mask = {}, np.ones((p, p), dtype=bool)
        a = spec["argnum"]
        if a == "int0":
            kw["argnum"] = 0
            mask = np.zeros((p, p), dtype=bool)
            mask[0, 0] = True
        elif a == "ends":
            idx = sorted({0, p - 1})
            kw["argnum"] = idx
            mask = np.zeros((p, p), dtype=bool)
            for i in idx:
                for j in idx:
                    mask[i, j] = True
        elif a == "diag":
            mask = np.eye(p, dtype=bool)
            kw["argnum"] = mask.copy()
        elif a == "pair":
            mask = np.zeros((p, p), dtype=bool)
            mask[0, p - 1] = mask[p - 1, 0] = True
            kw["argnum"] = mask.copy()
        elif a == "last":
            kw["argnum"] = [p - 1]
            mask = np.zeros((p, p), dtype=bool)
            mask[p - 1, p - 1] = True
        if spec.get("shifts"):
            fr = gate_freqs(c["w"])
            diag_on = [i for i in range(p) if mask[i, i]]
            off_on = [i for i in range(p) if any(mask[i, j] for j in range(p) if j != i)]
            sh1 = {1: (0.9,), 2: (0.7, 1.9)}
            sh2 = {1: (1.3,), 2: (0.5, 2.3)}
            kw["diagonal_shifts"] = [sh1[fr[i]] for i in diag_on]
            kw["off_diagonal_shifts"] = [sh2[fr[i]] for i in off_on]
        tapes, fn = qp.gradients.param_shift_hessian(tape, **kw)
        res = dev.execute(tapes) if len(tapes) else ()
        h = fn(res)
        H = flat_h(h, p)
        Href = XD.ref_hessian(c) * mask[None, :, :]
        return compare(H, Href, f"psh-tape:argnum={a}:{'custom-shifts' if spec.get('shifts') else 'default-shifts'}:{c['meas']}", c, ntapes=len(tapes))
    if route == "nested":
        iface, dm = spec["iface"], spec["diff"]
        qn = XD.make_qnode(c, dev, iface, dm, max_diff=2)
        z = XD.z0(c)
        if iface == "autograd":
            from pennylane import numpy as anp

            def f(x):
                r = qn(x)
                r = r if isinstance(r, tuple) else (r,)
                return anp.concatenate([anp.reshape(t, (-1,)) for t in r])

            H = np.asarray(qp.jacobian(qp.jacobian(f))(anp.array(z, requires_grad=True)), dtype=float)
        elif iface == "jax":
            import jax

            jax.config.update("jax_enable_x64", True)
            import jax.numpy as jnp

            def f(x):
                r = qn(x)
                r = r if isinstance(r, tuple) else (r,)
                return jnp.concatenate([jnp.reshape(t, (-1,)) for t in r])

            H = np.asarray(jax.jacobian(jax.jacobian(f))(jnp.asarray(z)), dtype=float)
        else:
            import torch

            def f(x):
                r = qn(x)
                r = r if isinstance(r, tuple) else (r,)
                return torch.cat([torch.reshape(t, (-1,)) for t in r])

            def j1(x):
                return torch.autograd.functional.jacobian(f, x, create_graph=True)

            H = torch.autograd.functional.jacobian(j1, torch.tensor(z, dtype=torch.float64, requires_grad=True))
            H = np.asarray(H.detach().numpy(), dtype=float)
        Href = XD.ref_hessian(c)
        return compare(H, Href, f"nested:{iface}:{dm}:{c['share']}:{c['meas']}", c)
    raise KeyError(route)


def compare(H, Href, tag, c, **extra):
    if H.shape != Href.shape:
        return bad(f"hessian-shape:{tag}", list(H.shape), list(Href.shape))
    err = float(np.max(np.abs(H - Href))) if H.size else 0.0
    if not err <= TOL:
        i = np.unravel_index(np.argmax(np.abs(H - Href)), H.shape)
        kind = "diagonal" if i[1] == i[2] else "off-diagonal"
        return bad(f"hessian-value:{tag}:{kind}:{'+'.join(sorted(set(c['w'])))}", np.round(H, 8), np.round(Href, 8), err=err, entry=[int(x) for x in i])
    n = Href.shape[1]
    off = Href[:, ~np.eye(n, dtype=bool)] if n > 1 else Href
    return ok(outcome=[np.round(Href.reshape(-1)[:4], 5).tolist(), extra.get("ntapes")], nontrivial=bool(np.any(np.abs(off) > 1e-9)))


def circuits(ctx):
    q = ctx.quick
    words = [[a] for a in ALPHA] + [[a, b] for a in ALPHA for b in ALPHA]
    if not q:
        words += [list(w) for w in itertools.product(ALPHA3, repeat=3)]
    out = []
    for wi, w in enumerate(words):
        p = XD.n_gate_params(w)
        if not 1 <= p <= 4:
            continue
        shares = ["distinct", "2x", "sq", "sin"] + (["shared"] if p >= 2 else [])
        keep = {1: 1, 2: 2 if q else 1, 3: 5}[len(w)]
        k = 0
        for share in shares:
            for meas in ("E", "EP"):
                k += 1
                if (k + wi) % keep:
                    continue
                out.append({"w": w, "share": share, "meas": meas, "lab": ["std", "str", "mix"][(wi + k) % 3], "bcast": False})
    return out


def run(ctx):
    q = ctx.quick
    circs = circuits(ctx)
    specs = []
    for c in circs:
        if c["share"] in ("distinct", "shared", "2x"):
            specs.append({"c": c, "route": "psh-qnode"})
        specs.append({"c": c, "route": "nested", "iface": "autograd", "diff": "parameter-shift"})
        specs.append({"c": c, "route": "nested", "iface": "autograd", "diff": "backprop"})
        if c["share"] == "distinct":
            for a in ("none", "int0", "ends", "diag", "pair", "last"):
                for sh in (False, True):
                    specs.append({"c": c, "route": "psh-tape", "argnum": a, "shifts": sh})
    ctx.enumerate(specs, axis="autograd", chunk=16)
    fam = circs[:: (25 if q else 8)]
    specs = [{"c": c, "route": "nested", "iface": i, "diff": d} for c in fam for i in ("jax", "torch") for d in ("parameter-shift", "backprop")]
    ctx.enumerate(specs, axis="jax-torch", chunk=4)
    ctx.coverage["alphabet"] = {"gates": ALPHA, "gates_len3": [] if q else ALPHA3, "pre_processing": ["distinct", "shared", "2x", "sq", "sin"],
                                "measurements": ["E", "EP"], "routes": ["psh-qnode", "psh-tape", "nested"],
                                "argnum": ["none", "int0", "ends", "diag", "pair", "last"], "shifts": ["default", "custom"],
                                "nested": {"interfaces": ["autograd", "jax", "torch"], "diff_methods": ["parameter-shift", "backprop"]}}
    ctx.coverage["bound"] = {"word_len": 2 if q else 3, "max_gate_params": 4, "circuits": len(circs), "jax_torch_circuits": len(fam)}
