"""C27 — Simulator devices agree with each other (DESIGN §5.5).

E2: every word of length <= 3 (quick 2) over a common 12-letter alphabet on 3 wires (a Clifford alphabet for
default.clifford) x wire labellings x device wire orders x measurement lists of length <= 2 that the device documents,
executed on default.mixed, reference.qubit, default.tensor (mps with max_bond_dim >= 2^(n/2), tn), default.clifford and
null.qubit and compared with default.qubit on the same tape (1e-9; null.qubit: same nesting / shape / dtype kind).
"""
import json
import warnings

import numpy as np

from mc.engine import ok, bad, skip
from mc.explore import words
from mc import x_circ as X
from mc import refsim as RS

PROPERTY = "C27"
LEVEL = "exploration"
TECHNIQUE = "bounded exhaustive circuit enumeration, differential comparison of each simulator device against default.qubit"
LEVEL_TEXT = ("Every word of length <=3 (quick 2) over a 12-letter gate alphabet plus device-specific letters (16 Clifford letters for "
              "default.clifford) on 3 wires x up to 5 wire labellings x 2 device wire orders x all 25 supported single measurements and "
              "36 measurement pairs: default.mixed, reference.qubit, default.tensor (mps/tn) and default.clifford agree with "
              "default.qubit on the same tape at 1e-9 (clifford 5e-7: stim is single precision) and null.qubit returns the same shapes.")
LEVEL_NOTE = ("default.qubit is the oracle (tied to an independent reference by C26). Three families: main (an Identity on every device "
              "wire, order of appearance = device order), idle (device / measured wires without operation), perm (permuted integer "
              "device wires). default.clifford states are compared up to global phase. Not decided: default.tensor with insufficient "
              "bond dimension (approximation), finite shots, >4 wires, gradient paths, noisy circuits (C28). Nine genuine defect "
              "classes are recorded in known_findings/C27.json.")
DESIGN_REF = "5.5 C27"
START = "fork"
PARALLEL = True
RULE = ("all words <= bound x labels x device wires x supported measurement lists per device; non-trivial = circuit contains at least "
        "one gate and the default.qubit result is not that of |000>")

G1, G2 = X.G1, X.G2
ATOL = 1e-9

COMMON = [["Hadamard", [0], []], ["PauliX", [1], []], ["S", [2], []], ["T", [0], []], ["RX", [1], [G1]], ["RY", [2], [G2]],
          ["RZ", [0], [G1]], ["CNOT", [0, 1], []], ["CNOT", [2, 0], []], ["CZ", [1, 2], []], ["SWAP", [0, 2], []],
          ["RX", [1], [X.B3]]]
EXTRA = {  # device specific additions (only combined with COMMON letters in words of length <= 2)
    "mixed": [["Toffoli", [2, 0, 1], []], ["QubitUnitary", [2, 0], ["U2"]], ["IsingXY", [1, 2], [G1]], ["PhaseShift", [1], [X.B1]]],
    "ref": [["Toffoli", [2, 0, 1], []], ["Rot", [1], [G1, G2, X.G3]], ["IsingXY", [1, 2], [G1]]],
    "mps": [["Toffoli", [2, 0, 1], []], ["QubitUnitary", [2, 0], ["U2"]], ["PauliRot", [2, 0, 1], [G2], {"pauli_word": "XYZ"}],
            ["MultiRZ", [2, 0], [G1]], ["DoubleExcitation", [2, 0, 1, 3], [G1]]],
    "tn": [["Toffoli", [2, 0, 1], []], ["QubitUnitary", [2, 0], ["U2"]], ["PauliRot", [2, 0, 1], [G2], {"pauli_word": "XYZ"}],
           ["MultiRZ", [2, 0], [G1]], ["DoubleExcitation", [2, 0, 1, 3], [G1]]],
    "null": [["Toffoli", [2, 0, 1], []], ["QubitUnitary", [2, 0], ["U2b3"]]],
    "cliff": [],
}
CLIFFORD = [["Hadamard", [0], []], ["Hadamard", [1], []], ["S", [2], []], ["S", [0], []], ["PauliX", [1], []], ["PauliY", [2], []],
            ["CNOT", [0, 1], []], ["CNOT", [2, 0], []], ["CZ", [1, 2], []], ["SWAP", [0, 2], []], ["ISWAP", [1, 2], []],
            ["SX", [0], []], ["Adjoint(S)", [1], []], ["Adjoint(SX)", [2], []], ["Adjoint(ISWAP)", [2, 0], []], ["CY", [2, 1], []]]

OVL = ["sum", ["sprod", 0.5, ["X", [0]]], ["sprod", 2.0, ["prod", ["Z", [0]], ["Z", [1]]]], ["sprod", -1.5, ["I", [0]]]]
LC = ["lc", [0.5, 2.0, -1.5], [["X", [0]], ["prod", ["Z", [0]], ["Z", [1]]], ["Y", [2]]]]
E_P = [["expval", ["Z", [0]]], ["expval", ["X", [1]]], ["expval", ["prod", ["Y", [0]], ["Z", [1]]]], ["expval", OVL], ["expval", LC]]
E_H = [["expval", ["herm", "A2", [2, 0]]], ["expval", ["proj", "bits:10", [0, 2]]], ["expval", ["H", [1]]]]
V_P = [["var", ["X", [1]]], ["var", ["prod", ["Y", [0]], ["Z", [1]]]], ["var", OVL]]
V_H = [["var", ["herm", "A1", [1]]]]
PR = [["probs", [0]], ["probs", [2, 0]], ["probs", None], ["probs", [0, 1, 2]]]
ST = [["state"]]
DM = [["dm", [1]], ["dm", [2, 0]]]
EN = [["purity", [0]], ["purity", [2, 1]], ["vn", [1], None], ["vn", [0, 2], 2], ["mi", [0], [2], None], ["mi", [1], [2, 0], 2]]

SUPPORT = {  # singles, pair-subset
    "mixed": (E_P + E_H + V_P + V_H + PR + ST + DM + EN, [E_P[2], V_P[0], PR[1], ST[0], EN[3]]),
    "ref": (E_P + E_H + V_P + V_H + PR + ST + DM + EN, [E_P[2], V_P[0], PR[1], ST[0], DM[1]]),
    "mps": (E_P + E_H + V_P + V_H + ST, [E_P[2], V_P[0], E_H[0], ST[0]]),
    "tn": (E_P + E_H + V_P + V_H + ST, [E_P[2], V_P[0], E_H[0], ST[0]]),
    "cliff": (E_P + V_P + PR + ST + DM + EN, [E_P[2], V_P[0], PR[1], ST[0], EN[3]]),
    "null": (E_P + E_H + V_P + V_H + PR + ST + DM + EN, [E_P[2], V_P[0], PR[1], ST[0], EN[3]]),
}
DEVICES = ["mixed", "ref", "mps", "tn", "cliff", "null"]
LABS = [[0, 1, 2, 3], [2, 1, 0, 3], ["a", "b", "c", "d"], [2, "q", 0, "r"], [5, 6, 7, 8]]
DEVW = [[0, 1, 2], [2, 0, 1]]


def build(letter, lab):
    import pennylane as qp

    if letter[0].startswith("Adjoint("):
        base = [letter[0][8:-1]] + list(letter[1:])
        return qp.adjoint(X.build_op(base, lab))
    return X.build_op(letter, lab)


def make_device(kind, wires):
    import pennylane as qp

    if kind == "dq":
        return qp.device("default.qubit", wires=wires)
    if kind == "mixed":
        return qp.device("default.mixed", wires=wires)
    if kind == "ref":
        return qp.device("reference.qubit", wires=wires)
    if kind == "mps":
        return qp.device("default.tensor", wires=wires, method="mps", max_bond_dim=4)
    if kind == "tn":
        return qp.device("default.tensor", wires=wires, method="tn")
    if kind == "cliff":
        return qp.device("default.clifford", wires=wires, tableau=False)
    if kind == "null":
        return qp.device("null.qubit", wires=wires)
    raise KeyError(kind)


def _leaves(res, nm):
    res = (res,) if nm == 1 else tuple(res)
    return [X.to_numpy(r) for r in res]


def _supported(kind, meas):
    singles, _ = SUPPORT[kind]
    return all(m in singles for m in meas)


def _tol(kind):
    # default.clifford takes state vectors from stim, which are single precision (complex64)
    return 5e-7 if kind == "cliff" else ATOL


def _mk(m):
    return m[0] + (":" + m[1][0] if m[0] in ("expval", "var") else "")


def _compare(kind, meas, got, ref):
    """-> None or (class, measurement letter, observed, expected)."""
    if len(meas) > 1 and (not isinstance(got, (tuple, list)) or len(got) != len(meas)):
        return ("nesting", meas[0], type(got).__name__, f"tuple of {len(meas)}")
    got = _leaves(got, len(meas))
    for m, g, e in zip(meas, got, ref):
        if kind == "mixed" and m[0] == "state":
            e = np.einsum("...i,...j->...ij", e, np.conj(e))
        if g.shape != e.shape:
            return ("shape", m, g.shape, e.shape)
        if kind == "null":  # the property only promises the shapes
            continue
        if kind == "cliff" and m[0] == "state":
            g = RS.phase_align(e, g)  # stabilizer simulation does not track the global phase of the state vector
        d = float(np.max(np.abs(g - e))) if g.size else 0.0
        if not d <= _tol(kind):
            return ("disagree", m, g, e)
    return None


def _run(kind, letters, meas, lab, wires):
    import pennylane as qp

    tape = qp.tape.QuantumScript([build(l, lab) for l in letters], [X.build_meas(m, lab) for m in meas])
    return qp.execute([tape], make_device(kind, wires), diff_method=None)[0]


def _fails(kind, letters, meas, lab, wires):
    """-> None | ("raised", None, message, exception type) | compare tuple, for one device on one circuit."""
    ref = _leaves(_run("dq", letters, meas, lab, wires), len(meas))
    try:
        got = _run(kind, letters, meas, lab, wires)
    except (ImportError, MemoryError, OSError):
        raise
    except Exception as e:  # pylint: disable=broad-except
        msg = str(e)
        if kind == "ref" and isinstance(e, RuntimeError) and "Cannot split up terms in sums" in msg:
            return None  # documented rejection by split_non_commuting (variance of a sum), not a disagreement
        return ("raised", None, f"{type(e).__name__}: {msg[:300]}", type(e).__name__)
    return _compare(kind, meas, got, ref)


def family_of(lab, dw, touch):
    """main: no idle wire and the order of first appearance equals the device order and is not re-sorted;
    idle: some device / measured wires carry no operation; perm: integer labels 0..n-1 in a permuted device order
    (QuantumScript.map_to_standard_wires then keeps the natural integer order, which differs from the device order)."""
    if not touch:
        return "idle"
    wires = [lab[i] for i in dw]
    if all(isinstance(w, int) for w in wires) and sorted(wires) == list(range(len(wires))) and wires != sorted(wires):
        return "perm"
    return "main"


MPO_GATES = ("PauliRot", "MultiRZ")  # applied by default.tensor as a matrix product operator, not through apply_gate


def _main_signature(kind, word, meas, lab, dwp, f):
    """Signature of a failure of device `kind` in a main-family configuration (Identity layer on every device wire)."""
    wires = [lab[i] for i in dwp]
    pre = [["Identity", [p], []] for p in dwp]
    letters = pre + list(word)
    cls, m = f[0], f[1]
    if cls == "raised":  # which measurement raises on its own?
        m = next((mm for mm in meas if (_fails(kind, letters, [mm], lab, wires) or [None])[0] == "raised"), None)
    mname = m[0] if m is not None else "+".join(x[0] for x in meas)
    if kind in ("mps", "tn") and any(l[0] in MPO_GATES for l in word):
        return f"main:{kind}:{cls}:mpo-gate:meas={mname}", m
    mm = [m] if m is not None else meas
    after = None  # first prefix on which this device already fails with the failing measurement
    for k in range(len(pre), len(letters) + 1):
        if _fails(kind, letters[:k], mm, lab, wires) is not None:
            after = None if k == len(pre) else letters[k - 1]
            break
    if after is None:
        return f"main:{kind}:{cls}:meas={_mk(m) if m is not None else mname}", m
    b = X.letter_batch(after)
    opn = after[0] + ("" if b is None else f"(batch{b})")
    # state() still agrees on the full circuit -> the measurement is at fault, otherwise the operation
    state_ok = mm != [["state"]] and _fails(kind, letters, [["state"]], lab, wires) is None
    return f"main:{kind}:{cls}:" + (f"meas={mname}" if state_ok else f"op={opn}"), m


def check(spec):
    kinds, word, meas, lab, dw = spec["devs"], spec["word"], spec["meas"], spec["lab"], spec["dw"]
    touch = spec.get("touch", True)
    used = {w for l in word for w in l[1]}
    n = 4 if 3 in used else 3
    dwp = list(dw) + ([3] if n == 4 else [])
    wires = [lab[i] for i in dwp]
    pre = [["Identity", [p], []] for p in dwp] if touch else []
    letters = pre + list(word)
    B, consistent = X.circuit_batch(letters)
    if not consistent:
        return skip("inconsistent broadcast sizes")
    nat = list(range(n))
    with warnings.catch_warnings():
        warnings.simplefilter("ignore")
        ref = _leaves(_run("dq", letters, meas, lab, wires), len(meas))
        for kind in kinds:
            f = _fails(kind, letters, meas, lab, wires)
            if f is None:
                continue
            exp = f[3] if f[0] != "raised" else "same results as default.qubit"
            extra = {"gates": [X.letter_code(l) for l in word], "batch": B}
            fam = family_of(lab, dwp, touch)
            if fam != "main":
                # does the same circuit already fail in the canonical main configuration (natural labels and order)?
                f0 = _fails(kind, [["Identity", [p], []] for p in nat] + list(word), meas, LABS[0], nat)
                if f0 is not None:
                    sig, m = _main_signature(kind, word, meas, LABS[0], nat, f0)
                    return bad(sig, f[2], exp, measurement=m, seen_in_family=fam, **extra)
                m = f[1]
                if f[0] == "raised":
                    m = next((mm for mm in meas if (_fails(kind, letters, [mm], lab, wires) or [None])[0] == "raised"), None)
                mname = m[0] if m is not None else "+".join(x[0] for x in meas)
                return bad(f"{fam}:{kind}:{f[0]}:meas={mname}", f[2], exp, measurement=m, **extra)
            sig, m = _main_signature(kind, word, meas, lab, dwp, f)
            return bad(sig, f[2], exp, measurement=m, **extra)
    return ok(outcome=[kinds, X.fingerprint(ref), B], nontrivial=bool(word))


def run(ctx):
    quick = ctx.quick
    L = 2 if quick else 3
    specs = []
    count = {}

    def add(w, lab, dw, ml, pool, touch=True):
        devs = [k for k in pool if _supported(k, ml) and all((l in COMMON or l in CLIFFORD or l in EXTRA[k]) for l in w)]
        if ctx.only:
            devs = [k for k in devs if k == ctx.only]
        for k in devs:  # one spec per device: a failure on one device must not hide another device's
            specs.append({"devs": [k], "word": w, "lab": lab, "dw": dw, "meas": ml, "touch": touch})
            count[k] = count.get(k, 0) + 1

    allm = SUPPORT["mixed"][0]
    singles = [[m] for m in allm]
    pair_pool = [E_P[2], V_P[0], PR[1], ST[0], EN[3], E_H[0]]
    pairs = [[a, b] for a in pair_pool for b in pair_pool]
    extras = []
    for k in ("mixed", "ref", "mps", "null"):
        for l in EXTRA[k]:
            if l not in extras:
                extras.append(l)
    for alpha, pool in ((COMMON, ["mixed", "ref", "mps", "tn", "null"]), (CLIFFORD, ["cliff", "mixed", "null"])):
        ws = list(words(alpha, L))
        if alpha is COMMON:
            ws += [w for w in words(COMMON + extras, 2) if any(l in extras for l in w)]
        for w in ws:
            if len(w) <= 1:  # includes the `perm` family: (LABS[1], DEVW[0]) and (LABS[0], DEVW[1])
                combos = [(lab, dw) for lab in LABS for dw in DEVW]
            elif len(w) == 2:
                combos = [(LABS[3], DEVW[1])] + ([] if quick else [(LABS[3], DEVW[0]), (LABS[0], DEVW[0]), (LABS[2], DEVW[1])])
            else:
                combos = [(LABS[3], DEVW[1])]
            wpool = pool if len(w) < 3 or alpha is COMMON else ["cliff"]
            if quick and len(w) == 2:  # quick: null.qubit (shapes) and the Clifford words on default.mixed only up to length 1
                wpool = [k for k in wpool if k != "null" and (alpha is COMMON or k == "cliff")]
            for lab, dw in combos:
                for ml in singles:
                    add(w, lab, dw, ml, wpool)
            if len(w) <= 1 or (len(w) == 2 and not quick):
                for ml in pairs:
                    add(w, LABS[3], DEVW[1], ml, pool)
            if len(w) <= 1:  # idle family: no Identity layer, some device / measured wires carry no operation
                for ml in singles:
                    add(w, LABS[0], DEVW[0], ml, pool, touch=False)
                    add(w, LABS[3], DEVW[1], ml, pool, touch=False)
    seen, uniq = set(), []
    for sp in specs:  # the device-specific extra words overlap between devices: keep every case once
        k = json.dumps(sp, sort_keys=True)
        if k not in seen:
            seen.add(k)
            uniq.append(sp)
    specs = uniq
    ctx.enumerate(specs, axis="word-x-labels-x-device-wires-x-measurements", chunk=16)
    ctx.coverage["alphabet"] = {"common": [X.letter_code(l) for l in COMMON], "clifford": [X.letter_code(l) for l in CLIFFORD],
                                "device_specific": {k: [X.letter_code(l) for l in v] for k, v in EXTRA.items()},
                                "measurement_letters": {k: len(v[0]) for k, v in SUPPORT.items()}, "labels": LABS,
                                "device_wire_orders": DEVW}
    ctx.coverage["bound"] = {"word_len": L, "meas_list_len": 2, "wires": 3}
    ctx.coverage["comparisons_per_device"] = count
