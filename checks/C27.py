"""C27 — Simulator devices agree with each other (DESIGN §5.5).

E2: every word of length <= 3 (quick 2) over a common 12-letter alphabet on 3 wires (a Clifford alphabet for
default.clifford) x wire labellings x device wire orders x measurement lists of length <= 2 that the device documents,
executed on default.mixed, reference.qubit, default.tensor (mps with max_bond_dim >= 2^(n/2), tn), default.clifford and
null.qubit and compared with default.qubit on the same tape (1e-9; null.qubit: same nesting / shape / dtype kind).
"""
import warnings

import numpy as np

from mc.engine import ok, bad, skip
from mc.explore import words
from mc import x_circ as X

PROPERTY = "C27"
LEVEL = "exploration"
TECHNIQUE = "bounded exhaustive circuit enumeration, differential comparison of each simulator device against default.qubit"
LEVEL_TEXT = ("Every word of length <=3 (quick 2) over a 12-letter gate alphabet (13 Clifford letters for default.clifford) on 3 wires x "
              "2-5 wire labellings x 2 device wire orders x all supported single measurements and all pairs over a 4-5 letter subset: "
              "default.mixed, reference.qubit, default.tensor (mps/tn), default.clifford agree with default.qubit at 1e-9 and null.qubit "
              "returns the same shapes.")
LEVEL_NOTE = ("default.qubit is the oracle (tied to an independent reference by C26). Not decided: default.tensor with insufficient bond "
              "dimension (approximation), finite shots, >3 wires, devices' gradient paths, noisy circuits on default.mixed/clifford (C28).")
DESIGN_REF = "5.5 C27"
START = "fork"
PARALLEL = True
RULE = ("all words <= bound x labels x device wires x supported measurement lists per device; non-trivial = circuit contains at least "
        "one gate and the default.qubit result is not that of |000>")

G1, G2 = X.G1, X.G2
ATOL = 1e-9

COMMON = [["Hadamard", [0], []], ["PauliX", [1], []], ["S", [2], []], ["T", [0], []], ["RX", [1], [G1]], ["RY", [2], [G2]],
          ["RZ", [0], [G1]], ["CNOT", [0, 1], []], ["CNOT", [2, 0], []], ["CZ", [1, 2], []], ["SWAP", [0, 2], []],
          ["RX", [1], [X.B3]]]
EXTRA = {  # device specific additions (only combined with COMMON letters in words of length <= 2)
    "mixed": [["Toffoli", [2, 0, 1], []], ["QubitUnitary", [2, 0], ["U2"]], ["IsingXY", [1, 2], [G1]], ["PhaseShift", [1], [X.B1]]],
    "ref": [["Toffoli", [2, 0, 1], []], ["Rot", [1], [G1, G2, X.G3]], ["IsingXY", [1, 2], [G1]]],
    "mps": [["Toffoli", [2, 0, 1], []], ["QubitUnitary", [2, 0], ["U2"]], ["PauliRot", [2, 0, 1], [G2], {"pauli_word": "XYZ"}],
            ["MultiRZ", [2, 0], [G1]], ["DoubleExcitation", [2, 0, 1, 3], [G1]]],
    "tn": [["Toffoli", [2, 0, 1], []], ["QubitUnitary", [2, 0], ["U2"]], ["PauliRot", [2, 0, 1], [G2], {"pauli_word": "XYZ"}],
           ["MultiRZ", [2, 0], [G1]], ["DoubleExcitation", [2, 0, 1, 3], [G1]]],
    "null": [["Toffoli", [2, 0, 1], []], ["QubitUnitary", [2, 0], ["U2b3"]]],
    "cliff": [],
}
CLIFFORD = [["Hadamard", [0], []], ["Hadamard", [1], []], ["S", [2], []], ["S", [0], []], ["PauliX", [1], []], ["PauliY", [2], []],
            ["CNOT", [0, 1], []], ["CNOT", [2, 0], []], ["CZ", [1, 2], []], ["SWAP", [0, 2], []], ["ISWAP", [1, 2], []],
            ["SX", [0], []], ["Adjoint(S)", [1], []], ["Adjoint(SX)", [2], []], ["Adjoint(ISWAP)", [2, 0], []], ["CY", [2, 1], []]]

OVL = ["sum", ["sprod", 0.5, ["X", [0]]], ["sprod", 2.0, ["prod", ["Z", [0]], ["Z", [1]]]], ["sprod", -1.5, ["I", [0]]]]
LC = ["lc", [0.5, 2.0, -1.5], [["X", [0]], ["prod", ["Z", [0]], ["Z", [1]]], ["Y", [2]]]]
E_P = [["expval", ["Z", [0]]], ["expval", ["X", [1]]], ["expval", ["prod", ["Y", [0]], ["Z", [1]]]], ["expval", OVL], ["expval", LC]]
E_H = [["expval", ["herm", "A2", [2, 0]]], ["expval", ["proj", "bits:10", [0, 2]]], ["expval", ["H", [1]]]]
V_P = [["var", ["X", [1]]], ["var", ["prod", ["Y", [0]], ["Z", [1]]]], ["var", OVL]]
V_H = [["var", ["herm", "A1", [1]]]]
PR = [["probs", [0]], ["probs", [2, 0]], ["probs", None], ["probs", [0, 1, 2]]]
ST = [["state"]]
DM = [["dm", [1]], ["dm", [2, 0]]]
EN = [["purity", [0]], ["purity", [2, 1]], ["vn", [1], None], ["vn", [0, 2], 2], ["mi", [0], [2], None], ["mi", [1], [2, 0], 2]]

SUPPORT = {  # singles, pair-subset
    "mixed": (E_P + E_H + V_P + V_H + PR + ST + DM + EN, [E_P[2], V_P[0], PR[1], ST[0], EN[3]]),
    "ref": (E_P + E_H + V_P + V_H + PR + ST + DM + EN, [E_P[2], V_P[0], PR[1], ST[0], DM[1]]),
    "mps": (E_P + E_H + V_P + V_H + ST, [E_P[2], V_P[0], E_H[0], ST[0]]),
    "tn": (E_P + E_H + V_P + V_H + ST, [E_P[2], V_P[0], E_H[0], ST[0]]),
    "cliff": (E_P + V_P + PR + ST + DM + EN, [E_P[2], V_P[0], PR[1], ST[0], EN[3]]),
    "null": (E_P + E_H + V_P + V_H + PR + ST + DM + EN, [E_P[2], V_P[0], PR[1], ST[0], EN[3]]),
}
DEVICES = ["mixed", "ref", "mps", "tn", "cliff", "null"]
LABS = [[0, 1, 2, 3], [2, 1, 0, 3], ["a", "b", "c", "d"], [2, "q", 0, "r"], [5, 6, 7, 8]]
DEVW = [[0, 1, 2], [2, 0, 1]]


def build(letter, lab):
    import pennylane as qp

    if letter[0].startswith("Adjoint("):
        base = [letter[0][8:-1]] + list(letter[1:])
        return qp.adjoint(X.build_op(base, lab))
    return X.build_op(letter, lab)


def make_device(kind, wires):
    import pennylane as qp

    if kind == "dq":
        return qp.device("default.qubit", wires=wires)
    if kind == "mixed":
        return qp.device("default.mixed", wires=wires)
    if kind == "ref":
        return qp.device("reference.qubit", wires=wires)
    if kind == "mps":
        return qp.device("default.tensor", wires=wires, method="mps", max_bond_dim=4)
    if kind == "tn":
        return qp.device("default.tensor", wires=wires, method="tn")
    if kind == "cliff":
        return qp.device("default.clifford", wires=wires, tableau=False)
    if kind == "null":
        return qp.device("null.qubit", wires=wires)
    raise KeyError(kind)


def _leaves(res, nm):
    res = (res,) if nm == 1 else tuple(res)
    return [X.to_numpy(r) for r in res]


def _supported(kind, meas):
    singles, _ = SUPPORT[kind]
    return all(m in singles for m in meas)


def check(spec):
    import pennylane as qp

    kinds, letters, meas, lab, dw = spec["devs"], spec["word"], spec["meas"], spec["lab"], spec["dw"]
    used = {w for l in letters for w in l[1]}
    n = 4 if 3 in used else 3
    dwp = list(dw) + ([3] if n == 4 else [])
    wires = [lab[i] for i in dwp]
    B, consistent = X.circuit_batch(letters)
    if not consistent:
        return skip("inconsistent broadcast sizes")

    def tape():
        return qp.tape.QuantumScript([build(l, lab) for l in letters], [X.build_meas(m, lab) for m in meas])

    bt = "" if B is None else f":batch{B}"
    gates = "+".join(sorted({l[0] for l in letters}))
    with warnings.catch_warnings():
        warnings.simplefilter("ignore")
        ref = _leaves(qp.execute([tape()], make_device("dq", wires), diff_method=None)[0], len(meas))
        for kind in kinds:
            try:
                got = qp.execute([tape()], make_device(kind, wires), diff_method=None)[0]
            except (ImportError, MemoryError, OSError):
                raise
            except Exception as e:  # pylint: disable=broad-except
                return bad(f"raised:{kind}:{'+'.join(m[0] for m in meas)}{bt}:{type(e).__name__}", f"{type(e).__name__}: {str(e)[:300]}",
                           "same results as default.qubit", gates=gates)
            if len(meas) > 1 and (not isinstance(got, (tuple, list)) or len(got) != len(meas)):
                return bad(f"nesting:{kind}", type(got).__name__, f"tuple of {len(meas)}")
            got = _leaves(got, len(meas))
            for m, g, e in zip(meas, got, ref):
                mk = m[0] + (":" + m[1][0] if m[0] in ("expval", "var") else "")
                if kind == "mixed" and m[0] == "state":
                    e = np.einsum("...i,...j->...ij", e, np.conj(e))
                if kind == "null":
                    if g.shape != e.shape:
                        return bad(f"null-shape:{mk}{bt}", g.shape, e.shape)
                    if (g.dtype.kind == "c") != (e.dtype.kind == "c"):
                        return bad(f"null-dtype:{mk}{bt}", str(g.dtype), str(e.dtype))
                    continue
                if g.shape != e.shape:
                    return bad(f"shape:{kind}:{mk}{bt}", g.shape, e.shape)
                d = float(np.max(np.abs(g - e))) if g.size else 0.0
                if not d <= ATOL:
                    return bad(f"disagree:{kind}:{mk}{bt}:{gates}", {"got": g, "maxdiff": d}, e)
    return ok(outcome=[kinds, X.fingerprint(ref), B], nontrivial=bool(letters))


def run(ctx):
    quick = ctx.quick
    L = 2 if quick else 3
    specs = []
    count = {}

    def add(w, lab, dw, ml, pool):
        devs = [k for k in pool if _supported(k, ml) and all((l in COMMON or l in CLIFFORD or l in EXTRA[k]) for l in w)]
        if ctx.only:
            devs = [k for k in devs if k == ctx.only]
        if devs:
            specs.append({"devs": devs, "word": w, "lab": lab, "dw": dw, "meas": ml})
            for k in devs:
                count[k] = count.get(k, 0) + 1

    allm = SUPPORT["mixed"][0]
    singles = [[m] for m in allm]
    pair_pool = [E_P[2], V_P[0], PR[1], ST[0], EN[3], E_H[0]]
    pairs = [[a, b] for a in pair_pool for b in pair_pool]
    extras = []
    for k in ("mixed", "ref", "mps", "null"):
        for l in EXTRA[k]:
            if l not in extras:
                extras.append(l)
    for alpha, pool in ((COMMON, ["mixed", "ref", "mps", "tn", "null"]), (CLIFFORD, ["cliff", "mixed", "null"])):
        ws = list(words(alpha, L))
        if alpha is COMMON:
            ws += [w for w in words(COMMON + extras, 2) if any(l in extras for l in w)]
        for w in ws:
            if len(w) <= 1:
                combos = [(lab, dw) for lab in LABS for dw in DEVW]
            elif len(w) == 2:
                combos = [(LABS[3], dw) for dw in DEVW] + ([] if quick else [(LABS[0], DEVW[0])])
            else:
                combos = [(LABS[3], DEVW[1])]
            for lab, dw in combos:
                for ml in singles:
                    add(w, lab, dw, ml, pool)
            for ml in pairs:
                add(w, LABS[3], DEVW[1], ml, pool)
    ctx.enumerate(specs, axis="word-x-labels-x-device-wires-x-measurements", chunk=16)
    ctx.coverage["alphabet"] = {"common": [X.letter_code(l) for l in COMMON], "clifford": [X.letter_code(l) for l in CLIFFORD],
                                "device_specific": {k: [X.letter_code(l) for l in v] for k, v in EXTRA.items()},
                                "measurement_letters": {k: len(v[0]) for k, v in SUPPORT.items()}, "labels": LABS,
                                "device_wire_orders": DEVW}
    ctx.coverage["bound"] = {"word_len": L, "meas_list_len": 2, "wires": 3}
    ctx.coverage["comparisons_per_device"] = count
