"""C67 — OpenQASM export preserves the circuit; from_qasm3 matches its source (DESIGN §5.11 C67).

E2.  Export: every gate of OPENQASM_GATES (read at run time) x angles x wire placements, all words of length <= 2
(thorough 3) over a 14-letter alphabet, options rotations / measure_all / precision / wires order / string labels, and
operators that must be decomposed first.  The emitted text is parsed by the independent `openqasm3` reference parser and
evaluated by mc/x_qasm.py (qelib1.inc written as U/CX sequences from the OpenQASM 2 spec); pyzx's QASM reader is a
second opinion on the subset it supports.  Import: OpenQASM 3 programs = all words (<= 2, thorough 3) over a statement
alphabet (gate calls, inv/pow/ctrl/negctrl modifiers, constants, static for / if) evaluated by the same evaluator with the
stdgates.inc table vs the tape from_qasm3 builds.
"""
import itertools
import math

from mc.engine import ok, bad, skip

PROPERTY = "C67"
LEVEL = "exploration"
TECHNIQUE = "bounded exhaustive enumeration of circuits/programs; independent openqasm3 parse + spec-derived gate-library evaluator"
LEVEL_TEXT = ("to_openqasm: every exportable gate x 2 angle sets x wire placements, all words <=2 (thorough 3) over 14 letters x "
              "{rotations, measure_all, precision in {None,3,8}, wires orders, string labels}, 20 operators needing decomposition; "
              "from_qasm3: all programs of <=2 (thorough 3) statements over a 30-statement alphabet incl. modifiers, constants, for, if. "
              "Unitaries compared up to global phase with a qelib1/stdgates evaluator on the openqasm3 AST; pyzx as second reader.")
LEVEL_NOTE = ("Trusted: the openqasm3 reference parser; qelib1.inc/stdgates.inc tables transcribed in mc/x_qasm.py (self-tested against "
              "mc.refgates). `precision=p` is read as p significant digits (what the code's format spec means; the docstring says decimal "
              "digits). Mid-circuit measurements / classical control of the exporter, subroutines, while, switch, inputs/outputs of "
              "from_qasm3 are not explored. ctrl @ u2/u3 excluded (stdgates gives them a global phase that PennyLane's U2/U3 lack).")
DESIGN_REF = "5.11 C67"
START = "fork"
PARALLEL = True
RULE = "one case = (circuit word, export options) or (OpenQASM 3 program); non-trivial = at least one gate emitted / interpreted"
ASSUMPTIONS = ["openqasm3.parse builds a faithful AST", "qelib1.inc / stdgates.inc as transcribed in mc/x_qasm.py"]

A1 = [0.3731, 1.2345, -2.4680]
A2 = [3.0123, -0.5432, 0.8765]


# ---------------------------------------------------------------------------------------------- helpers
def exportable():
    from pennylane.io.to_openqasm import OPENQASM_GATES

    return dict(OPENQASM_GATES)


def gate_info(name):
    """(n_wires, n_params) of a PennyLane gate name (incl. Adjoint(..)) from the reference table."""
    from mc import refgates as RG

    base = name[8:-1] if name.startswith("Adjoint(") else name
    if base == "GlobalPhase":
        return 0, 1
    return RG.TABLE[base][0], RG.TABLE[base][1]


def ref_matrix(name, params):
    from mc import refgates as RG

    if name.startswith("Adjoint("):
        return RG.matrix(name[8:-1], params).conj().T
    return RG.matrix(name, params)


def build(qp, o, lab=None):
    name, wires, params = o
    w = [lab[x] for x in wires] if lab else wires
    if name.startswith("Adjoint("):
        return qp.adjoint(getattr(qp, name[8:-1])(*params, wires=w))
    if name == "GlobalPhase":
        return qp.GlobalPhase(*params)
    return getattr(qp, name)(*params, wires=w)


def ref_unitary(ops, order):
    import numpy as np
    from mc import refsim as RS

    n = len(order)
    idx = {w: i for i, w in enumerate(order)}
    st = np.eye(2 ** n, dtype=complex).reshape((2,) * n + (2 ** n,))
    for name, wires, params in ops:
        if name == "GlobalPhase":
            continue
        st = RS.apply_matrix(st, ref_matrix(name, params), [idx[w] for w in wires], n)
    return st.reshape(2 ** n, 2 ** n)


def pyzx_matrix(text, n):
    """Second opinion: pyzx's own QASM reader (returns None when it does not support something in the text)."""
    import numpy as np

    try:
        import pyzx
    except ImportError:
        return None
    lines = [l for l in text.splitlines() if not l.startswith(("creg", "measure"))]
    try:
        c = pyzx.Circuit.from_qasm("\n".join(lines))
        M = np.asarray(c.to_matrix(), dtype=complex)
    except Exception:  # noqa: BLE001  unsupported gate / syntax for pyzx
        return None
    return M if M.shape == (2 ** n, 2 ** n) else None


MEAS = {
    "none": lambda qp, L: [],
    "sample": lambda qp, L: [qp.sample()],
    "eZ1": lambda qp, L: [qp.expval(qp.Z(L[1]))],
    "eX0Y1": lambda qp, L: [qp.expval(qp.X(L[0]) @ qp.Y(L[1]))],
    "eY2,eX0": lambda qp, L: [qp.expval(qp.Y(L[2])), qp.var(qp.X(L[0]))],
    "eH1": lambda qp, L: [qp.expval(qp.Hadamard(L[1]))],
    "p20": lambda qp, L: [qp.probs(wires=[L[2], L[0]])],
    "s1": lambda qp, L: [qp.sample(wires=[L[1]])],
    "herm": lambda qp, L: [qp.expval(qp.Hermitian(__import__("numpy").array([[1.0, 0.5 - 0.5j], [0.5 + 0.5j, -1.0]]), wires=[L[2]]))],
}
# observable matrices (own wires order) for the rotations oracle
MEAS_OBS = {"eZ1": [("Z", [1])], "eX0Y1": [("XY", [0, 1])], "eY2,eX0": [("Y", [2]), ("X", [0])], "eH1": [("H", [1])], "herm": [("herm", [2])]}
MEAS_WIRES = {"none": [], "sample": "all", "eZ1": [1], "eX0Y1": [0, 1], "eY2,eX0": [2, 0], "eH1": [1], "p20": [2, 0], "s1": [1], "herm": [2]}


def obs_matrix(tag):
    import numpy as np
    from mc import refgates as RG

    if tag == "H":
        return RG.H
    if tag == "herm":
        return np.array([[1.0, 0.5 - 0.5j], [0.5 + 0.5j, -1.0]])
    return RG.pauli_word_matrix(tag)


def check_export(spec):
    import numpy as np
    import pennylane as qp
    from mc import refsim as RS
    from mc import x_qasm as XQ

    ops = spec["ops"]
    lab = spec.get("labels") or [0, 1, 2]
    rot, mall, prec = spec.get("rotations", True), spec.get("measure_all", True), spec.get("precision")
    mname = spec.get("meas", "none")
    plops = [build(qp, o, lab) for o in ops]
    mps = MEAS[mname](qp, lab)
    tape = qp.tape.QuantumScript(plops, mps)
    worder = spec.get("wires")          # positions into lab, or None
    wires_arg = None if worder is None else [lab[i] for i in worder]
    try:
        text = qp.to_openqasm(tape, wires=wires_arg, rotations=rot, measure_all=mall, precision=prec)
    except ValueError as e:
        if spec.get("expect") == "unsupported":
            return ok(outcome="ValueError", nontrivial=True)
        raise
    # ---- exporting is a pure function of the circuit: the caller's tape is untouched and a second export gives the same program
    if len(tape.operations) != len(plops) or any(a is not b for a, b in zip(tape.operations, plops)) or len(tape.measurements) != len(mps):
        return bad("export:input-tape-mutated", [o.name for o in tape.operations], [o.name for o in plops])
    for kw2 in ({"rotations": rot, "measure_all": mall, "precision": prec}, {"rotations": not rot, "measure_all": not mall, "precision": 5},
                {"rotations": rot, "measure_all": mall, "precision": prec}):
        try:
            text2 = qp.to_openqasm(tape, wires=wires_arg, **kw2)
        except ValueError:
            text2 = None
    if text2 != text:
        return bad("export:repeated-export-differs", text2, text)
    if len(tape.operations) != len(plops):
        return bad("export:input-tape-mutated", [o.name for o in tape.operations], [o.name for o in plops])
    # ---- the wire order the program is supposed to use: `wires` if given, else the tape's wires
    seen = []
    for o in ops:
        for w in o[1]:
            if w not in seen:
                seen.append(w)
    mw = MEAS_WIRES[mname]
    for w in ([] if mw == "all" else mw):
        if w not in seen:
            seen.append(w)
    order = list(worder) if worder is not None else seen          # logical wire ids (0,1,2)
    n = len(order)
    if not seen:
        if "qreg" in text or "measure" in text:
            return bad("export:empty-circuit-has-registers", text, "header only")
        return ok(outcome="empty", nontrivial=False)
    try:
        ev = XQ.evaluate(text, "qelib1")
    except XQ.Unsupported as e:
        return bad("export:not-openqasm2:" + str(e).split(" ")[0] + ":" + str(e).split(" ")[1], text, "a program over qelib1.inc")
    if str(ev.version) not in ("2.0", "2"):
        return bad("export:version", str(ev.version), "2.0")
    if ev.qubits != [f"q[{i}]" for i in range(n)]:
        return bad("export:qreg", ev.qubits, [f"q[{i}]" for i in range(n)])
    if ev.seen_gate_after_measure:
        return bad("export:gate-after-measure", text, "measurements last")
    U = ev.unitary()
    Uc = ref_unitary(ops, order)
    n_par = sum(len(o[2]) for o in ops)
    tol = 1e-9 if prec is None else max(1e-9, 2.0 * n_par * 10.0 ** (-(prec - 1)))
    obs = MEAS_OBS.get(mname, []) if rot else []
    if not obs:
        if not RS.close_up_to_phase(Uc, U, tol):
            return bad("export:unitary", RS.maxdiff(Uc, RS.phase_align(Uc, U)), f"<= {tol}", text=text)
    else:
        # rotations=True: the program must be the circuit followed by a rotation D that makes every observable diagonal
        D = U @ Uc.conj().T
        for tag, ws in obs:
            O = RS.embed(obs_matrix(tag), ws, order)
            R = D @ O @ D.conj().T
            off = R - np.diag(np.diag(R))
            if np.max(np.abs(off)) > max(tol, 1e-9) * 10:
                return bad("export:rotations:not-diagonal", float(np.max(np.abs(off))), 0.0, obs=tag, text=text)
            if not RS.close(np.sort(np.real(np.diag(R))), np.sort(np.linalg.eigvalsh(O)), max(tol, 1e-9) * 10):
                return bad("export:rotations:spectrum", np.sort(np.real(np.diag(R))).tolist(), np.sort(np.linalg.eigvalsh(O)).tolist(), obs=tag)
        # and D must not disturb wires that carry no observable: D acts as identity there (checked through locality)
        touched = sorted({w for _, ws in obs for w in ws})
        rest = [w for w in order if w not in touched]
        if rest:
            for w in rest:
                Zw = RS.embed(obs_matrix("Z"), [w], order)
                Xw = RS.embed(obs_matrix("X"), [w], order)
                if not (RS.close(D @ Zw @ D.conj().T, Zw, 1e-8) and RS.close(D @ Xw @ D.conj().T, Xw, 1e-8)):
                    return bad("export:rotations:touches-unmeasured-wire", w, "identity")
    # ---- measured register
    got_meas = [(q, c) for q, c in ev.measures]
    if mall:
        want_meas = [(f"q[{i}]", ("c", i)) for i in range(n)]
        mwires = list(order)
    else:
        mwires = [] if mw == "all" else list(mw)      # qp.sample() without wires names no wires: nothing is measured
        want_meas = [(f"q[{order.index(w)}]", ("c", i)) for i, w in enumerate(mwires)]
    if got_meas != want_meas:
        sig = "export:measured-register"
        if not mall and worder is not None and got_meas == [(f"q[{seen.index(w)}]", c) for (q, c), w in zip(want_meas, mwires)]:
            sig = "export:measured-register:indexed-by-tape-wires-not-wires-arg"
        return bad(sig, got_meas, want_meas, text=text)
    want_creg = len(want_meas)
    if want_creg and ev.cregs.get("c") != want_creg:
        return bad("export:creg-size", ev.cregs, {"c": want_creg})
    # ---- second opinion
    second = "n/a"
    if not obs and prec is None and spec.get("pyzx", True):
        M = pyzx_matrix(text, n)
        if M is not None:
            second = "agree"
            if not RS.close_up_to_phase(Uc, M, 1e-7):
                return bad("export:unitary:pyzx-disagrees", RS.maxdiff(Uc, RS.phase_align(Uc, M)), 0.0, text=text)
    return ok(outcome=[len(ev.ops), len(got_meas), second, sorted({l.split("(")[0].split(" ")[0] for l in text.splitlines()[3:]})], nontrivial=len(ev.ops) > 0)


DECOMP = {
    "Rot": lambda qp, np: qp.Rot(0.3, 1.1, -0.7, wires=1), "IsingXX": lambda qp, np: qp.IsingXX(0.37, wires=[0, 2]), "CH": lambda qp, np: qp.CH([2, 0]),
    "CY": lambda qp, np: qp.CY([1, 2]), "SX": lambda qp, np: qp.SX(0), "ISWAP": lambda qp, np: qp.ISWAP([0, 1]), "QFT": lambda qp, np: qp.QFT(wires=[0, 1, 2]),
    "MultiControlledX": lambda qp, np: qp.MultiControlledX(wires=[0, 1, 2], control_values=[1, 0]), "ctrl(RY)": lambda qp, np: qp.ctrl(qp.RY(0.9, 1), 0),
    "adjoint(RX)": lambda qp, np: qp.adjoint(qp.RX(0.4, 2)), "adjoint(CRZ)": lambda qp, np: qp.adjoint(qp.CRZ(0.8, [1, 0])), "pow(T,3)": lambda qp, np: qp.pow(qp.T(1), 3),
    "PauliRot": lambda qp, np: qp.PauliRot(0.6, "XZY", wires=[0, 1, 2]), "CPhase": lambda qp, np: qp.ControlledPhaseShift(0.77, wires=[2, 1]),
    "CRot": lambda qp, np: qp.CRot(0.2, 0.5, -0.4, wires=[0, 1]), "BasisState": lambda qp, np: qp.BasisState(np.array([1, 0, 1]), wires=[0, 1, 2]),
    "StatePrep": lambda qp, np: qp.StatePrep(np.array([0.6, 0.0, 0.0, 0.8j]), wires=[0, 2]), "MultiRZ": lambda qp, np: qp.MultiRZ(0.45, wires=[2, 0, 1]),
    "SingleExcitation": lambda qp, np: qp.SingleExcitation(0.55, wires=[1, 2]), "adjoint(S)": lambda qp, np: qp.adjoint(qp.S(0)),
    "QubitUnitary": lambda qp, np: qp.QubitUnitary(np.array([[0, 1j], [1j, 0]]), wires=1), "CCZ": lambda qp, np: qp.CCZ([0, 2, 1]),
    "Barrier": lambda qp, np: qp.Barrier(wires=[0, 1]),
}


def check_decomp(spec):
    """Operators outside the gate table must be decomposed into it (or rejected with the documented ValueError)."""
    import numpy as np
    import pennylane as qp
    from mc import refsim as RS
    from mc import x_qasm as XQ

    op = DECOMP[spec["op"]](qp, np)
    pre = [build(qp, o) for o in spec["pre"]]
    plops = ([op] + pre) if spec["op"] in ("BasisState", "StatePrep") else (pre + [op])
    tape = qp.tape.QuantumScript(plops, [qp.expval(qp.Z(0) @ qp.Z(1) @ qp.Z(2))])
    try:
        text = qp.to_openqasm(tape, wires=[0, 1, 2], rotations=False)
    except ValueError as e:
        return skip(f"{spec['op']} rejected: ValueError")
    try:
        ev = XQ.evaluate(text, "qelib1")
    except XQ.Unsupported as e:
        return bad("export:not-openqasm2:" + ":".join(str(e).split(" ")[:2]), text, "a program over qelib1.inc")
    U = ev.unitary()
    if spec["op"] in ("BasisState", "StatePrep"):
        want = RS.run_state(plops, [0, 1, 2]).reshape(-1)   # declared dependence: op.state_vector / qp.matrix
        got = U[:, 0]
        if not RS.close_up_to_phase(want, got, 1e-8):
            return bad(f"export:decomposed:{spec['op']}:state", RS.maxdiff(want, RS.phase_align(want, got)), 0.0, text=text)
    else:
        want = RS.unitary(plops, [0, 1, 2])                  # declared dependence: qp.matrix(op) for non-table operators (C01/C03)
        if not RS.close_up_to_phase(want, U, 1e-8):
            return bad(f"export:decomposed:{spec['op']}:unitary", RS.maxdiff(want, RS.phase_align(want, U)), 0.0, text=text)
    return ok(outcome=[spec["op"], len(ev.ops)], nontrivial=True)


# ---------------------------------------------------------------------------------------------- from_qasm3
HEADER = 'OPENQASM 3.0;\nqubit[3] q;\nconst float a = pi / 4;\nfloat b = 2 * a - 0.3;\nint k = 2;\n'
STATEMENTS = [
    "h q[0];", "x q[1];", "y q[2];", "z q[0];", "s q[1];", "sdg q[2];", "t q[0];", "tdg q[1];", "sx q[2];", "id q[1];",
    "rx(a) q[0];", "ry(b) q[1];", "rz(a + b) q[2];", "p(0.7) q[1];", "phase(-b) q[0];", "u1(a) q[2];", "u2(a, b) q[0];", "u3(a, b, 0.4) q[1];",
    "cx q[0], q[1];", "cx q[2], q[0];", "cy q[1], q[2];", "cz q[2], q[1];", "ch q[0], q[2];", "swap q[0], q[2];", "ccx q[0], q[1], q[2];", "ccx q[2], q[0], q[1];",
    "cswap q[1], q[0], q[2];", "cp(a) q[0], q[1];", "cphase(b) q[2], q[0];", "crx(a) q[1], q[0];", "cry(b) q[0], q[2];", "crz(0.9) q[2], q[1];",
    "cu(a, b, 0.4, 0.25) q[0], q[1];", "cu(0.3, -a, b, -0.6) q[2], q[0];",
    "inv @ s q[0];", "inv @ rx(a) q[1];", "inv @ cry(b) q[2], q[0];", "pow(2) @ t q[1];", "pow(3) @ rx(a) q[2];", "pow(-1) @ s q[0];", "pow(k) @ sx q[1];",
    "ctrl @ x q[0], q[2];", "ctrl @ rz(a) q[1], q[0];", "ctrl @ s q[2], q[1];", "negctrl @ x q[1], q[0];", "negctrl @ ry(b) q[0], q[2];",
    "ctrl @ ctrl @ z q[0], q[1], q[2];", "ctrl @ negctrl @ x q[2], q[0], q[1];", "ctrl @ inv @ t q[0], q[1];", "inv @ ctrl @ rx(a) q[1], q[2];",
    "ctrl @ pow(2) @ s q[2], q[0];", "pow(2) @ ctrl @ t q[0], q[2];", "ctrl @ swap q[1], q[0], q[2];", "ctrl(2) @ x q[0], q[1], q[2];",
    "gphase(a);", "ctrl @ gphase(b) q[1];",
    "for int i in {0, 2} { h q[i]; }", "for int i in {2, 0, 1} { rx(a * (i + 1)) q[i]; }", "for int i in {0, 1} { cx q[i], q[i + 1]; }",
    "if (k == 2) { x q[0]; } else { y q[0]; }", "if (k > 2) { x q[1]; } else { ry(b) q[1]; }", "if (a < 1.0) { cz q[0], q[2]; }",
    "k = k + 1; pow(k) @ t q[2];", "b = b * 2; rz(b) q[0];",
]
RANGE_STATEMENTS = ["for int i in [0:2] { h q[i]; }", "for int i in [0:1] { rx(a) q[i]; }", "for int i in [0:2:2] { x q[i]; }", "for int i in [1:2] { t q[i]; }"]
QUICK_SUBSET = [0, 4, 8, 10, 11, 13, 16, 17, 18, 19, 21, 23, 25, 26, 27, 30, 32, 34, 36, 38, 41, 42, 45, 46, 47, 48, 49, 51, 55, 57, 59, 60, 62]


def check_import(spec):
    import numpy as np
    import pennylane as qp
    from mc import refsim as RS
    from mc import x_qasm as XQ

    text = HEADER + "\n".join(spec["stmts"]) + "\n"
    ev = XQ.evaluate(text, "stdgates")
    want = ev.unitary()
    wires = ["q[0]", "q[1]", "q[2]"]
    try:
        tape = qp.tape.make_qscript(qp.from_qasm3(text))()
    except NotImplementedError as e:
        return skip("from_qasm3 NotImplementedError: " + str(e)[:40])
    except ValueError as e:
        if any("ctrl(" in s for s in spec["stmts"]) and "Incorrect number of wires" in str(e):
            return skip("ctrl(n) modifier rejected (ValueError: Incorrect number of wires)")
        raise
    ops = [o for o in tape.operations]
    for o in ops:
        if not set(o.wires) <= set(wires):
            return bad("import:unknown-wire", [repr(w) for w in o.wires], wires)
    got = RS.unitary(ops, wires)  # declared dependence: qp.matrix for Controlled / Adjoint / Pow wrappers (C03)
    if not RS.close_up_to_phase(want, got, 1e-9):
        # name the two known deviations exactly (models, never the oracle): exclusive range end; gphase sign
        sig = "import:unitary"
        for kw, name in (({"range_end_exclusive": True}, "import:for-range:end-exclusive"), ({"gphase_sign": -1}, "import:ctrl-gphase:sign"),
                         ({"range_end_exclusive": True, "gphase_sign": -1}, "import:for-range:end-exclusive")):
            alt = XQ.evaluate(text, "stdgates", **kw).unitary()
            if RS.close_up_to_phase(alt, got, 1e-9):
                sig = name
                break
        return bad(sig, RS.maxdiff(want, RS.phase_align(want, got)), 0.0, program=spec["stmts"], ops=[repr(o) for o in ops][:12])
    return ok(outcome=[len(ops), len(ev.ops), round(float(abs(np.trace(want))), 6)], nontrivial=len(ops) > 0)


def check_import_misc(spec):
    """wire_map, single-qubit declarations, unsupported gate rejection."""
    import numpy as np
    import pennylane as qp
    from mc import refsim as RS
    from mc import x_qasm as XQ

    what = spec["what"]
    if what == "wire_map":
        text = 'OPENQASM 3.0;\nqubit q0;\nqubit q1;\nqubit q2;\n' + "\n".join(spec["stmts"]) + "\n"
        ev = XQ.evaluate(text, "stdgates")
        wm = spec["map"]
        tape = qp.tape.make_qscript(qp.from_qasm3(text, wire_map=dict(wm) if wm else None))()
        order = [dict(wm)[q] for q in ("q0", "q1", "q2")] if wm else ["q0", "q1", "q2"]
        got = RS.unitary(list(tape.operations), order)
        want = ev.unitary()
        if not RS.close_up_to_phase(want, got, 1e-9):
            return bad("import:wire_map", RS.maxdiff(want, RS.phase_align(want, got)), 0.0, program=spec["stmts"])
        return ok(outcome=["wire_map", bool(wm), len(tape.operations)], nontrivial=True)
    if what == "unsupported":
        text = HEADER + spec["stmt"] + "\n"
        try:
            qp.tape.make_qscript(qp.from_qasm3(text))()
        except (NotImplementedError, TypeError, SyntaxError, NameError, IndexError) as e:
            return ok(outcome=["rejected", type(e).__name__], nontrivial=True)
        return bad("import:unsupported-accepted", spec["stmt"], "an exception")
    raise AssertionError(what)


def check_selftest(spec):
    from mc import x_qasm as XQ

    f = XQ.selftest()
    if f:
        raise ImportError(f"x_qasm self-test failed: {f}")  # harness error, not a verdict
    return ok(outcome="selftest", nontrivial=False)


# ---------------------------------------------------------------------------------------------- driver
def run(ctx):
    only = ctx.only

    def want(f):
        return only is None or only == f

    ctx.enumerate([{"k": "selftest"}], fn="check_selftest", axis="selftest")
    table = exportable()
    names = [n for n in table]
    ctx.coverage["alphabet"] = {"export_gates": names, "statements": len(STATEMENTS), "decomposed_ops": sorted(DECOMP)}
    ctx.coverage["bound"] = {"export_word_len": 2 if ctx.quick else 3, "import_program_len": 2 if ctx.quick else 3, "wires": 3}
    singles = []
    for n in names:
        nw, npar = gate_info(n)
        for ang in (A1, A2):
            places = [[]] if nw == 0 else list(itertools.permutations(range(3), nw))
            for ws in places:
                singles.append([n, list(ws), ang[:npar]])
            if npar == 0:
                break
    if want("gates"):
        specs = []
        for g in singles:
            for prec in (None, 3, 8):
                if prec is not None and not g[2]:
                    continue
                specs.append({"k": "exp", "ops": [["Hadamard", [0], []], ["CNOT", [0, 1], []], ["Hadamard", [2], []], g], "precision": prec, "wires": [0, 1, 2]})
            specs.append({"k": "exp", "ops": [g], "meas": "sample"})
        ctx.enumerate(specs, fn="check_export", axis="export:gates")
    letters = [["RX", [0], [A1[0]]], ["RY", [1], [A1[1]]], ["RZ", [2], [A1[2]]], ["U3", [1], A2], ["U2", [0], A1[:2]], ["PhaseShift", [2], [A2[0]]],
               ["CNOT", [0, 1], []], ["CNOT", [2, 0], []], ["CRY", [1, 2], [A2[1]]], ["CZ", [2, 1], []], ["Toffoli", [2, 0, 1], []], ["CSWAP", [1, 2, 0], []],
               ["Adjoint(T)", [0], []], ["Hadamard", [1], []]]
    L = 2 if ctx.quick else 3
    words = [list(w) for n in range(1, L + 1) for w in itertools.product(letters, repeat=n)]
    if want("words"):
        ctx.enumerate([{"k": "exp", "ops": w} for w in words], fn="check_export", axis="export:words")
    if want("options"):
        specs = []
        short = [list(w) for n in range(1, 3) for w in itertools.product(letters[:3] + letters[6:9] + letters[10:11], repeat=n)]
        short = short if not ctx.quick else short[::2]
        for w in short:
            for m in MEAS:
                for rot in (True, False):
                    for mall in (True, False):
                        specs.append({"k": "exp", "ops": w, "meas": m, "rotations": rot, "measure_all": mall})
            for wires in ([2, 1, 0], [1, 0, 2], [0, 1, 2]):
                for m in ("p20", "s1", "eZ1", "sample"):
                    for mall in (True, False):
                        specs.append({"k": "exp", "ops": w, "meas": m, "rotations": False, "measure_all": mall, "wires": wires})
            for lab in (["b", "a", "c"], [7, "x", 3]):
                specs.append({"k": "exp", "ops": w, "meas": "eX0Y1", "labels": lab, "measure_all": False})
                specs.append({"k": "exp", "ops": w, "meas": "p20", "labels": lab, "wires": [2, 0, 1], "measure_all": True})
            for prec in (3, 5, 8):
                specs.append({"k": "exp", "ops": w, "precision": prec})
        specs.append({"k": "exp", "ops": [], "meas": "none"})
        ctx.enumerate(specs, fn="check_export", axis="export:options")
    if want("decomp"):
        pres = [[], [["Hadamard", [0], []], ["CNOT", [0, 1], []]], [["RX", [2], [A1[0]]], ["CRZ", [2, 0], [A1[1]]]]]
        ctx.enumerate([{"k": "dec", "op": o, "pre": p} for o in DECOMP for p in pres], fn="check_decomp", axis="export:decomposed")
    if want("import"):
        S = STATEMENTS if not ctx.quick else [STATEMENTS[i] for i in QUICK_SUBSET]
        progs = [[s] for s in STATEMENTS] + [[s1, s2] for s1 in S for s2 in S]
        if not ctx.quick:
            S3 = [STATEMENTS[i] for i in QUICK_SUBSET[::2]]
            progs += [[a_, b_, c_] for a_ in S3 for b_ in S3 for c_ in S3]
        ctx.enumerate([{"k": "imp", "stmts": p} for p in progs], fn="check_import", axis="import:programs")
        ctx.enumerate([{"k": "imp", "stmts": [s]} for s in RANGE_STATEMENTS] + [{"k": "imp", "stmts": [s, t]} for s in RANGE_STATEMENTS for t in STATEMENTS[:3]],
                      fn="check_import", axis="import:ranges")
    if want("import-misc"):
        stm = [["h q0;", "cx q0, q2;"], ["rx(0.3) q1;", "ctrl @ s q2, q0;"], ["cswap q2, q0, q1;"]]
        maps = [None, [["q0", 0], ["q1", 1], ["q2", 2]], [["q0", "c"], ["q1", 5], ["q2", "a"]], [["q0", 2], ["q1", 0], ["q2", 1]]]
        ctx.enumerate([{"k": "impm", "what": "wire_map", "stmts": s, "map": m} for s in stm for m in maps], fn="check_import_misc", axis="import:wire_map")
        ctx.enumerate([{"k": "impm", "what": "unsupported", "stmt": s} for s in ("foo q[0];", "rx q[0];", "h q[5];", "U(0.1, 0.2, 0.3) q[0];", "rxx(0.2) q[0], q[1];")],
                      fn="check_import_misc", axis="import:unsupported")
