"""C20 — Measurement splitting and diagonalisation transforms preserve results (DESIGN §5.4).

E2: every measurement list up to the length bound over the measurement alphabet, x fixed circuits x transform
variants.  The produced batch is executed on default.qubit, the returned post-processing is applied and every entry
is compared (value, shape, order) with a numpy reference that evaluates the ORIGINAL circuit/measurements from plain
data (mc/x_meas.py: refgates matrices, Pauli-term lists, explicit Hermitian matrices).
"""
import itertools

from mc.engine import ok, bad, skip

PROPERTY = "C20"
LEVEL = "exploration"
TECHNIQUE = "exhaustive measurement lists x transform variants vs. state-vector reference on the untransformed circuit"
LEVEL_TEXT = ("All measurement lists of length <=2 (thorough <=3 on a reduced alphabet) over 34 expval/var/probs letters "
              "(Pauli words, identity, sums with constant and repeated/zero terms, SProd/Prod, 1- and 2-wire Hermitian, "
              "projector, overlapping wires) on 3 fixed 3-wire circuits are pushed through split_non_commuting (4 grouping "
              "strategies), split_to_single_terms, diagonalize_measurements (3 supported sets x to_eigvals), sign_expand "
              "(analytic), broadcast_expand / batch_params / batch_input (batch 1 and 3); results are compared with a "
              "numpy reference of the original circuit.")
LEVEL_NOTE = ("Reference trusts refgates (C02). sample/counts are only exercised on a circuit whose outcomes are deterministic "
              "(eigenstate preparation), shot_dist only for its shot bookkeeping; weighted_random, custom shot_dist "
              "callables, the circuit=True mode of sign_expand, QNode-level application and autodiff interfaces are not explored.")
DESIGN_REF = "5.4 C20"
START = "fork"
PARALLEL = True
RULE = ("all lists over the measurement alphabet up to the length bound x circuits x transform variants; "
        "non-trivial = the transform changed the batch (more than one tape, or different measurements/operations)")
ASSUMPTIONS = ["refgates matrices (C02)", "default.qubit executes single Pauli-word / Hermitian measurements correctly (C26)"]

TOL = 1e-9

E_OBS = ["X0", "Z0", "Y1", "ZZ", "XY", "XX", "I0", "SUM", "SUMQ", "HAM", "HAMQ", "HAMI", "SP", "XPI", "PR2", "ALLI", "ISUM", "HER1", "HER2", "PRJ"]
V_OBS = ["X0", "Z0", "Y1", "ZZ", "XY", "I0", "SUM", "SP", "HER1", "HER2", "PRJ"]
P_CODES = ["p:0", "p:10", "p:all"]
ALPHABET = ["e:" + o for o in E_OBS] + ["v:" + o for o in V_OBS] + P_CODES
SPLITS = ["snc:default", "snc:wires", "snc:qwc", "snc:none", "sts"]
DIAGS = [("all", False), ("all", True), ("X", False), ("XYZH", False), ("X", True)]


# --------------------------------------------------------------------------------------------- helpers
def _apply(tname, tape, spec):
    import pennylane as qp

    if tname.startswith("snc:"):
        g = tname.split(":")[1]
        kw = {"grouping_strategy": None if g == "none" else g}
        if spec.get("shot_dist"):
            kw["shot_dist"] = spec["shot_dist"]
        return qp.transforms.split_non_commuting(tape, **kw)
    if tname == "sts":
        return qp.transforms.split_to_single_terms(tape)
    if tname == "diag":
        sup = {"all": None, "X": [qp.X], "XYZH": [qp.X, qp.Y, qp.Z, qp.Hadamard]}[spec["sup"]]
        kw = {"to_eigvals": spec["eig"]}
        if sup is not None:
            kw["supported_base_obs"] = sup
        return qp.transforms.diagonalize_measurements(tape, **kw)
    if tname == "sign":
        return qp.transforms.sign_expand(tape)
    if tname == "bexp":
        return qp.transforms.broadcast_expand(tape)
    raise KeyError(tname)


def _mismatch(codes, res, exp):
    """First mismatching entry as dict(code, what, r, e) or None."""
    import numpy as np

    if len(codes) == 1:
        res = (res,)
    if not isinstance(res, (tuple, list)) or len(res) != len(exp):
        return {"code": "*", "what": "result-count", "r": repr(res)[:200], "e": len(exp)}
    for code, r, e in zip(codes, res, exp):
        try:
            r = np.asarray(r)
            if np.iscomplexobj(r):
                if np.max(np.abs(r.imag)) > TOL:
                    return {"code": code, "what": "complex", "r": repr(r)[:200], "e": np.asarray(e).tolist()}
                r = r.real
            r = r.astype(float)
        except (TypeError, ValueError):
            return {"code": code, "what": "not-numeric", "r": repr(r)[:200], "e": np.asarray(e).tolist()}
        e = np.asarray(e, dtype=float)
        if r.shape != e.shape:
            return {"code": code, "what": "shape", "r": list(r.shape), "e": list(e.shape)}
        if not np.all(np.abs(r - e) <= TOL * max(1.0, float(np.max(np.abs(e))) if e.size else 1.0)):
            return {"code": code, "what": "value", "r": r.tolist(), "e": e.tolist()}
    return None


def _compare(tname, codes, res, exp, feat=""):
    m = _mismatch(codes, res, exp)
    if m is None:
        return None
    return bad(f"{tname}:{m['code']}:{m['what']}{feat}", m["r"], m["e"])


def _changed(tapes, tape):
    return len(tapes) != 1 or tapes[0] is not tape


def _reference(circ, codes, batch=None):
    import numpy as np
    from mc import x_meas as M

    if batch is None:
        st = M.ref_state(M.circuit_params(circ, None))
        return [M.ref_value(c, st) for c in codes]
    per = []
    for b in range(batch):
        st = M.ref_state(M.circuit_params(circ, b))
        per.append([M.ref_value(c, st) for c in codes])
    return [np.stack([np.asarray(per[b][i]) for b in range(batch)]) for i in range(len(codes))]


def _execute(tapes):
    import pennylane as qp

    return qp.execute(list(tapes), qp.device("default.qubit"), diff_method=None)


# --------------------------------------------------------------------------------------------- check
def check(spec):
    kind = spec["kind"]
    return globals()["_check_" + kind](spec)


def _check_splitstate(spec):
    """Splitting transforms on measurement lists that contain state-type measurements (state, density matrices):
    complex results, compared entrywise with the reference reduced density matrices / state vector."""
    import numpy as np
    import pennylane as qp
    from mc import x_meas as M

    tname, circ, codes = spec["t"], spec["circ"], spec["meas"]
    tape = qp.tape.QuantumScript(M.build_ops(circ, None), [M.build_mp(c) for c in codes])
    try:
        tapes, fn = _apply(tname, tape, spec)
        res = fn(_execute(tapes))
    except (qp.exceptions.QuantumFunctionError, qp.exceptions.DeviceError, NotImplementedError, ValueError, RuntimeError) as e:
        return skip(type(e).__name__)
    exp = _reference(circ, codes)
    if len(codes) == 1:
        res = (res,)
    if not isinstance(res, (tuple, list)) or len(res) != len(exp):
        return bad(f"{tname}:state-list:result-count", repr(res)[:200], len(exp))
    for code, r, e in zip(codes, res, exp):
        r, e = np.asarray(r), np.asarray(e)
        if r.shape != e.shape:
            return bad(f"{tname}:{code.split(':')[0]}:shape:state-list", list(r.shape), list(e.shape), meas=codes)
        if not np.allclose(r, e, atol=1e-9):
            return bad(f"{tname}:{code.split(':')[0]}:value:state-list", r, e, meas=codes)
    return ok(outcome=[tname, len(tapes), codes], nontrivial=_changed(tapes, tape))


def _check_split(spec):
    import pennylane as qp
    from mc import x_meas as M

    tname, circ, codes, B = spec["t"], spec["circ"], spec["meas"], spec.get("batch")
    tape = qp.tape.QuantumScript(M.build_ops(circ, B), [M.build_mp(c) for c in codes])
    feat = ":batch" if B else ""
    var_multi = any(c[0] == "v" and M.is_multi_term(c) for c in codes)
    try:
        tapes, fn = _apply(tname, tape, spec)
    except RuntimeError as e:
        if var_multi and "Cannot split up terms in sums" in str(e):
            return skip("var of a multi-term observable (RuntimeError)")
        return bad(f"{tname}:exception:RuntimeError{feat}", repr(e)[:200], "batch")
    res = fn(_execute(tapes))
    exp = _reference(circ, codes, B)
    m = _mismatch(codes, res, exp)
    if m:
        sig = f"{tname}:{m['code']}:{m['what']}{feat}"
        if m["code"] == "v:I0" and m["what"] == "value" and abs(float(m["r"] if not B else m["r"][0]) - 1.0) <= TOL:
            sig = "split:var-of-identity-returns-1"  # Identity observable booked as constant offset 1 for ANY measurement type
        elif B == 1 and m["what"] == "shape" and m["r"] == [] and m["e"] == [1]:
            sig = "split:batch-size-1-squeezed"  # _sum_terms squeezes the broadcast axis of length 1
        return bad(sig, m["r"], m["e"], failing=m["code"], transform=tname)
    if tname == "snc:none" and any(len(t.measurements) != 1 for t in tapes) and codes:
        return bad("snc:none:tape-with-several-measurements", [len(t.measurements) for t in tapes], 1)
    return ok(outcome=[len(tapes), [len(t.measurements) for t in tapes]], nontrivial=_changed(tapes, tape))


def _overlap_class(codes, failing):
    """The failing measurement is a non-Pauli (matrix) observable that shares a wire with another measurement that
    needs a basis change there: diagonalize_measurements neither rejects the list nor leaves that wire alone."""
    from mc import x_meas as M

    t, o = failing.split(":")
    if o not in M.OBS or M.OBS[o][0] != "matrix":
        return False
    mine = set(M.OBS[o][2])
    for d in codes:
        if d == failing:
            continue
        b = M.pauli_bases(d)
        if b and any(w in mine and (ls - {"Z"}) for w, ls in b.items()):
            return True
    return False


def _identity_coeff_model(codes, failing, exp_value):
    """Value the failing expval would have if every identity term's coefficient were replaced by 1."""
    from mc import x_meas as M

    t, o = failing.split(":")
    if t != "e" or o not in M.OBS or M.OBS[o][0] != "pauli":
        return None
    ids = [c for c, w in M.OBS[o][1] if not w]
    if not ids or (len(ids) == 1 and abs(ids[0] - 1.0) < 1e-12):
        return None
    # every identity term keeps coefficient 1  /  all identity terms collapse into one I with coefficient 1
    return [exp_value - sum(c - 1.0 for c in ids), exp_value - sum(ids) + 1.0]


def _check_diag(spec):
    import pennylane as qp
    from mc import x_meas as M

    circ, codes = spec["circ"], spec["meas"]
    tape = qp.tape.QuantumScript(M.build_ops(circ), [M.build_mp(c) for c in codes])
    qwc = M.is_qwc(codes)
    try:
        tapes, fn = _apply("diag", tape, spec)
    except (ValueError, qp.exceptions.QuantumFunctionError) as e:
        if spec["eig"] and spec["sup"] != "all":
            return skip("to_eigvals with a non-default supported set (ValueError)")
        if qwc is True and not any(M.is_multi_term(c) and c[0] == "v" for c in codes):
            return bad(f"diag:{spec['sup']}:rejects-qubitwise-commuting-list", repr(e)[:200], "accepted")
        return skip("non-commuting / unsupported measurement set rejected")
    if spec["eig"] and spec["sup"] != "all":
        return bad("diag:to_eigvals-with-subset-accepted", "accepted", "ValueError")
    res = fn(_execute(tapes))
    exp = _reference(circ, codes)
    tname = f"diag:{spec['sup']}:{'eig' if spec['eig'] else 'obs'}"
    m = _mismatch(codes, res, exp)
    if m:
        sig = f"{tname}:{m['code']}:{m['what']}"
        if m["what"] == "value":
            o = m["code"].split(":")[1]
            model = _identity_coeff_model(codes, m["code"], m["e"])
            if _overlap_class(codes, m["code"]):
                sig = "diag:nonpauli-observable-overlap-not-rejected"
            elif spec["eig"] and o in M.OBS and M.OBS[o][0] == "matrix":
                sig = "diag:to_eigvals-nonpauli-observable-not-rotated"
            elif spec["eig"] and M.is_multi_term(m["code"]):
                sig = "diag:to_eigvals-weighted-sum-eigvals-not-in-basis-order"
            elif model is not None and any(abs(float(m["r"]) - x) <= 1e-8 for x in model):
                sig = "diag:identity-term-coefficient-lost"
        return bad(sig, m["r"], m["e"], failing=m["code"], variant=tname)
    # after full diagonalisation every Pauli observable must be in the Z basis
    if spec["sup"] == "all" and not spec["eig"]:
        for m in tapes[0].measurements:
            if m.obs is not None and m.obs.pauli_rep is not None:
                for pw in m.obs.pauli_rep:
                    if any(l not in ("Z", "I") for l in pw.values()):
                        return bad("diag:all:observable-not-diagonal", repr(m), "Z-basis observable")
    n_new = len(tapes[0].operations) - len(tape.operations)
    return ok(outcome=[n_new, qwc], nontrivial=n_new > 0)


def _check_sign(spec):
    import numpy as np
    import pennylane as qp
    from mc import x_meas as M

    circ, codes = spec["circ"], spec["meas"]
    tape = qp.tape.QuantumScript(M.build_ops(circ), [M.build_mp(c) for c in codes])
    expect_reject = spec.get("reject")
    try:
        tapes, fn = _apply("sign", tape, spec)
    except (ValueError, AttributeError) as e:
        if expect_reject and (isinstance(e, ValueError) or expect_reject == "not-expval"):
            return ok(outcome=type(e).__name__ + ":" + expect_reject, nontrivial=True)
        if isinstance(e, AttributeError):
            raise
        return bad("sign:rejects-jointly-measurable-sum", repr(e)[:200], "accepted", meas=codes)
    if expect_reject:
        return bad(f"sign:accepts:{expect_reject}", "accepted", "ValueError")
    res = fn(_execute(tapes))
    exp = _reference(circ, codes)
    v = _compare("sign", codes, res, exp)
    if v and v["sig"].endswith(":value"):
        Mx = M.obs_matrix(codes[0].split(":")[1])
        ev = np.linalg.eigvalsh(Mx)
        off = (ev[0] + ev[-1]) / 2
        st = M.ref_state(M.circuit_params(circ, None)).reshape(-1)
        eT = float(np.real(np.vdot(st, Mx.T @ st)))
        got = float(np.real(res))
        if abs(off) > 1e-9 and abs(got - (exp[0] - off)) <= 1e-8:
            v["sig"] = "sign:constant-offset-dropped"
        elif np.max(np.abs(Mx.imag)) > 0 and abs(got - (eT - off)) <= 1e-8:
            v["sig"] = "sign:projectors-transposed-for-complex-hamiltonian"
        v["o"] = "bad:" + v["sig"]
    return v or ok(outcome=[len(tapes), round(float(exp[0]), 6)], nontrivial=len(tapes) > 1)


def _check_bexp(spec):
    import pennylane as qp
    from mc import x_meas as M

    circ, codes, B = spec["circ"], spec["meas"], spec["batch"]
    tape = qp.tape.QuantumScript(M.build_ops(circ, B), [M.build_mp(c) for c in codes])
    tapes, fn = qp.transforms.broadcast_expand(tape)
    if len(tapes) != B:
        return bad("bexp:number-of-tapes", len(tapes), B)
    if any(t.batch_size is not None for t in tapes):
        return bad("bexp:tape-still-broadcast", [t.batch_size for t in tapes], None)
    res = fn(_execute(tapes))
    return _compare("bexp", codes, res, _reference(circ, codes, B), f":B{B}") or ok(outcome=[B, len(codes)], nontrivial=B > 1)


def _batched_tape(circ, codes, B, trainable):
    import numpy as np
    import pennylane as qp
    from mc import x_meas as M

    ops = M.build_ops(circ, B)
    tape = qp.tape.QuantumScript(ops, [M.build_mp(c) for c in codes])
    flat = [p for _, params, _ in M.CIRCUITS[circ] for p in params]
    batched = [i for i, p in enumerate(flat) if p in ("x", "y")]
    return tape, batched, len(flat)


def _check_bpar(spec):
    import pennylane as qp
    from mc import x_meas as M

    circ, codes, B, allops = spec["circ"], spec["meas"], spec["batch"], spec["all"]
    tape, batched, n = _batched_tape(circ, codes, B, None)
    tape.trainable_params = batched if not spec.get("no_trainable") else []
    try:
        tapes, fn = qp.transforms.batch_params(tape, all_operations=allops)
    except ValueError as e:
        if allops and len(batched) != n:
            return skip("all_operations with an unbatched parameter (ValueError)")
        if spec.get("no_trainable") and not allops:
            return skip("no trainable parameters (ValueError)")
        return bad("bpar:exception:ValueError", repr(e)[:200], "batch")
    if (allops and len(batched) != n) or (spec.get("no_trainable") and not allops):
        return bad("bpar:invalid-input-accepted", "accepted", "ValueError")
    if len(tapes) != B:
        return bad("bpar:number-of-tapes", len(tapes), B)
    res = fn(_execute(tapes))
    return _compare("bpar", codes, res, _reference(circ, codes, B), f":B{B}") or ok(outcome=[B, len(codes), allops], nontrivial=B > 1)


def _check_binp(spec):
    import pennylane as qp

    circ, codes, B = spec["circ"], spec["meas"], spec["batch"]
    tape, batched, n = _batched_tape(circ, codes, B, None)
    others = [i for i in range(n) if i not in batched]
    if spec.get("trainable_clash"):
        tape.trainable_params = batched
    else:
        tape.trainable_params = others
    try:
        tapes, fn = qp.transforms.batch_input(tape, argnum=batched if len(batched) > 1 else batched[0])
    except ValueError as e:
        if spec.get("trainable_clash"):
            return skip("batched argnum marked trainable (ValueError)")
        return bad("binp:exception:ValueError", repr(e)[:200], "batch")
    if spec.get("trainable_clash"):
        return bad("binp:trainable-argnum-accepted", "accepted", "ValueError")
    if len(tapes) != B:
        return bad("binp:number-of-tapes", len(tapes), B)
    res = fn(_execute(tapes))
    return _compare("binp", codes, res, _reference(circ, codes, B), f":B{B}") or ok(outcome=[B, len(codes)], nontrivial=B > 1)


# deterministic outcomes on the "eig" circuit |1>|+>|0>
_EIG = {"Z0": -1.0, "X1": 1.0, "Z2": 1.0, "ZX": -1.0, "DET": 2.0 * -1 - 0.5 * -1 + 1.5 + 0.25}
_BITS = {"0": "1", "2": "0", "02": "10"}


def _check_shots(spec):
    """Shot-mode structure: sample / counts / expval / probs on an eigenstate (all outcomes deterministic)."""
    import numpy as np
    import pennylane as qp
    from mc import x_meas as M

    tname, codes, shots = spec["t"], spec["meas"], spec["shots"]
    tape = qp.tape.QuantumScript(M.build_ops("eig"), [M.build_mp(c) for c in codes], shots=shots)
    try:
        tapes, fn = _apply(tname, tape, spec)
    except (ValueError, qp.exceptions.QuantumFunctionError):
        if tname == "diag":
            return skip("diag rejected the list")
        raise
    res = fn(qp.execute(list(tapes), qp.device("default.qubit", seed=7), diff_method=None))
    copies = shots if isinstance(shots, list) else [shots]
    if isinstance(shots, list):
        if not isinstance(res, tuple) or len(res) != len(shots):
            return bad(f"{tname}:shots:shot-vector-structure", repr(res)[:200], len(shots))
        per_copy = list(res)
    else:
        per_copy = [res]
    for n, rc in zip(copies, per_copy):
        rc = (rc,) if len(codes) == 1 else rc
        if len(rc) != len(codes):
            return bad(f"{tname}:shots:result-count", len(rc), len(codes))
        for code, r in zip(codes, rc):
            t, o = code.split(":")
            if t == "e":
                good = np.shape(r) == () and abs(float(r) - _EIG[o]) <= 1e-9
                e = _EIG[o]
            elif t == "v":
                good = np.shape(r) == () and abs(float(r)) <= 1e-9
                e = 0.0
            elif t == "p":
                e = np.zeros(2 ** len(_BITS[o]))
                e[int(_BITS[o], 2)] = 1.0
                good = np.shape(r) == e.shape and np.allclose(r, e, atol=1e-12)
            elif t == "s":
                if o in _BITS:
                    e = np.array([[int(b) for b in _BITS[o]]] * n)
                else:
                    e = np.full((n,), _EIG[o])
                good = np.shape(r) == e.shape and np.allclose(np.asarray(r, dtype=float), e)
            else:
                e = {(_BITS[o] if o in _BITS else _EIG[o]): n}
                good = isinstance(r, dict) and {(k if isinstance(k, str) else float(k)): int(v) for k, v in r.items() if int(v)} == e
            if not good:
                return bad(f"{tname}:shots:{code}", repr(r)[:200], repr(e)[:200], shots=shots)
    return ok(outcome=[len(tapes), [len(t.measurements) for t in tapes]], nontrivial=_changed(tapes, tape))


def _check_shotdist(spec):
    import numpy as np
    import pennylane as qp
    from mc import x_meas as M

    total, sd, code = spec["shots"], spec["shot_dist"], spec["meas"][0]
    tape = qp.tape.QuantumScript(M.build_ops(spec["circ"]), [M.build_mp(code)], shots=total)
    tapes, fn = qp.transforms.split_non_commuting(tape, shot_dist=sd)
    per = [t.shots.total_shots for t in tapes]
    if sd is None:
        if any(p != total for p in per):
            return bad("shotdist:none:shots-changed", per, total)
    else:
        if any((not isinstance(p, int)) or p <= 0 for p in per) or sum(per) != total:
            return bad(f"shotdist:{sd}:shots-not-a-partition", per, total)
    res = fn(qp.execute(list(tapes), qp.device("default.qubit", seed=11), diff_method=None))
    if np.shape(res) != ():
        return bad(f"shotdist:{sd}:result-shape", list(np.shape(res)), [])
    if spec["circ"] == "eig" and code == "e:DET":
        if abs(float(res) - _EIG["DET"]) > 1e-9:
            return bad(f"shotdist:{sd}:value", float(res), _EIG["DET"])
    return ok(outcome=[per], nontrivial=len(tapes) > 1)


def _check_hamgroup(spec):
    """Single expval of a Hamiltonian/Sum with pre-computed grouping_indices: the stored grouping is used."""
    import pennylane as qp
    from mc import x_meas as M

    circ, o, gt, tname = spec["circ"], spec["obs"], spec["gtype"], spec["t"]
    H = M.build_obs(o)
    H.compute_grouping(grouping_type=gt)
    tape = qp.tape.QuantumScript(M.build_ops(circ), [qp.expval(H)])
    tapes, fn = _apply(tname, tape, spec)
    res = fn(_execute(tapes))
    v = _compare(f"{tname}:pregrouped:{gt}", ["e:" + o], res, _reference(circ, ["e:" + o]))
    return v or ok(outcome=[len(tapes), gt], nontrivial=len(tapes) > 1)


# --------------------------------------------------------------------------------------------- driver
def _lists(alphabet, n):
    out = [[]]
    for k in range(1, n + 1):
        out += [list(w) for w in itertools.product(alphabet, repeat=k)]
    return out


def run(ctx):
    import pennylane  # noqa: F401  (driver-side import: forked workers inherit it)
    from mc import x_meas, refsim  # noqa: F401

    quick = ctx.quick
    lists2 = _lists(ALPHABET, 2)
    specs = []
    for codes in lists2:
        circs = ["gen", "ghz", "prod"] if len(codes) <= 1 or not quick else ["gen"]
        for circ in circs:
            for t in SPLITS:
                specs.append({"kind": "split", "t": t, "circ": circ, "meas": codes})
            for sup, eig in DIAGS:
                if (sup, eig) == ("X", True) and len(codes) != 1:
                    continue
                specs.append({"kind": "diag", "circ": circ, "meas": codes, "sup": sup, "eig": eig})
    if not quick:
        small = ["e:X0", "e:Z0", "e:XY", "e:I0", "e:SUM", "e:HAM", "e:PR2", "e:HER2", "v:X0", "v:I0", "v:ZZ", "p:10", "p:all"]
        for codes in _lists(small, 3):
            if len(codes) == 3:
                for t in SPLITS:
                    specs.append({"kind": "split", "t": t, "circ": "gen", "meas": codes})
                for sup, eig in DIAGS[:3]:
                    specs.append({"kind": "diag", "circ": "gen", "meas": codes, "sup": sup, "eig": eig})
    ctx.enumerate(specs, axis="split+diag")

    # measurement lists containing state-type measurements (state, reduced density matrices)
    st_alpha = ["d:0", "d:2", "d:10", "st:", "e:X0", "e:Z0", "p:10"]
    specs = []
    for codes in _lists(st_alpha, 3):
        if not any(c[0] in ("d", "s") for c in codes):
            continue
        for t in SPLITS:
            specs.append({"kind": "splitstate", "t": t, "circ": "gen", "meas": codes})
    ctx.enumerate(specs, axis="split-with-state-measurements")

    # broadcast: splitting transforms on broadcast tapes, broadcast_expand, batch_params, batch_input
    bl = _lists(["e:X0", "e:ZZ", "e:SUM", "e:I0", "e:HAM", "v:Y1", "p:10", "e:HER1"] if quick else ALPHABET, 2)
    specs = []
    for codes in bl:
        if not codes:
            continue
        for circ in ["b1", "b2", "b3"]:
            for B in (1, 3):
                specs.append({"kind": "bexp", "circ": circ, "meas": codes, "batch": B})
                if len(codes) == 1 or circ == "b2":
                    for t in SPLITS:
                        specs.append({"kind": "split", "t": t, "circ": circ, "meas": codes, "batch": B})
                specs.append({"kind": "bpar", "circ": circ, "meas": codes, "batch": B, "all": False})
                specs.append({"kind": "binp", "circ": circ, "meas": codes, "batch": B})
    for circ in ["b1", "b2", "b3"]:
        for B in (1, 3):
            specs.append({"kind": "bpar", "circ": circ, "meas": ["e:X0"], "batch": B, "all": True})
            specs.append({"kind": "bpar", "circ": circ, "meas": ["e:X0"], "batch": B, "all": False, "no_trainable": True})
            specs.append({"kind": "binp", "circ": circ, "meas": ["e:X0"], "batch": B, "trainable_clash": True})
    ctx.enumerate(specs, axis="broadcast")

    # sign_expand (analytic mode)
    specs = []
    for circ in ["gen", "ghz", "prod"]:
        for o in ["SUM2", "ZZS", "ASYM", "YC", "SUMI", "XH"]:
            specs.append({"kind": "sign", "circ": circ, "meas": ["e:" + o]})
        specs.append({"kind": "sign", "circ": circ, "meas": ["e:HAMQ"], "reject": "not-jointly-measurable"})
        specs.append({"kind": "sign", "circ": circ, "meas": ["e:X0"], "reject": "not-a-sum"})
        specs.append({"kind": "sign", "circ": circ, "meas": ["e:ZZS", "e:Z0"], "reject": "two-measurements"})
        specs.append({"kind": "sign", "circ": circ, "meas": ["p:0"], "reject": "not-expval"})
    ctx.enumerate(specs, axis="sign_expand")

    # pre-computed grouping indices
    specs = [{"kind": "hamgroup", "circ": circ, "obs": o, "gtype": gt, "t": t}
             for circ in ["gen", "ghz"] for o in ["HAM", "HAMQ", "SUM"] for gt in ["qwc", "commuting", "anticommuting"]
             for t in SPLITS[:4]]
    ctx.enumerate(specs, axis="pregrouped")

    # shot-mode structure on a deterministic circuit
    sl = ["e:Z0", "e:X1", "e:ZX", "e:DET", "v:Z0", "p:0", "p:02", "s:Z0", "s:ZX", "s:02", "c:Z0", "c:02", "s:X1", "c:X1"]
    specs = []
    for codes in _lists(sl, 2):
        if not codes:
            continue
        for shots in (4, [3, 2]):
            for t in SPLITS:
                specs.append({"kind": "shots", "t": t, "meas": codes, "shots": shots})
            specs.append({"kind": "shots", "t": "diag", "sup": "all", "eig": False, "meas": codes, "shots": shots})
    for circ, code in [("eig", "e:DET"), ("gen", "e:HAMQ"), ("gen", "e:HAM"), ("gen", "e:SUM")]:
        for total in (7, 10, 11):
            for sd in (None, "uniform", "weighted"):
                specs.append({"kind": "shotdist", "circ": circ, "meas": [code], "shots": total, "shot_dist": sd})
    ctx.enumerate(specs, axis="shots")

    ctx.coverage["alphabet"] = {"measurements": ALPHABET, "circuits": ["prod", "ghz", "gen", "eig", "b1", "b2", "b3"],
                                "split": SPLITS, "diag": DIAGS, "batch": [1, 3], "shots": [4, [3, 2]],
                                "shot_dist": [None, "uniform", "weighted"]}
    ctx.coverage["bound"] = {"list_len": 2 if quick else 3, "wires": 3}
