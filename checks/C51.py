"""C51 — Pauli algebra agrees with matrix algebra (DESIGN §5.9).

E1/E2, exhaustive within the bound.  Every Pauli word on <=3 wires (all insertion orders, four label sets),
every wire order / superset order, sentences of <=2 (quick) / <=3 words (plus all 3-subsets of the 2-qubit
words) with coefficients from SCAL, every ordered pair of a ~360-sentence pool (thorough ~540) for product / sum / difference /
commutator, buffer sizes that force the chunked sparse builder, pauli_decompose on every 2x2 matrix over a
5-letter entry alphabet and on a 4x4 / 8x8 family (dense and scipy-sparse input), pauli_sentence(op) on every
depth<=2 operator expression over a 17-leaf alphabet.  Oracle: Kronecker products in plain numpy (mc/x_pauli)."""
import itertools

import numpy as np

from mc.engine import ok, bad, skip
from mc import x_pauli as xp
from mc.x_pauli import dec, enc

PROPERTY = "C51"
LEVEL = "exploration"
TECHNIQUE = "bounded exhaustive enumeration of Pauli words/sentences/matrices/operator expressions vs. dense Kronecker-product reference"
LEVEL_TEXT = ("All Pauli words on <=3 wires x wire orders, all sentences of <=2 words (thorough: <=3) over the 7-letter coefficient "
              "alphabet, all pairs of a sentence pool for product/sum/commutator, sparse buffer sizes {1 byte, 2, 3 matrices, default}, "
              "pauli_decompose on all 2x2 matrices over {0,1,-1,i,0.5} and a 4x4/8x8 family, pauli_sentence on every depth<=2 "
              "operator expression are compared with plain-numpy Kronecker algebra.")
LEVEL_NOTE = ("Reference = numpy kron/matmul written from the definitions. Sentences with >3 words, >3 wires, batched or "
              "autodiff-typed coefficients and abstract (traced) inputs are not explored; operator matrices are read through qp.matrix.")
DESIGN_REF = "5.9 C51"
RULE = ("complete enumeration of words x label sets x insertion orders x wire orders, sentences x coefficient tuples x orders x "
        "buffer sizes, all ordered pairs of the pools, matrix families x option product, expression grammar to depth 2; "
        "non-trivial = reference matrix is not a multiple of the identity (or the input is rejected / an operation is involved)")

SCAL = [1, -1, 0.5, 2, [0.0, 1.0], [0.3, -0.7], 0]
GEN = [0.3, -0.7]
LABS3 = [[0, 1, 2], ["a", "b", "c"], [2, "q", 0], [5, 6, 7]]
LABS2 = [[0, 1], ["b", "a"]]
CPAIRS_SMALL = [[1, 1], [0.5, -1], [[0.0, 1.0], GEN], [2, 0], [-1, [0.0, 1.0]]]
ENTRY = [0, 1, -1, [0.0, 1.0], 0.5]
NAMED = [["S", 1], ["T", 1], ["SX", 1], ["SWAP", 2], ["ECR", 2], ["ISWAP", 2], ["SISWAP", 2]]


# ------------------------------------------------------------------------------------------------ helpers
def mk_word(items):
    from pennylane.pauli import PauliWord

    return PauliWord({w: ch for w, ch in items})


def mk_sent(terms):
    from pennylane.pauli import PauliSentence

    return PauliSentence({mk_word(items): dec(c) for items, c in terms})


def ref_terms(terms):
    """Reference reading of a term list: later duplicates of a word overwrite (dict semantics)."""
    d = {}
    for items, c in terms:
        key = tuple(sorted(((repr(w), w, ch) for w, ch in items if ch != "I"), key=lambda t: t[0]))
        d[key] = ([(w, ch) for _, w, ch in key], complex(dec(c)))
    return list(d.values())


def labels_of(terms):
    return xp.first_seen(*[[w for w, _ in items] for items, _ in terms])


def default_order(terms):
    """Wires of a sentence as PennyLane defines them: first appearance over words, identities stripped."""
    return xp.first_seen(*[xp.support(items) for items, _ in terms])


def dense(m):
    return np.asarray(m.toarray() if hasattr(m, "toarray") else m)


def opmat(op, order):
    import pennylane as qp

    return np.asarray(qp.matrix(op, wire_order=list(order)))


# ------------------------------------------------------------------------------------------------ word
def word_orders(items, L):
    sup = xp.support(items)
    out = [None]
    for p in itertools.permutations(sup):
        out.append(list(p))
    for p in itertools.permutations(L):
        if list(p) not in out:
            out.append(list(p))
    for base in (list(L), list(reversed(L))):
        for pos in range(len(base) + 1):
            out.append(base[:pos] + ["x"] + base[pos:])
    return out


def check_word(spec):
    import pennylane as qp

    items, L = spec["w"], spec["L"]
    w = mk_word(items)
    sup = xp.support(items)
    if list(w.wires) != sup:
        return bad("word:wires", list(w.wires), sup)
    n_orders = 0
    for order in word_orders(items, L):
        eff = sup if order is None else order
        M = xp.word_matrix(items, eff)
        kw = {} if order is None else {"wire_order": order}
        for fmt in ("dense", "csr"):
            got = dense(w.to_mat(format=fmt, **kw))
            if not xp.close(got, M):
                return bad(f"word:to_mat:{fmt}", got, M, order=order)
            c = dec(GEN)
            got = dense(w.to_mat(format=fmt, coeff=c, **kw))
            if not xp.close(got, c * M):
                return bad(f"word:to_mat-coeff:{fmt}", got, c * M, order=order)
        if eff:
            op = w.operation() if order is None else w.operation(wire_order=order)
            got = opmat(op, eff)
            if not xp.close(got, M):
                return bad("word:operation", got, M, order=order)
            pr = op.pauli_rep
            if pr is None or not xp.close(xp.den(pr, eff), M):
                return bad("word:operation-pauli_rep", repr(pr), "sentence denoting the same matrix", order=order)
        n_orders += 1
    # utility conversions (documented in pauli/utils.py) on the operator form
    wire_map = {lab: i for i, lab in enumerate(L)}
    op = w.operation() if sup else qp.Identity(L[0])
    s_exp = xp.wstr(items, L)
    s_got = qp.pauli.pauli_word_to_string(op, wire_map=wire_map)
    if s_got != s_exp:
        return bad("utils:pauli_word_to_string", s_got, s_exp)
    op2 = qp.pauli.string_to_pauli_word(s_exp, wire_map=wire_map)
    M = xp.word_matrix(items, L)
    if not xp.close(opmat(op2, L), M):
        return bad("utils:string_to_pauli_word", opmat(op2, L), M)
    got = np.asarray(qp.pauli.pauli_word_to_matrix(op, wire_map=wire_map))
    if not xp.close(got, M):
        return bad("utils:pauli_word_to_matrix", got, M)
    b = qp.pauli.pauli_to_binary(op, wire_map=wire_map)
    b_exp = [1.0 if ch in "XY" else 0.0 for ch in s_exp] + [1.0 if ch in "YZ" else 0.0 for ch in s_exp]
    if list(map(float, b)) != b_exp:
        return bad("utils:pauli_to_binary", list(map(float, b)), b_exp)
    op3 = qp.pauli.binary_to_pauli(b, wire_map=wire_map)
    if not xp.close(opmat(op3, L), M):
        return bad("utils:binary_to_pauli", opmat(op3, L), M)
    if not qp.pauli.are_identical_pauli_words(op, op3):
        return bad("utils:are_identical_pauli_words", False, True)
    ps = qp.pauli.pauli_sentence(w)
    if not xp.close(xp.den(ps, L), M):
        return bad("word:pauli_sentence", repr(ps), "same matrix")
    return ok(outcome=[s_exp, n_orders], nontrivial=bool(sup))


# ------------------------------------------------------------------------------------------------ sentence
def check_sent(spec):
    from pennylane.pauli import PauliSentence

    terms, order = spec["t"], spec["order"]
    ps = mk_sent(terms)
    rt = ref_terms(terms)
    dflt = default_order(terms)
    if list(ps.wires) != dflt:
        return bad("sent:wires", list(ps.wires), dflt)
    eff = dflt if order is None else order
    n = len(eff)
    M = xp.sentence_matrix(rt, eff)
    kw = {} if order is None else {"wire_order": order}
    got = dense(ps.to_mat(**kw))
    if not xp.close(got, M):
        return bad("sent:to_mat:dense", got, M)
    size = 2 ** n
    for b in spec.get("bufs", [1, "1MiB"]):
        # 1 = one byte (every structure flushed on its own), k = room for exactly k matrices, "1MiB", None = default (1 GiB)
        bs = None if b is None else 1 if b == 1 else 2 ** 20 if b == "1MiB" else b * 24 * size
        got = dense(ps.to_mat(format="csr", buffer_size=bs, **kw))
        if not xp.close(got, M):
            return bad(f"sent:to_mat:csr:buffer={'default' if b is None else b}", got, M)
    if eff:
        op = ps.operation() if order is None else ps.operation(wire_order=order)
        got = opmat(op, eff)
        if not xp.close(got, M):
            return bad("sent:operation", got, M)
        pr = op.pauli_rep
        if pr is None or not xp.close(xp.den(pr, eff), M):
            return bad("sent:operation-pauli_rep", repr(pr), "sentence denoting the same matrix")
    tr = complex(ps.trace())
    tr_exp = complex(np.trace(M)) / size
    if abs(tr - tr_exp) > 1e-9:
        return bad("sent:trace", tr, tr_exp)
    if spec.get("alg"):
        before = dict(ps)
        for c0 in SCAL:
            c = dec(c0)
            for form, r in (("mul", lambda: ps * c), ("rmul", lambda: c * ps), ("np-rmul", lambda: np.array(c) * ps)):
                if not xp.close(xp.den(r(), eff), complex(c) * M):
                    return bad(f"sent:scalar-{form}", repr(r()), f"{c} * sentence", c=c0)
            if c != 0 and not xp.close(xp.den(ps / c, eff), M / complex(c)):
                return bad("sent:scalar-div", repr(ps / c), f"sentence / {c}", c=c0)
            Id = np.eye(size)
            for form, r, E in (("add", lambda: ps + c, M + complex(c) * Id), ("radd", lambda: c + ps, M + complex(c) * Id),
                               ("sub", lambda: ps - c, M - complex(c) * Id), ("rsub", lambda: c - ps, complex(c) * Id - M)):
                if not xp.close(xp.den(r(), eff), E):
                    return bad(f"sent:scalar-{form}", repr(r()), "matrix +/- c*I", c=c0)
        if dict(ps) != before:
            return bad("sent:operand-mutated", repr(ps), repr(PauliSentence(before)))
        if len(terms) == 1:
            w = mk_word(terms[0][0])
            Mw = xp.word_matrix(terms[0][0], eff)
            c = dec(terms[0][1])
            Id = np.eye(size)
            for form, r, E in (("mul", lambda: w * c, complex(c) * Mw), ("rmul", lambda: c * w, complex(c) * Mw),
                               ("add", lambda: w + c, Mw + complex(c) * Id), ("radd", lambda: c + w, Mw + complex(c) * Id),
                               ("sub", lambda: w - c, Mw - complex(c) * Id), ("rsub", lambda: c - w, complex(c) * Id - Mw)):
                if not xp.close(xp.den(r(), eff), E):
                    return bad(f"word:scalar-{form}", repr(r()), "matrix expression", c=terms[0][1])
            if c != 0 and not xp.close(xp.den(w / c, eff), Mw / complex(c)):
                return bad("word:scalar-div", repr(w / c), "word / c", c=terms[0][1])
        if n >= 1 and len(ps) > 0:
            v = np.array([(k + 1) + 1j * (k % 3) for k in range(size)], dtype=complex)
            got = np.asarray(ps.dot(v, **kw)).ravel()
            if not xp.close(got, M @ v):
                return bad("sent:dot", got, M @ v)
            V = np.stack([v, v[::-1] * 1j])
            got = np.asarray(ps.dot(V, **kw))
            if not xp.close(got, (M @ V.T).T):
                return bad("sent:dot-batch", got, (M @ V.T).T)
    return ok(outcome=xp.fp(M), nontrivial=not xp.is_scalar_matrix(M))


# ------------------------------------------------------------------------------------------------ pairs
def _binops(A, B, a, b, eff, tag, extra):
    """a, b live objects (word or sentence); A, B their reference matrices."""
    import copy

    sa, sb = copy.copy(a), copy.copy(b)
    da, db = dict(a), dict(b)
    tests = [("matmul", lambda: a @ b, A @ B), ("add", lambda: a + b, A + B), ("sub", lambda: a - b, A - B),
             ("commutator", lambda: a.commutator(b), A @ B - B @ A)]
    for name, f, E in tests:
        r = f()
        if type(r).__name__ != "PauliSentence":
            return bad(f"{tag}:{name}:type", type(r).__name__, "PauliSentence", **extra)
        if not xp.close(xp.den(r, eff), E):
            return bad(f"{tag}:{name}", repr(r), xp.fp(E), **extra)
    if dict(a) != da or dict(b) != db:
        return bad(f"{tag}:operand-mutated", [repr(a), repr(b)], [repr(sa), repr(sb)], **extra)
    return None


def check_wpair(spec):
    import pennylane as qp

    ia, ib = spec["a"], spec["b"]
    a, b = mk_word(ia), mk_word(ib)
    eff = xp.first_seen([w for w, _ in ia], [w for w, _ in ib])
    A, B = xp.word_matrix(ia, eff), xp.word_matrix(ib, eff)
    v = _binops(A, B, a, b, eff, "word*word", {})
    if v:
        return v
    comm = A @ B - B @ A
    commutes = bool(np.allclose(comm, 0))
    if a.commutes_with(b) != commutes:
        return bad("word*word:commutes_with", a.commutes_with(b), commutes)
    r = qp.commutator(a, b, pauli=True)
    if not xp.close(xp.den(r, eff), comm):
        return bad("word*word:qp.commutator", repr(r), xp.fp(comm))
    # iadd on a word returns a new sentence
    c = a
    c += b
    if not xp.close(xp.den(c, eff), A + B) or dict(a) != dict(mk_word(ia)):
        return bad("word*word:iadd", repr(c), xp.fp(A + B))
    return ok(outcome=[commutes] + xp.fp(A @ B)[1:], nontrivial=bool(xp.support(ia)) and bool(xp.support(ib)))


def check_pair(spec):
    import copy

    ta, tb = spec["a"], spec["b"]
    a, b = mk_sent(ta), mk_sent(tb)
    eff = xp.first_seen(labels_of(ta), labels_of(tb))
    A, B = xp.sentence_matrix(ref_terms(ta), eff), xp.sentence_matrix(ref_terms(tb), eff)
    v = _binops(A, B, a, b, eff, "sent*sent", {})
    if v:
        return v
    c = copy.copy(a)
    c += b
    if not xp.close(xp.den(c, eff), A + B):
        return bad("sent*sent:iadd", repr(c), xp.fp(A + B))
    if dict(a) != dict(mk_sent(ta)) or dict(b) != dict(mk_sent(tb)):
        return bad("sent*sent:iadd-aliasing", [repr(a), repr(b)], "operands unchanged")
    # mixed word / sentence forms when one side is a plain word
    for side, (tw, ts, W, S) in (("word*sent", (ta, tb, A, B)), ("sent*word", (tb, ta, B, A))):
        if len(tw) == 1 and dec(tw[0][1]) == 1:
            w = mk_word(tw[0][0])
            s = mk_sent(ts)
            x, y, X_, Y_ = (w, s, W, S) if side == "word*sent" else (s, w, S, W)
            v = _binops(X_, Y_, x, y, eff, side, {})
            if v:
                return v
            if side == "sent*word":
                c = copy.copy(s)
                c += w
                if not xp.close(xp.den(c, eff), S + W):
                    return bad("sent*word:iadd", repr(c), xp.fp(S + W))
    C = A @ B - B @ A
    return ok(outcome=xp.fp(A @ B) + xp.fp(C)[1:3], nontrivial=not (xp.is_scalar_matrix(A) or xp.is_scalar_matrix(B)))


# ------------------------------------------------------------------------------------------------ pauli_decompose
def check_dec(spec):
    import pennylane as qp
    import scipy.sparse as sps

    M = np.array([[complex(dec(x)) for x in row] for row in spec["M"]])
    if not np.any(M.imag):
        M = M.real.copy()
    n = int(np.log2(M.shape[0]))
    wo = spec["wo"]
    W = list(range(n)) if wo is None else wo
    herm = bool(np.allclose(M, M.conj().T))
    zero = not np.any(M)
    arg = sps.csr_matrix(M) if spec["sparse"] else M
    sp = "sparse" if spec["sparse"] else "dense"
    kw = dict(hide_identity=spec["hide"], pauli=spec["pauli"], check_hermitian=spec["herm"])
    if wo is not None:
        kw["wire_order"] = wo
    try:
        r = qp.pauli_decompose(arg, **kw)
    except ValueError as e:
        if spec["herm"] and not herm and "not Hermitian" in str(e):
            return skip("non-Hermitian matrix rejected with check_hermitian=True")
        if zero:
            return bad(f"decompose:zero-matrix:{sp}:raised", f"ValueError: {e}", "decomposition of the zero matrix")
        return bad(f"decompose:raised:{sp}", f"ValueError: {e}", "a decomposition")
    if spec["herm"] and not herm:
        return bad(f"decompose:non-hermitian-accepted:{sp}", repr(r), "ValueError (matrix is not Hermitian)")
    if spec["pauli"]:
        if type(r).__name__ != "PauliSentence":
            return bad("decompose:type", type(r).__name__, "PauliSentence")
        got = xp.den(r, W)
        if not xp.close(got, M):
            return bad(f"decompose:roundtrip:pauli:{sp}", got, M)
        got = dense(r.to_mat(wire_order=W))
        if not xp.close(got, M):
            return bad(f"decompose:roundtrip:to_mat:{sp}", got, M)
        coeffs = [xp._num(c) for c in r.values()]
    else:
        if zero and len(r.operands if hasattr(r, "operands") else []) == 0:
            return ok(outcome="empty-sum", nontrivial=False)
        got = opmat(r, W)
        if not xp.close(got, M):
            return bad(f"decompose:roundtrip:operator:{sp}", got, M)
        ps = qp.pauli.pauli_sentence(r)
        if not xp.close(xp.den(ps, W), M):
            return bad(f"decompose:roundtrip:operator-pauli_sentence:{sp}", repr(ps), M)
        coeffs = [xp._num(c) for c in r.terms()[0]]
        if spec["hide"]:
            for o in r.terms()[1]:
                names = [f.name for f in (o.operands if hasattr(o, "operands") else [o])]
                if "Identity" in names and set(names) != {"Identity"}:
                    return bad("decompose:hide_identity-ignored", repr(o), "no Identity factor in a non-identity term")
    if spec["herm"] and any(abs(complex(c).imag) > 0 for c in coeffs):
        return bad("decompose:complex-coefficient-for-hermitian", coeffs, "real coefficients")
    return ok(outcome=[len(coeffs), herm] + xp.fp(M)[2:], nontrivial=not xp.is_scalar_matrix(M))


# ------------------------------------------------------------------------------------------------ pauli_sentence(op)
def build(e):
    import pennylane as qp

    t = e[0]
    if t == "P":
        return {"I": qp.Identity, "X": qp.X, "Y": qp.Y, "Z": qp.Z}[e[1]](e[2])
    if t == "G":
        return getattr(qp, e[1])(wires=e[2])
    if t == "s":
        return qp.s_prod(dec(e[1]), build(e[2]))
    if t == "s*":
        return dec(e[1]) * build(e[2])
    if t == "p":
        return qp.prod(build(e[1]), build(e[2]))
    if t == "p@":
        return build(e[1]) @ build(e[2])
    if t == "+":
        return qp.sum(build(e[1]), build(e[2]))
    if t == "++":
        return build(e[1]) + build(e[2])
    if t == "a":
        return qp.adjoint(build(e[1]))
    if t == "^":
        return qp.pow(build(e[2]), e[1])
    if t == "h":
        return qp.Hamiltonian([dec(c) for c in e[1]], [build(x) for x in e[2]])
    if t == "c":
        return qp.commutator(build(e[1]), build(e[2]))
    raise AssertionError(t)


def refmat(e, order):
    from mc import refgates, refsim

    t = e[0]
    if t == "P":
        return xp.word_matrix([[e[2], e[1]]], order)
    if t == "G":
        return refsim.embed(refgates.matrix(e[1]), e[2], order)
    if t in ("s", "s*"):
        return complex(dec(e[1])) * refmat(e[2], order)
    if t in ("p", "p@"):
        return refmat(e[1], order) @ refmat(e[2], order)
    if t in ("+", "++"):
        return refmat(e[1], order) + refmat(e[2], order)
    if t == "a":
        return refmat(e[1], order).conj().T
    if t == "^":
        return np.linalg.matrix_power(refmat(e[2], order), e[1])
    if t == "h":
        return sum(complex(dec(c)) * refmat(x, order) for c, x in zip(e[1], e[2]))
    if t == "c":
        A, B = refmat(e[1], order), refmat(e[2], order)
        return A @ B - B @ A
    raise AssertionError(t)


def only_dispatchable(e):
    """True if every node is of a type the private singledispatch `_pauli_sentence` registers."""
    t = e[0]
    if t == "P":
        return True
    if t in ("s", "s*"):
        return only_dispatchable(e[2])
    if t in ("p", "p@", "+", "++"):
        return only_dispatchable(e[1]) and only_dispatchable(e[2])
    if t == "h":
        return all(x[0] == "P" for x in e[2])
    return False


def check_expr(spec):
    import pennylane as qp
    from pennylane.pauli.conversion import _pauli_sentence

    e, order = spec["e"], spec["order"]
    op = build(e)
    M = refmat(e, order)
    try:
        ps = qp.pauli.pauli_sentence(op)
    except ValueError as err:
        if not np.any(np.abs(M) > 1e-12):
            return skip("zero operator has no Pauli representation")
        return bad("pauli_sentence:rejected", f"ValueError: {err}", "a PauliSentence")
    if type(ps).__name__ != "PauliSentence":
        return bad("pauli_sentence:type", type(ps).__name__, "PauliSentence")
    if not xp.close(xp.den(ps, order), M):
        return bad(f"pauli_sentence:matrix:{root_kind(e)}", repr(ps), M)
    got = dense(ps.to_mat(wire_order=order))
    if not xp.close(got, M):
        return bad("pauli_sentence:to_mat", got, M)
    back = ps.operation(wire_order=order)
    if not xp.close(opmat(back, order), M):
        return bad("pauli_sentence:operation-roundtrip", opmat(back, order), M)
    ps2 = qp.pauli.pauli_sentence(back)
    if not xp.close(xp.den(ps2, order), M):
        return bad("pauli_sentence:second-roundtrip", repr(ps2), M)
    if only_dispatchable(e):
        ps3 = _pauli_sentence(build(e))
        if not xp.close(xp.den(ps3, order), M):
            return bad(f"pauli_sentence:dispatch:{root_kind(e)}", repr(ps3), M)
    return ok(outcome=[len(ps)] + xp.fp(M)[1:], nontrivial=not xp.is_scalar_matrix(M))


def root_kind(e):
    return e[0] if e[0] not in ("G",) else "G:" + e[1]


# ------------------------------------------------------------------------------------------------ dispatcher
def check(spec):
    return {"word": check_word, "sent": check_sent, "wpair": check_wpair, "pair": check_pair, "dec": check_dec,
            "expr": check_expr}[spec["kind"]](spec)


# ------------------------------------------------------------------------------------------------ enumeration
def all_words3(L):
    return list(xp.words_on(L))


def sent_orders(L, full):
    rev = list(reversed(L))
    mid = L[:1] + ["x"] + L[1:]
    if not full:
        return [None, rev, mid]
    out = [None] + [list(p) for p in itertools.permutations(L)]
    for base in (list(L), rev):
        for pos in range(len(base) + 1):
            out.append(base[:pos] + ["x"] + base[pos:])
    return out


def matrices4():
    """Deterministic 4x4 / 8x8 family: Pauli words, unit matrices E_ij, permutations, generic Hermitian and
    non-Hermitian matrices, rank-deficient and diagonal ones."""
    fam = []
    for d in (4, 8):
        for i in range(d):
            for j in range(d):
                E = [[0] * d for _ in range(d)]
                E[i][j] = 1
                fam.append(E)
    for d in (4, 8):
        n = d.bit_length() - 1
        G = [[[round(float(np.sin(1 + 3 * i + 7 * j)), 3), round(float(np.cos(2 + 5 * i - 3 * j)), 3)] for j in range(d)] for i in range(d)]
        fam.append(G)
        Hm = [[enc(0.5 * (complex(*G[i][j]) + complex(*G[j][i]).conjugate())) for j in range(d)] for i in range(d)]
        fam.append(Hm)
        R = [[round(float(np.sin(1 + i + 2 * j)), 3) for j in range(d)] for i in range(d)]
        fam.append(R)
        fam.append([[R[i][j] + R[j][i] for j in range(d)] for i in range(d)])
        fam.append([[(i + 1) if i == j else 0 for j in range(d)] for i in range(d)])
        fam.append([[1 if j == (i + 1) % d else 0 for j in range(d)] for i in range(d)])
        fam.append([[1 for j in range(d)] for i in range(d)])
        fam.append([[0 for j in range(d)] for i in range(d)])
        fam.append([[enc(1j * (1 if i < j else -1 if i > j else 0)) for j in range(d)] for i in range(d)])
        for s in itertools.product("IXYZ", repeat=n):
            if d == 8 and s.count("Y") < 2:
                continue
            Mw = xp.word_matrix([[k, ch] for k, ch in enumerate(s)], list(range(n)))
            fam.append([[enc(complex(x)) if x.imag else float(x.real) for x in row] for row in Mw])
    return fam


def leaves():
    L = []
    for w in (0, "b"):
        for ch in "IXYZ":
            L.append(["P", ch, w])
    for name, k in NAMED:
        L.append(["G", name, [0] if k == 1 else [0, "b"]])
    L.append(["G", "SWAP", ["b", 0]])
    L.append(["G", "S", ["b"]])
    return L


def depth1(Ls, quick):
    out = []
    for a in Ls:
        out += [["s", GEN, a], ["s*", 2, a], ["a", a], ["^", 2, a], ["^", 3, a]]
    for a in Ls:
        for b in Ls:
            out += [["p", a, b], ["+", a, b], ["c", a, b]]
            if a[0] == "P" and b[0] == "P":
                out += [["p@", a, b], ["++", a, b], ["h", [0.5, GEN], [a, b]]]
    return out


def run(ctx):
    q = ctx.quick
    # ---- words
    specs = []
    for L in LABS3:
        for items in all_words3(L):
            for p in itertools.permutations(range(3)):
                specs.append({"kind": "word", "w": [items[i] for i in p], "L": L})
    for L in ([0], ["a"], [0, 1], ["b", "a"]):
        for items in xp.words_on(L):
            specs.append({"kind": "word", "w": items, "L": L})
    ctx.enumerate(specs, axis="word")

    # ---- sentences: unary checks
    specs = []
    L3 = LABS3[0]
    specs.append({"kind": "sent", "t": [], "order": None, "alg": True})
    specs.append({"kind": "sent", "t": [], "order": [0, 1], "alg": True})
    for L in (LABS3[0], LABS3[2]):
        for items in all_words3(L):
            for c in SCAL:
                for order in sent_orders(L, True):
                    specs.append({"kind": "sent", "t": [[items, c]], "order": order, "alg": order in (None, list(reversed(L)))})
    ctx.enumerate(specs, axis="sentence-1")
    specs = []
    W2 = {tuple(map(str, L)): list(xp.words_on(L)) for L in LABS2}
    L = LABS2[0]
    for a, b in (itertools.combinations if q else itertools.permutations)(W2[tuple(map(str, L))], 2):
        for c1 in SCAL:
            for c2 in SCAL:
                for order in sent_orders(L, False):
                    specs.append({"kind": "sent", "t": [[a, c1], [b, c2]], "order": order, "alg": order is None and c1 == 1})
    for L in LABS2:
        for a, b in itertools.permutations(W2[tuple(map(str, L))], 2):
            for c1, c2 in CPAIRS_SMALL:
                for order in sent_orders(L, True):
                    specs.append({"kind": "sent", "t": [[a, c1], [b, c2]], "order": order})
    ctx.enumerate(specs, axis="sentence-2(2 wires)")
    specs = []
    cps = CPAIRS_SMALL[:3] if q else CPAIRS_SMALL
    for Lx in ([LABS3[0]] if q else [LABS3[0], LABS3[2]]):
        W = all_words3(Lx)
        for a, b in itertools.permutations(W, 2):
            for c1, c2 in cps:
                for order in sent_orders(Lx, False):
                    specs.append({"kind": "sent", "t": [[a, c1], [b, c2]], "order": order})
    ctx.enumerate(specs, axis="sentence-2(3 wires)")
    specs = []
    L = LABS2[0]
    W = W2[tuple(map(str, L))]
    trip = [[1, [0.0, 0.5], GEN], [1, 1, -1]]
    for k in ((3,) if q else (3, 4)):
        for comb in itertools.combinations(W, k):
            for cs in trip:
                cs = (cs + [2])[:k]
                for order in sent_orders(L, False):
                    specs.append({"kind": "sent", "t": [[w, c] for w, c in zip(comb, cs)], "order": order, "bufs": [1, 2, 3, "1MiB"]})
                specs.append({"kind": "sent", "t": [[w, c] for w, c in zip(reversed(comb), cs)], "order": None, "bufs": [1, 2, 3, "1MiB"]})
    ctx.enumerate(specs, axis="sentence-3+(2 wires, buffer sizes)")
    # the default buffer (1 GiB of virtual memory per call, ~0.1-1 s each) only on a thinned family
    specs = []
    for comb in list(itertools.combinations(W, 3))[::12 if q else 4]:
        specs.append({"kind": "sent", "t": [[w, c] for w, c in zip(comb, trip[0])], "order": None, "bufs": [None]})
    ctx.enumerate(specs, axis="sentence-3(default buffer)")
    if not q:
        specs = []
        W = all_words3(L3)
        for comb in itertools.combinations(W, 3):
            for order in (None, [2, 0, 1]):
                specs.append({"kind": "sent", "t": [[w, c] for w, c in zip(comb, trip[0])], "order": order, "bufs": [1, 2, "1MiB"]})
        ctx.enumerate(specs, axis="sentence-3(3 wires)")

    # ---- pairs
    specs = []
    W = all_words3(L3)
    for a in W:
        for b in W:
            specs.append({"kind": "wpair", "a": a, "b": b})
    Wm = all_words3(LABS3[2])
    for a in Wm[::3]:
        for b in W:
            specs.append({"kind": "wpair", "a": list(reversed(a)), "b": b})  # labels [2,'q',0] vs [0,1,2]: partial overlap
    ctx.enumerate(specs, axis="word-pair")
    pool = []
    Wa = W2[tuple(map(str, LABS2[0]))]
    for w in W:
        pool.append([[w, 1]])
    for w in Wa:
        for c in ([0.0, 1.0], GEN):
            pool.append([[w, c]])
    for a, b in itertools.combinations(Wa, 2):
        for c1, c2 in (CPAIRS_SMALL[1:3] if q else CPAIRS_SMALL[:3]):
            pool.append([[a, c1], [b, c2]])
    sel = [w for w in W if xp.wstr(w, L3) in ("XYZ", "ZZX", "IXZ", "YIY", "ZII", "IIX", "XXI", "III")]
    for a, b in itertools.combinations(sel, 2):
        pool.append([[b, GEN], [a, -1]])
    if not q:
        for a, b, c in itertools.combinations(sel, 3):
            pool.append([[a, 0.5], [b, [0.0, 1.0]], [c, GEN]])
    specs = [{"kind": "pair", "a": a, "b": b} for a in pool for b in pool]
    ctx.enumerate(specs, axis="sentence-pair")

    # ---- pauli_decompose
    specs = []
    opts = list(itertools.product([False, True], repeat=4))  # sparse, hide, pauli, herm
    for ent in itertools.product(ENTRY, repeat=4):
        M = [[ent[0], ent[1]], [ent[2], ent[3]]]
        for sparse, hide, pauli, herm in opts:
            for wo in (None, ["a"]):
                specs.append({"kind": "dec", "M": M, "sparse": sparse, "hide": hide, "pauli": pauli, "herm": herm, "wo": wo})
    ctx.enumerate(specs, axis="decompose-2x2")
    specs = []
    for M in matrices4():
        n = len(M).bit_length() - 1
        for sparse, hide, pauli, herm in opts:
            for wo in (None, ["a", 0, 3][:n], [1, 0, 2][:n]):
                specs.append({"kind": "dec", "M": M, "sparse": sparse, "hide": hide, "pauli": pauli, "herm": herm, "wo": wo})
    ctx.enumerate(specs, axis="decompose-4x4/8x8")

    # ---- pauli_sentence(op)
    Ls = leaves()
    D1 = depth1(Ls, q)
    exprs = list(Ls) + D1
    for a in D1:
        exprs += [["s", GEN, a], ["a", a], ["^", 2, a]]
        if not q:
            exprs += [["^", 3, a], ["s*", -1, a]]
    Lsmall = [["P", "X", 0], ["P", "Y", "b"], ["P", "Z", 0], ["P", "I", "b"], ["G", "S", [0]], ["G", "SWAP", [0, "b"]]]
    for a in D1:
        for b in (Lsmall if q else Ls):
            exprs += [["p", a, b], ["p", b, a], ["+", a, b], ["c", a, b]]
    specs = [{"kind": "expr", "e": e, "order": [0, "b"]} for e in exprs]
    specs += [{"kind": "expr", "e": e, "order": ["b", "x", 0]} for e in list(Ls) + D1]
    ctx.enumerate(specs, axis="pauli_sentence(op)")

    ctx.coverage["alphabet"] = {
        "letters": "IXYZ", "label_sets": LABS3 + LABS2, "coefficients": SCAL, "coefficient_pairs": CPAIRS_SMALL,
        "wire_orders": "None, every permutation, extra wire 'x' at every position of the label list and its reverse",
        "buffer_sizes": ["1 byte", "2 matrices", "3 matrices", "1 MiB", "default (thinned family only)"], "matrix_entries_2x2": ENTRY,
        "matrix_family_4x4_8x8": len(matrices4()), "expression_leaves": len(Ls), "expression_ops":
            ["s_prod", "scalar*", "adjoint", "pow 2/3", "prod", "@", "sum", "+", "Hamiltonian", "commutator"],
        "sentence_pool": len(pool)}
    ctx.coverage["bound"] = {"wires": 3, "words_per_sentence": 3 if q else 4, "expression_depth": 2,
                             "pair_pool": len(pool), "decompose_qubits": 3}
