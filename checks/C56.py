"""C56 — Arithmetic templates compute their documented functions (DESIGN §5.10).

E1, exhaustive over basis inputs: one spec = one operator instance (template, register sizes, constant, modulus,
work-wire count, flags, wire layout) x one *route*; the check evaluates EVERY basis input of the documented domain
at once (one column per input) and compares with Python integer arithmetic.

Routes
  rule:<name>  every applicable registered decomposition rule, expanded recursively with the emitted operators' own
               `decomposition()` until every gate is a closed-form gate of mc.refgates (or a structural wrapper of one),
               dynamically allocated work wires resolved to fresh simulator wires (checked to be |0> when released / at the end)
  dec          `op.decomposition()` when the class hand-writes it (compute_decomposition), same expansion
  matrix       `qp.matrix(op, wire_order)` applied to the input columns
  device       default.qubit executes [StatePrep(sum_c a_c |in_c>), op] with pairwise distinct a_c; the state must be
               sum_c a_c |f(in_c)>  (one execution decides the whole domain including relative phases)
  mcm:<name>   rules with mid-circuit measurements (Adjoint(TemporaryAND)): every outcome branch must carry the
               expected state
Oracle: every column is exactly one basis state |f(x)> (work wires |0>) with ONE phase common to the whole domain.
"""
import hashlib
import math

import numpy as np

from mc.engine import ok, bad, skip

PROPERTY = "C56"
LEVEL = "exploration"
TECHNIQUE = "exhaustive basis-input enumeration of arithmetic templates vs. Python integer arithmetic (matrix, device, every rule fully expanded)"
LEVEL_TEXT = ("All 16 arithmetic templates, register sizes 1-3 (thorough: up to 4), EVERY basis input of the documented domain, every "
              "constant and modulus 2..2^n, signed variants over the full two's-complement range, through qp.matrix, default.qubit and "
              "every registered rule / hand-written decomposition expanded recursively to closed-form gates; work wires (static and "
              "dynamically allocated) must return to |0> and all columns share one global phase.")
LEVEL_NOTE = ("Reference = Python ints + mc.refgates closed forms + a column simulator (mc/x_tmpl.py); multi-controlled basic gates are "
              "applied structurally (their own decompositions are C10). PhaseAdder with mod != 2^n is only required to work for "
              "mod <= 2^(n-1) (the 'one extra wire' reading of its docstring); ModExp only for b < mod; mod = 1 is not explored. qp.matrix is "
              "taken for <= 6 wires (and not at all for templates that allocate work wires dynamically: it raises TransformError). "
              "Register sizes above the bound and polynomials outside the 5 fixed ones are not explored.")
DESIGN_REF = "5.10 C56"
START = "fork"
PARALLEL = True
RULE = ("one case = (template, sizes, constant, modulus, work wires, flags, layout, route), evaluated on every basis input of the "
        "domain; non-trivial = the documented function is not the identity on the domain")
ASSUMPTIONS = ["closed-form gate matrices of mc.refgates (self-tested)", "structural semantics of Adjoint / Controlled / integer Pow of a closed-form gate"]

TOL = 1e-9
LAYOUTS = ["seq", "work0", "mixed", "rev"]
_POOL = [2, "q", 0, "w", 7, "e", 1, "r", 9, "t", 3, "y", 11, "u", 4, "i", 13, "o", 5, "p", 6, "a", 8, "s", 10, "d", 12, "f"]


# ================================================================================================= layouts
def layout(regs, lay):
    """regs: [(name, size)] -> {name: [labels]}"""
    tot = sum(s for _, s in regs)
    out = {}
    if lay == "seq" or lay == "rev":
        c = 0
        for name, s in regs:
            out[name] = [(c + i) if lay == "seq" else (tot - 1 - c - i) for i in range(s)]
            c += s
        return out
    if lay == "work0":
        c = 0
        for name, s in sorted(regs, key=lambda r: 0 if r[0].startswith("work") else 1):
            out[name] = list(range(c, c + s))
            c += s
        return out
    if lay == "mixed":
        # round-robin: one wire of each register in turn takes the next label of the pool
        out = {name: [] for name, _ in regs}
        left = {name: s for name, s in regs}
        p = 0
        while any(left.values()):
            for name, _ in regs:
                if left[name]:
                    out[name].append(_POOL[p] if p < len(_POOL) else f"m{p}")
                    p += 1
                    left[name] -= 1
        return out
    raise ValueError(lay)


# ================================================================================================= polynomials
def _p0(x):
    return x + 3


def _p1(x, y):
    return x ** 2 + y


def _p2(x, y):
    return 3 * x * y + 2


def _p3(x, y):
    return x - y


def _p4(x, y, z):
    return x * y * z + x


POLY = {"x+3": (_p0, 1), "x^2+y": (_p1, 2), "3xy+2": (_p2, 2), "x-y": (_p3, 2), "xyz+x": (_p4, 3)}


def sgn(v, n):
    """n-bit pattern -> two's complement value"""
    return v - (1 << n) if n and (v >> (n - 1)) & 1 else v


# ================================================================================================= templates
class T:
    """regs(a) -> [(name, size)] (names starting with 'work' must start and end in |0>);  build(a, W) -> operator;
    domain(a) -> iterable of {reg: int};  f(a, v) -> {reg: int} changed registers;  variant(a) -> branch class;
    classify(a, v) -> class of an *input* (used to keep failure signatures narrow)."""
    fourier = ()

    @staticmethod
    def classify(a, v):
        return None

    @staticmethod
    def label_class(a, W):
        return ""


def _p2n(a, key="n"):
    return "pow2" if a["mod"] == 2 ** a[key] else "nonpow2"


class Adder(T):
    @staticmethod
    def regs(a):
        return [("x", a["n"]), ("work", a["ww"])]

    @staticmethod
    def build(a, W):
        import pennylane as qp

        return qp.Adder(a["k"], W["x"], a["mod"], W["work"])

    @staticmethod
    def domain(a):
        return [{"x": x} for x in range(a["mod"])]

    @staticmethod
    def f(a, v):
        return {"x": (v["x"] + a["k"]) % a["mod"]}

    variant = staticmethod(_p2n)


class PhaseAdder(Adder):
    fourier = ("x",)

    @staticmethod
    def build(a, W):
        import pennylane as qp

        return qp.PhaseAdder(a["k"], W["x"], a["mod"], W["work"])

    @staticmethod
    def domain(a):
        lim = a["mod"] if a["mod"] == 2 ** a["n"] else min(a["mod"], 2 ** (a["n"] - 1))
        return [{"x": x} for x in range(lim)]


class SemiAdder(T):
    @staticmethod
    def regs(a):
        return [("x", a["nx"]), ("y", a["ny"]), ("work", a["ww"])]

    @staticmethod
    def build(a, W):
        import pennylane as qp

        return qp.SemiAdder(W["x"], W["y"], W["work"] if a["ww"] else None)

    @staticmethod
    def domain(a):
        return [{"x": x, "y": y} for x in range(2 ** a["nx"]) for y in range(2 ** a["ny"])]

    @staticmethod
    def f(a, v):
        return {"y": (v["x"] + v["y"]) % 2 ** a["ny"]}

    @staticmethod
    def variant(a):
        return "dyn" if a["ww"] < a["ny"] - 1 else "static"


class OutAdder(T):
    @staticmethod
    def regs(a):
        return [("x", a["nx"]), ("y", a["ny"]), ("out", a["no"]), ("work", a["ww"])]

    @staticmethod
    def build(a, W):
        import pennylane as qp

        return qp.OutAdder(W["x"], W["y"], W["out"], a["mod"], W["work"])

    @staticmethod
    def domain(a):
        m = a["mod"]
        return [{"x": x, "y": y, "out": b} for x in range(min(m, 2 ** a["nx"])) for y in range(min(m, 2 ** a["ny"])) for b in range(m)]

    @staticmethod
    def f(a, v):
        return {"out": (v["out"] + v["x"] + v["y"]) % a["mod"]}

    @staticmethod
    def variant(a):
        return _p2n(a, "no")


class Multiplier(T):
    @staticmethod
    def regs(a):
        return [("x", a["n"]), ("work", a["ww"])]

    @staticmethod
    def build(a, W):
        import pennylane as qp

        return qp.Multiplier(a["k"], W["x"], a["mod"], W["work"])

    @staticmethod
    def domain(a):
        return [{"x": x} for x in range(a["mod"])]

    @staticmethod
    def f(a, v):
        return {"x": (v["x"] * a["k"]) % a["mod"]}

    variant = staticmethod(_p2n)


class OutMultiplier(T):
    @staticmethod
    def regs(a):
        return [("x", a["nx"]), ("y", a["ny"]), ("out", a["no"]), ("work", a["ww"])]

    @staticmethod
    def build(a, W):
        import pennylane as qp

        return qp.OutMultiplier(W["x"], W["y"], W["out"], a["mod"], W["work"], output_wires_zeroed=bool(a["z"]))

    @staticmethod
    def domain(a):
        m = a["mod"]
        zs = [0] if a["z"] else range(m)
        return [{"x": x, "y": y, "out": z} for x in range(min(m, 2 ** a["nx"])) for y in range(min(m, 2 ** a["ny"])) for z in zs]

    @staticmethod
    def f(a, v):
        return {"out": (v["out"] + v["x"] * v["y"]) % a["mod"]}

    @staticmethod
    def variant(a):
        return _p2n(a, "no") + (",zeroed" if a["z"] else "")


class SignedOutMultiplier(T):
    regs = OutMultiplier.regs

    @staticmethod
    def build(a, W):
        import pennylane as qp

        return qp.SignedOutMultiplier(W["x"], W["y"], W["out"], W["work"], output_wires_zeroed=bool(a["z"]))

    @staticmethod
    def domain(a):
        zs = [0] if a["z"] else range(2 ** a["no"])
        return [{"x": x, "y": y, "out": z} for x in range(2 ** a["nx"]) for y in range(2 ** a["ny"]) for z in zs]

    @staticmethod
    def f(a, v):
        return {"out": (v["out"] + sgn(v["x"], a["nx"]) * sgn(v["y"], a["ny"])) % 2 ** a["no"]}

    @staticmethod
    def variant(a):
        # inner work wires available to the controlled incrementers of the two's-complement steps
        wwi = a["ww"] if a["z"] else 2 + a["ww"] - (2 * a["no"] + 1)
        fallback = any(n >= 2 and (wwi - 2) + 1 < n for n in (a["nx"], a["ny"], a["no"] - 1))
        return ("zeroed" if a["z"] else "not-zeroed") + (",incrementer-fallback" if fallback else "")

    @staticmethod
    def classify(a, v):
        sx, sy = sgn(v["x"], a["nx"]), sgn(v["y"], a["ny"])
        if abs(sx) * abs(sy) >= 2 ** (a["no"] - 1) or (sx * sy == 0 and ((sx < 0) != (sy < 0))):
            return "sign-edge"  # |x||y| does not fit no-1 bits, or 0 * negative
        return "regular"


class ModExp(T):
    @staticmethod
    def regs(a):
        return [("x", a["nx"]), ("out", a["no"]), ("work", a["ww"])]

    @staticmethod
    def build(a, W):
        import pennylane as qp

        return qp.ModExp(W["x"], W["out"], a["base"], a["mod"], W["work"])

    @staticmethod
    def domain(a):
        m = a["mod"]
        return [{"x": x, "out": b} for x in range(min(m, 2 ** a["nx"])) for b in range(m)]

    @staticmethod
    def f(a, v):
        return {"out": (v["out"] * pow(a["base"], v["x"], a["mod"])) % a["mod"]}

    @staticmethod
    def variant(a):
        return _p2n(a, "no")


class OutSquare(T):
    @staticmethod
    def regs(a):
        return [("x", a["nx"]), ("out", a["no"]), ("work", a["ww"])]

    @staticmethod
    def build(a, W):
        import pennylane as qp

        return qp.OutSquare(W["x"], W["out"], W["work"], output_wires_zeroed=bool(a["z"]))

    @staticmethod
    def domain(a):
        ys = [0] if a["z"] else range(2 ** a["no"])
        return [{"x": x, "out": y} for x in range(2 ** a["nx"]) for y in ys]

    @staticmethod
    def f(a, v):
        return {"out": (v["out"] + v["x"] ** 2) % 2 ** a["no"]}

    @staticmethod
    def variant(a):
        return "zeroed" if a["z"] else "not-zeroed"


class SignedOutSquare(OutSquare):
    @staticmethod
    def build(a, W):
        import pennylane as qp

        return qp.SignedOutSquare(W["x"], W["out"], W["work"], output_wires_zeroed=bool(a["z"]))

    @staticmethod
    def f(a, v):
        return {"out": (v["out"] + sgn(v["x"], a["nx"]) ** 2) % 2 ** a["no"]}

    @staticmethod
    def variant(a):
        return ("zeroed" if a["z"] else "not-zeroed") + (",sign-bit-only" if a["nx"] == 1 else "")


class OutPoly(T):
    @staticmethod
    def regs(a):
        return [(f"x{i}", s) for i, s in enumerate(a["sizes"])] + [("out", a["no"]), ("work", a["ww"])]

    @staticmethod
    def build(a, W):
        import pennylane as qp

        fn = POLY[a["poly"]][0]
        return qp.OutPoly(fn, [W[f"x{i}"] for i in range(len(a["sizes"]))], W["out"], mod=a["mod"], work_wires=W["work"])

    @staticmethod
    def domain(a):
        import itertools

        m = a["mod"]
        rs = [range(min(m, 2 ** s)) for s in a["sizes"]]
        return [dict([(f"x{i}", x) for i, x in enumerate(xs)] + [("out", b)]) for xs in itertools.product(*rs) for b in range(m)]

    @staticmethod
    def f(a, v):
        fn = POLY[a["poly"]][0]
        return {"out": (v["out"] + fn(*[v[f"x{i}"] for i in range(len(a["sizes"]))])) % a["mod"]}

    @staticmethod
    def variant(a):
        fn, nvar = POLY[a["poly"]]
        return _p2n(a, "no") + (",const-term" if fn(*([0] * nvar)) % a["mod"] else "")

    @staticmethod
    def label_class(a, W):
        # the decomposition tests the truth value of a wire label: keep that class of layouts apart in signatures
        return ",first-work-label-0" if (W["work"] and W["work"][0] == 0) else ""


class IntegerComparator(T):
    @staticmethod
    def regs(a):
        return [("c", a["n"]), ("t", 1), ("work", a["ww"])]

    @staticmethod
    def build(a, W):
        import pennylane as qp

        return qp.IntegerComparator(a["value"], geq=bool(a["geq"]), wires=W["c"] + W["t"], work_wires=W["work"] if a["ww"] else None)

    @staticmethod
    def domain(a):
        return [{"c": c, "t": t} for c in range(2 ** a["n"]) for t in (0, 1)]

    @staticmethod
    def f(a, v):
        hit = (v["c"] >= a["value"]) if a["geq"] else (v["c"] < a["value"])
        return {"t": v["t"] ^ int(hit)}

    @staticmethod
    def variant(a):
        v, top = a["value"], 2 ** a["n"]
        cls = "v=0" if v == 0 else ("v<2^n" if v < top else ("v=2^n" if v == top else "v>2^n"))
        return ("geq," if a["geq"] else "lt,") + cls


class Incrementer(T):
    @staticmethod
    def regs(a):
        return [("x", a["n"]), ("work", a["ww"])]

    @staticmethod
    def build(a, W):
        import pennylane as qp

        return qp.Incrementer(W["x"], W["work"])

    @staticmethod
    def domain(a):
        return [{"x": x} for x in range(2 ** a["n"])]

    @staticmethod
    def f(a, v):
        return {"x": (v["x"] + 1) % 2 ** a["n"]}

    @staticmethod
    def variant(a):
        return "ladder" if a["ww"] + 1 >= a["n"] else "fallback"


class TemporaryAND(T):
    @staticmethod
    def regs(a):
        return [("c", 2), ("t", 1)]

    @staticmethod
    def build(a, W):
        import pennylane as qp

        op = qp.TemporaryAND(W["c"] + W["t"], control_values=tuple(a["cv"]))
        return qp.adjoint(op) if a["adj"] else op

    @staticmethod
    def _and(a, c):
        return int(((c >> 1) & 1) == a["cv"][0] and (c & 1) == a["cv"][1])

    @classmethod
    def domain(cls, a):
        return [{"c": c, "t": cls._and(a, c) if a["adj"] else 0} for c in range(4)]

    @classmethod
    def f(cls, a, v):
        return {"t": 0 if a["adj"] else cls._and(a, v["c"])}

    @staticmethod
    def variant(a):
        return "adjoint" if a["adj"] else "plain"


class QubitSum(T):
    @staticmethod
    def regs(a):
        return [("a", 1), ("b", 1), ("c", 1)]

    @staticmethod
    def build(a, W):
        import pennylane as qp

        return qp.QubitSum(wires=W["a"] + W["b"] + W["c"])

    @staticmethod
    def domain(a):
        return [{"a": x, "b": y, "c": z} for x in (0, 1) for y in (0, 1) for z in (0, 1)]

    @staticmethod
    def f(a, v):
        return {"c": v["a"] ^ v["b"] ^ v["c"]}

    @staticmethod
    def variant(a):
        return "-"


class QubitCarry(T):
    @staticmethod
    def regs(a):
        return [("a", 1), ("b", 1), ("c", 1), ("d", 1)]

    @staticmethod
    def build(a, W):
        import pennylane as qp

        return qp.QubitCarry(wires=W["a"] + W["b"] + W["c"] + W["d"])

    @staticmethod
    def domain(a):
        return [{"a": w, "b": x, "c": y, "d": z} for w in (0, 1) for x in (0, 1) for y in (0, 1) for z in (0, 1)]

    @staticmethod
    def f(a, v):
        A, B, C, D = v["a"], v["b"], v["c"], v["d"]
        return {"c": B ^ C, "d": (B & C) ^ D ^ ((B ^ C) & A)}

    @staticmethod
    def variant(a):
        return "-"


TEMPLATES = {c.__name__: c for c in (Adder, PhaseAdder, SemiAdder, OutAdder, Multiplier, OutMultiplier, SignedOutMultiplier, ModExp,
                                     OutSquare, SignedOutSquare, OutPoly, IntegerComparator, Incrementer, TemporaryAND, QubitSum, QubitCarry)}


# ================================================================================================= enumeration
def _ks(mod):
    """every residue, plus constants that need reduction (negative, = mod, > mod)"""
    return list(range(mod)) + [-1, mod, mod + 1]


DROPPED = []


def instances(tier):
    """[(template, args, [layouts])], simplest first.  Complete for the declared bound."""
    del DROPPED[:]
    thorough = tier == "thorough"
    out = []
    ALL = LAYOUTS
    SEQ = ["seq"]

    cap = 2 ** (21 if thorough else 18)

    def add(t, a, lays):
        Tm = TEMPLATES[t]
        n = sum(sz for _, sz in Tm.regs(a))
        if (2 ** n) * len(Tm.domain(a)) > cap:  # bound on the simulated tensor (state entries x inputs)
            DROPPED.append((t, a))
            return
        out.append((t, a, lays))

    # --- Adder / PhaseAdder
    for n in range(1, 5 if thorough else 4):
        for mod in range(2, 2 ** n + 1):
            wws = [0, 2] if mod == 2 ** n else [2]
            for ww in wws:
                for k in _ks(mod):
                    lays = ALL if (k == 1 or (thorough and k == mod - 1)) else SEQ
                    add("Adder", {"n": n, "k": k, "mod": mod, "ww": ww}, lays)
            if mod == 2 ** n or mod <= 2 ** (n - 1):
                for ww in ([0, 1] if mod == 2 ** n else [1]):
                    for k in _ks(mod):
                        lays = ALL if (k == 1 or (thorough and k == mod - 1)) else SEQ
                        add("PhaseAdder", {"n": n, "k": k, "mod": mod, "ww": ww}, lays)
    # --- SemiAdder
    N = 4 if thorough else 3
    for nx in range(1, N + 1):
        for ny in range(1, N + 1):
            for ww in sorted({0, 1, max(ny - 1, 0), ny}):
                add("SemiAdder", {"nx": nx, "ny": ny, "ww": ww}, ALL if (thorough or max(nx, ny) <= 2) else ["seq", "mixed"])
    # --- OutAdder
    N = 3 if thorough else 2
    for no in range(1, N + 1):
        for nx in range(1, N + 1):
            for ny in range(1, N + 1):
                for mod in range(2, 2 ** no + 1):
                    for ww in ([0, 2] if mod == 2 ** no else [2]):
                        lays = ALL if (nx == ny and (mod in (2 ** no, 2 ** no - 1))) else SEQ
                        add("OutAdder", {"nx": nx, "ny": ny, "no": no, "mod": mod, "ww": ww}, lays)
    if not thorough:
        for mod in (5, 7, 8):
            add("OutAdder", {"nx": 3, "ny": 2, "no": 3, "mod": mod, "ww": 0 if mod == 8 else 2}, SEQ)
    # --- Multiplier
    for n in range(1, 4 if thorough else 4):
        for mod in range(2, 2 ** n + 1):
            for ww in ([n, n + 1] if mod == 2 ** n else [n + 2]):
                ks = [k for k in range(1, mod) if math.gcd(k, mod) == 1] + [mod + 1, -1]
                for k in ks:
                    lays = ALL if k in (ks[-3], 1) and (n <= 2 or thorough) else SEQ
                    add("Multiplier", {"n": n, "k": k, "mod": mod, "ww": ww}, lays)
    # --- OutMultiplier
    sizes = [(1, 1, 1), (1, 1, 2), (2, 1, 2), (1, 2, 2), (2, 2, 2), (2, 2, 1)]
    if thorough:
        sizes += [(2, 2, 3), (3, 2, 3), (2, 3, 3), (3, 3, 3), (1, 3, 2), (3, 1, 3)]
    for nx, ny, no in sizes:
        for mod in range(2, 2 ** no + 1):
            for z in (0, 1):
                if mod == 2 ** no:
                    wws = sorted({0, no, no + 1, 2 * no - 1, 2 * no})
                else:
                    wws = [2]
                for ww in wws:
                    lays = ALL if (mod in (2 ** no, 2 ** no - 1) and (nx, ny, no) in ((2, 2, 2), (2, 1, 2))) else SEQ
                    add("OutMultiplier", {"nx": nx, "ny": ny, "no": no, "mod": mod, "ww": ww, "z": z}, lays)
    # --- SignedOutMultiplier
    sizes = [(1, 1, 2), (2, 1, 2), (2, 2, 2), (2, 2, 3)]
    if thorough:
        sizes += [(2, 2, 4), (3, 2, 3), (3, 2, 4), (3, 3, 3), (2, 3, 5)]
    for nx, ny, no in sizes:
        for z in (1, 0):
            wws = [2, no + 2] if z else ([2 * no + 1, 2 * no + 2] if thorough else [2 * no + 1])
            if not z and no > (3 if thorough else 2):
                continue
            for ww in wws:
                add("SignedOutMultiplier", {"nx": nx, "ny": ny, "no": no, "ww": ww, "z": z}, ALL if (nx, ny, no) == (2, 2, 2) else SEQ)
    # --- ModExp
    for nx in (1, 2):
        for no in range(1, 4 if thorough else 3):
            for mod in range(2, 2 ** no + 1):
                ww = no if mod == 2 ** no else no + 2
                for base in [b for b in range(1, mod) if math.gcd(b, mod) == 1] + [mod + 1]:
                    lays = ALL if (base == mod - 1 and nx == 2 and no == 2) else SEQ
                    add("ModExp", {"nx": nx, "no": no, "base": base, "mod": mod, "ww": ww}, lays)
    # --- OutSquare / SignedOutSquare
    NX, NO = (3, 5) if thorough else (2, 3)
    for nx in range(1, NX + 1):
        for no in range(1, NO + 1):
            for z in (0, 1):
                wmin = min(nx + 1, no) if z else no
                for ww in (wmin, wmin + 1, wmin + 2):
                    add("OutSquare", {"nx": nx, "no": no, "ww": ww, "z": z}, ALL if (nx, no) in ((2, 3), (2, 2)) else SEQ)
                wmin = min(nx, no) if z else no
                for ww in (wmin, wmin + 1, wmin + 2):
                    add("SignedOutSquare", {"nx": nx, "no": no, "ww": ww, "z": z}, ALL if (nx, no) in ((2, 3), (2, 2)) else SEQ)
    # --- OutPoly
    for poly, (_, nvar) in POLY.items():
        if nvar == 3 and not thorough:
            size_menu = [[1, 1, 1]]
        elif nvar == 3:
            size_menu = [[1, 1, 1], [2, 1, 1]]
        elif nvar == 1:
            size_menu = [[1], [2], [3]]
        else:
            size_menu = [[1, 1], [2, 1], [1, 2], [2, 2]]
        for sizes_ in size_menu:
            for no in (2, 3):
                if no == 3 and not thorough and sum(sizes_) > 3:
                    continue
                mods = range(2, 2 ** no + 1) if (thorough or no == 2) else (5, 7, 8)
                for mod in mods:
                    ww = 0 if mod == 2 ** no else 2
                    lays = ALL if (sizes_ in ([2], [2, 1]) and mod in (3, 4, 7, 8)) else SEQ
                    add("OutPoly", {"poly": poly, "sizes": sizes_, "no": no, "mod": mod, "ww": ww}, lays)
    # --- IntegerComparator
    for n in range(1, 5 if thorough else 4):
        for value in range(0, 2 ** n + 2):
            for geq in (1, 0):
                for ww in (0, 1):
                    add("IntegerComparator", {"n": n, "value": value, "geq": geq, "ww": ww}, ALL if value in (1, 2 ** n - 1) else SEQ)
    # --- Incrementer
    for n in range(1, 6 if thorough else 5):
        for ww in range(0, n + 1):
            add("Incrementer", {"n": n, "ww": ww}, ALL)
    # --- TemporaryAND / QubitSum / QubitCarry
    for cv in ([1, 1], [0, 1], [1, 0], [0, 0]):
        for adj in (0, 1):
            add("TemporaryAND", {"cv": cv, "adj": adj}, ALL)
    add("QubitSum", {}, ALL)
    add("QubitCarry", {}, ALL)
    return out


MATRIX_MAX_WIRES = 6


def routes_for(t, a):
    """Route names of one instance (needs PennyLane; called in the driver)."""
    from mc import x_tmpl as X

    Tm = TEMPLATES[t]
    regs = Tm.regs(a)
    W = layout(regs, "seq")
    op = Tm.build(a, W)
    nw = sum(s for _, s in regs)
    rs = []
    if nw <= MATRIX_MAX_WIRES:
        rs.append("matrix")
    rs.append("device")
    if X.overrides_decomposition(op):
        rs.append("dec")
    for name, _ in X.rules(op):
        rs.append(("mcm:" if name == "_adjoint_temporary_and" else "rule:") + name)
    return rs


# ================================================================================================= evaluation
def _columns(Tm, a, regs, vals):
    """one column per assignment in vals: kron over registers (Fourier registers hold DFT columns)"""
    from mc import x_tmpl as X

    C = len(vals)
    cols = np.ones((1, C), dtype=complex)
    for name, size in regs:
        if size == 0:
            continue
        d = 2 ** size
        if name in Tm.fourier:
            F = X.dft(size)
            blk = np.stack([F[:, v.get(name, 0)] for v in vals], axis=1)
        else:
            blk = np.zeros((d, C), dtype=complex)
            blk[[v.get(name, 0) for v in vals], np.arange(C)] = 1
        cols = (cols[:, None, :] * blk[None, :, :]).reshape(-1, C)
    return cols


def _decode(idx, regs):
    out = {}
    shift = sum(s for _, s in regs)
    for name, s in regs:
        shift -= s
        out[name] = (idx >> shift) & ((1 << s) - 1)
    return out


def _classes(Tm, a, dom, idxs):
    cl = sorted({c for c in (Tm.classify(a, dom[int(i)]) for i in idxs) if c})
    return ("{" + ",".join(cl) + "}") if cl else ""


def _judge(sig0, Tm, a, regs, dom, exp_vals, E, O, extra):
    """Compare observed columns O with expected E (both D x C)."""
    from mc import x_tmpl as X

    amps = X.overlaps(E, O)
    norms = np.sqrt(np.sum(np.abs(O) ** 2, axis=0))
    if np.any(np.abs(norms - 1) > 1e-7):
        c = int(np.argmax(np.abs(norms - 1)))
        return bad(f"{sig0}:norm", float(norms[c]), 1.0, input=dom[c], **extra)
    badc = np.nonzero(np.abs(np.abs(amps) - 1) > 1e-7)[0]
    if badc.size:
        c = int(badc[0])
        col = O[:, c]
        j = int(np.argmax(np.abs(col)))
        if Tm.fourier:
            kind = "fourier-mismatch"
            obs = {"overlap": [float(amps[c].real), float(amps[c].imag)]}
        else:
            kinds = set()
            for cc in badc:
                cl = O[:, int(cc)]
                jj = int(np.argmax(np.abs(cl)))
                ob = _decode(jj, regs)
                if abs(cl[jj]) ** 2 < 1 - 1e-6:
                    kinds.add("superposition")
                elif any(ob[n] != 0 for n, _ in regs if n.startswith("work")) and all(ob[n] == exp_vals[int(cc)][n] for n, _ in regs if not n.startswith("work")):
                    kinds.add("work-not-restored")
                else:
                    kinds.add("wrong-value")
            kind = "+".join(sorted(kinds))
            obs = _decode(j, regs)
            obs["weight"] = float(abs(col[j]) ** 2)
        kind += _classes(Tm, a, dom, badc)
        return bad(f"{sig0}:{kind}", obs, exp_vals[c], input=dom[c], n_bad_inputs=int(badc.size), n_inputs=len(dom), **extra)
    if np.max(np.abs(amps - amps[0])) > 1e-7:
        c = int(np.argmax(np.abs(amps - amps[0])))
        return bad(f"{sig0}:relative-phase", [float(amps[c].real), float(amps[c].imag)], [float(amps[0].real), float(amps[0].imag)],
                   input=dom[c], **extra)
    return None


HARNESS = (ImportError, MemoryError, OSError, KeyboardInterrupt, SystemExit)


def check(spec):
    """One (instance, route): every exception raised by the implementation is a failure of that route with a narrow signature."""
    from mc import x_tmpl as X

    t, a, lay, route = spec["t"], spec["a"], spec["lay"], spec["route"]
    Tm = TEMPLATES[t]
    regs = Tm.regs(a)
    W = layout(regs, lay)
    variant = Tm.variant(a) + Tm.label_class(a, W)
    stage = "build"
    try:
        op = Tm.build(a, W)
        stage = route
        return _check(spec, Tm, regs, W, op, variant)
    except X.Unsupported:
        raise
    except HARNESS as e:
        if not (isinstance(e, ImportError) and "autoray" in str(e)):
            raise
        # autoray reports a missing backend function as ImportError: that is the implementation failing, not the harness
        return bad(f"{t}[{variant}]:{stage}:exception:ImportError(autoray)", f"{e}"[:300], "no exception")
    except Exception as e:  # noqa: BLE001
        import traceback

        return bad(f"{t}[{variant}]:{stage}:exception:{type(e).__name__}", f"{type(e).__name__}: {e}"[:300], "no exception",
                   traceback=traceback.format_exc()[-1500:])


def _check(spec, Tm, regs, W, op, variant):
    import pennylane as qp
    from mc import x_tmpl as X

    t, a, lay, route = spec["t"], spec["a"], spec["lay"], spec["route"]
    order = [w for name, _ in regs for w in W[name]]
    n = len(order)
    dom = list(Tm.domain(a))
    if not dom:
        return skip("empty domain")
    for v in dom:
        for name, _ in regs:
            v.setdefault(name, 0)
    exp_vals = []
    for v in dom:
        e = dict(v)
        e.update(Tm.f(a, v))
        exp_vals.append(e)
    cols = _columns(Tm, a, regs, dom)
    E = _columns(Tm, a, regs, exp_vals)
    perm = [tuple(e[nm] for nm, _ in regs) for e in exp_vals]
    fp = hashlib.sha1(repr(perm).encode()).hexdigest()[:10]
    nontrivial = any(e != v for e, v in zip(exp_vals, dom))
    extra = {"op": repr(op)[:200]}
    sigbase = f"{t}[{variant}]:{route}"

    if route == "matrix":
        try:
            M = np.asarray(qp.matrix(op, wire_order=order), dtype=complex)
        except qp.exceptions.TransformError as e:
            if "DynamicWire" in str(e):
                # qp.matrix does not resolve dynamically allocated work wires: no matrix to compare (reported, not judged)
                return skip("qp.matrix: dynamically allocated wires not resolvable")
            raise
        if M.shape != (2 ** n, 2 ** n):
            return bad(f"{sigbase}:shape", list(M.shape), [2 ** n, 2 ** n], **extra)
        O = M @ cols
        v = _judge(sigbase, Tm, a, regs, dom, exp_vals, E, O, extra)
        return v or ok(outcome=[t, variant, "matrix", fp], nontrivial=nontrivial)

    if route == "device":
        C = len(dom)
        amp = np.arange(1, C + 1, dtype=float)
        amp = amp / np.linalg.norm(amp)
        psi = cols @ amp
        tape = qp.tape.QuantumScript([qp.StatePrep(psi, wires=order), op], [qp.state()])
        try:
            dev = qp.device("default.qubit", wires=order)
            res = np.asarray(qp.execute([tape], dev)[0], dtype=complex).reshape(-1)
        except qp.exceptions.AllocationError:
            # the decomposition allocates work wires dynamically: offer spare device wires, they have to come back as |0>
            spare = [f"_spare{i}" for i in range(6)]
            dev = qp.device("default.qubit", wires=order + spare)
            res = np.asarray(qp.execute([tape], dev)[0], dtype=complex).reshape(2 ** n, -1)
            if float(np.sum(np.abs(res[:, 1:]) ** 2)) > 1e-12:
                return bad(f"{sigbase}:work-not-restored", "spare device wires not |0> after the template", "|0>", **extra)
            res = res[:, 0]
        want = E @ amp
        ov = np.vdot(want, res)
        if abs(abs(ov) - 1) > 1e-7 or np.max(np.abs(res - ov * want)) > 1e-7:
            # per input: the amplitude found at the expected place (a_c are pairwise distinct)
            got = np.conj(E).T @ res
            ph = ov / abs(ov) if abs(ov) > 1e-6 else 1.0
            badc = np.nonzero(np.abs(got - ph * amp) > 1e-7)[0]
            if badc.size == 0:
                return bad(f"{sigbase}:state-mismatch", {"overlap": float(abs(ov))}, {"overlap": 1.0}, **extra)
            c = int(badc[0])
            kind = "state-mismatch" + _classes(Tm, a, dom, badc)
            return bad(f"{sigbase}:{kind}", {"overlap": float(abs(ov)), "amp_at_expected": float(abs(got[c]))},
                       {"overlap": 1.0, "amp_at_expected": float(amp[c])}, input=dom[c], expected_output=exp_vals[c],
                       n_bad_inputs=int(badc.size), n_inputs=len(dom), **extra)
        return ok(outcome=[t, variant, "device", fp], nontrivial=nontrivial)

    if route.startswith("mcm:"):
        return _check_mcm(spec, op, order, regs, dom, exp_vals, cols, E, sigbase, fp, nontrivial, extra)

    # decomposition routes
    if route == "dec":
        queue = op.decomposition()
    else:
        name = route.split(":", 1)[1]
        rule = dict(X.rules(op)).get(name)
        if rule is None:
            return bad(f"{sigbase}:rule-not-applicable", [r for r, _ in X.rules(op)], name, **extra)
        queue = X.emit(op, rule)
    sim = X.Sim(order, cols)
    try:
        X.run(sim, queue)
    except X.ExpansionProblem as e:
        return bad(f"{sigbase}:{e.kind}", e.detail, "well-formed decomposition", **extra)
    O, leaked = sim.columns()
    extra["gates"] = sim.gates
    if leaked > 1e-12:
        return bad(f"{sigbase}:work-not-restored", f"dynamic work wires hold weight {leaked:.3g} outside |0>", "|0>", **extra)
    v = _judge(sigbase, Tm, a, regs, dom, exp_vals, E, O, extra)
    if v:
        return v
    ph = X.overlaps(E, O)[0]
    return ok(outcome=[t, variant, "dec", fp, sorted(sim.leaf_names)[:12], sim.allocs, bool(abs(ph - 1) < 1e-7)], nontrivial=nontrivial)


def _check_mcm(spec, op, order, regs, dom, exp_vals, cols, E, sigbase, fp, nontrivial, extra):
    """Rules containing mid-circuit measurements: every surviving branch must carry the expected state (basis inputs and
    one weighted superposition of the whole domain)."""
    from mc import refsim as RS
    from mc import x_tmpl as X

    name = spec["route"].split(":", 1)[1]
    rule = dict(X.rules(op)).get(name)
    if rule is None:
        return bad(f"{sigbase}:rule-not-applicable", [r for r, _ in X.rules(op)], name, **extra)
    queue = X.emit(op, rule)
    C = len(dom)
    amp = np.arange(1, C + 1, dtype=float)
    amp = amp / np.linalg.norm(amp)
    inputs = [(cols[:, c], E[:, c], dom[c]) for c in range(C)] + [(cols @ amp, E @ amp, "superposition")]
    nb = 0
    for vin, vexp, label in inputs:
        branches = RS.run_branches(queue, order, init=vin)
        tot = 0.0
        for hist, st in branches:
            v = st.reshape(-1)
            p = float(np.vdot(v, v).real)
            tot += p
            if p < 1e-14:
                continue
            nb += 1
            ov = np.vdot(vexp, v)
            if abs(abs(ov) ** 2 - p) > 1e-9:
                return bad(f"{sigbase}:branch-state", {"branch": sorted(hist.values()), "fidelity": float(abs(ov) ** 2 / p)}, 1.0,
                           input=label, **extra)
        if abs(tot - 1) > 1e-9:
            return bad(f"{sigbase}:branch-norm", tot, 1.0, input=label, **extra)
    return ok(outcome=[spec["t"], "mcm", fp, nb], nontrivial=nontrivial)


# ================================================================================================= driver
def run(ctx):
    inst = instances(ctx.tier)
    specs = []
    per_t = {}
    route_cache = {}
    for t, a, lays in inst:
        key = (t, repr(sorted(a.items())))
        rs = route_cache.get(key)
        if rs is None:
            rs = route_cache[key] = routes_for(t, a)
        for lay in lays:
            for r in rs:
                specs.append({"t": t, "a": a, "lay": lay, "route": r})
                per_t[t] = per_t.get(t, 0) + 1
    if ctx.only:
        specs = [s for s in specs if s["t"] == ctx.only or s["route"].startswith(ctx.only)]
    # cheap first, heavy instances interleaved across chunks
    ctx.enumerate(specs, fn="check", chunk=4, axis="instance-route")
    ctx.coverage["alphabet"] = {"templates": sorted(TEMPLATES), "layouts": LAYOUTS, "polynomials": sorted(POLY),
                                "routes": ["matrix (<= %d wires)" % MATRIX_MAX_WIRES, "device", "dec", "rule:<every applicable rule>", "mcm:<rule>"]}
    ctx.coverage["bound"] = {"register_bits": "1-3 (thorough 1-4)", "moduli": "2..2^n (all)", "constants": "all residues + {-1, mod, mod+1}",
                             "inputs": "every basis input of the documented domain", "instances": len(inst),
                             "max_tensor_entries": 2 ** (18 if ctx.quick else 21), "instances_over_tensor_bound_not_run": len(DROPPED)}
    ctx.coverage["specs_per_template"] = per_t
