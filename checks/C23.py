"""C23 — Compile pipelines compose transforms and route results correctly (DESIGN §5.4).

Part 1 (routing, E2): all pipelines of length <= 3 over 7 synthetic transforms (fan-out 0,1,2,3 and three tape-dependent ones, order-sensitive
injective post-processing) x batches of 0-3 distinguishable tapes; "execution" = identity labelling, so routing
errors cannot cancel.  Oracle = hand-composition, one transform at a time, by recursion (no slices).

Part 2 (list API, E3): explicit-state BFS over edit histories of the real CompilePipeline against a plain
Python list + marker map ("a marker keeps its place between the same two neighbours").
"""
import itertools

from mc.engine import ok, bad, skip
from mc.explore import words, bfs

PROPERTY = "C23"
LEVEL = "model_checking"
TECHNIQUE = "explicit-state BFS over pipeline edit histories vs list+marker model; exhaustive pipeline-word enumeration for result routing"
LEVEL_TEXT = ("Every edit history up to depth 3 (thorough 4) over append/insert/pop/remove/+/+=/radd/*/slice/markers with all in-range, "
              "negative and out-of-range indices is replayed on the real CompilePipeline and compared state-by-state with a list+marker "
              "model; every pipeline word of length <=3 over 7 fan-out transforms (constant and tape-dependent fan-out) x batches of 0-3 tapes is compared with hand composition.")
LEVEL_NOTE = ("Reference = Python list of transform names + marker map; ambiguous marker placement (insert exactly at a marker, slice "
              "boundary) accepts either side. Classical cotransforms / QNode application of pipelines are not explored.")
DESIGN_REF = "5.4 C23"
PARALLEL = True
RULE = ("routing: all words over the synthetic transform alphabet x batch sizes; list API: BFS, state = (transform names, markers); "
        "non-trivial = fan-out != 1 somewhere / history touches a marker")

# --------------------------------------------------------------------------------------------- part 1: routing
FAN = {"k0": 0, "k1": 1, "k2": 2, "k3": 3, "d": None, "v": None, "u": None}
# tape-dependent fan-out: d drops odd-tagged tapes (0/1); v: 2 copies of even-tagged tapes, 0 of odd ones; u: tag mod 3 copies
_T = {}


def _transforms():
    if _T:
        return _T
    import pennylane as qp

    def make(name):
        def tf(tape):
            tag = float(tape.operations[-1].data[0]) if tape.operations else 0.0
            if name == "d":
                k = 0 if int(round(tag)) % 2 else 1
            elif name == "v":
                k = 0 if int(round(tag)) % 2 else 2
            elif name == "u":
                k = int(round(tag)) % 3
            else:
                k = FAN[name]
            base = (sum(ord(c) for c in name) % 17 + 1)
            new = [tape.copy(operations=tape.operations + [qp.RX(tag * 10.0 + base + 0.25 * j, wires=0)]) for j in range(k)]

            def post(res, name=name):
                return (name, tuple(res))

            return new, post

        tf.__name__ = "syn_" + name
        return qp.transform(tf)

    for n in FAN:
        _T[n] = make(n)
    return _T


def _execute(tape):
    return tuple(round(float(op.data[0]), 4) for op in tape.operations)


def _ref(tape, names):
    """Hand composition: apply the first transform to this one tape, recurse on each produced tape."""
    if not names:
        return _execute(tape)
    T = _transforms()
    new, fn = T[names[0]](tape)
    return fn(tuple(_ref(t, names[1:]) for t in new))


def check_route(spec):
    import pennylane as qp

    T = _transforms()
    names, nb = spec["pipe"], spec["batch"]
    tapes = tuple(qp.tape.QuantumScript([qp.RX(float(i + 1), wires=0)], [qp.expval(qp.Z(0))]) for i in range(nb))
    forms = spec["form"]
    if forms == "ctor":
        pipe = qp.CompilePipeline(*[T[n] for n in names])
    elif forms == "iadd":
        pipe = qp.CompilePipeline()
        for n in names:
            pipe += T[n]
    else:  # nested: pipeline of pipelines
        pipe = qp.CompilePipeline(qp.CompilePipeline(*[T[n] for n in names[:1]]), *[T[n] for n in names[1:]])
    out_tapes, post = pipe(tapes)
    got = post(tuple(_execute(t) for t in out_tapes))
    exp = tuple(_ref(t, names) for t in tapes)
    if not names:
        exp = tuple(_execute(t) for t in tapes)
    if tuple(got) != exp:
        return bad("routing:" + ("empty-batch" if nb == 0 else "mismatch"), got, exp)
    # single tape (not a batch) must behave as a batch of one
    if nb == 1 and names:  # (an empty pipeline hands back its input unchanged; not part of the property)
        o2, p2 = pipe(tapes[0])
        g2 = p2(tuple(_execute(t) for t in o2))
        if tuple(g2) != exp:
            return bad("routing:single-tape", g2, exp)
    nontriv = any(FAN[n] != 1 for n in names) and nb > 0  # FAN[n] is None for tape-dependent fan-out
    return ok(outcome=[len(out_tapes), len(names), nb], nontrivial=nontriv)


# --------------------------------------------------------------------------------------------- part 2: list API
LABELS = ["m", "n"]
KIND = {"a": "plain", "b": "plain", "e": "expand", "f": "final", "x": "plain"}
_L = {}


def _list_transforms():
    if _L:
        return _L
    import pennylane as qp

    def mk(name, **kw):
        def tf(tape):
            return (tape,), lambda r: r[0]

        tf.__name__ = "t_" + name
        return tf

    x = mk("x")
    _L["a"] = qp.transform(mk("a"))
    _L["b"] = qp.transform(mk("b"))
    _L["e"] = qp.transform(mk("e"), expand_transform=x)
    _L["f"] = qp.transform(mk("f"), final_transform=True)
    return _L


def _names(pipe):
    out = []
    for t in pipe:
        out.append(t.tape_transform.__name__[2:])
    return out


class Model:
    """Reference: list of names + markers.  markers: label -> set of acceptable levels (ambiguity)."""

    def __init__(self, items=None, markers=None):
        self.items = list(items or [])
        self.markers = dict(markers or {})

    def copy(self):
        return Model(self.items, self.markers)

    def has_final(self):
        return "f" in self.items


def _expanded(t):
    return ["x", "e"] if t == "e" else [t]


def model_step(m, ev):
    """Returns (new model, expected_exception_name or None, ambiguous: {label: set(levels)})."""
    m = m.copy()
    amb = {}
    kind = ev[0]
    n = len(m.items)
    if kind in ("append", "iadd", "add"):
        t = ev[1]
        if t == "f" and m.has_final():
            return None, "TransformError", amb
        m.items += _expanded(t)
        return m, None, amb
    if kind == "radd":
        t = ev[1]
        if t == "f" and m.has_final():
            return None, "TransformError", amb
        k = len(_expanded(t))
        m.items = _expanded(t) + m.items
        for lab, v in list(m.markers.items()):
            if v == 0:
                amb[lab] = {0, k}
            m.markers[lab] = v + k
        return m, None, amb
    if kind == "addpipe":
        # p + CompilePipeline(a, b) carrying marker 'n' at level 1 (if 'n' not already used)
        other = ["a", "b"]
        if "n" not in m.markers:
            m.markers["n"] = n + 1
        m.items += other
        return m, None, amb
    if kind == "insert":
        i, t = ev[1], ev[2]
        if t == "f" and n > 0:
            return None, "TransformError", amb
        q = max(0, min(n, i if i >= 0 else n + i))
        new = _expanded(t)
        k = len(new)
        m.items[q:q] = new
        for lab, v in list(m.markers.items()):
            if v > q:
                m.markers[lab] = v + k
            elif v == q:
                amb[lab] = {v, v + k}
        return m, None, amb
    if kind == "pop":
        i = ev[1]
        if not (-n <= i < n):
            return None, "IndexError", amb
        q = i if i >= 0 else n + i
        removed = m.items[q]
        positions = [q]
        if removed == "e" and q > 0 and m.items[q - 1] == "x":
            positions.append(q - 1)
        for pos in positions:  # descending
            del m.items[pos]
            for lab, v in list(m.markers.items()):
                if v > pos:
                    m.markers[lab] = v - 1
        return m, None, amb
    if kind == "remove":
        t = ev[1]
        i = len(m.items) - 1
        while i >= 0:
            if m.items[i] == t:
                positions = [i]
                if t == "e" and i > 0 and m.items[i - 1] == "x":
                    positions.append(i - 1)
                for pos in positions:
                    del m.items[pos]
                    for lab, v in list(m.markers.items()):
                        if v > pos:
                            m.markers[lab] = v - 1
                i -= len(positions) - 1
            i -= 1
        return m, None, amb
    if kind == "mul":
        k = ev[1]
        if k < 0:
            return None, "ValueError", amb
        if m.has_final():
            return None, "TransformError", amb
        if k == 0:
            # nothing is left for a marker to sit next to: either dropped or clamped into range
            for lab in list(m.markers):
                amb[lab] = {None, 0} if m.markers[lab] > 0 else {None, 0}
            m.items = []
            m.markers = {lab: 0 for lab in m.markers}
            return m, None, amb
        m.items = m.items * k
        return m, None, amb
    if kind == "slice":
        i, j = ev[1], ev[2]
        start, stop, _ = slice(i, j).indices(n)
        stop = max(stop, start)
        new_markers = {}
        for lab, v in m.markers.items():
            if start < v < stop:
                new_markers[lab] = v - start
            elif v == start or v == stop:  # boundary: kept or dropped, both defensible
                new_markers[lab] = v - start
                amb[lab] = {None, v - start}
        m.items = m.items[start:stop] if stop > start else []
        m.markers = new_markers
        return m, None, amb
    if kind == "marker":
        lab, lvl = ev[1], ev[2]
        if lab in m.markers:
            return None, "ValueError", amb
        if lvl is None:
            lvl = n
        elif lvl < 0 or lvl > n:
            return None, "ValueError", amb
        m.markers[lab] = lvl
        return m, None, amb
    if kind == "rmmarker":
        lab = ev[1]
        if lab not in m.markers:
            return None, "ValueError", amb
        del m.markers[lab]
        return m, None, amb
    raise AssertionError(ev)


def impl_step(pipe, ev):
    """Apply the event to the real pipeline; returns the (possibly new) pipeline."""
    import pennylane as qp

    L = _list_transforms()
    kind = ev[0]
    if kind == "append":
        pipe.append(L[ev[1]])
    elif kind == "iadd":
        pipe += L[ev[1]]
    elif kind == "add":
        pipe = pipe + L[ev[1]]
    elif kind == "radd":
        pipe = L[ev[1]] + pipe
    elif kind == "addpipe":
        other = qp.CompilePipeline(L["a"], L["b"])
        if "n" not in pipe.markers:
            other.add_marker("n", 1)
        pipe = pipe + other
    elif kind == "insert":
        pipe.insert(ev[1], L[ev[2]])
    elif kind == "pop":
        pipe.pop(ev[1])
    elif kind == "remove":
        pipe.remove(L[ev[1]])
    elif kind == "mul":
        pipe = pipe * ev[1]
    elif kind == "slice":
        pipe = pipe[ev[1]:ev[2]]
    elif kind == "marker":
        pipe.add_marker(ev[1], ev[2])
    elif kind == "rmmarker":
        pipe.remove_marker(ev[1])
    else:
        raise AssertionError(ev)
    return pipe


def _snapshot(pipe):
    return _names(pipe), {k: pipe.get_marker_level(k) for k in pipe.markers}


def replay_history(hist):
    """Replay a history on a fresh real pipeline and on the model, comparing after every event.
    Returns (state_key or None, violation or None)."""
    import pennylane as qp

    pipe = qp.CompilePipeline()
    model = Model()
    for step, ev in enumerate(hist):
        before = _snapshot(pipe)
        m2, exp_exc, amb = model_step(model, ev)
        try:
            pipe2 = impl_step(pipe, ev)
            raised = None
        except Exception as e:  # noqa
            raised = type(e).__name__
            pipe2 = pipe
        evname = ev[0]
        if exp_exc is not None:
            if raised != exp_exc:
                return None, bad(f"list:{evname}:missing-{exp_exc}", raised, exp_exc, history=hist[:step + 1])
            after = _snapshot(pipe)
            if after != before:
                return None, bad(f"list:{evname}:state-changed-by-rejected-operation", after, before, history=hist[:step + 1])
            continue
        if raised is not None:
            return None, bad(f"list:{evname}:unexpected-{raised}", raised, "no exception", history=hist[:step + 1])
        names, markers = _snapshot(pipe2)
        if names != m2.items:
            return None, bad(f"list:{evname}:content", names, m2.items, history=hist[:step + 1])
        for lab, lvl in markers.items():
            if lvl is None or not (0 <= lvl <= len(names)):
                return None, bad(f"list:{evname}:marker-out-of-range", {lab: lvl, "len": len(names)}, "0 <= level <= len", history=hist[:step + 1])
        # marker comparison with ambiguity: adopt the implementation's choice when acceptable
        for lab in set(m2.markers) | set(markers):
            acceptable = amb.get(lab, {m2.markers.get(lab)})
            got = markers.get(lab)
            if got not in acceptable:
                sub = "negative-index" if (evname == "insert" and ev[1] < 0) else ("expand" if (len(ev) > 1 and ev[-1] == "e") else "plain")
                return None, bad(f"list:{evname}:marker-drift:{sub}", {lab: got}, {lab: sorted(acceptable, key=repr)}, history=hist[:step + 1])
            if got is None:
                m2.markers.pop(lab, None)
            else:
                m2.markers[lab] = got
        pipe, model = pipe2, m2
    return (tuple(model.items), tuple(sorted(model.markers.items()))), None


def events_for(items, markers, max_len):
    n = len(items)
    evs = []
    for t in ("a", "b", "e", "f"):
        if n + len(_expanded(t)) <= max_len:
            evs.append(["append", t])
            evs.append(["iadd", t])
            evs.append(["add", t])
            evs.append(["radd", t])
            for i in range(-n - 1, n + 2):
                evs.append(["insert", i, t])
    if n + 2 <= max_len:
        evs.append(["addpipe"])
    for i in range(-n - 1, n + 1):
        evs.append(["pop", i])
    for t in ("a", "e", "f"):
        evs.append(["remove", t])
    for k in (-1, 0, 1, 2):
        if n * max(k, 1) <= max_len:
            evs.append(["mul", k])
    for i in range(0, n + 1):
        for j in range(i, n + 1):
            evs.append(["slice", i, j])
    evs.append(["slice", -1, None])
    evs.append(["slice", None, -1])
    for lab in LABELS:
        for lvl in [None] + list(range(0, n + 2)):
            evs.append(["marker", lab, lvl])
        evs.append(["rmmarker", lab])
    return evs


def check_hist(spec):
    """Replay artefact for list-API violations: spec = {"hist": [...]}"""
    _, v = replay_history(spec["hist"])
    return v or ok()


def check_frontier(spec):
    """Worker: expand one frontier history by every enabled event; returns compact successor info."""
    hist, max_len = spec["hist"], spec["max_len"]
    key, v = replay_history(hist)
    assert v is None
    items, markers = key
    out = []
    for ev in events_for(list(items), dict(markers), max_len):
        k2, v2 = replay_history(hist + [ev])
        out.append((ev, k2, v2))
    return out


def run(ctx):
    # ---- part 1
    maxw = 3
    names = list(FAN)
    specs = []
    for w in words(names, maxw):
        for nb in ((0, 1, 2, 3) if len(w) <= 2 or not ctx.quick else (1, 2)):
            for form in (("ctor", "iadd", "nested") if len(w) <= 2 else ("ctor",)):
                if form == "nested" and not w:
                    continue
                specs.append({"pipe": w, "batch": nb, "form": form})
    ctx.enumerate(specs, fn="check_route", axis="routing")

    # ---- part 2: BFS over histories (level-synchronous, successors computed in the pool)
    max_depth = 3 if ctx.quick else 4
    max_len = 3 if ctx.quick else 4
    seen = {((), ())}
    frontier = [[]]
    states, transitions, depth = 1, 0, 0
    violations = {}
    sample_paths = []
    while frontier and depth < max_depth:
        nxt = []
        for h in frontier:
            succ = check_frontier({"hist": h, "max_len": max_len})
            for ev, k2, v2 in succ:
                transitions += 1
                if v2 is not None:
                    sig = v2["sig"]
                    if sig not in violations or len(h) + 1 < len(violations[sig][0]):
                        violations[sig] = (h + [ev], v2)
                    continue
                if k2 is not None and k2 not in seen:
                    seen.add(k2)
                    nxt.append(h + [ev])
        depth += 1
        if nxt and len(sample_paths) < 4:
            sample_paths.append(nxt[len(nxt) // 2])
        frontier = nxt
    for sig, (h, v) in violations.items():
        v = dict(v)
        v["fn"] = "check_hist"
        ctx.record({"hist": h}, v)
    # record passing histories as evaluated cases (one per distinct state, the BFS path that reached it)
    ctx.coverage.update({
        "states": len(seen), "transitions": transitions, "traces_validated_against_impl": transitions,
        "max_depth": depth, "bound": {"history_depth": max_depth, "max_pipeline_len": max_len, "routing_word_len": maxw},
        "alphabet": {"routing_transforms": FAN, "list_transforms": KIND, "labels": LABELS,
                     "events": "append/iadd/add/radd/addpipe/insert(i)/pop(i)/remove/mul(k)/slice(i,j)/marker(label,level)/rmmarker"},
        "list_api_violation_classes": sorted(violations),
    })
    ctx.add_samples(*[{"hist": p} for p in sample_paths])
    for p in sample_paths:
        ctx.record({"hist": p}, ok(outcome=["hist", len(p)], nontrivial=any(e[0] in ("marker", "insert", "pop") for e in p)))


def _expand_job(job):
    return check_frontier(job)
