"""C72 — QAOA cost Hamiltonians encode their objectives (DESIGN §5.10 C72).

E1, exhaustive: every labelled simple graph on <= 4 nodes (5 thorough) x {networkx, rustworkx} x node-label /
payload variants x every cost function (constrained and unconstrained) x every bitstring; every subset of
{00,01,10,11} as edge_driver reward; bit_driver b in {0,1}; directed graphs (all on <= 3 nodes, 4 nodes up to an
edge bound) for max_weight_cycle.  Oracle: objective / penalty evaluated in Python on the bitstring (mc/x_qaoa.py),
mixers = documented operator sums built with numpy krons."""
import itertools

from mc.engine import ok, bad, skip
from mc import x_qaoa as R

PROPERTY = "C72"
LEVEL = "exploration"
TECHNIQUE = "exhaustive enumeration of all small graphs x all bitstrings vs. objective functions evaluated in Python"
LEVEL_TEXT = ("Every labelled simple graph on <=4 nodes (5 in the thorough tier), as networkx and rustworkx input with 4 labelling "
              "variants each, every cost builder in both forms, every reward subset, every bitstring; every digraph on <=3 nodes and "
              "4-node digraphs with <=3 (thorough 6) edges for max_weight_cycle.  The full matrix of each cost Hamiltonian is compared "
              "with diag(objective) and each returned mixer with its documented operator sum.")
LEVEL_NOTE = ("Trusted base: qp.matrix of the returned operators, numpy krons.  An operator with zero terms is read as the zero operator. "
              "For reward sets that are empty or complete only 'constant diagonal' is required (no value documented). "
              "grouping_indices, operator term order and return types are not checked; rustworkx digraphs only with payload == index. "
              "Recognised deviation classes (known findings, everything else in those cases is still compared): unconstrained penalty scaled "
              "3/4 instead of the documented 3; rustworkx graphs with removed nodes; length-4 reward lists with repeats.")
DESIGN_REF = "5.10 C72"
START = "fork"
PARALLEL = True
RULE = ("one case = (graph, library+labelling variant, builder, form); all 2^n bitstrings are compared inside the case; "
        "non-trivial = expected diagonal is not constant or the mixer has an off-diagonal entry")
ASSUMPTIONS = ["node i of the abstract graph is the i-th wire of the wire order; bit 1 = node selected (|1>)",
               "edge_driver offset per edge is -(4-|R|)/4 for rewarded colourings (traceless, gap 1) as in the documented example"]

TOL = 1e-9
NX_VARIANTS = ["id", "rev", "str", "gapw"]
RX_VARIANTS = ["id", "gapw", "hole0", "holelast"]
BITS2 = ["00", "01", "10", "11"]
REWARDS = [list(c) for m in range(5) for c in itertools.combinations(BITS2, m)]
REWARDS_EXTRA = [["11", "10", "01"], ["10", "01"], ["11", "00"], ["11", "11", "11", "11"], ["01", "10", "10", "01"], ["00", "11", "00"],
                 ["2x"], ["0"], ["00", "011"]]
COST_FNS = [["maxcut", None], ["max_independent_set", True], ["max_independent_set", False], ["min_vertex_cover", True],
            ["min_vertex_cover", False], ["max_clique", True], ["max_clique", False]]


# ------------------------------------------------------------------------------------------------ building inputs
def wires_of(n, lib, lab):
    if lab in ("id", "rev", "holelast"):
        return list(range(n))
    if lab == "str":
        return ["abcdef"[i] for i in range(n)]
    if lab == "gapw":
        return [3 + 2 * i for i in range(n)] if lib == "rx" else [10 * i + 3 for i in range(n)]
    if lab == "hole0":
        return [i + 1 for i in range(n)]
    raise AssertionError(lab)


def build_graph(n, edges, lib, lab):
    """Live graph whose node for abstract node i carries wire label wires_of(...)[i]."""
    W = wires_of(n, lib, lab)
    if lib == "nx":
        import networkx as nx

        g = nx.Graph()
        if lab == "rev":
            g.add_nodes_from(reversed(W))
            for i, j in reversed(edges):
                g.add_edge(W[j], W[i])
        elif lab == "gapw":
            g.add_nodes_from(W)
            for k, (i, j) in enumerate(edges):
                g.add_edge(W[i], W[j], weight=2.5 + k)
        else:
            g.add_nodes_from(W)
            g.add_edges_from((W[i], W[j]) for i, j in edges)
        return g
    import rustworkx as rx

    g = rx.PyGraph()
    if lab == "hole0":  # a node is added first and removed again: indices 1..n stay, payload == index
        g.add_nodes_from(list(range(n + 1)))
        g.add_edges_from([(i + 1, j + 1, "") for i, j in edges])
        g.remove_node(0)
    elif lab == "holelast":  # remove the last node: indices stay contiguous
        g.add_nodes_from(list(range(n + 1)))
        g.add_edges_from([(i, j, "") for i, j in edges])
        g.remove_node(n)
    elif lab == "gapw":
        g.add_nodes_from(W)
        g.add_edges_from([(i, j, {"weight": 2.5 + k}) for k, (i, j) in enumerate(edges)])
    else:
        g.add_nodes_from(W)
        g.add_edges_from([(i, j, "") for i, j in edges])
    return g


def n_terms(H):
    try:
        return len(H.terms()[0])
    except Exception:
        return 1


def mat(H, order):
    """Matrix of H in `order`; operator with no terms = zero operator.  Returns (matrix, None) or (None, violation-text)."""
    import numpy as np
    import pennylane as qp

    dim = 2 ** len(order)
    if n_terms(H) == 0:
        return np.zeros((dim, dim), dtype=complex), None
    extra = [w for w in H.wires if w not in order]
    if extra:
        return None, f"acts on wires outside the graph: {extra}"
    return np.asarray(qp.matrix(H, wire_order=order), dtype=complex), None


def cmp_diag(M, exp, sig, info):
    import numpy as np

    D = np.diag(np.asarray(exp, dtype=complex))
    if M.shape != D.shape:
        return bad(sig + ":shape", list(M.shape), list(D.shape), **info)
    err = float(np.max(np.abs(M - D)))
    if err > TOL * max(1.0, float(np.max(np.abs(D)))):
        off = float(np.max(np.abs(M - np.diag(np.diag(M)))))
        x = int(np.argmax(np.abs(np.diag(M) - np.diag(D))))
        return bad(sig, {"diag": np.real(np.diag(M)).round(9).tolist(), "offdiag_max": off},
                   {"diag": [float(v) for v in exp]}, first_bad_bitstring=format(x, f"0{max(1, len(exp).bit_length() - 1)}b"), **info)
    return None


def cmp_mat(M, E, sig, info):
    import numpy as np

    if M.shape != E.shape:
        return bad(sig + ":shape", list(M.shape), list(E.shape), **info)
    err = float(np.max(np.abs(M - E)))
    if err > TOL * max(1.0, float(np.max(np.abs(E)))):
        return bad(sig, {"maxdiff": err, "norm_obs": float(np.abs(M).sum())}, {"norm_exp": float(np.abs(E).sum())}, **info)
    return None


def fp(vals):
    vs = sorted({round(float(v), 6) for v in vals})
    return [vs[0], vs[-1], len(vs)]


def valid_reward(r):
    return all(x in BITS2 for x in r) and (("01" in r) == ("10" in r))


def vtag(spec):
    return f"{spec['lib']}-{spec['lab']}"


def sig(spec, fn, default):
    """Failure class.  Everything that goes wrong for a rustworkx graph whose node indices are not 0..n-1 (a node was
    removed) is one class per builder: the builders look payloads up with `graph.nodes()[index]`."""
    if spec.get("lib") == "rx" and spec.get("lab") == "hole0":
        return f"rx-noncontiguous-node-indices:{fn}"
    return default


# ------------------------------------------------------------------------------------------------ checks
def check(spec):
    k = spec["k"]
    if k == "cost":
        return check_cost(spec)
    if k == "edge_driver":
        return check_edge_driver(spec)
    if k == "bit_driver":
        return check_bit_driver(spec)
    if k == "mixer":
        return check_mixer(spec)
    if k == "cycle":
        return check_cycle(spec)
    if k == "invalid":
        return check_invalid(spec)
    raise AssertionError(k)


def check_cost(spec):
    from pennylane import qaoa

    n, edges, lib, lab, fn, con = spec["n"], spec["e"], spec["lib"], spec["lab"], spec["fn"], spec["c"]
    W = wires_of(n, lib, lab)
    g = build_graph(n, edges, lib, lab)
    f = getattr(qaoa, fn)
    info = {"call": f"qaoa.{fn}(graph{'' if con is None else ', constrained=%s' % con})"}
    tag = f"{fn}:{'-' if con is None else ('con' if con else 'unc')}:{vtag(spec)}"
    try:
        res = f(g) if con is None else f(g, constrained=con)
    except Exception as e:  # no documented rejection for a valid graph
        return bad(sig(spec, fn, f"exception:{type(e).__name__}:{tag}"), f"{type(e).__name__}: {e}", "cost and mixer Hamiltonians", **info)
    if not (isinstance(res, tuple) and len(res) == 2):
        return bad(f"return-shape:{tag}", repr(res)[:200], "(cost_h, mixer_h)")
    cost, mixer = res
    comp = R.complement(n, edges)
    N = 2 ** n
    if fn == "maxcut":
        exp = [R.obj_maxcut(n, edges, x) for x in range(N)]
        emix = R.x_mixer(n)
    elif fn == "max_independent_set":
        exp = [R.obj_sumz(n, x) if con else R.obj_mis_unconstrained(n, edges, x) for x in range(N)]
        emix = R.bit_flip_mixer(n, edges, 0) if con else R.x_mixer(n)
    elif fn == "min_vertex_cover":
        exp = [-R.obj_sumz(n, x) if con else R.obj_mvc_unconstrained(n, edges, x) for x in range(N)]
        emix = R.bit_flip_mixer(n, edges, 1) if con else R.x_mixer(n)
    elif fn == "max_clique":
        exp = [R.obj_sumz(n, x) if con else R.obj_mis_unconstrained(n, comp, x) for x in range(N)]
        emix = R.bit_flip_mixer(n, comp, 0) if con else R.x_mixer(n)
    else:
        raise AssertionError(fn)
    M, why = mat(cost, W)
    if why:
        return bad(sig(spec, fn, f"cost-wires:{tag}"), why, W, **info)
    v = cmp_diag(M, exp, sig(spec, fn, f"cost-diag:{tag}"), info)
    deviation = None
    if v and con is False:
        # recognised deviation class: the edge penalty is 3 * edge_driver = 3/4 * sum(...) instead of the documented 3 * sum(...)
        sz = [R.obj_sumz(n, x) * (-1 if fn == "min_vertex_cover" else 1) for x in range(N)]
        alt = [(e - z) / 4 + z for e, z in zip(exp, sz)]
        if cmp_diag(M, alt, "alt", info) is None:
            deviation = bad(f"doc-penalty-coefficient:{fn}:3/4-instead-of-3", v["obs"], v["exp"], **info)
            v = None
    if v:
        return v
    Mm, why = mat(mixer, W)
    if why:
        return bad(sig(spec, fn, f"mixer-wires:{tag}"), why, W, **info)
    v = cmp_mat(Mm, emix, sig(spec, fn, f"mixer:{tag}"), info)
    if v:
        return v
    if deviation:
        return deviation
    return ok(outcome=[fn, con, fp(exp), round(float(abs(emix).sum()), 6)], nontrivial=len(set(exp)) > 1)


def check_edge_driver(spec):
    from pennylane import qaoa

    n, edges, lib, lab, reward = spec["n"], spec["e"], spec["lib"], spec["lab"], spec["r"]
    W = wires_of(n, lib, lab)
    g = build_graph(n, edges, lib, lab)
    Rset = set(reward)
    valid = all(r in BITS2 for r in reward) and (("01" in Rset) == ("10" in Rset))
    rtag = "".join(sorted(Rset)) if valid else "invalid"
    dup = len(reward) != len(Rset)
    tag = f"edge_driver:{'+'.join(sorted(Rset)) if valid else 'invalid'}{':dup' if dup else ''}:{vtag(spec)}"
    dup4 = valid and dup and len(reward) == 4  # recognised class: the shortcut `len(reward) == 4` is taken on the raw list
    info = {"call": f"qaoa.edge_driver(graph, {reward})"}
    try:
        H = qaoa.edge_driver(g, list(reward))
    except ValueError as e:
        if not valid:
            return ok(outcome="ValueError", nontrivial=False)
        return bad(f"exception:ValueError:{tag}", str(e), "a Hamiltonian", **info)
    except Exception as e:
        return bad(sig(spec, "edge_driver", f"exception:{type(e).__name__}:{tag}"), f"{type(e).__name__}: {e}",
                   "a Hamiltonian" if valid else "ValueError", **info)
    if not valid:
        return bad(f"invalid-reward-accepted:{tag}", repr(H)[:200], "ValueError", **info)
    M, why = mat(H, W)
    if why:
        return bad(sig(spec, "edge_driver", f"cost-wires:{tag}"), why, W, **info)
    N = 2 ** n
    if len(Rset) in (0, 4):
        import numpy as np

        c = M[0, 0]
        if abs(M - c * np.eye(N)).max() > TOL:
            return bad(f"cost-diag:{tag}", np.real(np.diag(M)).tolist(), "constant diagonal", **info)
        return ok(outcome=["edge_driver", rtag, "const"], nontrivial=False)
    exp = [R.obj_edge_driver(n, edges, Rset, x) for x in range(N)]
    v = cmp_diag(M, exp, sig(spec, "edge_driver", f"cost-diag:{tag}"), info)
    if v:
        import numpy as np

        if dup4 and abs(M - M[0, 0] * np.eye(N)).max() < TOL:
            return bad("edge_driver:duplicated-entries-of-length-4-treated-as-full-reward-set", v["obs"], v["exp"], **info)
        return v
    return ok(outcome=["edge_driver", rtag, fp(exp)], nontrivial=len(set(exp)) > 1)


def check_bit_driver(spec):
    from pennylane import qaoa

    W, b = spec["w"], spec["b"]
    n = len(W)
    try:
        H = qaoa.bit_driver(W, b)
    except ValueError as e:
        if b not in (0, 1):
            return ok(outcome="ValueError", nontrivial=False)
        return bad(f"exception:ValueError:bit_driver:b={b}", str(e), "a Hamiltonian")
    if b not in (0, 1):
        return bad("invalid-b-accepted:bit_driver", repr(H)[:200], "ValueError")
    M, why = mat(H, W)
    if why:
        return bad("cost-wires:bit_driver", why, W)
    exp = [(-1) ** (b + 1) * R.obj_sumz(n, x) for x in range(2 ** n)]
    v = cmp_diag(M, exp, f"cost-diag:bit_driver:b={b}", {"call": f"qaoa.bit_driver({W}, {b})"})
    if v:
        return v
    # documented meaning: b=0 gives the lowest energy to all-zeros, b=1 to all-ones
    lo = min(range(2 ** n), key=lambda x: M[x, x].real)
    if n and lo != (0 if b == 0 else 2 ** n - 1):
        return bad(f"bit_driver-minimum:b={b}", lo, 0 if b == 0 else 2 ** n - 1)
    return ok(outcome=["bit_driver", b, fp(exp)], nontrivial=n > 0)


def check_mixer(spec):
    from pennylane import qaoa

    n, edges, lib, lab, fn, b = spec["n"], spec["e"], spec["lib"], spec["lab"], spec["fn"], spec.get("b")
    W = wires_of(n, lib, lab)
    g = build_graph(n, edges, lib, lab)
    tag = f"{fn}{'' if b is None else ':b=%s' % b}:{vtag(spec)}"
    info = {"call": f"qaoa.{fn}(graph{'' if b is None else ', %s' % b})"}
    try:
        H = qaoa.xy_mixer(g) if fn == "xy_mixer" else qaoa.bit_flip_mixer(g, b)
    except ValueError as e:
        if fn == "bit_flip_mixer" and b not in (0, 1):
            return ok(outcome="ValueError", nontrivial=False)
        return bad(f"exception:ValueError:{tag}", str(e), "a Hamiltonian", **info)
    except Exception as e:
        return bad(sig(spec, fn, f"exception:{type(e).__name__}:{tag}"), f"{type(e).__name__}: {e}", "a Hamiltonian", **info)
    if fn == "bit_flip_mixer" and b not in (0, 1):
        return bad("invalid-b-accepted:bit_flip_mixer", repr(H)[:200], "ValueError")
    E = R.xy_mixer(n, edges) if fn == "xy_mixer" else R.bit_flip_mixer(n, edges, b)
    M, why = mat(H, W)
    if why:
        return bad(sig(spec, fn, f"mixer-wires:{tag}"), why, W, **info)
    v = cmp_mat(M, E, sig(spec, fn, f"mixer:{tag}"), info)
    if v:
        return v
    return ok(outcome=[fn, b, round(float(abs(E).sum()), 6), round(float(abs(E @ E).sum()), 6)], nontrivial=bool(abs(E).sum() > 0) and len(edges) > 0)


def build_digraph(n, edges, lib, wmode, order):
    es = list(reversed(edges)) if order == "rev" else list(edges)
    if lib == "nx":
        import networkx as nx

        g = nx.DiGraph()
        g.add_nodes_from(range(n))
        for i, j in es:
            if wmode == "missing" and [i, j] == edges[0]:
                g.add_edge(i, j)
            else:
                g.add_edge(i, j, weight=R.cyc_weight(i, j, n))
        return g
    import rustworkx as rx

    g = rx.PyDiGraph()
    g.add_nodes_from(list(range(n)))
    for i, j in es:
        if wmode == "missing" and [i, j] == edges[0]:
            g.add_edge(i, j, "")
        else:
            g.add_edge(i, j, {"weight": R.cyc_weight(i, j, n)})
    return g


def check_cycle(spec):
    import numpy as np
    from pennylane import qaoa

    n, edges, lib, con, wmode, order = spec["n"], spec["e"], spec["lib"], spec["c"], spec["w"], spec["o"]
    g = build_digraph(n, edges, lib, wmode, order)
    m = len(edges)
    tag = f"max_weight_cycle:{'con' if con else 'unc'}:{lib}-{order}"
    info = {"call": f"qaoa.max_weight_cycle(digraph, constrained={con})"}
    try:
        res = qaoa.max_weight_cycle(g, constrained=con)
    except (KeyError, TypeError) as e:
        if wmode == "missing" and "does not contain weight data" in str(e):
            return ok(outcome=type(e).__name__, nontrivial=False)
        return bad(f"exception:{type(e).__name__}:{tag}", f"{type(e).__name__}: {e}", "(cost, mixer, mapping)", **info)
    except Exception as e:
        return bad(f"exception:{type(e).__name__}:{tag}", f"{type(e).__name__}: {e}", "(cost, mixer, mapping)", **info)
    if wmode == "missing" and m:
        return bad(f"missing-weight-accepted:{tag}", "returned", "KeyError/TypeError: edge does not contain weight data", **info)
    cost, mixer, mapping = res
    # the returned mapping is the documented link wire -> edge: must be a bijection {0..m-1} -> E
    if sorted(mapping.keys()) != list(range(m)) or sorted(tuple(v) for v in mapping.values()) != sorted(tuple(e) for e in edges):
        return bad(f"mapping:{tag}", {str(k): list(v) for k, v in mapping.items()}, sorted(edges), **info)
    if qaoa.cycle.wires_to_edges(g) != mapping or qaoa.cycle.edges_to_wires(g) != {tuple(v): k for k, v in mapping.items()}:
        return bad(f"mapping-inconsistent:{tag}", repr(qaoa.cycle.edges_to_wires(g)), repr(mapping), **info)
    if m == 0:  # no wires, no bitstrings: only the (empty) mapping is observable
        return ok(outcome=["cycle", con, "no-edges"], nontrivial=False)
    wire_edges = [tuple(mapping[w]) for w in range(m)]
    weights = {(i, j): R.cyc_weight(i, j, n) for i, j in edges}
    W = list(range(m))
    N = 2 ** m
    if con:
        exp = [R.cyc_loss(wire_edges, weights, x) for x in range(N)]
    else:
        exp = [R.cyc_loss(wire_edges, weights, x) + 3 * R.cyc_netflow(n, wire_edges, x) + 3 * R.cyc_outflow(n, wire_edges, x) for x in range(N)]
    if m <= 8:
        M, why = mat(cost, W)
        if why:
            return bad(f"cost-wires:{tag}", why, W, **info)
        v = cmp_diag(M, exp, f"cost-diag:{tag}", info)
        if v:
            return v
        emix = R.cycle_mixer(n, wire_edges) if con else R.x_mixer(m)
        Mm, why = mat(mixer, W)
        if why:
            return bad(f"mixer-wires:{tag}", why, W, **info)
        v = cmp_mat(Mm, emix, f"mixer:{tag}", info)
        if v:
            return v
        mixfp = round(float(abs(emix).sum()), 6)
    else:  # cost only, sparse
        S = cost.sparse_matrix(wire_order=W).tocsr()
        d = np.asarray(S.diagonal())
        offnnz = abs(S - __import__("scipy.sparse", fromlist=["diags"]).diags(d)).max()
        if offnnz > TOL or np.max(np.abs(d - np.array(exp))) > TOL * max(1.0, max(abs(v) for v in exp)):
            return bad(f"cost-diag:{tag}", {"diag_head": np.real(d[:16]).tolist(), "offdiag_max": float(offnnz)}, {"diag_head": exp[:16]}, **info)
        mixfp = None
    # a bitstring is penalty-free in the unconstrained form iff it is a union of vertex-disjoint directed cycles
    return ok(outcome=["cycle", con, fp(exp) if m else None, mixfp], nontrivial=m > 0)


def check_invalid(spec):
    from pennylane import qaoa

    fn = spec["fn"]
    f = getattr(qaoa, fn)
    args = {"edge_driver": ([[0, 1]], ["11"]), "bit_flip_mixer": ([[0, 1]], 0), "xy_mixer": ([[0, 1]],)}.get(fn, ([[0, 1]],))
    try:
        r = f(*args)
    except ValueError:
        return ok(outcome="ValueError", nontrivial=False)
    return bad(f"non-graph-accepted:{fn}", repr(r)[:200], "ValueError")


# ------------------------------------------------------------------------------------------------ driver
def run(ctx):
    R.selftest()
    nmax = 4 if ctx.quick else 5
    graphs = [(n, e) for n in range(1, nmax + 1) for e in R.all_graphs(n)]
    variants = [("nx", v) for v in NX_VARIANTS] + [("rx", v) for v in RX_VARIANTS]
    rewards = REWARDS + REWARDS_EXTRA

    def gv():
        for n, e in graphs:
            for lib, lab in variants:
                if n == 5 and lab in ("rev", "holelast"):
                    continue
                yield {"n": n, "e": e, "lib": lib, "lab": lab}

    base = list(gv())
    ctx.enumerate([dict(k="cost", fn=fn, c=c, **g) for g in base for fn, c in COST_FNS], axis="cost")
    ctx.enumerate([dict(k="edge_driver", r=r, **g) for g in base for r in rewards
                   if valid_reward(r) and r in REWARDS or (g["lab"] == "id" and g["n"] <= 4)], axis="edge_driver")
    ctx.enumerate([dict(k="mixer", fn="bit_flip_mixer", b=b, **g) for g in base for b in (0, 1)]
                  + [dict(k="mixer", fn="xy_mixer", **g) for g in base]
                  + [dict(k="mixer", fn="bit_flip_mixer", b=b, n=2, e=[[0, 1]], lib="nx", lab="id") for b in (2, -1)], axis="mixer")
    wlists = [[], [0], [0, 1], [1, 0], [0, 1, 2], ["a", "b"], [5, 2, 9, 1], list(range(6))]
    ctx.enumerate([{"k": "bit_driver", "w": w, "b": b} for w in wlists for b in (0, 1, 2, -1)], axis="bit_driver")
    ctx.enumerate([{"k": "invalid", "fn": fn} for fn in ("maxcut", "max_independent_set", "min_vertex_cover", "max_clique", "edge_driver",
                                                          "bit_flip_mixer", "xy_mixer", "max_weight_cycle")], axis="invalid")
    # directed graphs for max_weight_cycle
    e4 = 3 if ctx.quick else 6
    dig = [(n, e) for n in (2, 3) for e in R.all_digraphs(n)] + [(4, e) for e in R.all_digraphs(4, e4)]
    cyc = []
    for n, e in dig:
        for lib in ("nx", "rx"):
            for con in (True, False):
                orders = ("fwd", "rev") if (lib == "nx" and n <= 3) else ("fwd",)
                for o in orders:
                    cyc.append({"k": "cycle", "n": n, "e": e, "lib": lib, "c": con, "w": "dist", "o": o})
        if e and n <= 3:
            for lib in ("nx", "rx"):
                cyc.append({"k": "cycle", "n": n, "e": e, "lib": lib, "c": True, "w": "missing", "o": "fwd"})
    full4 = R.all_digraphs(4)[-1]
    cyc += [{"k": "cycle", "n": 4, "e": full4, "lib": lib, "c": False, "w": "dist", "o": "fwd"} for lib in ("nx", "rx")]
    ctx.enumerate(cyc, axis="max_weight_cycle", chunk=8)
    ctx.coverage["alphabet"] = {"graphs": f"all labelled simple graphs on 1..{nmax} nodes", "variants": [f"{a}-{b}" for a, b in variants],
                                "cost_builders": COST_FNS, "rewards": rewards, "bit_driver_wires": wlists,
                                "digraphs": f"all digraphs on 2,3 nodes; 4 nodes with <= {e4} edges; complete 4-node digraph (cost only)"}
    ctx.coverage["bound"] = {"max_nodes": nmax, "digraph_max_edges_on_4_nodes": e4, "bitstrings": "all"}
    ctx.coverage["graphs"] = len(graphs)
    ctx.coverage["digraphs"] = len(dig) + 1
