"""C03 — Operator arithmetic agrees with matrix arithmetic (DESIGN §5.1 C03).

E2 over an expression grammar (mc/x_exprs.py): leaves on wires {0,1}; constructors adjoint / pow / ctrl / prod / sum / s_prod /
exp / change_op_basis, lazy and eager forms, dunder forms.  Every expression is built through the public API and compared with
plain numpy arithmetic on the operands' reference matrices; then qp.simplify must keep the linear map and qp.map_wires must
change it only by the relabelling (three relabellings).
"""
import itertools

import numpy as np

from mc import refsim as RS
from mc import x_exprs as X
from mc.engine import bad, ok, skip

PROPERTY = "C03"
LEVEL = "exploration"
TECHNIQUE = "bounded exhaustive enumeration of nested operator expressions; qp.matrix / simplify / map_wires vs. numpy matrix arithmetic"
LEVEL_TEXT = ("All expressions of the grammar to depth 1 over 14 leaves (39 unary forms incl. all 10 exponents lazy and 5 eager, 9 control "
              "patterns with all control values and a work wire, 7 scalars, dunder forms; 6 binary forms on all ordered leaf pairs; ternary "
              "prod/sum on 5 leaves), depth 2 (every unary form on ~340 depth-1 expressions, binary forms mixing depth-1 expressions with "
              "leaves), depth 3 on 6- and 4-leaf sub-alphabets, the Controlled class constructor over leaves/products (quick 32k expressions; "
              "thorough: depth 2 over the full depth-1 set, depth 3 over all leaves, depth 4 on 4 leaves, 167k expressions) are built through "
              "the public API; qp.matrix, the matrix after qp.simplify (which must also leave its argument unchanged) and after three wire "
              "relabellings must equal the numpy arithmetic on the operands' matrices to 1e-9 relative.")
LEVEL_NOTE = ("Leaf matrices come from mc.refgates / explicit arrays; all arithmetic (adjoint, powers, block-controlled form, embeddings, "
              "products, sums, expm) is done by the harness. Fractional powers are compared only inside C01's domain (unitary base whose "
              "un-reduced eigenphases lie strictly inside (-pi, pi)); negative powers only of well-conditioned matrices. Parameters, scalars, "
              "exponents and wire labels outside the alphabet, depth > 4 and templates other than QFT are not explored.")
DESIGN_REF = "5.1 C03"
START = "fork"
PARALLEL = True
RULE = ("complete enumeration of the expression families listed under coverage.families; non-trivial = reference matrix is not a multiple "
        "of the identity; rejected = expression outside the covered domain (fractional power on the branch cut, singular negative power) "
        "or rejected by PennyLane with its documented error (control/work wire overlapping the target)")
ASSUMPTIONS = ["numpy/scipy dense linear algebra (matrix_power, inv, expm, schur)", "mc.refgates leaf matrices", "mc.refsim.embed"]

TOL = 1e-9
RELABEL = {
    "swap01": {0: 1, 1: 0},
    "strings": {0: "a", 1: "b", 2: "c", 3: "d", 4: "e"},
    "ctrl-target": {0: 2, 2: 0, 1: 7},
}


def _close(Aa, B, tol=TOL):
    Aa, B = np.asarray(Aa), np.asarray(B)
    if Aa.shape != B.shape:
        return False
    return bool(np.max(np.abs(Aa - B)) <= tol * max(1.0, float(np.max(np.abs(B)))))


def _dense(op, wire_order):
    """qp.matrix of op on wire_order; an operator without wires (scalar) is expanded to c * I."""
    import pennylane as qp

    if len(op.wires) == 0:
        M = np.asarray(qp.matrix(op), dtype=complex)
        return M.ravel()[0] * np.eye(2 ** len(wire_order), dtype=complex)
    try:
        return np.asarray(qp.matrix(op, wire_order=list(wire_order)), dtype=complex)
    except NotImplementedError as exc:
        # Exp without a dense matrix: "Wire order is not implemented for sparse_matrix" (explicitly unimplemented); embed by hand
        if "Wire order is not implemented" not in str(exc):
            raise
        return RS.embed(np.asarray(qp.matrix(op), dtype=complex), list(op.wires), list(wire_order))


def _documented_rejection(exc):
    """ValueErrors qp.ctrl documents for overlapping control / work / target wires."""
    s = str(exc)
    return isinstance(exc, ValueError) and ("control wires must be different" in s.lower() or "work wires must be different" in s.lower()
                                            or "overlap" in s.lower())


def _pow_over(e, kinds, inside=False):
    """True if the expression contains a pow / ** node whose base subtree contains a node of one of `kinds`."""
    k = e[0]
    if inside and k in kinds:
        return True
    kids = [x for x in e[1:] if isinstance(x, list) and x and isinstance(x[0], str) and x[0] in X._KINDS]
    return any(_pow_over(x, kinds, inside or k in ("pow", "**")) for x in kids)


def _all_params(op, depth=0):
    out = []
    for d in getattr(op, "data", ()):
        try:
            out += [float(np.real(v)) for v in np.ravel(np.asarray(d))]
        except (TypeError, ValueError):
            pass
    if depth < 6:
        for sub in ([op.base] if hasattr(op, "base") else []) + list(getattr(op, "operands", ())):
            out += _all_params(sub, depth + 1)
    return out


def _fractional_base_outside(e):
    """Failure-class test: the expression has a fractional power whose base, AFTER PennyLane's own simplify, carries a rotation angle
    outside (-pi, pi) (e.g. adjoint(RX(0.3)) -> RX(4pi-0.3), S**-1 -> PhaseShift(3pi/2)); simplify then scales that angle by z, which
    is a different branch of the root than the principal one qp.matrix uses."""
    import pennylane as qp

    k = e[0]
    if k in ("pow", "**") and not isinstance(e[2], int):
        try:
            with qp.QueuingManager.stop_recording():
                sb = qp.simplify(X.build(e[1]))
            if any(abs(p) >= X.PI - 1e-6 for p in _all_params(sb)):
                return True
        except Exception:  # noqa: BLE001
            pass
    return any(_fractional_base_outside(x) for x in e[1:] if isinstance(x, list) and x and isinstance(x[0], str) and x[0] in X._KINDS)


def _fractional_base_outside_op(op, depth=0):
    """Same test on the operator that was actually built (eager qp.pow merges exponents before the Pow is created)."""
    import pennylane as qp

    z = getattr(op, "z", None)
    if z is not None and hasattr(op, "base") and not isinstance(z, int):
        try:
            with qp.QueuingManager.stop_recording():
                sb = qp.simplify(op.base)
            if any(abs(p) >= X.PI - 1e-6 for p in _all_params(sb)):
                return True
        except Exception:  # noqa: BLE001
            pass
    if depth < 6:
        for sub in ([op.base] if hasattr(op, "base") else []) + list(getattr(op, "operands", ())):
            if _fractional_base_outside_op(sub, depth + 1):
                return True
    return False


def _cob_pauli_rep_wrong(e):
    """Failure-class test (root cause recorded as known_findings/C01 'pauli_rep-mismatch:ChangeOpBasis[S,X]'): the expression
    contains a change_op_basis node whose Pauli representation differs from its matrix (operands multiplied in reverse order,
    visible when the compute operator is not self-adjoint, e.g. S)."""
    k = e[0]
    if k == "cob":
        try:
            M, W, _ = X.evaluate(e)
            pr = X.build(e).pauli_rep
            if pr is not None and not _close(np.asarray(pr.to_mat(wire_order=W), dtype=complex), M):
                return True
        except Exception:  # noqa: BLE001
            pass
    return any(_cob_pauli_rep_wrong(x) for x in e[1:] if isinstance(x, list) and x and isinstance(x[0], str) and x[0] in X._KINDS)


def _cctrl_over_controlled(e):
    """A Controlled(...) class-constructor node whose base is itself a controlled Operator2 gate (CNOT, CRX, qp.ctrl(...))."""
    if e[0] == "cctrl" and (e[1][0] == "ctrl" or (e[1][0] == "L" and e[1][1] in ("CNOT01", "CRX10"))):
        return True
    return any(_cctrl_over_controlled(x) for x in e[1:] if isinstance(x, list) and x and isinstance(x[0], str) and x[0] in X._KINDS)


def _sum_of_2pi_shifted(e, under_power=False):
    """Failure-class test: a sum whose summands include both RX(g1) and RX(g1 + 2pi) = -RX(g1) (equal hashes: rotation angles are
    hashed modulo 2pi; Sum.simplify merges summands by hash alone), or a sum containing RZ(pi) under a power / product, whose expansion
    produces RZ(pi) and RZ(3pi) = -RZ(pi) (resp. RZ(2pi) = -I and I) as separate summands."""
    if e[0] in ("sum", "+", "-"):
        lv = X.leaves(e)
        if ("RX0" in lv and "RX0s" in lv) or "RZ1" in lv or lv.count("RX0s") >= 1 and X.has_kind(e, ("pow", "**", "prod", "@")):
            return True
    return any(_sum_of_2pi_shifted(x) for x in e[1:] if isinstance(x, list) and x and isinstance(x[0], str) and x[0] in X._KINDS)


def _mismatch_class(stage, e, op, sh):
    if stage == "simplify-changes-map" and _cctrl_over_controlled(e):
        return "simplify-changes-map:v1-Controlled-over-controlled-Operator2-base"
    if stage == "simplify-changes-map" and _sum_of_2pi_shifted(e):
        return "simplify-changes-map:Sum-merges-summands-with-equal-hash(angle+2pi)"
    if _cob_pauli_rep_wrong(e):
        return f"{stage}:uses-reversed-pauli_rep-of-ChangeOpBasis"
    if stage == "simplify-changes-map" and (_fractional_base_outside(e) or _fractional_base_outside_op(op)):
        return "simplify-changes-map:fractional-power-of-base-simplified-to-angle-outside(-pi,pi)"
    return f"{stage}:{sh}"


def _raise_class(stage, exc, e, sh):
    msg = str(exc)
    if stage == "simplify" and isinstance(exc, ValueError) and "Integers to negative integer powers are not allowed" in msg:
        return "simplify-raises:ValueError:integer-coefficient-to-negative-power"
    if stage == "simplify" and isinstance(exc, ValueError) and "control_values should be the same length" in msg and _cctrl_over_controlled(e):
        return "simplify-raises:ValueError:v1-Controlled-over-controlled-Operator2-base"
    if stage == "simplify" and _sum_of_2pi_shifted(e):
        return "simplify-raises:Sum-merges-summands-with-equal-hash(angle+2pi)"
    if isinstance(exc, TypeError) and ("'Exp' object is not iterable" in msg or "object of type 'Exp' has no len()" in msg) and _pow_over(e, ("exp",)):
        return f"{stage}-raises:TypeError:pow-over-Exp"
    return f"{stage}-raises:{type(exc).__name__}:{sh}"


def check(e):
    import pennylane as qp
    from pennylane.exceptions import MatrixUndefinedError, SparseMatrixUndefinedError

    sh = X.shape(e, 2)
    try:
        M, W, _ = X.evaluate(e)
    except X.Skip as s:
        if s.args[0] == "control-wire-overlaps-target":  # not a linear-map question; record what the implementation does with it
            try:
                X.build(e)
            except ValueError as exc:
                if _documented_rejection(exc):
                    return skip("rejected:control-wire-overlaps-target(ValueError)")
                return skip(f"control-wire-overlaps-target:raises-ValueError:not-judged")
            except Exception as exc:  # noqa: BLE001
                return skip(f"control-wire-overlaps-target:raises-{type(exc).__name__}:not-judged")
            return skip("control-wire-overlaps-target:accepted:not-judged")
        return skip(s.args[0])
    try:
        op = X.build(e)
    except ValueError as exc:
        if _documented_rejection(exc):
            return skip("rejected:control-or-work-wire-overlap")
        return bad(_raise_class("build", exc, e, sh), f"{type(exc).__name__}: {exc}"[:300], "an operator")
    except Exception as exc:  # noqa: BLE001
        return bad(_raise_class("build", exc, e, sh), f"{type(exc).__name__}: {exc}"[:300], "an operator")
    extra = [w for w in op.wires if w not in W]
    Wx = W + extra
    ref = RS.embed(M, W, Wx) if extra else M
    tol = 1e-7 if any(not isinstance(z, int) for z in _exponents(e)) else TOL
    if not set(op.wires) <= set(Wx):
        return bad(f"wires:{sh}", list(op.wires), Wx)
    try:
        got = _dense(op, Wx)
    except MatrixUndefinedError:
        return skip("no-matrix(MatrixUndefinedError: no matrix, sparse matrix or decomposition)")
    except SparseMatrixUndefinedError as exc:
        return bad(f"matrix-raises:SparseMatrixUndefinedError:{type(op).__name__}-over-ChangeOpBasis" if X.has_kind(e, ("cob",)) else
                   _raise_class("matrix", exc, e, sh), "SparseMatrixUndefinedError from qp.matrix(op) (has_sparse_matrix is %s)" % op.has_sparse_matrix,
                   "a matrix or MatrixUndefinedError", op=repr(op)[:300])
    if not _close(got, ref, tol):
        if _fractional_base_outside(e) and not _fractional_base_outside_op(op):
            # eager qp.pow(..., lazy=False) already rewrote the base with a rotation angle outside (-pi, pi) (S**-1 -> PhaseShift(3pi/2)); the
            # fractional power of THAT operator is outside the domain C01 covers (documented branch-cut ambiguity)
            return skip("fractional-power:eager-base-rewritten-with-angle-outside(-pi,pi)")
        return bad(_mismatch_class("matrix", e, op, sh), got, ref, op=repr(op)[:300], wire_order=Wx)
    # ---- simplify keeps the linear map
    try:
        with qp.QueuingManager.stop_recording():
            s = qp.simplify(op)
    except Exception as exc:  # noqa: BLE001
        return bad(_raise_class("simplify", exc, e, sh), f"{type(exc).__name__}: {exc}"[:300], "a simplified operator", op=repr(op)[:300])
    if not set(s.wires) <= set(Wx):
        return bad(f"simplify-wires:{sh}", list(s.wires), Wx, simplified=repr(s)[:300])
    try:
        gs = _dense(s, Wx)
    except (MatrixUndefinedError, SparseMatrixUndefinedError):
        gs = None
    except AttributeError as exc:
        if "has no attribute 'batch_size'" in str(exc) and "Pow2" in str(exc):
            # one defect class: simplify puts an Operator2 power (Pow2) under a v1 symbolic wrapper, whose matrix() reads base.batch_size
            return bad("simplify-result-matrix-raises:AttributeError:Pow2-has-no-batch_size-under-v1-wrapper", f"{exc}"[:300], "a matrix",
                       op=repr(op)[:300], simplified=repr(s)[:300])
        return bad(f"simplify-result-matrix-raises:AttributeError:{sh}", f"{exc}"[:300], "a matrix", simplified=repr(s)[:300])
    except Exception as exc:  # noqa: BLE001
        return bad(f"simplify-result-matrix-raises:{type(exc).__name__}:{sh}", f"{type(exc).__name__}: {exc}"[:300], "a matrix", simplified=repr(s)[:300])
    if gs is not None and not _close(gs, ref, tol) and _close(gs, -ref, tol) and not X.has_kind(e, ("sum", "+", "-")) and \
            any(lf in ("RZ1", "RX0s", "RX0") for lf in X.leaves(e)) and not _fractional_base_outside(e) and not _fractional_base_outside_op(op):
        # one defect class: a product of rotations on one wire whose angles add up to 2pi (mod 4pi) is simplified to the identity,
        # i.e. the factor -1 = R(2pi) is dropped
        return bad("simplify-changes-map:product-of-rotations-adding-to-2pi-becomes-identity(sign-lost)", gs, ref, op=repr(op)[:300],
                   simplified=repr(s)[:300])
    if gs is not None and not _close(gs, ref, tol):
        return bad(_mismatch_class("simplify-changes-map", e, op, sh), gs, ref, op=repr(op)[:300], simplified=repr(s)[:300], wire_order=Wx)
    # ---- simplify must not change the operator it was given (cached representations are shared with later calls)
    try:
        again = _dense(op, Wx)
    except Exception as exc:  # noqa: BLE001
        cls = "zero-pauli_rep-over-ChangeOpBasis" if (X.has_kind(e, ("cob",)) and type(exc).__name__ == "SparseMatrixUndefinedError") else sh
        return bad(f"simplify-mutates-operand:matrix-raises-afterwards:{type(exc).__name__}:{cls}", f"{type(exc).__name__}: {exc}"[:300],
                   "qp.matrix(op) as before qp.simplify(op)", op=repr(op)[:300])
    if not _close(again, ref, tol):
        return bad(f"simplify-mutates-operand:{sh}", again, ref, op=repr(op)[:300])
    # ---- relabelling changes the map only by the relabelling (on a freshly built operator)
    op = X.build(e)
    for nm, sigma in RELABEL.items():
        try:
            with qp.QueuingManager.stop_recording():
                m = qp.map_wires(op, sigma)
        except Exception as exc:  # noqa: BLE001
            return bad(_raise_class("map_wires", exc, e, sh), f"{type(exc).__name__}: {exc}"[:300], "a relabelled operator", op=repr(op)[:300])
        want_w = [sigma.get(w, w) for w in op.wires]
        if set(m.wires) != set(want_w):
            return bad(f"map_wires-wires:{nm}:{sh}", list(m.wires), want_w)
        try:
            gm = _dense(m, [sigma.get(w, w) for w in Wx])
        except Exception as exc:  # noqa: BLE001 - the original had a matrix, the relabelled operator must have one too
            return bad(_raise_class(f"map_wires-matrix:{nm}", exc, e, sh), f"{type(exc).__name__}: {exc}"[:300], "a matrix", mapped=repr(m)[:300])
        if not _close(gm, ref, tol):
            return bad(_mismatch_class(f"map_wires-changes-map:{nm}", e, op, sh), gm, ref, op=repr(op)[:300], mapped=repr(m)[:300])
    tr = np.trace(ref)
    scalar = bool(np.allclose(ref, ref[0, 0] * np.eye(ref.shape[0])))
    return ok(outcome=[type(op).__name__, type(s).__name__, gs is not None, len(Wx), round(float(tr.real), 5), round(float(tr.imag), 5)],
              nontrivial=not scalar)


def _exponents(e):
    out = []
    if e[0] in ("pow", "**"):
        out.append(e[2])
    for x in e[1:]:
        if isinstance(x, list) and x and isinstance(x[0], str) and x[0] in X._KINDS:
            out += _exponents(x)
    return out


# ---------------------------------------------------------------------------------------------------- enumeration
def L(names):
    return [["L", n] for n in names]


def depth1(leaf_names, level="full", binary=X.BINARY, binary_leaves=None, ternary_leaves=()):
    out = []
    for lf in L(leaf_names):
        for f in X.unary_menu(level):
            out.append(f(lf))
    bl = L(binary_leaves if binary_leaves is not None else leaf_names)
    for b in binary:
        for a, c in itertools.product(bl, bl):
            out.append([b, a, c])
    for t in X.NARY:
        for a, b, c in itertools.product(L(ternary_leaves), repeat=3):
            out.append([t, a, b, c])
    return out


def families(tier):
    """name -> list of expressions (complete enumeration; the union is deduplicated by the caller)."""
    F = {}
    F["depth1:full-menu x 14 leaves + 6 binary forms x 14^2 + ternary x 5^3"] = depth1(X.LEAF_ALL, "full", ternary_leaves=X.LEAF_ALL[:3] + ["CNOT01", "Herm0"])
    e1s = depth1(X.LEAF_ALL, "small", binary=("prod", "sum", "cob"), binary_leaves=X.LEAF6)
    if tier == "thorough":
        inner = F["depth1:full-menu x 14 leaves + 6 binary forms x 14^2 + ternary x 5^3"]
        F["depth2:full unary menu on every depth-1 expression"] = [f(e) for e in inner for f in X.unary_menu("full")]
        F["depth2:binary(depth-1 small, leaf) both orders"] = [[b, x, y] for b in ("prod", "sum", "cob", "-") for e in e1s for lf in L(X.LEAF_ALL)
                                                                for x, y in ((e, lf), (lf, e))]
    else:
        F["depth2:full unary menu on the small depth-1 set"] = [f(e) for e in e1s for f in X.unary_menu("full")]
        F["depth2:binary(depth-1 small, leaf of 6) both orders"] = [[b, x, y] for b in ("prod", "sum", "cob") for e in e1s for lf in L(X.LEAF6)
                                                                    for x, y in ((e, lf), (lf, e))]
    tiny, small, full = X.unary_menu("tiny"), X.unary_menu("small"), X.unary_menu("full")
    l3 = X.LEAF6
    F["depth3:full o tiny o tiny on 6 leaves"] = [f(g(h(lf))) for lf in L(l3) for h in tiny for g in tiny for f in full]
    t4 = [h(lf) for lf in L(X.LEAF4) for h in tiny]
    F["depth3:small o binary(tiny(l4), tiny(l4))"] = [f([b, x, y]) for b in ("prod", "sum", "cob") for x in t4 for y in t4 for f in small]
    b4 = [[b, x, y] for b in ("prod", "sum") for x in L(X.LEAF4) for y in L(X.LEAF4)]
    F["depth3:binary(tiny(binary(l4,l4)), l4)"] = [[b, h(x), lf] for b in ("prod", "sum", "cob") for x in b4 for h in tiny for lf in L(X.LEAF4)]
    cc = [(cw, cv) for cw, cv in (([2], [1]), ([2], [0]), ([2, 3], [1, 0]))]
    inner_cc = L(X.LEAF_ALL + ["CRX10"]) + [h(lf) for lf in L(X.LEAF4) for h in tiny] + [["prod", a, b] for a in L(X.LEAF4) for b in L(X.LEAF4)]
    F["Controlled class constructor over leaves / tiny / products (+ outer tiny)"] = (
        [["cctrl", x, cw, cv] for x in inner_cc for cw, cv in cc] + [g(["cctrl", x, [2], [0]]) for x in inner_cc for g in tiny])
    # same-wire Pauli words (length 2-4: every word over X0,Y0,Z0 collapses to a phase times a Pauli or the identity) multiplied
    # with a non-Pauli operand, alone and inside a sum: the collapsed phase must survive simplify()
    import itertools as _it

    pw = [list(w) for n in (2, 3, 4) for w in _it.product(("X0", "Y0", "Z0"), repeat=n)]
    fam = []
    for w in pw:
        for tail in (["RX1"], ["CRX10"], []):
            p = ["prod"] + L(w) + L(tail)
            fam.append(p)
            if tail:
                fam.append(["sum", p, L(tail)[0]])
                fam.append(["prod", L(tail)[0]] + L(w))
    F["same-wire Pauli words x non-Pauli operand (phase bookkeeping of Prod.simplify)"] = fam
    if tier == "thorough":
        F["depth3:full o small o small on 13 leaves"] = [f(g(h(lf))) for lf in L(X.LEAF_ALL) for h in small for g in small for f in full]
        F["depth4:small o tiny o tiny o tiny on 4 leaves"] = [f(g(h(i(lf)))) for lf in L(X.LEAF4) for i in tiny for h in tiny for g in tiny for f in small]
        F["depth4:tiny o binary(tiny(binary(l4,l4)), l4)"] = [g([b, h(x), lf]) for b in ("prod", "sum") for x in b4 for h in tiny for lf in L(X.LEAF4) for g in tiny]
        F["depth2:extra leaves T1, RY1, CRX10 (fractional-power domain)"] = [f(e) for e in depth1(["T1", "RY1", "CRX10", "S0", "RX0"], "small", binary=("prod", "cob"))
                                                                             for f in full]
    return F


def run(ctx):
    import json

    fam = families(ctx.tier)
    if ctx.only:  # development aid: restrict to families whose name contains one of the comma separated substrings
        fam = {k: v for k, v in fam.items() if any(t in k for t in ctx.only.split(","))}
    seen = set()
    counts = {}
    for name, exprs in fam.items():
        specs = []
        for e in exprs:
            k = json.dumps(e)
            if k not in seen:
                seen.add(k)
                specs.append(e)
        counts[name] = len(specs)
        ctx.enumerate(specs, axis=name)
    ctx.coverage["alphabet"] = {"leaves": X.LEAF_ALL, "leaf6": X.LEAF6, "leaf4": X.LEAF4, "exponents": [repr(z) for z in X.A.EXPO],
                                "scalars": X.A.SCAL, "controls": "[2],[2,3],[3,2] x all control values; work wire [4]",
                                "unary_forms": {"full": len(X.unary_menu("full")), "small": len(X.unary_menu("small")), "tiny": len(X.unary_menu("tiny"))},
                                "binary_forms": list(X.BINARY), "relabellings": {k: {str(a): b for a, b in v.items()} for k, v in RELABEL.items()}}
    ctx.coverage["bound"] = {"max_depth": 3 if ctx.quick else 4}
    ctx.coverage["families"] = counts
