"""C66 — Local decomposition-rule contexts are isolated (DESIGN §5.11).

E5(b): real threads under the baton scheduler (mc/sched.py).  Scheduling points = every call/line event of
the registry functions (local_decomps, add_decomps, list_decomps, has_decomp, _fix_decomp, get_fixed_decomp,
DecompCollection.extend; consecutive events of one source line = one step).  All interleavings with <= 2 preemptions (thorough 3) of every pair (thorough:
triple) of thread programs are executed; oracle = per-thread stack-of-dicts reference (schedule independent,
because correct contexts are isolated) + global registry fingerprint unchanged afterwards.
Sequential nested histories (E3 style, depth <= 5 incl. exits by exception) are enumerated as well.
"""
import itertools

from mc.engine import ok, bad, skip, HarnessError

PROPERTY = "C66"
LEVEL = "model_checking"
TECHNIQUE = "stateless model checking of real threads: baton scheduler at line granularity of the registry functions, iterative preemption bounding (<=2/3 preemptions), stack-of-dicts reference per thread"
LEVEL_TEXT = ("Every interleaving with at most 2 preemptions (thorough 3) of every pair/triple of 7 thread programs over enter/add/fix/list/has/"
              "exit/raise/nested-enter on one shared operator name is executed on the real registry with real threads; plus all sequential nested "
              "histories up to depth 5. Each read must equal the thread's own stack-of-dicts prediction; the global registry must be unchanged.")
LEVEL_NOTE = ("Scheduling points only inside the registry functions (all accesses to the shared registries happen there); CPython GIL semantics; "
              "a separate free-running pass of the same bodies is a smoke test only. Global-level add concurrent with local contexts is not explored.")
DESIGN_REF = "5.11 C66"
PARALLEL = True
RULE = "schedules = DFS over choice prefixes with preemption bounding; non-trivial = execution with >=1 preemption"

NAME = "VerifSharedOp"
NAME2 = "VerifOtherOp"

# thread programs: list of ops; "enter"/"exit"/"raise" delimit with-blocks (structured)
PROGRAMS = {
    "P1": ["enter", "add", "list", "exit", "list"],
    "P2": ["enter", "fix", "list", "fixed", "raise", "list", "fixed"],
    "P3": ["enter", "add", "enter", "add", "list", "exit", "list", "exit", "list"],
    "P4": ["list", "fixed", "list"],
    "P5": ["enter", "add2", "has2", "exit", "has2"],
    "P6": ["enter", "add", "enter", "fix", "raise", "list", "fixed", "exit", "list"],
    "P7": ["enter", "fix", "enter", "fix", "fixed", "exit", "fixed", "list", "exit", "fixed"],
}
_RULES = {}
_SETUP = {}


def _rule(tag):
    import pennylane as qp

    if tag not in _RULES:
        def f(*args, **kwargs):
            pass

        f.__name__ = "verif_rule_" + tag
        _RULES[tag] = qp.register_resources({})(f)
    return _RULES[tag]


def _registry():
    from pennylane.decomposition import decomposition_rule as dr

    return dr


def _setup():
    """Pre-register the shared names globally (so that global reads never insert keys) and snapshot."""
    dr = _registry()
    if _SETUP:
        return
    glob = dr._decompositions_private
    if NAME not in glob or len(glob[NAME]) == 0:
        dr.add_decomps(NAME, _rule("base"))
    if NAME2 not in glob:
        glob[NAME2]  # create empty entry
    _SETUP["snap"] = {k: [r.name for r in v] for k, v in glob.items()}
    _SETUP["rules"] = {k: list(v) for k, v in glob.items()}
    _SETUP["fixed"] = dict(dr._fixed_decomps_private)


def _fingerprint():
    dr = _registry()
    return ({k: [r.name for r in v] for k, v in dr._decompositions_private.items()}, {k: v.name for k, v in dr._fixed_decomps_private.items()})


def _reset():
    """Restore the global registries to the snapshot (executions must be independent even if a mutant leaks)."""
    dr = _registry()
    glob = dr._decompositions_private
    for k in list(glob):
        if k not in _SETUP["rules"]:
            del glob[k]
    for k, rules in _SETUP["rules"].items():
        cur = glob[k]
        if [r.name for r in cur] != [r.name for r in rules]:
            cur._decomps = {r.name: r for r in rules}
    fx = dr._fixed_decomps_private
    fx.clear()
    fx.update(_SETUP["fixed"])
    # a mutant may have replaced the ContextVar by a module global: nothing to restore there beyond the dicts


def _codes():
    dr = _registry()
    codes = [dr.local_decomps.__wrapped__.__code__, dr.add_decomps.__code__, dr.has_decomp.__code__,
             dr._fix_decomp.__code__, dr.get_fixed_decomp.__code__, dr.DecompCollection.extend.__code__]
    for f in dr.list_decomps.registry.values():
        codes.append(f.__code__)
    return codes


class _Boom(Exception):
    pass


def make_body(prog, tid, obs):
    """Interpret a structured program with real with-blocks (recursion on enter..exit/raise)."""
    dr = _registry()
    counter = [0]

    def run_block(ops, i):
        # returns index after the block's terminator
        while i < len(ops):
            op = ops[i]
            if op == "enter":
                try:
                    with dr.local_decomps():
                        i = run_block(ops, i + 1)
                        if ops[i - 1] == "raise":
                            raise _Boom()
                except _Boom:
                    pass
                continue
            if op in ("exit", "raise"):
                return i + 1
            if op == "add":
                counter[0] += 1
                dr.add_decomps(NAME, _rule(f"t{tid}_{counter[0]}"))
            elif op == "add2":
                counter[0] += 1
                dr.add_decomps(NAME2, _rule(f"t{tid}_o{counter[0]}"))
            elif op == "fix":
                counter[0] += 1
                dr._fix_decomp(NAME, _rule(f"t{tid}_f{counter[0]}"))
            elif op == "list":
                obs.append(("list", [r.name for r in dr.list_decomps(NAME)]))
            elif op == "fixed":
                r = dr.get_fixed_decomp(NAME)
                obs.append(("fixed", None if r is None else r.name))
            elif op == "has2":
                obs.append(("has2", bool(dr.has_decomp(NAME2))))
            i += 1
        return i

    def body():
        run_block(prog, 0)

    return body


def predict(prog, tid, base):
    """Reference: stack of (rules dict, fixed dict) snapshots."""
    stack = [({NAME: list(base), NAME2: []}, {})]
    obs = []
    counter = 0
    for op in prog:
        rules, fixed = stack[-1]
        if op == "enter":
            stack.append(({k: list(v) for k, v in rules.items()}, dict(fixed)))
        elif op in ("exit", "raise"):
            stack.pop()
        elif op == "add":
            counter += 1
            rules[NAME].append(f"verif_rule_t{tid}_{counter}")
        elif op == "add2":
            counter += 1
            rules[NAME2].append(f"verif_rule_t{tid}_o{counter}")
        elif op == "fix":
            counter += 1
            fixed[NAME] = f"verif_rule_t{tid}_f{counter}"
        elif op == "list":
            obs.append(("list", [fixed[NAME]] if NAME in fixed else list(rules[NAME])))
        elif op == "fixed":
            obs.append(("fixed", fixed.get(NAME)))
        elif op == "has2":
            obs.append(("has2", len(rules[NAME2]) > 0))
    predict.final_global = stack[0]
    return obs


def check_threads(spec):
    """All schedules with <= bound preemptions for one tuple of thread programs."""
    from mc import sched

    _setup()
    progs, bound = spec["programs"], spec["bound"]
    base = _SETUP["snap"][NAME]
    expected = [predict(PROGRAMS[p], t, base) for t, p in enumerate(progs)]
    before = None
    state = {"obs": None, "viol": None, "outcomes": set(), "preempted": 0}

    def make_bodies():
        state["obs"] = [[] for _ in progs]
        return [make_body(PROGRAMS[p], t, state["obs"][t]) for t, p in enumerate(progs)]

    def on_exec(r):
        nonlocal before
        errs = [e for e in r.errors if e is not None]
        fp = _fingerprint()
        if state["viol"] is None:
            if errs:
                state["viol"] = ("thread-raised:" + type(errs[0]).__name__, repr(errs[0]), "no exception", r.choices)
            else:
                for t in range(len(progs)):
                    if state["obs"][t] != expected[t]:
                        state["viol"] = ("foreign-or-missing-rule-visible", {"thread": t, "observed": state["obs"][t]},
                                         {"thread": t, "expected": expected[t]}, r.choices)
                        break
                else:
                    if fp != ({k: v for k, v in _SETUP["snap"].items()}, {k: v.name for k, v in _SETUP["fixed"].items()}):
                        leaked = {k: v for k, v in fp[0].items() if _SETUP["snap"].get(k) != v}
                        state["viol"] = ("global-registry-changed", {"rules": leaked, "fixed": fp[1]}, "unchanged global registry", r.choices)
        state["outcomes"].add(repr(state["obs"]))
        if r.preemptions_before(len(r.points)) > 0:
            state["preempted"] += 1

    stats = sched.explore_interleavings(make_bodies, _codes(), bound, on_exec, reset=_reset)
    if state["viol"]:
        sig, o, e, sch = state["viol"]
        return bad("threads:" + sig, o, e, schedule=sch, programs=progs)
    return ok(outcome=[stats["schedules"], len(state["outcomes"])], nontrivial=state["preempted"] > 0,
              **{"schedules": stats["schedules"], "points": stats["max_scheduling_points"], "preempted": state["preempted"]})


def check_sequential(spec):
    """One nested sequential history in a single thread (incl. exits by exception)."""
    _setup()
    _reset()
    prog = spec["prog"]
    obs = []
    make_body(prog, 0, obs)()
    exp = predict(prog, 0, _SETUP["snap"][NAME])
    fp = _fingerprint()
    _reset()
    if obs != exp:
        return bad("sequential:observation", obs, exp)
    # operations performed at global level (outside every context) legitimately change the global registry:
    # the expected final global state is the bottom of the reference stack
    grules, gfixed = predict.final_global
    want = dict(_SETUP["snap"])
    want[NAME], want[NAME2] = list(grules[NAME]), list(grules[NAME2])
    want_fixed = {k: v.name for k, v in _SETUP["fixed"].items()}
    want_fixed.update(gfixed)
    if fp[0] != want or fp[1] != want_fixed:
        return bad("sequential:global-registry-differs-from-reference", {"rules": {k: v for k, v in fp[0].items() if want.get(k) != v}, "fixed": fp[1]},
                   {"rules": {NAME: want[NAME], NAME2: want[NAME2]}, "fixed": want_fixed})
    return ok(outcome=[len(obs), sum(1 for o in obs if o[1])], nontrivial="enter" in prog)


def sequential_programs(depth):
    """All well-nested words over the op alphabet up to `depth` ops (every enter eventually closed)."""
    ops = ["add", "fix", "list", "fixed", "add2", "has2"]
    out = []

    def rec(word, open_):
        if len(word) + open_ > depth:
            return
        if open_ == 0 and word:
            out.append(word)
        if len(word) + open_ >= depth:
            return
        rec(word + ["enter"], open_ + 1)
        if open_ > 0:
            rec(word + ["exit"], open_ - 1)
            rec(word + ["raise"], open_ - 1)
        for o in ops:
            rec(word + [o], open_)

    rec([], 0)
    return out


def nested_family():
    """enter W1 enter W2 (exit|raise) R1 (exit|raise) R2 — every combination of writes in the outer and the inner
    context and of reads after the inner and after the outer context has been left (900 programs)."""
    W = [[], ["add"], ["fix"], ["add", "fix"], ["fix", "add"]]
    R = [["fixed"], ["list"], ["fixed", "list"]]
    out = []
    for w1 in W:
        for w2 in W:
            for e1 in ("exit", "raise"):
                for r1 in R:
                    for e2 in ("exit", "raise"):
                        for r2 in R:
                            out.append(["enter"] + w1 + ["enter"] + w2 + [e1] + r1 + [e2] + r2)
    return out


def check_freerun(spec):
    """Free-running smoke pass (no baton): the same bodies under the OS scheduler with a tiny switch interval.
    Reported, never decides on its own except for a plain isolation failure (which would be a real one)."""
    import sys
    import threading

    _setup()
    progs = spec["programs"]
    base = _SETUP["snap"][NAME]
    expected = [predict(PROGRAMS[p], t, base) for t, p in enumerate(progs)]
    old = sys.getswitchinterval()
    sys.setswitchinterval(1e-6)
    try:
        for rep in range(spec["reps"]):
            _reset()
            obs = [[] for _ in progs]
            ths = [threading.Thread(target=make_body(PROGRAMS[p], t, obs[t])) for t, p in enumerate(progs)]
            for t in ths:
                t.start()
            for t in ths:
                t.join()
            if obs != expected:
                return bad("freerun:foreign-or-missing-rule-visible", obs, expected, programs=progs)
    finally:
        sys.setswitchinterval(old)
        _reset()
    return ok(outcome=["freerun", spec["reps"]], nontrivial=False)


def run(ctx):
    names = list(PROGRAMS)
    bound = 2
    combos = [list(c) for c in itertools.combinations_with_replacement(names, 2)]
    small = ("P1", "P2", "P4")  # P7 pairs are explored with bound 1 in quick
    if ctx.quick:
        # bound 1 on every pair, bound 2 on the pairs of the four short programs
        specs = [{"programs": c, "bound": 2 if all(p in small for p in c) else 1} for c in combos]
    else:
        specs = [{"programs": c, "bound": 2} for c in combos]
        specs += [{"programs": list(c), "bound": 3} for c in itertools.combinations_with_replacement(("P1", "P2", "P4"), 2)]
        specs += [{"programs": list(c), "bound": 1} for c in itertools.combinations(names, 3)]
    # each spec explores thousands of schedules inside one worker
    pool = ctx.pool()
    tot = {"schedules": 0, "preempted": 0, "points": 0}
    for spec, r in zip(specs, pool.imap(_job, specs, chunksize=1)):
        ctx.record(spec, r)
        x = r.get("x") or {}
        tot["schedules"] += x.get("schedules", 0)
        tot["preempted"] += x.get("preempted", 0)
        tot["points"] = max(tot["points"], x.get("points", 0))
    seq = sequential_programs(4 if ctx.quick else 5)  # 1808 / ~17k well-nested words
    seq = seq + nested_family()
    ctx.enumerate([{"prog": p} for p in seq], fn="check_sequential", axis="sequential")
    ctx.enumerate([{"programs": c, "reps": 50} for c in combos[:6]], fn="check_freerun", axis="freerun", parallel=False)
    ctx.coverage.update({
        "states": tot["schedules"], "transitions": tot["schedules"] * max(tot["points"], 1),
        "traces_validated_against_impl": tot["schedules"], "schedules": tot["schedules"],
        "schedules_with_preemption": tot["preempted"], "max_scheduling_points": tot["points"],
        "preemption_bound_completed": {"quick": "1 on all 28 pairs, 2 on the 6 pairs of P1,P2,P4", "thorough": "2 on all 28 pairs, 3 on pairs of P1,P2,P4, 1 on all 35 triples"}[ctx.tier], "thread_program_tuples": len(specs), "sequential_histories": len(seq),
        "alphabet": {"programs": PROGRAMS, "shared_name": NAME},
        "explanation": "states = complete schedules executed on real threads; transitions = schedules x max scheduling points (upper bound)",
    })


def _job(spec):
    from mc.engine import _call

    return _call("checks.C66", "check_threads", spec)
