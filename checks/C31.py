"""C31 — Seeded and parallel execution is reproducible and order-preserving (DESIGN §5.5).

E5(a) on the real pools: default.qubit executes a batch of distinguishable circuits through a *gated* executor
backend (mc/x_exec.py, a subclass of PennyLane's native executors handed to ExecutionConfig(executor_backend=)),
and the harness forces every feasible completion order of the per-circuit simulations.
Oracle: (1) results come back in batch order and analytic results equal serial execution; (2) for a fixed
(seed, backend, workers) the finite-shot results are identical across ALL completion orders; (3) two devices
created with the same seed return identical results for the same sequence of executions (E3-style sequences
of two consecutive execute calls).
"""
import os
import shutil
import tempfile

from mc.engine import ok, bad, skip

PROPERTY = "C31"
LEVEL = "model_checking"
TECHNIQUE = "exhaustive exploration of worker completion orders on the real executor backends behind default.qubit (gated tasks) + seeded execution sequences"
LEVEL_TEXT = ("Batches of 3 (thorough 4) distinguishable circuits, analytic and with 5 shots, are executed by default.qubit with max_workers in {1,2,3} "
              "on the thread-pool backend under every feasible completion order (full decision tree), and on the two spawn process-pool backends under "
              "a reduced set of orders in the quick tier; results must be in batch order, equal serial results (analytic) and independent of the order (shots).")
LEVEL_NOTE = ("Completion order is controlled at task granularity. Trusted: the pools' own delivery, numpy Generator determinism for a given integer seed. "
              "jax PRNG-key seeded devices are not explored.")
DESIGN_REF = "5.5 C31"
PARALLEL = False
RULE = "case = (backend, workers, shots, seed, #circuits); all completion orders explored inside the case; non-trivial = >1 order"

GATE_ROOT = "/dev/shm" if os.path.isdir("/dev/shm") else None


def _batch(n, shots, sizes=None):
    """n distinguishable circuits; `sizes` (gate counts, also changing the number of wires) makes the batch
    heterogeneous so that any cost-based reordering of the batch inside the device becomes observable."""
    import pennylane as qp

    tapes = []
    for i in range(n):
        ops = [qp.RX(0.4 + 0.7 * i, 0), qp.RY(0.3 * (i + 1), 1), qp.CNOT([0, 1])]
        if sizes is not None:
            k = sizes[i % len(sizes)]
            extra = [qp.RY(0.2 + 0.1 * i, 2), qp.CNOT([1, 2]), qp.RX(0.5, 2), qp.CNOT([2, 3])]
            ops = [qp.RX(0.4 + 0.7 * i, 0)] + ([qp.RY(0.3 * (i + 1), 1), qp.CNOT([0, 1])] if k >= 2 else []) + (extra[: 2 * (k - 2)] if k > 2 else [])
        if shots is None:
            ms = [qp.expval(qp.Z(0)), qp.probs(wires=[0, 1])]
        else:
            ms = [qp.sample(wires=[0, 1]), qp.expval(qp.Z(1))]
        tapes.append(qp.tape.QuantumScript(ops, ms, shots=shots))
    return tapes


def _plain(r):
    import numpy as np

    if isinstance(r, (tuple, list)):
        return [_plain(x) for x in r]
    if isinstance(r, dict):
        return {str(k): _plain(v) for k, v in r.items()}
    return np.round(np.asarray(r, dtype=float), 12).tolist()


def check(spec):
    import numpy as np
    import pennylane as qp
    from pennylane.devices import ExecutionConfig
    from mc import sched, x_exec

    backend, w, shots, seed, n = spec["backend"], spec["workers"], spec["shots"], spec["seed"], spec["n"]
    tapes = _batch(n, shots, spec.get("sizes"))
    Gated = x_exec.make(backend)
    slow = backend in ("cf_procpool", "mp_pool")
    # serial reference: same seed, no workers
    dev0 = qp.device("default.qubit", seed=seed)
    serial = _plain(dev0.execute(tapes))
    serial2 = _plain(dev0.execute(tapes))
    # parallel executions must not depend on the completion order; the first order is the reference
    ref = None
    n_exec, orders = 0, set()

    parent = tempfile.mkdtemp(prefix="c31_", dir=GATE_ROOT)

    def execute(prefix):
        d = tempfile.mkdtemp(prefix="x_", dir=parent)
        Gated.gate_dir = d
        dev = qp.device("default.qubit", seed=seed, max_workers=w)
        cfg = ExecutionConfig(executor_backend=Gated)
        try:
            obs, points, released = sched.run_gated(lambda: _plain(dev.execute(tapes, cfg)), d, n, w, prefix, slow=slow)
            # second execution on the same device (sequence of two calls), default order
            d2 = tempfile.mkdtemp(prefix="y_", dir=parent)
            Gated.gate_dir = d2
            obs2, _, _ = sched.run_gated(lambda: _plain(dev.execute(tapes, cfg)), d2, n, w, (), slow=slow)
        finally:
            pass
        return (obs, obs2), points, released

    max_orders = spec.get("max_orders")
    for prefix, (obs, obs2), points, released in sched.all_completion_orders(execute):
        n_exec += 1
        orders.add(tuple(released))
        if obs[0] != "value" or obs2[0] != "value":
            return bad(f"parallel-execution-failed backend={backend}", [obs, obs2], "results", release_order=released)
        got = (obs[1], obs2[1])
        if shots is None:
            for which, g, s in (("first", got[0], serial), ("second", got[1], serial2)):
                if not _close(g, s):
                    return bad(f"analytic-differs-from-serial backend={backend}", g, s, release_order=released, call=which)
        if ref is None:
            ref = got
        elif got != ref:
            return bad(f"shot-results-depend-on-completion-order backend={backend}", got, ref, release_order=released)
        if max_orders and n_exec >= max_orders:
            break
    # same seed, fresh device, same call sequence, default order: identical
    try:
        Gated.gate_dir = None
        devb = qp.device("default.qubit", seed=seed, max_workers=w)
        cfg = ExecutionConfig(executor_backend=Gated)
        again = (_plain(devb.execute(tapes, cfg)), _plain(devb.execute(tapes, cfg)))
    finally:
        shutil.rmtree(parent, ignore_errors=True)
    if again != ref:
        return bad(f"same-seed-devices-differ backend={backend}", again, ref)
    # consecutive calls on one seeded device draw fresh randomness (not a property clause, recorded as outcome)
    return ok(outcome=[n_exec, len(orders), ref[0] == ref[1]], nontrivial=len(orders) > 1, **{"executions": n_exec * 2 + 2, "orders": len(orders)})


def _close(a, b):
    import numpy as np

    if isinstance(a, list) and isinstance(b, list) and len(a) == len(b) and a and isinstance(a[0], list):
        return all(_close(x, y) for x, y in zip(a, b))
    try:
        return np.allclose(np.asarray(a, dtype=float), np.asarray(b, dtype=float), atol=1e-12, rtol=0)
    except Exception:
        return a == b


def check_serial_seed(spec):
    """Sequences of execute calls on two serial devices with the same seed (no pool)."""
    import pennylane as qp

    seed, seq = spec["seed"], spec["seq"]
    outs = []
    for _ in range(2):
        dev = qp.device("default.qubit", seed=seed)
        o = []
        for n, shots in seq:
            o.append(_plain(dev.execute(_batch(n, shots))))
        outs.append(o)
    if outs[0] != outs[1]:
        return bad("same-seed-devices-differ backend=none", outs[0], outs[1])
    return ok(outcome=[len(seq), str(outs[0])[:40]], nontrivial=True)


def run(ctx):
    from concurrent.futures import ThreadPoolExecutor
    from mc.engine import _call

    n = 3 if ctx.quick else 4
    specs = []
    for shots in (None, 5):
        for w in (1, 2, 3) if ctx.quick else (1, 2, 3, 4):
            for seed in (0, 42):
                specs.append({"backend": "cf_threadpool", "workers": w, "shots": shots, "seed": seed, "n": n})
    specs.append({"backend": "serial", "workers": 1, "shots": 5, "seed": 42, "n": n})
    # heterogeneous batches: every ordering of circuits of size 1, 2, 3 (and 4 in thorough)
    import itertools as _it

    for perm in _it.permutations((1, 2, 3) if ctx.quick else (1, 2, 3, 4), n):
        for shots in (None, 5):
            specs.append({"backend": "cf_threadpool", "workers": 2, "shots": shots, "seed": 42, "n": n, "sizes": list(perm)})
    heavy = []
    for be in ("cf_procpool", "mp_pool"):
        if ctx.quick:
            heavy.append({"backend": be, "workers": 2, "shots": 5, "seed": 42, "n": 3, "max_orders": 2, "sizes": [2, 1, 3]})
        else:
            for shots in (None, 5):
                for w in (2, 3):
                    heavy.append({"backend": be, "workers": w, "shots": shots, "seed": 42, "n": 3})
                heavy.append({"backend": be, "workers": 2, "shots": shots, "seed": 42, "n": 3, "sizes": [2, 1, 3], "max_orders": 2})
                heavy.append({"backend": be, "workers": 2, "shots": shots, "seed": 42, "n": 3, "sizes": [1, 3, 2], "max_orders": 2})
    tot = {"executions": 0, "orders": 0}

    def job(s):
        return s, _call("checks.C31", "check", s)

    for group, width in ((specs, 4), (heavy, 4)):
        with ThreadPoolExecutor(width) as tp:
            for s, r in tp.map(job, group):
                ctx.record(s, r)
                x = r.get("x") or {}
                tot["executions"] += x.get("executions", 0)
                tot["orders"] += x.get("orders", 0)
    seqs = [[(2, 5), (2, 5)], [(1, 5), (3, 5)], [(2, None), (2, 5)], [(3, 5), (1, None), (2, 5)]]
    ctx.enumerate([{"seed": s, "seq": q} for s in (0, 42) for q in seqs], fn="check_serial_seed", parallel=False, axis="serial-seed")
    ctx.coverage.update({
        "states": tot["orders"], "transitions": tot["executions"], "traces_validated_against_impl": tot["executions"],
        "distinct_completion_orders": tot["orders"],
        "bound": {"circuits": n, "workers": "1..3 (4 thorough)", "orders": "all for the thread backend; process backends: 2 orders (quick) / all (thorough)"},
        "alphabet": {"backends": ["serial", "cf_threadpool", "cf_procpool", "mp_pool"], "shots": [None, 5], "seeds": [0, 42]},
        "explanation": "states = distinct completion orders forced; transitions = device executions through a pool",
    })
