"""C61 — Optimizers apply their documented update rules (DESIGN §5.10).

E3: every history (word) up to a depth bound over {step, step_and_cost, the same two with a user grad_fn,
recompute_tensor=False steps (QNG), reset (where offered), stepsize change, second hyper-parameter change} is
executed on a FRESH optimizer for every optimizer x hyper-parameter menu x objective; an independent 10-line
reference of the documented formula (mc/x_optim.py) is carried along the history and compared after every event.
SPSA / QNSPSA: the internal +-1 draws are owned (scripted) and EVERY answer string is enumerated.
Rotosolve / Rotoselect: every coordinate sub-problem of products of sinusoids must end at its exact minimum.
"""
import itertools
import math

from mc.engine import ok, bad, skip
from mc.explore import words

PROPERTY = "C61"
LEVEL = "model_checking"
TECHNIQUE = "explicit-state exploration of optimizer call histories against independent reference implementations of each documented update formula (internal sampling scripted)"
LEVEL_TEXT = ("All histories of length <=3 (thorough 4; QNode objectives 2/3) over {step, step_and_cost, step/step_and_cost with grad_fn, "
              "recompute_tensor=False, reset, stepsize change, second hyper-parameter change} x 8 gradient optimizers x 2-3 hyper-parameter menus x 5 "
              "objectives are executed on fresh optimizers and compared event by event with plain-numpy references of the documented formulas; "
              "SPSA and QNSPSA with every +-1 answer string of their internal draws; Rotosolve/Rotoselect on a grid of products of sinusoids "
              "(exact coordinate minima in closed form).")
LEVEL_NOTE = ("Reference formulas are transcribed from the class docstrings; gradients of the objectives are hand-written. Not decided: "
              "ShotAdaptiveOptimizer (estimator over device samples), RiemannianGradientOptimizer/AdaptiveOptimizer (circuit-structure updates), the "
              "jax-only *QJIT variants, Rotosolve's numeric multi-frequency branch (not 'exact' by documentation). QNSPSA compared at 1e-6 (sqrtm).")
DESIGN_REF = "5.10 C61"
START = "fork"
PARALLEL = True
RULE = ("one case = (optimizer, hyper-parameters, objective, history[, answer string of the internal draws]); complete enumeration of histories up to "
        "the depth bound; non-trivial = the history contains at least one optimisation step that moves a parameter")

ASSUMPTIONS = ["QNSPSA metric-tensor estimate taken with the sign of Gacon et al. 2021 (g = -1/2 Hessian of the fidelity, as implemented); the class docstring "
               "prints the formula without the minus sign, which would make the estimate negative semi-definite",
               "QNSPSA blocking tolerance = 2 x standard deviation of the last history_length losses (paper / implementation); the argument documentation "
               "says 'average of the cost values'",
               "QNGOptimizer with recompute_tensor=False reuses the regularised tensor of the last recomputation (lam applied when the tensor was computed)",
               "numpy.random.choice (SPSA) and QNSPSAOptimizer.rng are replaced by scripted answer sources on the harness side"]

GD_OPTS = ["GradientDescentOptimizer", "MomentumOptimizer", "NesterovMomentumOptimizer", "AdagradOptimizer", "RMSPropOptimizer", "AdamOptimizer",
           "QNGOptimizer", "MomentumQNGOptimizer"]
STEP_EVENTS = ("step", "sc", "sg", "cg", "nr", "cnr")
TOL = 1e-9


def _alphabet(name, qnode):
    from mc.x_optim import MENUS, REFS

    ev = ["step", "sc", "sg", "cg"]
    if name in ("QNGOptimizer", "MomentumQNGOptimizer"):
        ev += ["nr", "cnr"] if not qnode else ["nr"]
    if REFS[name].resettable:
        ev.append("reset")
    ev.append("eta")
    if MENUS[name]["hp2"] is not None:
        ev.append("hp2")
    return ev


def _np(v):
    import numpy as np

    return np.array(v, dtype=float)


def _fp(xs):
    import numpy as np

    return [np.round(np.asarray(x, dtype=float), 6).reshape(-1).tolist() for x in xs]


# ------------------------------------------------------------------------------------------------ gradient family
def check_gd(spec):
    import numpy as np
    import pennylane as qp
    from pennylane import numpy as pnp

    from mc import x_optim as X

    name, hp, objname, hist = spec["opt"], dict(spec["hp"]), spec["obj"], spec["hist"]
    is_qn = objname in X.QNODES
    ospec = X.QNODES[objname] if is_qn else X.OBJECTIVES[objname]
    kwargs = dict(ospec["kwargs"])
    f_live = X.live_qnode() if is_qn else X.live_objective(objname)
    args = X.live_args(objname)
    xs, tr = X.ref_args(objname)
    n_tr = sum(tr)
    qng = name in ("QNGOptimizer", "MomentumQNGOptimizer")
    approx = hp.pop("approx", "block-diag")
    opt = getattr(qp, name)(**hp, **({"approx": approx} if qng else {}))
    ref = X.REFS[name](hp)
    menu = X.MENUS[name]

    def grad_fn(*a, **k):
        gs = ospec["g"](*[_np(v) for v in a], **k)
        return gs[0] if n_tr == 1 else tuple(gs)

    def metric_fn(*a, **k):
        ms = X.ref_metric(objname, [_np(v) for v in a])
        return ms[0] if n_tr == 1 else tuple(ms)

    moved = False
    n_steps = 0
    for pos, ev in enumerate(hist):
        if ev == "reset":
            opt.reset()
            ref.reset()
            continue
        if ev == "eta":
            opt.stepsize = menu["eta"]
            ref.hp["stepsize"] = menu["eta"]
            continue
        if ev == "hp2":
            setattr(opt, menu["hp2"][0], menu["hp2"][1])
            ref.hp[menu["hp2"][0]] = menu["hp2"][1]
            continue
        # ---- an optimisation step: reference first
        gp = ref.grad_point(xs, tr)
        gs = [np.asarray(g, dtype=float) for g in ospec["g"](*gp, **kwargs)]
        cost_exp = ospec["f"](*xs, **kwargs)
        cost_at_gp = ospec["f"](*gp, **kwargs)
        aux = None
        call_kw = dict(kwargs)
        if qng:
            recompute = ev not in ("nr", "cnr")
            if recompute or ref.G is None:
                aux = [X.circuit_metric(xs[0], approx)] if is_qn else X.ref_metric(objname, xs)
            if not recompute:
                call_kw["recompute_tensor"] = False
            if not is_qn:
                call_kw["metric_tensor_fn"] = metric_fn
        new_ref = ref.update(xs, tr, gs, aux)
        if ev in ("sg", "cg"):
            call_kw["grad_fn"] = grad_fn
        with_cost = ev in ("sc", "cg", "cnr")
        out = (opt.step_and_cost if with_cost else opt.step)(f_live, *args, **call_kw)
        if with_cost:
            if not (isinstance(out, tuple) and len(out) == 2):
                return bad(f"structure:{name}:step_and_cost", repr(out)[:200], "(new_args, cost)")
            new_live, cost = out
        else:
            new_live, cost = out, None
        if len(args) == 1:
            new_list = [new_live]
        else:
            if not isinstance(new_live, (list, tuple)) or len(new_live) != len(args):
                return bad(f"structure:{name}:args", repr(new_live)[:200], f"sequence of {len(args)} arguments")
            new_list = list(new_live)
        for i, (nl, nr_, t) in enumerate(zip(new_list, new_ref, tr)):
            if not t:
                if nl is not args[i] and not (np.array_equal(np.asarray(nl), xs[i]) and not getattr(nl, "requires_grad", True)):
                    return bad(f"nontrainable-changed:{name}", _fp([nl]), _fp([xs[i]]), event=pos, arg=i)
                continue
            if np.shape(nl) != np.shape(nr_) or not X.close(np.asarray(nl, dtype=float), nr_, TOL):
                return bad(f"params:{name}", _fp(new_list), _fp(new_ref), event=pos, ev=ev, arg=i)
        if cost is not None:
            if not X.close(float(cost), cost_exp, TOL):
                if name == "NesterovMomentumOptimizer" and X.close(float(cost), cost_at_gp, TOL):
                    return bad(f"cost:{name}:evaluated-at-shifted-point", float(cost), cost_exp, event=pos, ev=ev)
                return bad(f"cost:{name}", float(cost), cost_exp, event=pos, ev=ev)
        if name == "AdamOptimizer":  # documented public read-outs of the accumulator
            if opt.t != ref.acc["t"]:
                return bad("adam:t", opt.t, ref.acc["t"], event=pos)
            for i, t in enumerate(tr):
                if t and not (X.close(np.asarray(opt.fm[i], dtype=float), ref.acc["a"][i], TOL)
                              and X.close(np.asarray(opt.sm[i], dtype=float), ref.acc["b"][i], TOL)):
                    return bad("adam:moments", _fp([opt.fm[i], opt.sm[i]]), _fp([ref.acc["a"][i], ref.acc["b"][i]]), event=pos)
        moved = moved or any(t and not np.allclose(a, b, atol=1e-12) for a, b, t in zip(xs, new_ref, tr))
        n_steps += 1
        args, xs = new_list, new_ref
    return ok(outcome=[_fp(xs), n_steps], nontrivial=moved)


# ------------------------------------------------------------------------------------------------ SPSA
def check_spsa(spec):
    import numpy as np
    import pennylane as qp

    from mc import x_optim as X

    hp, objname, hist, answers = spec["hp"], spec["obj"], spec["hist"], spec["answers"]
    is_qn = objname in X.QNODES
    ospec = X.QNODES[objname] if is_qn else X.OBJECTIVES[objname]
    kwargs = dict(ospec["kwargs"])
    f_live = X.live_qnode() if is_qn else X.live_objective(objname)
    args = X.live_args(objname)
    xs, tr = X.ref_args(objname)
    opt = qp.SPSAOptimizer(**hp)
    ref = X.RefSPSA(hp)
    scripted = X.ScriptedChoice(answers)
    cursor = 0
    with X.own_legacy_choice(scripted):
        for pos, ev in enumerate(hist):
            deltas = []
            for x, t in zip(xs, tr):
                if t:
                    n = int(x.size)
                    deltas.append(np.array([(-1.0, 1.0)[a] for a in answers[cursor:cursor + n]]).reshape(x.shape))
                    cursor += n
            cost_exp = ospec["f"](*xs, **kwargs)
            new_ref = ref.step(ospec["f"], xs, tr, deltas, kwargs)
            if ev == "sc":
                new_live, cost = opt.step_and_cost(f_live, *args, **kwargs)
            else:
                new_live, cost = opt.step(f_live, *args, **kwargs), None
            new_list = [new_live] if len(args) == 1 else list(new_live)
            if len(new_list) != len(args):
                return bad("structure:SPSAOptimizer:args", repr(new_live)[:200], len(args))
            for i, (nl, nr_, t) in enumerate(zip(new_list, new_ref, tr)):
                if not t:
                    if not np.array_equal(np.asarray(nl), xs[i]):
                        return bad("nontrainable-changed:SPSAOptimizer", _fp([nl]), _fp([xs[i]]))
                    continue
                if np.shape(nl) != np.shape(nr_) or not X.close(np.asarray(nl, dtype=float), nr_, TOL):
                    return bad("params:SPSAOptimizer", _fp(new_list), _fp(new_ref), event=pos, k=ref.k - 1)
            if cost is not None and not X.close(float(cost), cost_exp, TOL):
                return bad("cost:SPSAOptimizer", float(cost), cost_exp, event=pos)
            if opt.k != ref.k:
                return bad("spsa:k", opt.k, ref.k)
            args, xs = new_list, new_ref
    if scripted.pos != len(answers):
        return bad("spsa:draw-count", scripted.pos, len(answers))
    for c in scripted.calls:
        if sorted(c["a"]) != [-1, 1] or c["p"] is not None:
            return bad("spsa:perturbation-distribution", c, "uniform choice from {-1, +1}")
    return ok(outcome=_fp(xs), nontrivial=True)


# ------------------------------------------------------------------------------------------------ QNSPSA
def check_qnspsa(spec):
    import warnings

    import numpy as np
    import pennylane as qp
    from pennylane import numpy as pnp

    from mc import x_optim as X
    from mc.explore import Chooser
    from mc.seams import ScriptedGenerator

    hp, split, hist, answers = dict(spec["hp"]), spec["split"], spec["hist"], spec["answers"]
    p0 = X.QNODES["qnode"]["args"][0][0]
    ia, ib = X.SPLITS[split]
    pa = pnp.array([p0[k] for k in ia], requires_grad=True)
    pb = pnp.array([p0[k] for k in ib], requires_grad=False)
    pb_ref = np.array([p0[k] for k in ib])
    qnode = X.live_qnode(split=split)
    opt = qp.QNSPSAOptimizer(**hp)
    ch = Chooser(answers)
    gen = ScriptedGenerator(ch)
    opt.rng = gen  # harness-side seam: the optimizer's generator attribute
    f = lambda x: X.circuit_cost(X.merge(split, x, pb_ref))
    F = lambda x, y: X.circuit_overlap(X.merge(split, x, pb_ref), X.merge(split, y, pb_ref))
    ref = X.RefQNSPSA(hp, f, F)
    x = np.array([p0[k] for k in ia], dtype=float)
    res = hp.get("resamplings", 1)
    cursor = 0
    accepted_all = True
    tol = 1e-6
    for pos, ev in enumerate(hist):
        dirs = []
        for _ in range(res):
            trip = []
            for _ in range(3):
                trip.append(np.array([(-1.0, 1.0)[a] for a in answers[cursor:cursor + split]]))
                cursor += split
            dirs.append(tuple(trip))
        new_ref, loss_ref, accepted = ref.step(x, dirs)
        accepted_all = accepted_all and accepted
        with warnings.catch_warnings():
            warnings.simplefilter("ignore")
            if ev == "sc":
                out, cost = opt.step_and_cost(qnode, pa, pb)
            else:
                out, cost = opt.step(qnode, pa, pb), None
        if not isinstance(out, (list, tuple)) or len(out) != 2:
            return bad("structure:QNSPSAOptimizer:args", repr(out)[:200], "2 arguments")
        if not np.array_equal(np.asarray(out[1]), pb_ref):
            return bad("nontrainable-changed:QNSPSAOptimizer", _fp([out[1]]), _fp([pb_ref]))
        if np.shape(out[0]) != new_ref.shape or not X.close(np.asarray(out[0], dtype=float), new_ref, tol):
            return bad("params:QNSPSAOptimizer" + ("" if accepted else ":blocked-step"), _fp([out[0]]), _fp([new_ref]), event=pos)
        if cost is not None and not X.close(float(cost), loss_ref, tol):
            return bad("cost:QNSPSAOptimizer", float(cost), loss_ref, event=pos)
        pa = pnp.array(np.asarray(out[0], dtype=float), requires_grad=True)
        x = new_ref
    if len(ch.points) != len(answers):
        return bad("qnspsa:draw-count", len(ch.points), len(answers))
    for c in gen.log:
        if c["fn"] != "choice" or c["n"] != 2 or c["p"] is not None:
            return bad("qnspsa:perturbation-distribution", {k: repr(v) for k, v in c.items()}, "uniform choice from {-1, +1}")
    return ok(outcome=[_fp([x]), accepted_all], nontrivial=True)


# ------------------------------------------------------------------------------------------------ Rotosolve
def check_min_analytic(spec):
    import numpy as np
    import pennylane as qp

    a, b, c, fr = spec["a"], spec["b"], spec["c"], spec["freq"]
    g = lambda t: a * math.sin(fr * t + b) + c
    x_min, y_min = qp.RotosolveOptimizer.min_analytic(g, fr, g(0.0) if spec["f0"] else None)
    x_min, y_min = float(x_min), float(y_min)
    vmin = c - abs(a)
    if abs(y_min - vmin) > TOL:
        return bad("rotosolve:min_analytic:y_min", y_min, vmin)
    if abs(g(x_min) - vmin) > TOL:
        return bad("rotosolve:min_analytic:not-a-minimum", [x_min, g(x_min)], vmin)
    if not (-math.pi / fr < x_min <= math.pi / fr + 1e-12):
        return bad("rotosolve:min_analytic:range", x_min, f"(-pi/{fr}, pi/{fr}]")
    return ok(outcome=[round(x_min, 6), round(y_min, 6)], nontrivial=abs(a) > 0)


def check_rotosolve(spec):
    import numpy as np
    import pennylane as qp
    from pennylane import numpy as pnp

    from mc import x_optim as X

    a, bs, fs, c, x0, how, layout, hist = (spec[k] for k in ("a", "bs", "fs", "c", "x0", "how", "layout", "hist"))
    D = len(bs)
    bs_l, fs_l = pnp.array(bs, requires_grad=False), pnp.array(fs, requires_grad=False)
    fref = X.sin_family(a, bs, fs, c)
    if layout == "vec":
        def f_live(x):
            return a * pnp.prod(pnp.sin(fs_l * x + bs_l)) + c

        args = [pnp.array(x0, requires_grad=True)]
        index = [("x", (d,)) for d in range(D)]
    else:  # (x[2], k non-trainable, y scalar): theta = (x0, x1, y)
        def f_live(x, k, y):
            return a * k * pnp.sin(fs[0] * x[0] + bs[0]) * pnp.sin(fs[1] * x[1] + bs[1]) * pnp.sin(fs[2] * y + bs[2]) + c

        args = [pnp.array(x0[:2], requires_grad=True), pnp.array(1.0, requires_grad=False), pnp.array(x0[2], requires_grad=True)]
        index = [("x", (0,)), ("x", (1,)), ("y", ())]
    nums, spectra = {}, {}
    for d, (nm, idx) in enumerate(index):
        if how == "nums":
            nums.setdefault(nm, {})[idx] = 1
        else:
            spectra.setdefault(nm, {})[idx] = [-fs[d], 0.0, fs[d]] if how == "spectra" else [0.0, fs[d]]
    opt = qp.RotosolveOptimizer()
    theta = np.array(x0, dtype=float)
    degenerate = False
    for pos, ev in enumerate(hist):
        full = ev.endswith("_full")
        kw = dict(nums_frequency=nums or None, spectra=spectra or None, full_output=full)
        cost_exp = fref(theta)
        if ev.startswith("sc"):
            out = opt.step_and_cost(f_live, *args, **kw)
            new_live, cost, ys = (out[0], out[1], out[2] if full else None)
        else:
            out = opt.step(f_live, *args, **kw)
            new_live, cost, ys = (out[0], None, out[1]) if full else (out, None, None)
        new_list = [new_live] if len(args) == 1 else list(new_live)
        if layout == "vec":
            new_theta = np.asarray(new_list[0], dtype=float).reshape(-1)
        else:
            if not np.array_equal(np.asarray(new_list[1]), 1.0):
                return bad("nontrainable-changed:RotosolveOptimizer", _fp([new_list[1]]), [1.0])
            new_theta = np.concatenate([np.asarray(new_list[0], dtype=float).reshape(-1), np.asarray(new_list[2], dtype=float).reshape(-1)])
        if new_theta.shape != theta.shape:
            return bad("structure:RotosolveOptimizer:args", _fp(new_list), D)
        if cost is not None and abs(float(cost) - cost_exp) > TOL:
            return bad("cost:RotosolveOptimizer", float(cost), cost_exp, event=pos)
        cur = theta.copy()
        for d in range(D):
            vmin, p_exp, A = X.sin_coordinate_min(a, bs, fs, c, cur, d)
            old = cur[d]
            cur[d] = new_theta[d]
            val = fref(cur)
            if abs(val - vmin) > TOL:
                return bad("rotosolve:substep-not-at-minimum", [d, val], vmin, event=pos, theta=cur.tolist())
            if ys is not None and abs(float(ys[d]) - vmin) > TOL:
                return bad("rotosolve:full_output", [d, float(ys[d])], vmin, event=pos)
            period = 2 * math.pi / fs[d]
            if abs(A) > 1e-6:
                r = (cur[d] - p_exp) % period
                if min(r, period - r) > 1e-7:
                    return bad("rotosolve:position", [d, cur[d]], p_exp, event=pos)
            else:
                degenerate = True
            if not (-period / 2 - 1e-9 <= cur[d] - old <= period / 2 + 1e-9):
                return bad("rotosolve:update-range", [d, cur[d] - old], period / 2, event=pos)
        if ys is not None and len(ys) != D:
            return bad("rotosolve:full_output-length", len(ys), D)
        theta = cur
        args = new_list
    return ok(outcome=_fp([theta]), nontrivial=not degenerate)


# ------------------------------------------------------------------------------------------------ Rotoselect
RS_TABLE = {"RX": (1.0, 0.3, 0.10), "RY": (0.6, -1.1, -0.25), "RZ": (1.4, 2.0, 0.45)}  # amplitude, phase, offset per generator


def _rs_cost(a, x, gens):
    v, off = a, 0.0
    for t, g in zip(x, gens):
        amp, ph, o = RS_TABLE[g]
        v *= amp * math.sin(t + ph)
        off += o
    return v + off


def _qn_cost(x, gens):
    """0.2 <Z0> + 0.5 <X1> after gens[0](x0) w0, gens[1](x1) w1, CNOT(0,1) — plain numpy."""
    import numpy as np

    from mc import x_optim as X

    psi = np.zeros(4, dtype=complex)
    psi[0] = 1
    psi = X._rot(gens[0][1], 0, x[0]) @ psi
    psi = X._rot(gens[1][1], 1, x[1]) @ psi
    psi = X._CNOT @ psi
    H = 0.2 * X._on(X._P["Z"], 0) + 0.5 * X._on(X._P["X"], 1)
    return float(np.real(np.vdot(psi, H @ psi)))


def check_rotoselect(spec):
    import numpy as np
    import pennylane as qp
    from pennylane import numpy as pnp

    from mc import x_optim as X

    kind, a, x0, gens0, poss, hist, xform = (spec[k] for k in ("kind", "a", "x0", "gens0", "poss", "hist", "xform"))
    cls = {"RX": qp.RX, "RY": qp.RY, "RZ": qp.RZ}
    name_of = {v: k for k, v in cls.items()}
    if kind == "table":
        cost_ref = lambda x, g: _rs_cost(a, x, g)

        def cost_live(x, generators=None):
            return _rs_cost(a, [float(v) for v in x], [name_of[g] for g in generators])
    else:
        cost_ref = _qn_cost
        dev = qp.device("default.qubit", wires=2)

        @qp.qnode(dev)
        def circuit(params, generators=None):
            generators[0](params[0], wires=0)
            generators[1](params[1], wires=1)
            qp.CNOT(wires=[0, 1])
            return qp.expval(qp.Z(0)), qp.expval(qp.X(1))

        def cost_live(x, generators=None):
            z, xx = circuit(x, generators=generators)
            return 0.2 * z + 0.5 * xx

    opt = qp.RotoselectOptimizer(possible_generators=[cls[g] for g in poss] if poss else None)
    cand = poss or ["RX", "RY", "RZ"]
    x = [float(v) for v in x0]
    gens = list(gens0)
    changed = False
    for pos, ev in enumerate(hist):
        x_arg = list(x) if xform == "list" else pnp.array(x, requires_grad=True)
        g_arg = [cls[g] for g in gens]
        cost_exp = cost_ref(x, gens)
        if ev == "sc":
            out = opt.step_and_cost(cost_live, x_arg, g_arg)
            if len(out) != 3:
                return bad("structure:RotoselectOptimizer", repr(out)[:200], "(x, generators, cost)")
            new_x, new_g, cost = out
        else:
            (new_x, new_g), cost = opt.step(cost_live, x_arg, g_arg), None
        new_x = [float(v) for v in np.asarray(new_x, dtype=float).reshape(-1)]
        new_g = [name_of[g] for g in new_g]
        if len(new_x) != len(x) or len(new_g) != len(gens):
            return bad("structure:RotoselectOptimizer:lengths", [new_x, new_g], len(x))
        cx, cg = list(x), list(gens)
        for d in range(len(x)):
            best = cost_ref(cx, cg)  # keeping the current (angle, generator) is always available
            for G in cand:
                gg = cg[:d] + [G] + cg[d + 1:]
                best = min(best, X.sin_fit_min(lambda t: cost_ref(cx[:d] + [t] + cx[d + 1:], gg)))
            cx[d], cg[d] = new_x[d], new_g[d]
            val = cost_ref(cx, cg)
            if abs(val - best) > TOL:
                return bad("rotoselect:substep-not-at-minimum", [d, val, cg[d]], best, event=pos)
            if not (-math.pi - 1e-12 < cx[d] <= math.pi + 1e-12):
                return bad("rotoselect:angle-range", cx[d], "(-pi, pi]")
        if cost is not None and abs(float(cost) - cost_exp) > TOL:
            if new_g != gens and abs(float(cost) - cost_ref(x, new_g)) <= TOL:
                return bad("cost:RotoselectOptimizer:evaluated-with-post-step-generators", float(cost), cost_exp, event=pos, gens=[gens, new_g])
            return bad("cost:RotoselectOptimizer", float(cost), cost_exp, event=pos)
        changed = changed or new_g != gens
        x, gens = cx, cg
    return ok(outcome=[_fp([x]), gens], nontrivial=True)


CHECKS = {"gd": check_gd, "spsa": check_spsa, "qnspsa": check_qnspsa, "min_analytic": check_min_analytic, "rotosolve": check_rotosolve,
          "rotoselect": check_rotoselect}


def check(spec):
    return CHECKS[spec["fam"]](spec)


# ------------------------------------------------------------------------------------------------ driver
def _bits(n):
    return [list(b) for b in itertools.product((0, 1), repeat=n)]


def run(ctx):
    from mc import x_optim as X

    only = ctx.only
    want = lambda fam: only is None or only == fam or only.startswith(fam + ":")
    depth = 3 if ctx.quick else 4
    qdepth = 2 if ctx.quick else 3
    n_hist, n_events = 0, 0
    cov = {}

    def add(specs, axis, **kw):
        nonlocal n_hist, n_events
        n_hist += len(specs)
        n_events += sum(len(s.get("hist", [0])) for s in specs)
        ctx.enumerate(specs, axis=axis, **kw)

    # ---- gradient family on classical objectives and on the QNode
    if want("gd"):
        for name in GD_OPTS:
            if only and ":" in only and only.split(":")[1] != name:
                continue
            specs = []
            for hp in X.MENUS[name]["hps"]:
                for obj in X.OBJECTIVES:
                    for w in words(_alphabet(name, False), depth, 1):
                        specs.append({"fam": "gd", "opt": name, "hp": hp, "obj": obj, "hist": w})
            add(specs, axis=f"gd:{name}")
            cov[name] = {"events": _alphabet(name, False), "hyper_parameters": X.MENUS[name]["hps"]}
    if want("qn"):
        for name in GD_OPTS:
            if only and ":" in only and only.split(":")[1] != name:
                continue
            qng = name in ("QNGOptimizer", "MomentumQNGOptimizer")
            hps = X.MENUS[name]["hps"]
            if qng:
                hps = [dict(hp, approx=ap) for hp, ap in zip(hps + hps[:1], ["block-diag", "diag", None])]
            specs = [{"fam": "gd", "opt": name, "hp": hp, "obj": "qnode", "hist": w}
                     for hp in hps for w in words(_alphabet(name, True), qdepth if qng else qdepth, 1)]
            add(specs, axis=f"qnode:{name}", chunk=4)
    # ---- SPSA: all answer strings
    if want("spsa"):
        specs = []
        plan = [("scalar", 1, depth), ("quad", 2, depth), ("one_nt", 2, depth), ("two_tr", 3, 2 if ctx.quick else 3), ("qnode", 4, 1)]
        for hp in X.SPSA_MENUS:
            for obj, p, dmax in plan:
                for w in words(["step", "sc"], dmax, 1):
                    for ans in _bits(p * len(w)):
                        specs.append({"fam": "spsa", "hp": hp, "obj": obj, "hist": w, "answers": ans})
        add(specs, axis="spsa")
        cov["SPSAOptimizer"] = {"events": ["step", "sc"], "hyper_parameters": X.SPSA_MENUS, "answers": "every +-1 perturbation vector at every step",
                                "objectives": [p[0] for p in plan]}
    # ---- QNSPSA: all answer strings
    if want("qnspsa"):
        menus = [{"stepsize": 0.05, "blocking": False}, {"stepsize": 0.5, "blocking": True, "history_length": 2},
                 {"stepsize": 0.05, "blocking": False, "resamplings": 2, "regularization": 0.01, "finite_diff_step": 0.05}]
        specs = []
        for hp in menus:
            res = hp.get("resamplings", 1)
            for split, dmax in ((1, 2 if ctx.quick else 3), (2, 1)):
                if res == 2 and split == 2:
                    continue
                for w in words(["step", "sc"], dmax if res == 1 else 1, 1):
                    for ans in _bits(3 * split * res * len(w)):
                        specs.append({"fam": "qnspsa", "hp": hp, "split": split, "hist": w, "answers": ans})
        add(specs, axis="qnspsa", chunk=4)
        cov["QNSPSAOptimizer"] = {"events": ["step", "sc"], "hyper_parameters": menus, "answers": "every +-1 direction triple (h, h1, h2)"}
    # ---- Rotosolve
    if want("roto"):
        specs = []
        for a in (0.7, -1.3, 2.0):
            for b in (0.0, 0.4, math.pi / 2, -2.0):
                for c in (0.0, 0.5):
                    for fr in (1.0, 0.5, 2.0, 3.0):
                        for f0 in (True, False):
                            specs.append({"fam": "min_analytic", "a": a, "b": b, "c": c, "freq": fr, "f0": f0})
        specs.append({"fam": "min_analytic", "a": 0.0, "b": 0.3, "c": 0.5, "freq": 1.0, "f0": True})
        add(specs, axis="rotosolve:min_analytic")
        specs = []
        hists = [w for w in words(["step", "sc", "step_full", "sc_full"], 2, 1)]
        for a in (0.7, -1.3):
            for c in (0.0, 0.5):
                # one parameter: the 3 x 4 x 2 grid of the design, three starting points
                for b in (0.0, 0.4, math.pi / 2, -2.0):
                    for x0 in (0.0, 0.3, -2.5):
                        for how, fr in (("nums", 1.0), ("spectra", 1.0), ("spectra", 0.5), ("spectra+", 2.0)):
                            for w in hists:
                                specs.append({"fam": "rotosolve", "a": a, "bs": [b], "fs": [fr], "c": c, "x0": [x0], "how": how, "layout": "vec", "hist": w})
                # products of two and three sinusoids
                for bs in ([0.4, -2.0], [math.pi / 2, 0.9], [0.0, 0.0]):
                    for x0 in ([0.3, -2.5], [0.0, 1.0], [0.3, 0.0]):
                        for how, fs in (("nums", [1.0, 1.0]), ("spectra", [0.5, 2.0])):
                            for w in hists:
                                specs.append({"fam": "rotosolve", "a": a, "bs": bs, "fs": fs, "c": c, "x0": x0, "how": how, "layout": "vec", "hist": w})
                for bs in ([0.4, -2.0, 1.1],):
                    for x0 in ([0.3, -2.5, 0.8],):
                        for how, fs in (("nums", [1.0, 1.0, 1.0]), ("spectra", [0.5, 2.0, 1.0])):
                            for w in hists:
                                specs.append({"fam": "rotosolve", "a": a, "bs": bs, "fs": fs, "c": c, "x0": x0, "how": how, "layout": "args", "hist": w})
        add(specs, axis="rotosolve")
        cov["RotosolveOptimizer"] = {"events": ["step", "sc", "step_full", "sc_full"], "objective": "a prod_d sin(f_d x_d + b_d) + c"}
    # ---- Rotoselect
    if want("rotosel"):
        specs = []
        G = ["RX", "RY", "RZ"]
        for poss in (None, ["RZ", "RX"]):
            for gens0 in itertools.product(G, repeat=2):
                for x0 in ([0.3, 0.7], [-2.0, 1.5]):
                    for w in words(["step", "sc"], 2, 1):
                        for xform in ("list", "array"):
                            specs.append({"fam": "rotoselect", "kind": "table", "a": -0.8, "x0": x0, "gens0": list(gens0), "poss": poss, "hist": w, "xform": xform})
        for gens0 in itertools.product(G, repeat=2):
            for w in ([["step"], ["sc"]] if ctx.quick else words(["step", "sc"], 2, 1)):
                specs.append({"fam": "rotoselect", "kind": "qnode", "a": 0.0, "x0": [0.3, 0.7], "gens0": list(gens0), "poss": None, "hist": w, "xform": "list"})
        add(specs, axis="rotoselect", chunk=4)
        cov["RotoselectOptimizer"] = {"events": ["step", "sc"], "generators": G, "possible_generators": [None, ["RZ", "RX"]]}
    ctx.coverage.update({"states": n_hist, "transitions": n_events, "traces_validated_against_impl": n_hist,
                         "alphabet": cov, "bound": {"depth_classical": depth, "depth_qnode": qdepth, "objectives": list(X.OBJECTIVES) + ["qnode"]},
                         "explanation": "states = histories replayed on a fresh optimizer (reference carried along and compared after every event); transitions = events executed"})
