"""C58 — Block-encoding, oracle and algorithm templates implement their documented operators (DESIGN §5.10).

E1 over finite argument menus, smallest sizes.  One spec = (template, arguments, wire layout, route).  The reference of an
instance is a dense matrix M written from the docstring formula together with the part of the operator it constrains:
`in_basis` (columns = admissible inputs, e.g. ancillas / work wires in |0>, addresses < K), `out_rows` (rows compared, e.g.
the ancilla-|0> block of a block encoding; None = all rows, which also forces work wires back to |0>), an optional
post-processing (marginal probabilities) and a comparison mode (exact / up to a global phase where the formula is only
defined that way / within a stated bound for approximate templates).

Routes: `matrix` (qp.matrix), `device` (default.qubit on one generic superposition of the admissible inputs), `dec`
(hand-written decomposition) and `rule:<name>` (every applicable registered rule), the last two expanded recursively to
closed-form gates by mc/x_tmpl.py, with one column per admissible input.
"""
import cmath
import hashlib
import itertools
import math

import numpy as np

from mc.engine import ok, bad, skip

PROPERTY = "C58"
LEVEL = "exploration"
TECHNIQUE = "finite argument menus per template vs. directly constructed dense reference operators (matrix, device, every rule fully expanded)"
LEVEL_TEXT = ("21 templates (Select, QROM, QFT, AQFT, Permute, FlipSign, Reflection, GroverOperator, AmplitudeAmplification, "
              "ControlledSequence, QuantumPhaseEstimation, QuantumMonteCarlo, Qubitization, PrepSelPrep, QSVT/qsvt, GQSP, BlockEncode, "
              "FABLE, CommutingEvolution, TrotterProduct, ApproxTimeEvolution) at their two smallest sizes over finite menus (all "
              "permutations, all flip targets, all small QROM tables, fixed operator / polynomial / Hamiltonian tables); compared with "
              "DFT matrices, sum_i |i><i| (x) U_i, permutation matrices, I-2|t><t|, A/alpha blocks, P(A), exp(-iHt) and the documented "
              "product formulas on every admissible input column.")
LEVEL_NOTE = ("Reference = numpy/scipy linear algebra + mc.refgates.  AmplitudeAmplification is compared with ((2|Psi><Psi|-I) O)^k up to "
              "a global phase (fixed-point variant: success probability >= p_min for the documented example sizes); QuantumMonteCarlo by "
              "the phase-estimation distribution of the two eigenphases; Trotter-type templates against the documented product formula "
              "read in either multiplication order, plus the first-order commutator bound for ApproxTimeEvolution; FABLE with tol>0 "
              "within N^3*tol. Angle solvers other than the default and interfaces other than numpy are not explored.")
DESIGN_REF = "5.10 C58"
START = "fork"
PARALLEL = True
RULE = "one case = (template, arguments, layout, route); non-trivial = reference is not the identity on the admissible inputs"
ASSUMPTIONS = ["closed-form gate matrices of mc.refgates", "scipy.linalg.expm / sqrtm for references"]

G1, G2 = 0.3, -1.234
LAYOUTS = ["seq", "work0", "mixed", "rev"]


def layout(regs, lay):
    from mc.x_tmpl import layout as L

    return L(regs, lay)


# ================================================================================================= small symbolic gates
# gate = [name, [params], [positions in the register]]
def gate_matrix(g, n):
    """matrix of a symbolic gate on an n-wire register (first wire most significant)"""
    from mc import refgates as RG
    from mc import refsim as RS

    name, params, pos = g
    if name == "PauliRot":
        M = RG.pauli_rot(params[0], params[1])
    elif name == "QubitUnitary":
        M = fixed_unitary(params[0], len(pos))
    else:
        M = RG.matrix(name, params)
    return RS.embed(M, list(pos), list(range(n)))


def gate_op(g, wires):
    import pennylane as qp

    name, params, pos = g
    w = [wires[p] for p in pos]
    if name == "PauliRot":
        return qp.PauliRot(params[0], params[1], wires=w)
    if name == "QubitUnitary":
        return qp.QubitUnitary(fixed_unitary(params[0], len(pos)), wires=w)
    return getattr(qp, name)(*params, wires=w)


def seq_matrix(gs, n):
    """matrix of a gate sequence applied in list order"""
    M = np.eye(2 ** n, dtype=complex)
    for g in gs:
        M = gate_matrix(g, n) @ M
    return M


def seq_op(gs, wires):
    """one operator for a gate sequence (Prod is written in matrix order)"""
    import pennylane as qp

    ops = [gate_op(g, wires) for g in gs]
    return ops[0] if len(ops) == 1 else qp.prod(*ops[::-1])


def fixed_unitary(i, k):
    """deterministic generic k-qubit unitary number i"""
    from scipy.linalg import expm

    d = 2 ** k
    j, l = np.meshgrid(np.arange(d), np.arange(d), indexing="ij")
    H = np.sin(1.3 * j + 2.1 * l + 0.7 * i + 0.1) + 1j * np.cos(0.9 * j - 1.7 * l + 1.1 * i)
    H = (H + H.conj().T) / 2
    return expm(1j * H)


def pauli_word_matrix(word):
    from mc import refgates as RG

    return RG.pauli_word_matrix(word)


def ham_terms(hname):
    """fixed Hamiltonians: list of (coefficient, pauli word on n wires)"""
    return {
        "zz+x": (2, [(0.3, "ZZ"), (0.7, "XI")]),
        "comm2": (2, [(1.0, "XY"), (-1.0, "YX")]),
        "comm3": (3, [(0.5, "ZZI"), (-0.8, "IZZ"), (0.3, "ZIZ")]),
        "xz1": (1, [(0.25, "X"), (0.75, "Z")]),
        "flat4": (2, [(0.5, "XI"), (0.2, "IY"), (0.1, "YZ"), (-0.6, "XY")]),
        "lcu2": (1, [(0.3, "X"), (-0.1, "Z")]),
        "lcu3": (2, [(0.5, "XZ"), (0.25, "ZI"), (-0.25, "IX")]),
        "lcu2c": (1, [(0.3, "X"), (0.4j, "Z")]),
        "lcu5": (2, [(0.1, "XI"), (0.3, "ZZ"), (-0.3, "IY"), (0.2, "YY"), (0.1, "ZI")]),
        "doc3": (3, [(0.1, "ZII"), (0.3, "IZI"), (-0.3, "ZIZ")]),
    }[hname]


def ham_matrix(hname):
    n, terms = ham_terms(hname)
    return n, sum(c * pauli_word_matrix(w) for c, w in terms)


def ham_op(hname, wires, kind="dot"):
    import pennylane as qp

    n, terms = ham_terms(hname)
    ops = []
    for c, w in terms:
        fs = [getattr(qp, {"X": "X", "Y": "Y", "Z": "Z"}[ch])(wires[i]) for i, ch in enumerate(w) if ch != "I"]
        ops.append(fs[0] if len(fs) == 1 else qp.prod(*fs))
    cs = [c for c, _ in terms]
    if kind == "Hamiltonian":
        return qp.Hamiltonian(cs, ops)
    return qp.dot(cs, ops)


def dft(n):
    from mc.x_tmpl import dft as D

    return D(n)


def kron(*ms):
    out = np.eye(1, dtype=complex)
    for m in ms:
        out = np.kron(out, m)
    return out


def zero_block_indices(sizes, zero):
    """indices of the basis states of registers `sizes` (list of ints) whose registers listed in `zero` are 0"""
    n = sum(sizes)
    out = []
    for i in range(2 ** n):
        ok_ = True
        shift = n
        for r, s in enumerate(sizes):
            shift -= s
            if r in zero and (i >> shift) & ((1 << s) - 1):
                ok_ = False
                break
        if ok_:
            out.append(i)
    return out


# ================================================================================================= templates
# each template: regs(a), build(a, W), ref(a) -> dict(in_basis, out_rows, M, mode, tol, post)
OPS_TABLE = {  # target operations of Select / ControlledSequence (on a 2-wire target register unless noted)
    "X0": [["PauliX", [], [0]]],
    "X1": [["PauliX", [], [1]]],
    "Y0": [["PauliY", [], [0]]],
    "Z1": [["PauliZ", [], [1]]],
    "SWAP": [["SWAP", [], [0, 1]]],
    "RZ0": [["RZ", [G1], [0]]],
    "RX1": [["RX", [G2], [1]]],
    "CNOT": [["CNOT", [], [0, 1]]],
    "H0": [["Hadamard", [], [0]]],
    "H0RY1": [["Hadamard", [], [0]], ["RY", [0.1], [1]]],
    "U2q": [["QubitUnitary", [1], [0, 1]]],
    "I": [["Identity", [], [0]]],
}


class SelectT:
    name = "Select"

    @staticmethod
    def regs(a):
        return [("control", a["c"]), ("target", 2), ("work", a["ww"])]

    @staticmethod
    def build(a, W):
        import pennylane as qp

        ops = [seq_op(OPS_TABLE[o], W["target"]) for o in a["ops"]]
        return qp.Select(ops, control=W["control"], work_wires=W["work"] if a["ww"] else None, partial=bool(a["partial"]))

    @staticmethod
    def ref(a):
        c, K = a["c"], len(a["ops"])
        blocks = [seq_matrix(OPS_TABLE[o], 2) for o in a["ops"]] + [np.eye(4, dtype=complex)] * (2 ** c - K)
        U = np.zeros((2 ** (c + 2), 2 ** (c + 2)), dtype=complex)
        for i, B in enumerate(blocks):
            U[4 * i:4 * i + 4, 4 * i:4 * i + 4] = B
        U = np.kron(U, np.eye(2 ** a["ww"]))
        sizes = [c, 2, a["ww"]]
        ib = zero_block_indices(sizes, {2})
        if a["partial"]:
            ib = [i for i in ib if (i >> (2 + a["ww"])) < K]
        return {"in_basis": ib, "out_rows": None, "M": U[:, ib], "mode": "exact"}

    @staticmethod
    def variant(a):
        return ("partial" if a["partial"] else "full") + (",K<2^c" if len(a["ops"]) < 2 ** a["c"] else "")


class QROMT:
    name = "QROM"

    @staticmethod
    def regs(a):
        return [("control", a["c"]), ("target", len(a["bits"][0])), ("work", a["ww"])]

    @staticmethod
    def build(a, W):
        import pennylane as qp

        bits = a["bits"]
        arg = ["".join(str(b) for b in row) for row in bits] if a.get("strs") else np.array(bits)
        return qp.QROM(arg, control_wires=W["control"], target_wires=W["target"], work_wires=W["work"], clean=bool(a["clean"]))

    @staticmethod
    def ref(a):
        c, b, ww = a["c"], len(a["bits"][0]), a["ww"]
        D = 2 ** (c + b + ww)
        ib = zero_block_indices([c, b, ww], {1, 2})
        M = np.zeros((D, len(ib)), dtype=complex)
        for k, i in enumerate(ib):
            addr = i >> (b + ww)
            val = int("".join(str(x) for x in a["bits"][addr]), 2) if addr < len(a["bits"]) else 0
            M[(addr << (b + ww)) | (val << ww), k] = 1
        if a["clean"]:
            return {"in_basis": ib, "out_rows": None, "M": M, "mode": "exact"}
        # clean=False: the work wires may be altered; only the (control, target) marginal is documented
        return {"in_basis": ib, "out_rows": None, "M": _marginal(M, c + b, ww), "mode": "exact", "post": ("marginal", c + b, ww)}

    @staticmethod
    def variant(a):
        return ("clean" if a["clean"] else "dirty") + (",extra-control" if 2 ** (a["c"] - 1) >= len(a["bits"]) and a["c"] > 1 else "")


def _marginal(O, keep, drop):
    """probabilities of the first `keep` wires for every column (last `drop` wires traced out)"""
    P = np.abs(O) ** 2
    return P.reshape(2 ** keep, 2 ** drop, -1).sum(axis=1)


class QFTT:
    name = "QFT"

    @staticmethod
    def regs(a):
        return [("wires", a["n"])]

    @staticmethod
    def build(a, W):
        import pennylane as qp

        return qp.QFT(wires=W["wires"])

    @staticmethod
    def ref(a):
        return {"in_basis": None, "out_rows": None, "M": dft(a["n"]), "mode": "exact"}

    @staticmethod
    def variant(a):
        return "-"


def aqft_reference(n, order):
    """H on wire i, then at most `order` controlled phase shifts pi/2^j from wires i+1.., finally the wire reversal"""
    gs = []
    for i in range(n):
        gs.append(["Hadamard", [], [i]])
        for j in range(1, min(order, n - 1 - i) + 1):
            gs.append(["ControlledPhaseShift", [math.pi / 2 ** j], [i + j, i]])
    for i in range(n // 2):
        gs.append(["SWAP", [], [i, n - 1 - i]])
    return seq_matrix(gs, n)


class AQFTT(QFTT):
    name = "AQFT"

    @staticmethod
    def build(a, W):
        import warnings

        import pennylane as qp

        with warnings.catch_warnings():
            warnings.simplefilter("ignore")
            return qp.AQFT(order=a["order"], wires=W["wires"])

    @staticmethod
    def ref(a):
        return {"in_basis": None, "out_rows": None, "M": aqft_reference(a["n"], a["order"]), "mode": "exact"}

    @staticmethod
    def variant(a):
        return "order>=n-1" if a["order"] >= a["n"] - 1 else ("order=0" if a["order"] == 0 else "truncated")


class PermuteT:
    name = "Permute"

    @staticmethod
    def regs(a):
        return [("wires", len(a["perm"]))]

    @staticmethod
    def build(a, W):
        import pennylane as qp

        return qp.Permute([W["wires"][p] for p in a["perm"]], wires=W["wires"])

    @staticmethod
    def ref(a):
        perm = a["perm"]
        n = len(perm)
        U = np.zeros((2 ** n, 2 ** n), dtype=complex)
        for x in range(2 ** n):
            bits = [(x >> (n - 1 - i)) & 1 for i in range(n)]
            new = [bits[perm[k]] for k in range(n)]  # position k now holds what was on wire perm[k]
            y = int("".join(map(str, new)), 2)
            U[y, x] = 1
        return {"in_basis": None, "out_rows": None, "M": U, "mode": "exact"}

    @staticmethod
    def variant(a):
        return "identity" if list(a["perm"]) == sorted(a["perm"]) else "-"


class FlipSignT:
    name = "FlipSign"

    @staticmethod
    def regs(a):
        return [("wires", a["n"])]

    @staticmethod
    def build(a, W):
        import pennylane as qp

        n, t = a["n"], a["t"]
        arg = t if a["form"] == "int" else [(t >> (n - 1 - i)) & 1 for i in range(n)]
        return qp.FlipSign(arg, wires=W["wires"])

    @staticmethod
    def ref(a):
        U = np.eye(2 ** a["n"], dtype=complex)
        U[a["t"], a["t"]] = -1
        return {"in_basis": None, "out_rows": None, "M": U, "mode": "exact"}

    @staticmethod
    def variant(a):
        return a["form"]


PREP = {"H": [["Hadamard", [], [0]]], "HRY": [["Hadamard", [], [0]], ["RY", [0.1], [1]]], "RXRZ": [["RX", [G1], [0]], ["RZ", [G2], [0]]],
        "HH": [["Hadamard", [], [0]], ["Hadamard", [], [1]]], "HHH": [["Hadamard", [], [0]], ["Hadamard", [], [1]], ["Hadamard", [], [2]]],
        "RYRY": [["RY", [0.7], [0]], ["RY", [1.9], [1]]], "ENT": [["Hadamard", [], [0]], ["CNOT", [], [0, 1]], ["RY", [0.4], [1]]]}
PREP_N = {"H": 1, "HRY": 2, "RXRZ": 1, "HH": 2, "HHH": 3, "RYRY": 2, "ENT": 2}


class ReflectionT:
    name = "Reflection"

    @staticmethod
    def regs(a):
        return [("wires", PREP_N[a["U"]])]

    @staticmethod
    def build(a, W):
        import pennylane as qp

        U = seq_op(PREP[a["U"]], W["wires"])
        rw = None if a["rw"] is None else [W["wires"][i] for i in a["rw"]]
        return qp.Reflection(U, a["alpha"], reflection_wires=rw)

    @staticmethod
    def ref(a):
        from mc import refsim as RS

        n = PREP_N[a["U"]]
        U = seq_matrix(PREP[a["U"]], n)
        rw = list(range(n)) if a["rw"] is None else a["rw"]
        P0 = np.zeros((2 ** len(rw),) * 2, dtype=complex)
        P0[0, 0] = 1
        core = -np.eye(2 ** n) + (1 - cmath.exp(1j * a["alpha"])) * RS.embed(P0, rw, list(range(n)))
        return {"in_basis": None, "out_rows": None, "M": U @ core @ U.conj().T, "mode": "exact"}

    @staticmethod
    def variant(a):
        return "subset" if a["rw"] is not None else "all"


class GroverT:
    name = "GroverOperator"

    @staticmethod
    def regs(a):
        return [("wires", a["n"]), ("work", a["ww"])]

    @staticmethod
    def build(a, W):
        import pennylane as qp

        return qp.GroverOperator(wires=W["wires"], work_wires=W["work"])

    @staticmethod
    def ref(a):
        n, ww = a["n"], a["ww"]
        s = np.ones(2 ** n) / math.sqrt(2 ** n)
        U = np.kron(2 * np.outer(s, s) - np.eye(2 ** n), np.eye(2 ** ww)).astype(complex)
        ib = zero_block_indices([n, ww], {1})
        return {"in_basis": ib, "out_rows": None, "M": U[:, ib], "mode": "exact"}

    @staticmethod
    def variant(a):
        return "-"


class AmpAmpT:
    name = "AmplitudeAmplification"

    @staticmethod
    def regs(a):
        return [("wires", PREP_N[a["U"]]), ("work", 1 if a["fp"] else 0)]

    @staticmethod
    def build(a, W):
        import pennylane as qp

        U = seq_op(PREP[a["U"]], W["wires"])
        O = qp.FlipSign(a["t"], wires=W["wires"])
        if a["fp"]:
            return qp.AmplitudeAmplification(U, O, iters=a["iters"], fixed_point=True, work_wire=W["work"][0], p_min=a.get("p_min", 0.9))
        return qp.AmplitudeAmplification(U, O, iters=a["iters"])

    @staticmethod
    def ref(a):
        n = PREP_N[a["U"]]
        U = seq_matrix(PREP[a["U"]], n)
        psi = U[:, 0]
        if a["fp"]:
            # applied to |Psi> (x) |0>_work: probability of the marked state >= p_min (documented guarantee of the example)
            init = np.kron(psi, np.array([1, 0], dtype=complex)).reshape(-1, 1)
            return {"in_state": init, "out_rows": None, "M": np.array([[a.get("p_min", 0.9)]]), "mode": "geq", "post": ("prob-of", n, 1, a["t"])}
        R = 2 * np.outer(psi, psi.conj()) - np.eye(2 ** n)
        O = np.eye(2 ** n, dtype=complex)
        O[a["t"], a["t"]] = -1
        M = np.linalg.matrix_power(R @ O, a["iters"])
        return {"in_basis": None, "out_rows": None, "M": M, "mode": "phase"}

    @staticmethod
    def variant(a):
        return "fixed-point" if a["fp"] else "plain"


class CtrlSeqT:
    name = "ControlledSequence"

    @staticmethod
    def regs(a):
        return [("control", a["c"]), ("target", 2)]

    @staticmethod
    def build(a, W):
        import pennylane as qp

        return qp.ControlledSequence(seq_op(OPS_TABLE[a["base"]], W["target"]), control=W["control"])

    @staticmethod
    def ref(a):
        B = seq_matrix(OPS_TABLE[a["base"]], 2)
        c = a["c"]
        U = np.zeros((2 ** (c + 2),) * 2, dtype=complex)
        for k in range(2 ** c):
            U[4 * k:4 * k + 4, 4 * k:4 * k + 4] = np.linalg.matrix_power(B, k)
        return {"in_basis": None, "out_rows": None, "M": U, "mode": "exact"}

    @staticmethod
    def variant(a):
        return "-"


QPE_U = {"phase": lambda m, k: [["PhaseShift", [2 * math.pi * k / 2 ** m], [0]]], "rx": lambda m, k: [["RX", [0.25 + k], [0]]],
         "zz": lambda m, k: [["IsingZZ", [2 * math.pi * k / 2 ** m], [0, 1]]], "u2q": lambda m, k: [["QubitUnitary", [k], [0, 1]]]}
QPE_N = {"phase": 1, "rx": 1, "zz": 2, "u2q": 2}


class QPET:
    name = "QuantumPhaseEstimation"

    @staticmethod
    def regs(a):
        return [("target", QPE_N[a["u"]]), ("est", a["m"])]

    @staticmethod
    def build(a, W):
        import pennylane as qp

        gs = QPE_U[a["u"]](a["m"], a["k"])
        if a.get("as_matrix"):
            return qp.QuantumPhaseEstimation(seq_matrix(gs, QPE_N[a["u"]]), target_wires=W["target"], estimation_wires=W["est"])
        return qp.QuantumPhaseEstimation(seq_op(gs, W["target"]), estimation_wires=W["est"])

    @staticmethod
    def ref(a):
        from mc import refgates as RG

        nt, m = QPE_N[a["u"]], a["m"]
        B = seq_matrix(QPE_U[a["u"]](m, a["k"]), nt)
        # register order: target, est.  Circuit: H on est; controlled-U^(2^(m-1-j)) from est wire j; inverse QFT on est
        D = 2 ** (nt + m)
        CS = np.zeros((D, D), dtype=complex)
        for t_in in range(2 ** nt):
            for t_out in range(2 ** nt):
                for k in range(2 ** m):
                    CS[(t_out << m) | k, (t_in << m) | k] = np.linalg.matrix_power(B, k)[t_out, t_in]
        Hm = kron(*[RG.H] * m)
        U = np.kron(np.eye(2 ** nt), dft(m).conj().T) @ CS @ np.kron(np.eye(2 ** nt), Hm)
        return {"in_basis": None, "out_rows": None, "M": U, "mode": "exact"}

    @staticmethod
    def variant(a):
        return a["u"] + (",matrix" if a.get("as_matrix") else "")


QMC_F = {"id": [0.0, 1.0], "half": [0.5, 0.25], "sin": [math.sin(0.4) ** 2, math.sin(1.3) ** 2], "q": [0.1, 0.7, 0.9, 0.35]}


class QMCT:
    name = "QuantumMonteCarlo"

    @staticmethod
    def regs(a):
        m = int(math.log2(len(a["p"])))
        return [("target", m + 1), ("est", a["n"])]

    @staticmethod
    def build(a, W):
        import pennylane as qp

        f = QMC_F[a["f"]]
        return qp.QuantumMonteCarlo(np.array(a["p"]), (lambda i: f[i]), target_wires=W["target"], estimation_wires=W["est"])

    @staticmethod
    def ref(a):
        p, f, n = a["p"], QMC_F[a["f"]], a["n"]
        mu = sum(pi * f[i] for i, pi in enumerate(p))
        theta = math.acos(2 * mu - 1) / math.pi  # mu = (1 + cos(pi theta)) / 2
        N = 2 ** n

        def kernel(delta):  # |1/N sum_j exp(2 pi i j delta)|^2
            s = sum(cmath.exp(2j * math.pi * j * delta) for j in range(N)) / N
            return abs(s) ** 2

        # equal superposition of the two eigenvectors of Q with eigenvalues exp(+-2 pi i theta)
        th = theta
        probs = np.array([0.5 * (kernel(th - k / N) + kernel(-th - k / N)) for k in range(N)])
        nt = int(math.log2(len(p))) + 1
        init = np.zeros((2 ** (nt + n), 1), dtype=complex)
        init[0, 0] = 1
        return {"in_state": init, "out_rows": None, "M": probs.reshape(-1, 1), "mode": "exact", "post": ("marginal-last", nt, n)}

    @staticmethod
    def variant(a):
        return a["f"]


class PrepSelPrepT:
    name = "PrepSelPrep"

    @staticmethod
    def regs(a):
        return [("control", a["c"]), ("target", ham_terms(a["h"])[0])]

    @staticmethod
    def build(a, W):
        import pennylane as qp

        return qp.PrepSelPrep(ham_op(a["h"], W["target"]), control=W["control"])

    @staticmethod
    def ref(a):
        n, terms = ham_terms(a["h"])
        lam = sum(abs(c) for c, _ in terms)
        A = ham_matrix(a["h"])[1] / lam
        idx = list(range(2 ** n))  # control = 0 block (control is the first register)
        return {"in_basis": idx, "out_rows": idx, "M": A, "mode": "exact"}

    @staticmethod
    def variant(a):
        return ("complex" if any(isinstance(c, complex) for c, _ in ham_terms(a["h"])[1]) else "real") + (",extra-control" if 2 ** (a["c"] - 1) >= len(ham_terms(a["h"])[1]) and a["c"] > 1 else "")


class QubitizationT(PrepSelPrepT):
    name = "Qubitization"

    @staticmethod
    def build(a, W):
        import pennylane as qp

        return qp.Qubitization(ham_op(a["h"], W["target"]), control=W["control"])

    @staticmethod
    def ref(a):
        # Q = Prep^dagger Sel Prep (2|0><0| - I): the control-|0> block is A / lambda (the reflection fixes |0>)
        return PrepSelPrepT.ref(a)


POLYS = {"T1": [0, 1], "T2": [-1, 0, 2], "T3": [0, -3, 0, 4], "p5": [0, -1, 0, 0.5, 0, 0.5], "p4": [-0.1, 0, 0.2, 0, 0.5], "half": [0, 0.5]}
MATS = {
    "h2": np.array([[0.1, 0.2], [0.2, -0.3]]),
    "h4": np.array([[-0.1, 0, 0, 0.1], [0, 0.2, 0, 0], [0, 0, -0.2, -0.2], [0.1, 0, -0.2, -0.1]]),
    "g2": np.array([[0.1, 0.2], [0.3, 0.4]]),
    "g2c": np.array([[0.1, 0.2j], [0.3, -0.4]]),
    "ns": np.array([[0.2, 0, 0.2], [-0.2, 0.2, 0]]),
    "big": np.array([[1.5, 0.2], [0.3, -2.0]]),
    "f2": np.array([[0.1, 0.2], [0.3, -0.2]]),
    "f4": np.array([[0.1, 0.2, -0.3, 0.05], [0.3, -0.2, 0.0, 0.4], [0.0, 0.6, 0.1, -0.1], [-0.5, 0.25, 0.2, 0.3]]),
    "f3x2": np.array([[0.1, 0.2], [0.3, -0.2], [0.5, 0.0]]),
    "fsmall": np.array([[0.1, 0.004], [0.003, -0.2]]),
}


def polyval_matrix(coeffs, A):
    out = np.zeros_like(A, dtype=complex)
    P = np.eye(A.shape[0], dtype=complex)
    for c in coeffs:
        out = out + c * P
        P = P @ A
    return out


class QsvtFnT:
    """qp.qsvt(A, poly, encoding_wires, block_encoding): real part of the top-left block = poly(A)"""
    name = "qsvt"

    @staticmethod
    def regs(a):
        if a["enc"] == "embedding":
            return [("wires", int(math.log2(MATS[a["A"]].shape[0])) + 1)]
        n, terms = ham_terms(a["A"])
        return [("control", max(1, math.ceil(math.log2(len(terms))))), ("target", n)]

    @staticmethod
    def build(a, W):
        import pennylane as qp

        if a["enc"] == "embedding":
            return qp.qsvt(MATS[a["A"]], np.array(POLYS[a["poly"]]), encoding_wires=W["wires"], block_encoding="embedding")
        return qp.qsvt(ham_op(a["A"], W["target"]), np.array(POLYS[a["poly"]]), encoding_wires=W["control"], block_encoding=a["enc"])

    @staticmethod
    def ref(a):
        if a["enc"] == "embedding":
            A = MATS[a["A"]].astype(complex)
        else:
            n, terms = ham_terms(a["A"])
            A = ham_matrix(a["A"])[1] / sum(abs(c) for c, _ in terms)
        idx = list(range(A.shape[0]))
        return {"in_basis": idx, "out_rows": idx, "M": polyval_matrix(POLYS[a["poly"]], A).real, "mode": "exact", "post": ("real",), "tol": 1e-6}

    @staticmethod
    def variant(a):
        return a["enc"]


class QSVTClassT:
    """QSVT(UA, projectors): alternating product P0, UA, P1, UA^dagger, P2, UA, ... in circuit order (docstring example)"""
    name = "QSVT"

    @staticmethod
    def regs(a):
        return [("wires", 1 if a["UA"] == "H" else 2)]

    @staticmethod
    def _parts(a, wires=None):
        import pennylane as qp
        from mc import refgates as RG

        if a["UA"] == "H":
            UA_m = RG.H
            ph_m = [RG.RZ(-2 * t) for t in a["phis"]]
            if wires is None:
                return UA_m, ph_m
            return qp.Hadamard(wires[0]), [qp.RZ(-2 * t, wires=wires[0]) for t in a["phis"]]
        A = MATS[a["UA"]].astype(complex)
        from scipy.linalg import sqrtm

        d = A.shape[0]
        UA_m = np.block([[A, sqrtm(np.eye(d) - A @ A.conj().T)], [sqrtm(np.eye(d) - A.conj().T @ A), -A.conj().T]])
        ph_m = [np.diag([cmath.exp(1j * t)] * d + [cmath.exp(-1j * t)] * d) for t in a["phis"]]
        if wires is None:
            return UA_m, ph_m
        return qp.BlockEncode(MATS[a["UA"]], wires=wires), [qp.PCPhase(t, dim=d, wires=wires) for t in a["phis"]]

    @classmethod
    def build(cls, a, W):
        import pennylane as qp

        UA, ph = cls._parts(a, W["wires"])
        return qp.QSVT(UA, ph)

    @classmethod
    def ref(cls, a):
        UA, ph = cls._parts(a)
        M = ph[0]
        for i in range(1, len(ph)):
            M = (UA if i % 2 == 1 else UA.conj().T) @ M
            M = ph[i] @ M
        return {"in_basis": None, "out_rows": None, "M": M, "mode": "exact"}

    @staticmethod
    def variant(a):
        return a["UA"] + f",d={len(a['phis']) - 1}"


GQSP_POLY = {"doc": [0.1, 0.2j, 0.3], "lin": [0.3, 0.4], "x": [0, 0.8], "cub": [0.2, 0, 0.3j, 0.1], "quad": [0.3, 0.0, -0.4]}


class GQSPT:
    name = "GQSP"

    @staticmethod
    def regs(a):
        return [("control", 1), ("target", PREP_N[a["U"]])]

    @staticmethod
    def build(a, W):
        import pennylane as qp

        angles = qp.poly_to_angles(GQSP_POLY[a["poly"]], "GQSP")
        return qp.GQSP(seq_op(PREP[a["U"]], W["target"]), angles, control=W["control"][0])

    @staticmethod
    def ref(a):
        n = PREP_N[a["U"]]
        U = seq_matrix(PREP[a["U"]], n)
        idx = list(range(2 ** n))
        return {"in_basis": idx, "out_rows": idx, "M": polyval_matrix(GQSP_POLY[a["poly"]], U), "mode": "exact", "tol": 1e-6}

    @staticmethod
    def variant(a):
        return "-"


class BlockEncodeT:
    name = "BlockEncode"

    @staticmethod
    def regs(a):
        A = MATS[a["A"]]
        return [("wires", a["nw"])]

    @staticmethod
    def build(a, W):
        import pennylane as qp

        return qp.BlockEncode(MATS[a["A"]], wires=W["wires"])

    @staticmethod
    def ref(a):
        from scipy.linalg import sqrtm

        A = MATS[a["A"]].astype(complex)
        r, c = A.shape
        nrm = np.linalg.norm(A, 2)
        if nrm > 1:
            # documented: normalised so that U is unitary; the constant is op.hyperparameters["norm"] -> judged in check
            return {"in_basis": list(range(c)), "out_rows": list(range(r)), "M": A, "mode": "normalised"}
        U = np.block([[A, sqrtm(np.eye(r) - A @ A.conj().T)], [sqrtm(np.eye(c) - A.conj().T @ A), -A.conj().T]])
        D = 2 ** a["nw"]
        full = np.eye(D, dtype=complex)
        full[: r + c, : r + c] = U
        return {"in_basis": None, "out_rows": None, "M": full, "mode": "exact"}

    @staticmethod
    def variant(a):
        A = MATS[a["A"]]
        return ("square" if A.shape[0] == A.shape[1] else "non-square") + (",norm>1" if np.linalg.norm(A, 2) > 1 else "")


class FABLET:
    name = "FABLE"

    @staticmethod
    def _n(a):
        A = MATS[a["A"]]
        return max(1, math.ceil(math.log2(max(A.shape))))

    @classmethod
    def regs(cls, a):
        return [("wires", 2 * cls._n(a) + 1)]

    @staticmethod
    def build(a, W):
        import warnings

        import pennylane as qp

        with warnings.catch_warnings():
            warnings.simplefilter("ignore")
            return qp.FABLE(MATS[a["A"]], wires=W["wires"], tol=a["tol"])

    @classmethod
    def ref(cls, a):
        n = cls._n(a)
        A = MATS[a["A"]].astype(complex)
        P = np.zeros((2 ** n, 2 ** n), dtype=complex)
        P[: A.shape[0], : A.shape[1]] = A
        idx = list(range(2 ** n))
        N = 2 ** n
        if a["tol"]:
            return {"in_basis": idx, "out_rows": idx, "M": P / N, "mode": "bound", "tol": (N ** 3) * a["tol"] / N}
        return {"in_basis": idx, "out_rows": idx, "M": P / N, "mode": "exact"}

    @staticmethod
    def variant(a):
        return "tol>0" if a["tol"] else "tol=0"


class CommEvoT:
    name = "CommutingEvolution"

    @staticmethod
    def regs(a):
        return [("wires", ham_terms(a["h"])[0])]

    @staticmethod
    def build(a, W):
        import pennylane as qp

        return qp.CommutingEvolution(ham_op(a["h"], W["wires"], "Hamiltonian"), a["t"], frequencies=tuple(a["freq"]) if a.get("freq") else None)

    @staticmethod
    def ref(a):
        from scipy.linalg import expm

        return {"in_basis": None, "out_rows": None, "M": expm(-1j * a["t"] * ham_matrix(a["h"])[1]), "mode": "exact"}

    @staticmethod
    def variant(a):
        return "-"


def suzuki(terms_m, t, order, sign=1j):
    """S_m(t) of the docstring as a list of factors (left to right in the written product)"""
    if order == 1:
        return [(t, j) for j in range(len(terms_m))]
    if order == 2:
        return [(t / 2, j) for j in range(len(terms_m))] + [(t / 2, j) for j in reversed(range(len(terms_m)))]
    p = 1 / (4 - 4 ** (1 / (order - 1)))
    a_ = suzuki(terms_m, p * t, order - 2)
    b_ = suzuki(terms_m, (1 - 4 * p) * t, order - 2)
    return a_ + a_ + b_ + a_ + a_


def product_formula(terms_m, factors, sign, reverse=False):
    from scipy.linalg import expm

    d = terms_m[0].shape[0]
    M = np.eye(d, dtype=complex)
    fs = list(reversed(factors)) if reverse else factors
    for tt, j in fs:  # written product F1 F2 ... Fk as a matrix product
        M = M @ expm(sign * tt * terms_m[j])
    return M


class TrotterT:
    name = "TrotterProduct"

    @staticmethod
    def regs(a):
        return [("wires", ham_terms(a["h"])[0])]

    @staticmethod
    def build(a, W):
        import pennylane as qp

        return qp.TrotterProduct(ham_op(a["h"], W["wires"]), a["t"], n=a["n"], order=a["order"])

    @staticmethod
    def ref(a):
        n, terms = ham_terms(a["h"])
        tm = [c * pauli_word_matrix(w) for c, w in terms]
        fac = suzuki(tm, a["t"] / a["n"], a["order"]) * a["n"]
        A1 = product_formula(tm, fac, 1j)
        A2 = product_formula(tm, fac, 1j, reverse=True)
        return {"in_basis": None, "out_rows": None, "M": A1, "alt": A2, "mode": "exact"}

    @staticmethod
    def variant(a):
        return f"order={a['order']}"


class ApproxEvoT(TrotterT):
    name = "ApproxTimeEvolution"

    @staticmethod
    def build(a, W):
        import pennylane as qp

        return qp.ApproxTimeEvolution(ham_op(a["h"], W["wires"], "Hamiltonian"), a["t"], a["n"])

    @staticmethod
    def ref(a):
        from scipy.linalg import expm

        n, terms = ham_terms(a["h"])
        tm = [c * pauli_word_matrix(w) for c, w in terms]
        fac = [(a["t"] / a["n"], j) for j in range(len(tm))] * a["n"]
        A1 = product_formula(tm, fac, -1j)
        A2 = product_formula(tm, fac, -1j, reverse=True)
        H = sum(tm)
        comm = sum(np.linalg.norm(tm[i] @ tm[j] - tm[j] @ tm[i], 2) for i in range(len(tm)) for j in range(i + 1, len(tm)))
        return {"in_basis": None, "out_rows": None, "M": A1, "alt": A2, "mode": "exact",
                "also_within": (expm(-1j * a["t"] * H), a["t"] ** 2 / (2 * a["n"]) * comm + 1e-9)}

    @staticmethod
    def variant(a):
        return "-"


TEMPLATES = {c.name: c for c in (SelectT, QROMT, QFTT, AQFTT, PermuteT, FlipSignT, ReflectionT, GroverT, AmpAmpT, CtrlSeqT, QPET, QMCT,
                                 PrepSelPrepT, QubitizationT, QsvtFnT, QSVTClassT, GQSPT, BlockEncodeT, FABLET, CommEvoT, TrotterT, ApproxEvoT)}


# ================================================================================================= enumeration
def instances(tier):
    thorough = tier == "thorough"
    out = []
    ALL, SEQ, TWO = LAYOUTS, ["seq"], ["seq", "mixed"]

    def add(t, a, lays):
        out.append((t, a, lays))

    # Select
    menus = {1: [["X0", "Y0"], ["SWAP", "H0RY1"], ["RZ0"]],
             2: [["X0", "X1", "Y0", "SWAP"], ["X0", "X1", "SWAP"], ["RZ0", "CNOT"], ["H0", "RX1", "U2q"], ["X0"], ["Y0", "I", "Z1", "CNOT"]],
             3: [["X0", "X1", "Y0", "SWAP", "RZ0"], ["X0", "X1", "Y0", "SWAP", "RZ0", "CNOT", "H0", "Z1"], ["X0", "Y0", "Z1"]]}
    for c in (1, 2, 3):
        for ops in menus[c]:
            if c == 3 and not thorough and len(ops) == 8:
                continue
            for partial in (0, 1):
                for ww in sorted({0, max(c - 1, 0), 1, c}):
                    add("Select", {"c": c, "ops": ops, "ww": ww, "partial": partial}, ALL if (c == 2 and len(ops) == 3) else SEQ)
    # four control wires: the unary-iterator ladders only become longer than one elbow from c = 4 on; EVERY operand count K = 1..16
    cyc = ["X0", "Y0", "Z1", "SWAP", "RZ0", "X1", "H0", "CNOT", "RX1", "I", "H0RY1", "X0", "Z1", "Y0", "SWAP", "U2q"]
    for K in range(1, 17):
        for partial in (0, 1):
            if partial and not thorough and K not in (3, 6, 10, 11, 16):
                continue
            for ww in ((3,) if not thorough else (0, 3, 4)):
                add("Select", {"c": 4, "ops": cyc[:K], "ww": ww, "partial": partial}, SEQ)
    # QROM: all tables of 2..4 bitstrings of width 1..2
    for width in (1, 2):
        rows = list(itertools.product((0, 1), repeat=width))
        for cnt in (1, 2, 3, 4):
            tables = list(itertools.product(rows, repeat=cnt))
            if not thorough and len(tables) > 64:
                tables = [t for i, t in enumerate(tables) if i % 13 == 0]
            elif not thorough and len(tables) > 16:
                tables = [t for i, t in enumerate(tables) if i % 3 == 0]
            for tb in tables:
                bits = [list(r) for r in tb]
                cmin = max(1, math.ceil(math.log2(cnt)))
                for clean in (1, 0):
                    for ww in ((0, 1, width + 1) if (thorough or len(tables) <= 16) else (0, width + 1)):
                        if not clean and ww == 0:
                            continue
                        add("QROM", {"bits": bits, "c": cmin, "ww": ww, "clean": clean}, SEQ)
                if sum(sum(r) for r in bits) % 3 == 1:
                    add("QROM", {"bits": bits, "c": cmin + 1, "ww": 1, "clean": 1}, SEQ)
                    add("QROM", {"bits": bits, "c": cmin, "ww": 2, "clean": 1, "strs": 1}, TWO)
    for cnt in ((10, 11) if not thorough else (9, 10, 11, 13, 14, 15, 16)):      # QROM with four control wires (uses the Select ladders)
        bits = [[(i * 5 + 1) % 2, (i // 2) % 2] for i in range(cnt)]
        add("QROM", {"bits": bits, "c": 4, "ww": 3, "clean": 1}, SEQ)
        add("QROM", {"bits": bits, "c": 4, "ww": 3, "clean": 0}, SEQ)
    # QFT / AQFT
    for n in range(1, 5 if not thorough else 6):
        add("QFT", {"n": n}, ALL)
    for n in range(2, 5 if not thorough else 6):
        for order in range(0, n + 1):
            add("AQFT", {"n": n, "order": order}, TWO)
    # Permute
    for n in (2, 3, 4):
        for perm in itertools.permutations(range(n)):
            if n == 4 and not thorough and sum(i * p for i, p in enumerate(perm)) % 3:
                continue
            add("Permute", {"perm": list(perm)}, TWO if n == 3 else SEQ)
    # FlipSign
    for n in (1, 2, 3):
        for t in range(2 ** n):
            for form in ("int", "list"):
                add("FlipSign", {"n": n, "t": t, "form": form}, TWO if t == 1 else SEQ)
    # Reflection
    for U in ("H", "HRY", "RXRZ", "ENT", "HHH"):
        for alpha in (math.pi, G1, G2, 0.0, 2 * math.pi):
            add("Reflection", {"U": U, "alpha": alpha, "rw": None}, TWO if alpha == G1 else SEQ)
            if PREP_N[U] >= 2:
                for rw in ([0], [1], [1, 0]):
                    add("Reflection", {"U": U, "alpha": alpha, "rw": rw}, SEQ)
    # Grover
    for n in (2, 3, 4):
        for ww in (0, 1, 2):
            add("GroverOperator", {"n": n, "ww": ww}, ALL if n == 3 else SEQ)
    # AmplitudeAmplification
    for U in ("HH", "RYRY", "ENT", "HHH"):
        for t in range(2 ** PREP_N[U]):
            if PREP_N[U] == 3 and t not in (0, 2, 7):
                continue
            for iters in (0, 1, 2, 3):
                add("AmplitudeAmplification", {"U": U, "t": t, "iters": iters, "fp": 0}, SEQ)
    for t in (2, 5):
        for iters in (5, 7, 9):
            add("AmplitudeAmplification", {"U": "HHH", "t": t, "iters": iters, "fp": 1}, TWO)
    # ControlledSequence
    for c in (1, 2, 3):
        for base in ("RX1", "RZ0", "CNOT", "H0RY1", "U2q", "SWAP"):
            add("ControlledSequence", {"c": c, "base": base}, TWO if c == 2 else SEQ)
    # QPE
    for m in (1, 2, 3):
        for u in ("phase", "zz"):
            for k in range(2 ** m):
                add("QuantumPhaseEstimation", {"u": u, "m": m, "k": k}, SEQ)
        for u, k in (("rx", 0), ("rx", 5), ("u2q", 1), ("u2q", 2)):
            add("QuantumPhaseEstimation", {"u": u, "m": m, "k": k}, TWO)
            add("QuantumPhaseEstimation", {"u": u, "m": m, "k": k, "as_matrix": 1}, SEQ)
    # QMC
    for p in ([0.5, 0.5], [0.2, 0.8], [1.0, 0.0]):
        for f in ("id", "half", "sin"):
            for n in (2, 3):
                add("QuantumMonteCarlo", {"p": p, "f": f, "n": n}, SEQ)
    add("QuantumMonteCarlo", {"p": [0.1, 0.2, 0.3, 0.4], "f": "q", "n": 3}, TWO)
    # PrepSelPrep / Qubitization
    for h in ("lcu2", "lcu3", "lcu2c", "lcu5", "doc3"):
        k = len(ham_terms(h)[1])
        cmin = max(1, math.ceil(math.log2(k)))
        for c in (cmin, cmin + 1):
            add("PrepSelPrep", {"h": h, "c": c}, TWO if c == cmin else SEQ)
            add("Qubitization", {"h": h, "c": c}, TWO if c == cmin else SEQ)
    # qsvt / QSVT / GQSP
    for poly in ("T1", "T2", "T3", "p5", "p4", "half"):
        for A in ("h2", "h4"):
            add("qsvt", {"A": A, "poly": poly, "enc": "embedding"}, SEQ)
        for A in ("zz+x", "lcu3"):
            for enc in ("prepselprep", "qubitization"):
                add("qsvt", {"A": A, "poly": poly, "enc": enc}, SEQ)
    for phis in ([1.23, -0.5, 4.0], [0.3, 0.7], [G1], [0.1, -0.2, 0.3, 0.4], [0.5, 0.6, -0.7, 0.8, 0.9]):
        for UA in ("H", "g2", "h2"):
            add("QSVT", {"UA": UA, "phis": phis}, TWO)
    for poly in GQSP_POLY:
        for U in ("RXRZ", "HRY", "ENT"):
            add("GQSP", {"poly": poly, "U": U}, TWO if poly == "doc" else SEQ)
    # BlockEncode / FABLE
    for A, nws in (("g2", (2, 3)), ("g2c", (2,)), ("h4", (3,)), ("ns", (3,)), ("big", (2,)), ("f3x2", (3,))):
        for nw in nws:
            add("BlockEncode", {"A": A, "nw": nw}, TWO)
    for A in ("f2", "f4", "f3x2", "fsmall", "h4"):
        for tol in (0, 1e-2):
            add("FABLE", {"A": A, "tol": tol}, TWO if A == "f2" else SEQ)
    # time evolution
    for h, freq in (("comm2", [2, 4]), ("comm3", None), ("comm2", None)):
        for t in (0.0, G1, G2, math.pi / 2, 2.4):
            add("CommutingEvolution", {"h": h, "t": t, "freq": freq}, TWO if t == G1 else SEQ)
    for h in ("xz1", "zz+x", "flat4", "comm3"):
        for n in (1, 2, 3):
            for t in (G1, 2.4, G2):
                for order in (1, 2, 4):
                    if order == 4 and not thorough and (n == 3 or h == "flat4"):
                        continue
                    add("TrotterProduct", {"h": h, "t": t, "n": n, "order": order}, TWO if (n == 2 and t == G1) else SEQ)
                add("ApproxTimeEvolution", {"h": h, "t": t, "n": n}, TWO if (n == 2 and t == G1) else SEQ)
    return out


MATRIX_MAX_WIRES = 6


def routes_for(t, a):
    from mc import x_tmpl as X

    Tm = TEMPLATES[t]
    regs = Tm.regs(a)
    W = layout(regs, "seq")
    op = Tm.build(a, W)
    rs = []
    if sum(s for _, s in regs) <= MATRIX_MAX_WIRES:
        rs.append("matrix")
    if t != "qsvt":  # its reference is the REAL part of a block: not linear in the input, judged on the matrix routes only
        rs.append("device")
    if X.overrides_decomposition(op):
        rs.append("dec")
    for name, _ in X.rules(op):
        rs.append("rule:" + name)
    return rs


# ================================================================================================= evaluation
HARNESS = (ImportError, MemoryError, OSError, KeyboardInterrupt, SystemExit)


def _post(post, O, n):
    if post is None:
        return O
    kind = post[0]
    if kind == "marginal":
        return _marginal(O, post[1], post[2])
    if kind == "marginal-last":  # probabilities of the LAST post[2] wires
        P = np.abs(O) ** 2
        return P.reshape(2 ** post[1], 2 ** post[2], -1).sum(axis=0)
    if kind == "prob-of":  # probability that the first post[1] wires hold basis state post[3]
        P = np.abs(O) ** 2
        return P.reshape(2 ** post[1], 2 ** post[2], -1).sum(axis=1)[post[3]:post[3] + 1]
    if kind == "real":
        return np.real(O)
    raise ValueError(kind)


def _compare(R, got, sig, extra):
    """got, R['M'] arrays of equal shape"""
    M = np.asarray(R["M"])
    mode = R.get("mode", "exact")
    tol = R.get("tol", 1e-8)
    if got.shape != M.shape:
        return bad(f"{sig}:shape", list(got.shape), list(M.shape), **extra)
    if mode == "geq":
        if np.all(np.real(got) >= np.real(M) - 1e-9):
            return None
        return bad(f"{sig}:below-documented-bound", float(np.min(np.real(got))), float(np.min(np.real(M))), **extra)
    cands = [M] + ([np.asarray(R["alt"])] if "alt" in R else [])
    best = None
    for Mc in cands:
        if mode == "phase":
            i = np.unravel_index(np.argmax(np.abs(Mc)), Mc.shape)
            ph = (got[i] / Mc[i]) if abs(Mc[i]) > 1e-12 else 1.0
            ph = ph / abs(ph) if abs(ph) > 1e-12 else 1.0
            err = float(np.max(np.abs(got - ph * Mc)))
        elif mode == "bound":
            err = float(np.linalg.norm(got - Mc, 2))
        else:
            err = float(np.max(np.abs(got - Mc)))
        best = err if best is None else min(best, err)
    if best > tol:
        # is it at least right up to a global phase?
        kind = "mismatch"
        if mode == "exact":
            i = np.unravel_index(np.argmax(np.abs(M)), M.shape)
            if abs(M[i]) > 1e-9 and abs(got[i]) > 1e-9:
                ph = (got[i] / M[i])
                if abs(abs(ph) - 1) < 1e-6 and float(np.max(np.abs(got - ph * M))) < 1e-6:
                    kind = "global-phase"
        return bad(f"{sig}:{kind}", {"max_error": best, "got": np.round(got, 5) if got.size <= 64 else None},
                   {"tolerance": tol, "expected": np.round(M, 5) if M.size <= 64 else None}, **extra)
    if "also_within" in R:
        target, bound = R["also_within"]
        err = float(np.linalg.norm(got - target, 2))
        if err > bound:
            return bad(f"{sig}:error-bound", err, bound, **extra)
    return None


def check(spec):
    from mc import x_tmpl as X

    t, a, lay, route = spec["t"], spec["a"], spec["lay"], spec["route"]
    Tm = TEMPLATES[t]
    variant = Tm.variant(a)
    stage = "build"
    try:
        regs = Tm.regs(a)
        W = layout(regs, lay)
        op = Tm.build(a, W)
        stage = route
        return _check(spec, Tm, regs, W, op, variant)
    except X.Unsupported:
        raise
    except HARNESS as e:
        if not (isinstance(e, ImportError) and "autoray" in str(e)):
            raise
        # autoray reports a missing backend function as ImportError: that is the implementation failing, not the harness
        return bad(f"{t}[{variant}]:{stage}:exception:ImportError(autoray)", f"{e}"[:300], "no exception")
    except Exception as e:  # noqa: BLE001
        import traceback

        return bad(f"{t}[{variant}]:{stage}:exception:{type(e).__name__}", f"{type(e).__name__}: {e}"[:300], "no exception",
                   traceback=traceback.format_exc()[-1500:])


def _check(spec, Tm, regs, W, op, variant):
    import pennylane as qp
    from mc import x_tmpl as X

    t, a, lay, route = spec["t"], spec["a"], spec["lay"], spec["route"]
    order = [w for name, _ in regs for w in W[name]]
    n = len(order)
    D = 2 ** n
    R = Tm.ref(a)
    sig = f"{t}[{variant}]:{route}"
    extra = {"op": repr(op)[:160]}
    if "in_state" in R:
        cols = np.asarray(R["in_state"], dtype=complex)
    else:
        ib = list(range(D)) if R["in_basis"] is None else list(R["in_basis"])
        cols = np.zeros((D, len(ib)), dtype=complex)
        cols[ib, np.arange(len(ib))] = 1
    rows = None if R.get("out_rows") is None else list(R["out_rows"])
    post = R.get("post")
    M = np.asarray(R["M"])

    if R.get("mode") == "normalised":
        # BlockEncode with |A| > 1: block = A / norm with the documented normalisation constant, and U unitary
        c = float(np.real(op.hyperparameters["norm"]))
        R = dict(R, M=M / c, mode="exact")
        M = np.asarray(R["M"])

    if route == "device":
        # one generic superposition of the admissible inputs
        C = cols.shape[1]
        amp = np.array([(0.4 + 0.15 * k) * cmath.exp(1j * (0.9 * k * k + 0.3 * k)) for k in range(C)], dtype=complex)
        amp = amp / np.linalg.norm(amp)
        psi = cols @ amp
        out, leaked = X.device_state([qp.StatePrep(psi, wires=order), op], order)
        if leaked > 1e-12:
            return bad(f"{sig}:work-not-restored", leaked, 0.0, **extra)
        O = out.reshape(-1, 1)
        if post is not None and post[0] != "real":
            got = _post(post, O, n) if rows is None else _post(post, O[rows], n)
            want = dict(R)
            if "in_state" not in R:
                return _device_post(R, cols, amp, got, sig, extra, post, rows, n) or ok(outcome=[t, variant, "device"], nontrivial=True)
            v = _compare(want, got, sig, extra)
            return v or ok(outcome=[t, variant, "device", _fp(M)], nontrivial=True)
        got = O if rows is None else O[rows]
        if post is not None:  # real part of a block: compare Re(block) @ amp is not linear -> use the matrix routes only
            return skip("device route not applicable to a real-part reference")
        want = dict(R, M=M @ amp.reshape(-1, 1))
        if "alt" in R:
            want["alt"] = np.asarray(R["alt"]) @ amp.reshape(-1, 1)
        if "also_within" in R:
            want["also_within"] = (R["also_within"][0] @ amp.reshape(-1, 1), R["also_within"][1])
        v = _compare(want, got, sig, extra)
        return v or ok(outcome=[t, variant, "device", _fp(M)], nontrivial=_nontrivial(R, cols))

    if route == "matrix":
        U = np.asarray(qp.matrix(op, wire_order=order), dtype=complex)
        if U.shape != (D, D):
            return bad(f"{sig}:shape", list(U.shape), [D, D], **extra)
        O = U @ cols
    else:
        if route == "dec":
            queue = op.decomposition()
        else:
            name = route.split(":", 1)[1]
            rule = dict(X.rules(op)).get(name)
            if rule is None:
                return bad(f"{sig}:rule-not-applicable", [r for r, _ in X.rules(op)], name, **extra)
            queue = X.emit(op, rule)
        sim = X.Sim(order, cols)
        try:
            X.run(sim, queue)
        except X.ExpansionProblem as e:
            return bad(f"{sig}:{e.kind}", e.detail, "well-formed decomposition", **extra)
        O, leaked = sim.columns()
        extra["gates"] = sim.gates
        if leaked > 1e-12:
            return bad(f"{sig}:work-not-restored", leaked, 0.0, **extra)
    if R.get("mode") == "exact" and rows is not None and not post:
        pass
    got = O if rows is None else O[rows]
    got = _post(post, got, n) if post is not None else got
    v = _compare(R, got, sig, extra)
    if v:
        return v
    if rows is not None and route != "device":
        # block encodings: the full operator has to be an isometry on the admissible inputs
        G = O.conj().T @ O
        if np.max(np.abs(G - np.eye(G.shape[0]))) > 1e-7:
            return bad(f"{sig}:not-unitary", float(np.max(np.abs(G - np.eye(G.shape[0])))), 0.0, **extra)
    return ok(outcome=[t, variant, route.split(":")[0], _fp(M)], nontrivial=_nontrivial(R, cols))


def _device_post(R, cols, amp, got, sig, extra, post, rows, n):
    """marginal references on the device route: the marginal of a superposition of inputs with distinct addresses is the
    amp-weighted mixture only if the kept registers identify the input; QROM keeps the control register, so it is."""
    M = np.asarray(R["M"])
    want = (M * (np.abs(amp) ** 2).reshape(1, -1)).sum(axis=1).reshape(-1, 1)
    return _compare(dict(R, M=want), got, sig, extra)


def _fp(M):
    return hashlib.sha1(np.round(np.asarray(M, dtype=complex), 8).tobytes()).hexdigest()[:10]


def _nontrivial(R, cols):
    M = np.asarray(R["M"])
    if R.get("out_rows") is None and "in_state" not in R and M.shape == cols.shape:
        return bool(np.max(np.abs(M - cols)) > 1e-9)
    return True


def run(ctx):
    inst = instances(ctx.tier)
    specs, per_t, cache = [], {}, {}
    import json

    for t, a, lays in inst:
        key = (t, json.dumps(a, sort_keys=True, default=repr))
        rs = cache.get(key)
        if rs is None:
            try:
                rs = routes_for(t, a)
            except Exception:  # noqa: BLE001  (construction failures are judged inside check)
                rs = ["device"]
            cache[key] = rs
        for lay in lays:
            for r in rs:
                specs.append({"t": t, "a": a, "lay": lay, "route": r})
                per_t[t] = per_t.get(t, 0) + 1
    if ctx.only:
        specs = [s for s in specs if s["t"] == ctx.only]
    ctx.enumerate(specs, fn="check", chunk=4, axis="instance-route")
    ctx.coverage["alphabet"] = {"templates": sorted(TEMPLATES), "operations": sorted(OPS_TABLE), "hamiltonians": ["zz+x", "comm2", "comm3", "xz1", "flat4", "lcu2", "lcu3", "lcu2c", "lcu5", "doc3"],
                                "polynomials": sorted(POLYS) + sorted(GQSP_POLY), "matrices": sorted(MATS), "layouts": LAYOUTS,
                                "routes": ["matrix (<= %d wires)" % MATRIX_MAX_WIRES, "device", "dec", "rule:<every applicable rule>"]}
    ctx.coverage["bound"] = {"sizes": "two smallest sizes per template (see instances())", "instances": len(inst)}
    ctx.coverage["specs_per_template"] = per_t
