"""C08 — Commutation checks are sound; exact on Pauli words (DESIGN §5.1 C08).

E1 over ordered pairs of operator instances x every placement of the second operator on wires {0,1,2,3} that shares at least
one wire with the first (plus one disjoint placement).  Oracle: qp.is_commuting(a, b) is True  =>  the reference matrices of a
and b, embedded on the joint wire set by explicit tensor re-indexing, commute; for two Pauli words (single-term Pauli
representation) the answer must equal the truth, which is additionally cross-checked against the symplectic parity of the words.
"""
import itertools
import math

import numpy as np

from mc import refsim as RS
from mc import x_alphabet as A
from mc import x_catalog as cat
from mc.engine import HarnessError, bad, ok, skip

PROPERTY = "C08"
LEVEL = "exploration"
TECHNIQUE = "bounded exhaustive enumeration of ordered operator pairs x wire placements; reported commutation vs. commutator of reference matrices"
LEVEL_TEXT = ("261 (thorough 385) instances of all ~110 catalogue gates, matrix operators, observables, arithmetic operators, meta operations "
              "and 4 templates (rotations at generic, pi, 2pi, 4pi, 0 and at every angle row that Rot/U2/U3/CRot.simplify special-cases): all "
              "ordered pairs of one generic instance per name, every other instance against a probe set (quick 10 operators; thorough: against "
              "every generic instance, plus boundary x boundary among the lookup-table names), and ~300 (thorough ~1100) instances of every "
              "Adjoint/Pow/Controlled wrapper name against the probes in both argument orders - each on every injective placement of the "
              "second operator on wires {0,1,2,3} sharing a wire with the first; whenever is_commuting answers True the commutator of the "
              "embedded reference matrices must vanish (1e-7). All pairs of Pauli words of length <=2 (thorough 3) in four construction "
              "forms must be answered exactly (cross-checked against the symplectic parity).")
LEVEL_NOTE = ("Reference matrices: mc.refgates formulas where the gate is listed, otherwise qp.matrix(op) (trusting C01/C02); embedding and "
              "commutator by the harness. Pairs where an operand has no matrix (Barrier, state preparations, mid-circuit measurements) or "
              "where is_commuting raises are counted, not judged: the property only constrains True answers. Completeness (False although "
              "commuting) is not part of the property and is only counted. Operators on more than 4 wires are not explored.")
DESIGN_REF = "5.1 C08"
START = "fork"
PARALLEL = True
RULE = ("ordered pairs (a, b) of the instance list x all injective maps of b's wires into {0,1,2,3} sharing >=1 wire with a (+1 disjoint "
        "placement); wrapper names x probe set in both orders; Pauli words x Pauli words x all placements on 3 wires x 4 forms; "
        "non-trivial = the two reference matrices do not both reduce to a multiple of the identity and share a wire")
ASSUMPTIONS = ["numpy dense linear algebra", "mc.refsim.embed (explicit tensordot re-indexing)",
               "operator matrices: mc.refgates table where listed, otherwise qp.matrix(op) (decided by C01/C02)"]

PI = math.pi
G1, G2 = A.G1, A.G2
TOL = 1e-7
NW = 4  # wire universe {0,1,2,3}

# parameter rows per name: first row generic, then the boundary rows that simplify()/the lookup special-case
ROWS1 = [[G1], [PI], [2 * PI], [4 * PI], [0.0]]
ROT_ROWS = [[G1, G2, 0.789], [PI / 2, G1, 7 * PI / 2], [0.0, G1, 0.0], [G1, 0.0, G2], [PI, PI / 2, 0.0], [0.0, 0.0, 0.0], [PI / 2, G1, -PI / 2]]
U2_ROWS = [[G1, G2], [0.0, 0.0], [3 * PI / 2, PI / 2], [PI / 2, 3 * PI / 2]]
U3_ROWS = [[G1, G2, 0.789], [0.0, 0.0, 0.0], [0.0, G1, 0.0], [G1, 3 * PI / 2, PI / 2], [G1, 0.0, 0.0], [2 * PI, 0.0, 0.0]]
SPECIAL_ROWS = {"Rot": ROT_ROWS, "CRot": ROT_ROWS, "U2": U2_ROWS, "U3": U3_ROWS}
CORE_CATEGORIES = ("gate", "matrix", "observable", "meta", "symbolic", "stateprep")
CORE_CHANNELS = ["BitFlip", "DepolarizingChannel"]  # documented as unsupported: must not answer
TEMPLATES = ["QFT", "Permute", "BasisEmbedding", "AngleEmbedding"]
# how many catalogue variants (hyper-parameter menus) of a name are used: (quick, thorough); default (2, 3)
VARIANTS = {"MultiControlledX": (4, 8), "ControlledQubitUnitary": (3, 8), "QubitUnitary": (4, 8), "PauliRot": (2, 4), "SProd": (3, 8),
            "IntegerComparator": (1, 2), "Projector": (4, 6), "Hermitian": (3, 5), "MidMeasure": (1, 2), "PauliMeasure": (1, 2),
            "TemporaryAND": (2, 4), "DiagonalQubitUnitary": (3, 6)}
PROBES = ["PauliX", "PauliY", "PauliZ", "Hadamard", "S", "SX", "RX", "RY", "RZ", "PhaseShift", "Rot", "U3", "CNOT", "CZ", "CY", "SWAP", "ISWAP",
          "CRX", "CRZ", "CRot", "Toffoli", "CSWAP", "IsingXX", "IsingZZ", "MultiRZ"]
PROBES_QUICK = ["PauliX", "PauliZ", "Hadamard", "RX", "RZ", "Rot", "CNOT", "SWAP", "CRX", "CSWAP"]
TABLE_NAMES = ["RX", "RY", "RZ", "PhaseShift", "U1", "U2", "U3", "Rot", "CRot", "CRX", "CRY", "CRZ", "ControlledPhaseShift", "IsingXX", "IsingYY",
               "IsingZZ", "MultiRZ", "PSWAP", "SX", "S", "T", "PauliX", "PauliY", "PauliZ", "Hadamard", "SWAP", "ISWAP", "SISWAP", "CNOT", "CZ"]
WW_BASES = ["PauliX", "PauliZ", "Hadamard", "S", "RX", "RZ", "SWAP", "ISWAP", "IsingXX", "IsingZZ", "CNOT", "CZ", "CH", "CRX", "CRZ", "Toffoli", "CSWAP"]
SWAP_LIKE = {"SWAP", "ISWAP", "SISWAP"}


# ---------------------------------------------------------------------------------------------------- instance table
def _ident(spec):
    ps = ",".join(A.ANG_NAMES.get(v, f"{v:.4g}") for v in cat.params(spec))
    v = spec.get("v", "")
    return f"{spec['op']}{'<' + v + '>' if v else ''}({ps})"


def _rows_for(name, skel, tier, boundary):
    k = len(cat.params(skel))
    if k == 0 or any(kd != "ang" for kd in cat.param_kinds(skel)):
        return [cat.params(skel)]
    base = name[name.index("(") + 1:-1] if cat.category(name) == "wrapper" else name
    if k == len(SPECIAL_ROWS.get(base, [[]])[0]) and base in SPECIAL_ROWS:
        rows = SPECIAL_ROWS[base]
    elif k == 1:
        rows = ROWS1
    else:
        rows = [cat.params(skel), [PI] * k, [0.0] * k]
    if not boundary:
        return rows[:1]
    if cat.category(name) == "wrapper":
        return rows[:2]
    return rows if tier == "thorough" else rows[:4]


_TABLE_CACHE = {}


def _wrapper_variants(n, sks, tier):
    if n.startswith("Pow("):
        zs = (2, 0.5, -1) if tier == "quick" else (2, 0.5, -1, 3)
        return [s for s in sks if s["kw"].get("z") in zs]
    if n.startswith("C("):
        want = ("ctrl,1c,1", "ctrl,1c,0") if tier == "quick" else ("ctrl,1c,1", "ctrl,1c,0", "ctrl,2c,10", "cls,1c,1")
        return [s for s in sks if s["v"] in want]
    return sks[:1]


def entries(name, tier):
    """Instances of one catalogue name: id -> {"spec": canonical spec on wires 0..n-1, "generic": bool, "group", "name"}."""
    ck = (name, tier)
    if ck in _TABLE_CACHE:
        return _TABLE_CACHE[ck]
    cat.names()  # makes the catalogue register its wrapper / template recipes (needed when a replay calls check() directly)
    out = {}
    wrapper = cat.category(name) == "wrapper"
    if wrapper:
        # the catalogue's own filter (built operator must carry the catalogue name), applied to the selected variants only
        import copy

        sks = [copy.deepcopy(s) for s in _wrapper_variants(name, cat.RECIPES[name][1]("quick"), tier) if cat._name_ok(s, name)]
    else:
        sks = cat.skeletons(name, "quick")
        sks = sks[:VARIANTS.get(name, (2, 3))[0 if tier == "quick" else 1]]
    for sk_ in sks:
        ws = cat.wires_of(sk_)
        if len(ws) > NW or ws != list(range(len(ws))):
            continue
        for i, row in enumerate(_rows_for(name, sk_, tier, boundary=(not wrapper or tier == "thorough"))):
            s = cat.with_params(sk_, row) if row else sk_
            out.setdefault(_ident(s), {"spec": s, "generic": i == 0, "group": "wrap" if wrapper else "core", "name": name})
    _TABLE_CACHE[ck] = out
    return out


def core_names():
    have = set(cat.names())
    return [n for c in CORE_CATEGORIES for n in cat.names(c)] + CORE_CHANNELS + [t for t in TEMPLATES if t in have]


def table(tier):
    """All instances of the tier, deterministic order: core names, then wrapper names."""
    out = {}
    for n in core_names() + cat.names("wrapper"):
        for k, v in entries(n, tier).items():
            out.setdefault(k, v)
    return out


def placements(wa, nb, universe=NW):
    """All injective maps of b's nb canonical wires into range(universe) sharing >= 1 wire with wa, then one disjoint map."""
    shared, disjoint = [], None
    for m in itertools.permutations(range(universe), nb):
        if set(m) & set(wa):
            shared.append(list(m))
        elif disjoint is None:
            disjoint = list(m)
    return shared + ([disjoint] if disjoint is not None else [])


# ---------------------------------------------------------------------------------------------------- reference
_MAT = {}


def _ref_matrix(op, key=None):
    """Reference matrix on op.wires or None (operator has no matrix); cached per instance id (it does not depend on the labels)."""
    if key is not None:
        key = tuple(key)
        if key not in _MAT:
            _MAT[key] = _ref_matrix(op)
        return _MAT[key]
    if op.name in ("Barrier", "WireCut", "Snapshot") or type(op).__name__ in ("MidMeasure", "PauliMeasure", "Conditional"):
        return None
    try:
        M = np.asarray(RS.op_matrix(op), dtype=complex)
    except Exception:  # noqa: BLE001 - any failure to produce a matrix = "no matrix", the pair is then not judged
        return None
    d = 2 ** len(op.wires)
    if M.shape != (d, d):
        return None
    return M


def _commutator_norm(Ma, wa, Mb, wb):
    joint = list(wa) + [w for w in wb if w not in wa]
    Ea = RS.embed(Ma, list(wa), joint)
    Eb = RS.embed(Mb, list(wb), joint)
    C = Ea @ Eb - Eb @ Ea
    scale = max(1.0, float(np.max(np.abs(Ea))) * float(np.max(np.abs(Eb))))
    return float(np.max(np.abs(C))) / scale


def _roles(op):
    cw = set(getattr(op, "control_wires", None) or [])
    return {w: ("c" if w in cw else "t") for w in op.wires}


def _pattern(a, b):
    ra, rb = _roles(a), _roles(b)
    shared = [w for w in a.wires if w in rb]
    pat = sorted({ra[w] + rb[w] for w in shared})
    ta = {w for w, r in ra.items() if r == "t"}
    tb = {w for w, r in rb.items() if r == "t"}
    tt = ta & tb
    part = "" if not tt else ("-full" if tt == ta == tb else "-partial")
    return "+".join(pat) + part


def _target_name(op):
    seen = 0
    while hasattr(op, "base") and seen < 6:
        op = op.base
        seen += 1
    return op.name


def _class_name(op):
    """Target name after PennyLane's own simplification (PSWAP(2pi) -> SWAP ...); used only to name the failure class."""
    import pennylane as qp

    try:
        with qp.QueuingManager.stop_recording():
            op = qp.simplify(op)
    except Exception:  # noqa: BLE001
        pass
    return _target_name(op)


def _hides_controls(op):
    import pennylane as qp

    try:
        with qp.QueuingManager.stop_recording():
            op = qp.simplify(op)
    except Exception:  # noqa: BLE001
        pass
    seen = 0
    while hasattr(op, "base") and seen < 6:
        if len(getattr(op, "control_wires", None) or ()) == 0 and len(getattr(op.base, "control_wires", None) or ()) > 0:
            return True
        op = op.base
        seen += 1
    return False


def _single_word(op):
    """(word dict wire->letter) if op's Pauli representation is a single Pauli word with non-zero coefficient, else None."""
    pr = op.pauli_rep
    if pr is None or len(pr) != 1:
        return None
    (pw, c), = pr.items()
    if abs(complex(c)) < 1e-12:
        return None
    return {w: pw[w] for w in pw.wires}


def _symplectic_commute(w1, w2):
    anti = sum(1 for w in w1 if w in w2 and w1[w] != "I" and w2[w] != "I" and w1[w] != w2[w])
    return anti % 2 == 0


def judge(a, b, na, nb_, ka=None, kb=None):
    """Shared oracle.  a, b live operators; na, nb_ their class labels for signatures; ka, kb cache keys of the matrices."""
    import pennylane as qp
    from pennylane.exceptions import QuantumFunctionError

    try:
        with qp.QueuingManager.stop_recording():
            rep = qp.is_commuting(a, b)
    except QuantumFunctionError:
        return skip("QuantumFunctionError(documented: unsupported operation)")
    except Exception as e:  # noqa: BLE001 - no answer was given; the property only constrains True answers
        return skip(f"raises:{type(e).__name__}")
    if not isinstance(rep, (bool, np.bool_)):
        return bad(f"non-boolean-answer:{na}×{nb_}", repr(rep), "True or False")
    rep = bool(rep)
    Ma, Mb = _ref_matrix(a, ka), _ref_matrix(b, kb)
    if Ma is None or Mb is None:
        return skip("no-matrix:" + ("True" if rep else "False"))
    wa, wb = list(a.wires), list(b.wires)
    norm = _commutator_norm(Ma, wa, Mb, wb)
    truth = norm <= TOL
    share = bool(set(wa) & set(wb))
    pat = _pattern(a, b) if share else "disjoint"
    w1, w2 = _single_word(a), _single_word(b)
    if w1 is not None and w2 is not None:
        par = _symplectic_commute(w1, w2)
        if par != truth:
            raise HarnessError(f"symplectic parity {par} disagrees with matrix commutator {norm} for {a} , {b}")
        if rep != truth:
            return bad(f"pauli-words-inexact:{'×'.join(sorted([na, nb_]))}:{'commuting-reported-False' if truth else 'anticommuting-reported-True'}", rep, truth, commutator_norm=norm, ops=[str(a), str(b)])
    if rep and not truth:
        ta, tb = _class_name(a), _class_name(b)
        if ta in SWAP_LIKE and tb in SWAP_LIKE and pat.endswith("-partial"):
            # one defect class: the SWAP-group table entry is applied although the two (simplified) SWAP-like targets overlap on one wire only
            sig = "unsound:swap-group×swap-group:partial-target-overlap"
        elif _hides_controls(a) or _hides_controls(b):
            # one defect class: a Pow/Adjoint wrapper that simplify() cannot remove reports no control_wires, so the control wires of
            # the wrapped controlled gate are treated as targets of its innermost base (sqrt(CH) vs H on the control, sqrt(CY) vs Y ...)
            sig = "unsound:unsimplified-wrapper-of-controlled-op:control-wires-treated-as-targets"
        else:
            (n1, x1), (n2, x2) = sorted([(na, a), (nb_, b)], key=lambda t: t[0])
            sig = f"unsound:{n1}×{n2}:{_pattern(x1, x2)}"
        return bad(sig, True, False, commutator_norm=norm, ops=[str(a), str(b)], pattern=pat)
    scalar = all(np.allclose(M, M[0, 0] * np.eye(M.shape[0])) for M in (Ma, Mb))
    return ok(outcome=[na, nb_, pat, rep, truth], nontrivial=share and not scalar)


# ---------------------------------------------------------------------------------------------------- check functions
def _resolve(ref, tier):
    name, ident = ref
    return entries(name, tier)[ident]


def _label(ent):
    s = ent["spec"]
    n = s["op"]
    if cat.category(n) == "symbolic" and s.get("v"):
        n = f"{n}[{s['v']}]"
    return n


def check(spec):
    """spec = {"a": [catalogue name, instance id], "b": [name, id], "m": [wire given to b's canonical wire i], "t": tier of the table}"""
    ea, eb = _resolve(spec["a"], spec["t"]), _resolve(spec["b"], spec["t"])
    a = cat.build(ea["spec"])
    sb = eb["spec"]
    b = cat.build(cat.relabel(sb, dict(zip(cat.wires_of(sb), spec["m"]))))
    return judge(a, b, _label(ea), _label(eb), spec["a"] + [spec["t"]], spec["b"] + [spec["t"]])


PAULI_FORMS = ["plain", "sprod", "matmul", "padded"]


def _word_op(word, wires, form):
    import pennylane as qp

    P = {"X": qp.PauliX, "Y": qp.PauliY, "Z": qp.PauliZ, "I": qp.Identity}
    with qp.QueuingManager.stop_recording():
        fs = [P[c](w) for c, w in zip(word, wires)]
        if form == "plain":
            return fs[0] if len(fs) == 1 else qp.prod(*fs)
        if form == "sprod":
            return qp.s_prod(-0.5, fs[0] if len(fs) == 1 else qp.prod(*fs))
        if form == "matmul":
            o = fs[0]
            for f in fs[1:]:
                o = o @ f
            return o
        if form == "padded":  # explicit identity factor on a further wire + complex coefficient
            extra = [w for w in range(NW) if w not in wires][:1]
            return qp.s_prod(1j, qp.prod(*fs, *[qp.Identity(w) for w in extra]))
    raise AssertionError(form)


def check_pauli(spec):
    """spec = {"wa": word, "wb": word, "m": placement of b, "fa": form, "fb": form}"""
    a = _word_op(spec["wa"], list(range(len(spec["wa"]))), spec["fa"])
    b = _word_op(spec["wb"], spec["m"], spec["fb"])
    r = judge(a, b, "PauliWord", "PauliWord")
    if r["s"] == "skip":
        return bad("pauli-words-no-answer", r["o"], "an exact answer")
    if r["s"] == "ok":
        r["o"] = ["pauli", spec["wa"], spec["wb"], r["o"][2:]]
    return r


# ---------------------------------------------------------------------------------------------------- driver
def run(ctx):
    tier = ctx.tier
    T = table(tier)
    ids = list(T)
    nwires = {i: len(cat.wires_of(T[i]["spec"])) for i in ids}
    core = [i for i in ids if T[i]["group"] == "core"]
    wrap = [i for i in ids if T[i]["group"] == "wrap"]
    if ctx.only:
        keep = ctx.only.split(",")
        core = [i for i in core if any(k in i for k in keep)]
        wrap = [i for i in wrap if any(k in i for k in keep)]
    first_variant = {}
    for i in core:
        if T[i]["generic"]:
            first_variant.setdefault(T[i]["name"], i)
    g1 = list(first_variant.values())  # one generic instance per name
    pn = PROBES if tier == "thorough" else PROBES_QUICK
    probes = [first_variant[n] for n in pn if n in first_variant]
    # reference matrices are computed once here (fractional matrix powers cost up to 1 s each) and inherited by the forked workers
    for i in core + wrap:
        try:
            _ref_matrix(cat.build(T[i]["spec"]), (T[i]["name"], i, tier))
        except Exception:  # noqa: BLE001 - an instance that cannot be built is reported by the evaluation itself
            pass

    def pairs(As, Bs, cond=lambda a, b: True):
        out = []
        for a in As:
            if nwires[a] == 0:
                continue
            wa = list(range(nwires[a]))
            for b in Bs:
                if nwires[b] == 0 or not cond(a, b):
                    continue
                for m in placements(wa, nwires[b]):
                    out.append({"a": [T[a]["name"], a], "b": [T[b]["name"], b], "m": m, "t": tier})
        return out

    rest = [i for i in core if i not in set(g1)]
    ctx.enumerate(pairs(g1, g1), axis="core×core(one generic instance per name)")
    if tier == "thorough":
        ctx.enumerate(pairs(rest, g1) + pairs(g1, rest), axis="core(other variants, boundary rows)×core(generic)")
        tab = [i for i in core if T[i]["name"] in TABLE_NAMES]
        ctx.enumerate(pairs(tab, tab, lambda a, b: not (a in first_variant.values() or b in first_variant.values())),
                      axis="boundary×boundary(rotation/table names)")
    else:
        ctx.enumerate(pairs(rest, probes) + pairs(probes, rest), axis="core(other variants, boundary rows)×probes")
    ctx.enumerate(pairs(wrap, probes) + pairs(probes, wrap), axis="wrappers×probes")
    if tier == "thorough":
        wsel = [i for i in wrap if T[i]["generic"] and T[i]["name"][T[i]["name"].index("(") + 1:-1] in WW_BASES
                and ("cls," not in i and "z=3" not in i and "z=2" not in i)]
        ctx.enumerate(pairs(wsel, wsel), axis="wrappers×wrappers(controlled+swap)")

    L = 2 if ctx.quick else 3
    words = ["".join(w) for k in range(1, L + 1) for w in itertools.product("XYZ", repeat=k)]
    pspecs = []
    for wa in words:
        for wb in words:
            for m in itertools.permutations(range(3), len(wb)):
                forms = [(fa, fb) for fa in PAULI_FORMS for fb in PAULI_FORMS] if len(wa) + len(wb) <= 3 else [("plain", "plain"), ("sprod", "matmul"), ("padded", "plain")]
                for fa, fb in forms:
                    pspecs.append({"wa": wa, "wb": wb, "m": list(m), "fa": fa, "fb": fb})
    ctx.enumerate(pspecs, fn="check_pauli", axis="pauli-words")

    ctx.coverage["alphabet"] = {"core_instances": len(core), "wrapper_instances": len(wrap), "probes": probes,
                                "core_ids": core, "pauli_words": words, "pauli_forms": PAULI_FORMS}
    ctx.coverage["bound"] = {"wire_universe": NW, "max_operator_wires": NW, "pauli_word_length": L,
                             "rows": "generic + boundary rows per name (see ROWS1/ROT_ROWS/U2_ROWS/U3_ROWS)"}
    ctx.coverage["not_judged"] = {k: v for k, v in ctx.skip_reasons.items()}
