"""C39 — Jacobian-product utilities contract Jacobians correctly (DESIGN §5.6).

E1 product enumeration, three parts.
  synth   compute_vjp_single/multi and compute_jvp_single/multi on synthetic Jacobians: measurement-shape lists over
          {(), (2,), (4,)} (length 1-3) x #params {0,1,2,3} x (co)tangent kind {generic, zero, one-hot, zero-block} x
          container form x interface of the (co)tangent {numpy, autograd, jax, torch}; tensor-valued parameters for jvp.
  tape    qp.gradients.vjp / jvp / batch_vjp / batch_jvp on real tapes (0-3 trainable parameters, trainable subsets,
          measurement lists over expval / probs(1 wire) / probs(2 wires) / probs() ) x shots {None, 10, (10,20), (5,5,20)}
          x (co)tangent kinds; the gradient tapes are "executed" analytically and, for shot vectors, copy c gets the
          results scaled by (1 + c/4) so that the copies are distinguishable and nothing is sampled.
  cjac    classical_jacobian of QNodes with pre-processing {x, 2x, (x0 x1, x1^2), sin, two arguments} x interface
          {autograd, jax, torch} x argnum {None, int, list}.
Oracle: the explicit Jacobian (the gradient transform's own post-processed Jacobian for `tape`; a closed-form table for
`synth`), flattened by hand into an (outputs x parameters) matrix, contracted with plain numpy (`dy @ J`, `J @ t`);
for analytic tapes the explicit Jacobian is additionally compared with R-fd of the reference simulator.
"""
import itertools
import math

import numpy as np

from mc.engine import ok, bad, skip

PROPERTY = "C39"
LEVEL = "exploration"
TECHNIQUE = "bounded exhaustive enumeration of Jacobian shapes / (co)tangents / shot vectors vs explicit numpy contraction"
LEVEL_TEXT = ("Every measurement-shape list of length <=3 over {(),(2,),(4,)} x 0-3 parameters x 4 (co)tangent kinds x container forms x "
              "4 interfaces for the compute_* functions; every (circuit, trainable subset, measurement list of length <=2 (thorough 3), "
              "shots, (co)tangent kind) for vjp/jvp/batch_vjp/batch_jvp with param_shift; 7 pre-processing patterns x 3 interfaces x "
              "argnum forms for classical_jacobian. Contractions are compared with numpy on the explicit Jacobian (1e-9).")
LEVEL_NOTE = ("Explicit Jacobian for tapes = param_shift's own post-processing of the same (analytic, per-copy scaled) results, cross-checked "
              "against finite differences of the reference simulator; gradient tapes are executed by default.qubit without shots (trusted, "
              "C26). No sampling is involved. Not decided: TensorFlow inputs (not installed), tracing under jax.jit (the `num` argument).")
DESIGN_REF = "5.6 C39"
START = "fork"
PARALLEL = True
RULE = ("product of the axes listed in coverage.alphabet; non-trivial = at least one parameter and a (co)tangent that is not all-zero, "
        "or a zero (co)tangent on a shaped / shot-vector output")

SHAPES = [[], [2], [4]]
KINDS = ["generic", "zero", "onehot", "zeroblock"]
IFACES = ["numpy", "autograd", "jax", "torch"]


# ------------------------------------------------------------------------------------------------ helpers
def tab(i, j=0, salt=0):
    """Deterministic generic numbers (no RNG)."""
    return round(math.sin(1.0 + 3 * i + 7 * j + 0.37 * salt) + 0.25 * math.cos(2.0 * i - j + salt), 6)


def to_np(x):
    if x is None:
        return None
    if isinstance(x, (tuple, list)):
        return [to_np(y) for y in x]
    if hasattr(x, "detach"):
        x = x.detach().numpy()
    return np.asarray(x)


def conv(iface):
    if iface == "numpy":
        return lambda a: np.asarray(a, dtype=float)
    if iface == "autograd":
        from pennylane import numpy as pnp

        return lambda a: pnp.array(a, requires_grad=False)
    if iface == "jax":
        import jax

        jax.config.update("jax_enable_x64", True)
        import jax.numpy as jnp

        return lambda a: jnp.asarray(np.asarray(a, dtype=float))
    if iface == "torch":
        import torch

        return lambda a: torch.tensor(np.asarray(a, dtype=float), dtype=torch.float64)
    raise KeyError(iface)


def vec(kind, n, salt, blocks=None):
    """(Co)tangent of length n: generic / zero / one-hot / zero in the first block (blocks = list of block sizes)."""
    if kind == "zero":
        return np.zeros(n)
    if kind == "onehot":
        v = np.zeros(n)
        if n:
            v[(salt + n // 2) % n] = 1.0
        return v
    v = np.array([tab(i, 5, salt) for i in range(n)])
    if kind == "zeroblock" and blocks:
        v[: blocks[0]] = 0.0
    return v


def split(v, shapes):
    out, lo = [], 0
    for s in shapes:
        n = int(np.prod(s)) if s else 1
        out.append(np.asarray(v[lo:lo + n]).reshape(tuple(s)))
        lo += n
    return out


def sizes(shapes):
    return [int(np.prod(s)) if s else 1 for s in shapes]


def pl_jac(J, shapes, k, single_param_as_array=True):
    """(M x k) matrix -> PennyLane's nested Jacobian structure for measurement shapes `shapes` and k parameters."""
    rows = split_rows(J, shapes)

    def per_meas(Jm, s):
        cols = tuple(Jm[:, j].reshape(tuple(s)) for j in range(k))
        if k == 1 and single_param_as_array:
            return cols[0]
        return cols

    if len(shapes) == 1:
        return per_meas(rows[0], shapes[0])
    return tuple(per_meas(r, s) for r, s in zip(rows, shapes))


def split_rows(J, shapes):
    out, lo = [], 0
    for n in sizes(shapes):
        out.append(J[lo:lo + n])
        lo += n
    return out


def jac_matrix(jac, shapes, k):
    """PennyLane's nested Jacobian structure -> (M x k) matrix, by hand."""
    M = sum(sizes(shapes))
    J = np.zeros((M, k))
    per = [jac] if len(shapes) == 1 else list(jac)
    lo = 0
    for jm, s in zip(per, shapes):
        n = int(np.prod(s)) if s else 1
        cols = list(jm) if isinstance(jm, (tuple, list)) else [jm]
        if len(cols) != k:
            raise ValueError(f"jacobian has {len(cols)} parameter entries, expected {k}")
        for j, c in enumerate(cols):
            c = np.asarray(to_np(c), dtype=float)
            if c.size != n:
                raise ValueError(f"jacobian entry of size {c.size}, expected {n}")
            J[lo:lo + n, j] = c.reshape(-1)
        lo += n
    return J


def shape_of(x):
    return list(np.shape(to_np(x)))


# ------------------------------------------------------------------------------------------------ part 1: synthetic
def check_synth(spec):
    from pennylane import gradients as G

    shapes, k, kind, iface, fn, form = spec["shapes"], spec["k"], spec["kind"], spec["iface"], spec["fn"], spec["form"]
    try:
        c = conv(iface)
    except ImportError:
        return skip(f"{iface} not installed")
    M = sum(sizes(shapes))
    multi = len(shapes) > 1
    J = np.array([[tab(m, j, 1) for j in range(k)] for m in range(M)]).reshape(M, k)
    if fn == "vjp":
        dyv = vec(kind, M, spec.get("salt", 0), sizes(shapes))
        parts = split(dyv, shapes)
        if k == 0:
            jac = np.zeros((0,)) if form == "array" else ()
            if multi:
                return skip("zero parameters with several measurements never reaches compute_vjp_multi")
        else:
            jac = pl_jac(J, shapes, k, single_param_as_array=(form != "tuple1"))
        if multi:
            dy = tuple(c(p) for p in parts)
            res = G.compute_vjp_multi(dy, jac)
        else:
            dy = c(parts[0])
            res = G.compute_vjp_single(dy, jac)
        exp = dyv @ J
        got = to_np(res)
        if got is None:
            return bad(f"synth:vjp:{'multi' if multi else 'single'}:returned-None", None, exp)
        got = np.asarray(got, dtype=float)
        if got.size != k or (k and list(got.shape) != [k]):
            return bad(f"synth:vjp:{'multi' if multi else 'single'}:shape:k={min(k, 2)}", list(got.shape), [k], iface=iface)
        if not np.allclose(got.reshape(-1), exp, atol=1e-9, rtol=0):
            return bad(f"synth:vjp:{'multi' if multi else 'single'}:value:{kind}", got, exp, iface=iface)
        return ok(outcome=[list(got.shape), np.round(exp, 6).tolist()[:3]], nontrivial=k > 0 and kind != "zero")
    # jvp
    pshapes = spec.get("pshapes") or [[]] * k
    psz = sizes(pshapes)
    K = sum(psz)
    J = np.array([[tab(m, j, 2) for j in range(K)] for m in range(M)]).reshape(M, K)
    tv = vec(kind, K, spec.get("salt", 0), psz)
    tparts = split(tv, pshapes)
    if form == "array" and all(not s for s in pshapes):
        tangent = c(tv)
    elif form == "tuple":
        tangent = tuple(c(p) for p in tparts)
    else:
        tangent = [c(p) for p in tparts]

    def per_meas(Jm, s):
        cols, lo = [], 0
        for ps, n in zip(pshapes, psz):
            cols.append(Jm[:, lo:lo + n].reshape(tuple(s) + tuple(ps)))
            lo += n
        if k == 1:
            return cols[0]
        return tuple(cols)

    rows = split_rows(J, shapes)
    if k == 0:
        jac = np.zeros((0,)) if form == "array" else ()
        if multi:
            jac = tuple(jac for _ in shapes)
    elif multi:
        jac = tuple(per_meas(r, s) for r, s in zip(rows, shapes))
    else:
        jac = per_meas(rows[0], shapes[0])
    res = G.compute_jvp_multi(tangent, jac) if multi else G.compute_jvp_single(tangent, jac)
    exp = split(J @ tv, shapes)
    got = to_np(res) if multi else [to_np(res)]
    if len(got) != len(shapes):
        return bad("synth:jvp:structure", len(got), len(shapes))
    for g, e, s in zip(got, exp, shapes):
        g = np.asarray(g, dtype=float)
        if k == 0:
            if g.size != 0:
                return bad("synth:jvp:no-parameters-not-empty", list(g.shape), "empty")
            continue
        if list(g.shape) != list(s):
            return bad(f"synth:jvp:{'multi' if multi else 'single'}:shape", list(g.shape), list(s), iface=iface, k=k)
        if not np.allclose(g, e, atol=1e-9, rtol=0):
            return bad(f"synth:jvp:{'multi' if multi else 'single'}:value:{kind}", g, e, iface=iface)
    return ok(outcome=[[list(np.shape(g)) for g in got], np.round(J @ tv, 6).tolist()[:3]], nontrivial=k > 0 and kind != "zero")


# ------------------------------------------------------------------------------------------------ part 2: tapes
CIRCS = {"c0": 0, "c1": 1, "c2": 2, "c3": 3}
MEAS = {"E": [], "E2": [], "P1": [2], "P2": [4], "Pa": [4]}
PARAMS = [0.3, -1.234, 0.8]


def build_tape(circ, tp, meas, shots, params=None):
    import pennylane as qp

    a, b, c = PARAMS if params is None else list(params) + PARAMS[len(params):]
    with qp.QueuingManager.stop_recording():
        if circ == "c0":
            ops = [qp.Hadamard(0), qp.CNOT([0, 1])]
        elif circ == "c1":
            ops = [qp.RX(a, 0), qp.CNOT([0, 1])]
        elif circ == "c2":
            ops = [qp.RX(a, 0), qp.RY(b, 1), qp.CNOT([0, 1])]
        else:
            ops = [qp.RX(a, 0), qp.RY(b, 1), qp.CNOT([0, 1]), qp.CRX(c, [1, 0])]
        ms = []
        for m in meas:
            ms.append({"E": lambda: qp.expval(qp.Z(0)), "E2": lambda: qp.expval(qp.X(1) @ qp.Z(0)), "P1": lambda: qp.probs(wires=[1]),
                       "P2": lambda: qp.probs(wires=[1, 0]), "Pa": lambda: qp.probs()}[m]())
    sh = None if shots is None else (tuple(shots) if isinstance(shots, list) else shots)
    return qp.tape.QuantumScript(ops, ms, shots=sh, trainable_params=list(tp))


def n_copies(shots):
    return len(shots) if isinstance(shots, list) else None


def scale(res, s):
    if isinstance(res, (tuple, list)):
        return tuple(scale(r, s) for r in res)
    return np.asarray(res) * s


def fake_execute(gtapes, shots):
    """Analytic results of the gradient tapes; shot-vector structure = per-copy scaled copies (1 + c/4)."""
    import pennylane as qp

    dev = qp.device("default.qubit")
    out = []
    for g in gtapes:
        r = dev.execute(g.copy(shots=None))
        nc = n_copies(shots)
        out.append(r if nc is None else tuple(scale(r, 1 + 0.25 * c) for c in range(nc)))
    return tuple(out)


_REF_CACHE = {}


def ref_jacobian(circ, tp, meas):
    """R-fd Jacobian (M x k) of the reference simulator's results w.r.t. the trainable parameters (memoised per worker)."""
    key = (circ, tuple(tp), tuple(meas))
    if key not in _REF_CACHE:
        _REF_CACHE[key] = _ref_jacobian(circ, tp, meas)
    return _REF_CACHE[key]


def _ref_jacobian(circ, tp, meas):
    from mc import refsim as RS

    k = CIRCS[circ]

    def f(x):
        p = list(PARAMS[:k])
        for i, t in enumerate(tp):
            p[t] = float(x[i])
        tape = build_tape(circ, tp, meas, None, p)
        st = RS.run_state(tape.operations, [0, 1])
        return np.concatenate([np.atleast_1d(np.asarray(RS.measure(mp, st, [0, 1]), dtype=float)).reshape(-1) for mp in tape.measurements])

    x0 = np.array([PARAMS[t] for t in tp], dtype=float)
    if not len(tp):
        return np.zeros((sum(sizes([MEAS[m] for m in meas])), 0))
    return RS.fd_jacobian(f, x0)


def one_tape(spec):
    """-> dict with tape, explicit per-copy Jacobians [J_c], shapes, k"""
    import pennylane as qp

    circ, tp, meas, shots = spec["circ"], spec["tp"], spec["meas"], spec["shots"]
    tape = build_tape(circ, tp, meas, shots)
    shapes = [MEAS[m] for m in meas]
    k = len(tp)
    nc = n_copies(shots)
    Js = None
    if k:
        gt, fn = qp.gradients.param_shift(tape)
        jac = fn(fake_execute(gt, shots))
        if nc is None:
            Js = [jac_matrix(jac, shapes, k)]
        else:
            Js = [jac_matrix(jac[c], shapes, k) for c in range(nc)]
        Jref = ref_jacobian(circ, tp, meas)
        for c, J in enumerate(Js):
            if not np.allclose(J, (1 + 0.25 * c) * Jref, atol=1e-7, rtol=0):
                raise AssertionError("explicit param_shift Jacobian differs from the finite-difference reference (C34 territory)")
    return {"tape": tape, "Js": Js, "shapes": shapes, "k": k, "nc": nc}


def make_dy(kind, shapes, nc, salt, c):
    """cotangent in the tape's output structure (+ per-copy flat vectors)."""
    M = sum(sizes(shapes))
    flats = [vec(kind, M, salt + 3 * cc, sizes(shapes)) for cc in range(nc or 1)]
    if kind == "zeroblock" and nc:  # additionally: the whole second copy zero
        flats[-1] = np.zeros(M)

    def struct(v):
        parts = [c(p) for p in split(v, shapes)]
        return parts[0] if len(shapes) == 1 else tuple(parts)

    dy = struct(flats[0]) if nc is None else tuple(struct(v) for v in flats)
    return dy, flats


def expected_vjp(info, flats):
    if info["k"] == 0:
        return None
    return sum(v @ J for v, J in zip(flats, info["Js"]))


def compare_vjp(got, exp, tag):
    if exp is None:
        if got is not None:
            return bad(f"{tag}:no-trainable-not-None", repr(got), None)
        return None
    if got is None:
        return bad(f"{tag}:returned-None", None, exp)
    g = np.asarray(to_np(got), dtype=float)
    if list(g.shape) != [len(exp)]:
        return bad(f"{tag}:shape", list(g.shape), [len(exp)])
    if not np.allclose(g, exp, atol=1e-9, rtol=0):
        return bad(f"{tag}:value", g, exp)
    return None


def expected_jvp(info, tv):
    """list over copies of list over measurements"""
    shapes = info["shapes"]
    M = sum(sizes(shapes))
    if info["k"] == 0:
        return [split(np.zeros(M), shapes) for _ in range(info["nc"] or 1)]
    return [split(J @ tv, shapes) for J in info["Js"]]


def compare_jvp(got, exp, info, tag):
    shapes, nc = info["shapes"], info["nc"]
    if got is None:
        return bad(f"{tag}:returned-None", None, "array structure")
    copies = [got] if nc is None else got
    if nc is not None and (not isinstance(got, (tuple, list)) or len(got) != nc or
                           (len(shapes) > 1 and not all(isinstance(c, (tuple, list)) for c in got))):
        return bad(f"{tag}:shot-vector-structure", shape_tree(got), f"{nc} copies x {len(shapes)} measurements")
    for c, (gc, ec) in enumerate(zip(copies, exp)):
        per = [gc] if len(shapes) == 1 else gc
        if len(shapes) > 1 and (not isinstance(gc, (tuple, list)) or len(gc) != len(shapes)):
            return bad(f"{tag}:measurement-structure", shape_tree(gc), len(shapes))
        for g, e, s in zip(per, ec, shapes):
            g = np.asarray(to_np(g), dtype=float)
            if list(g.shape) != list(s):
                return bad(f"{tag}:shape", list(g.shape), list(s))
            if not np.allclose(g, e, atol=1e-9, rtol=0):
                return bad(f"{tag}:value", g, e)
    return None


def shape_tree(x):
    if isinstance(x, (tuple, list)):
        return [shape_tree(y) for y in x]
    return list(np.shape(to_np(x)))


def check_tape(spec):
    import pennylane as qp

    try:
        c = conv(spec["iface"])
    except ImportError:
        return skip(f"{spec['iface']} not installed")
    fnname, kind = spec["fn"], spec["kind"]
    tapes = spec["tapes"]
    infos = [one_tape(t) for t in tapes]
    if fnname in ("vjp", "batch_vjp"):
        dys, flats = zip(*[make_dy(kind, i["shapes"], i["nc"], 11 * n, c) for n, i in enumerate(infos)])
        zero_tag = ":zero" if all(not np.any(v) for f in flats for v in f) else ""
        exps = [expected_vjp(i, f) for i, f in zip(infos, flats)]
        if fnname == "vjp":
            gt, fn = qp.gradients.vjp(infos[0]["tape"], dys[0], qp.gradients.param_shift)
            if zero_tag and len(gt):
                return bad("tape:vjp:zero-cotangent-not-shortcut", len(gt), 0)
            got = fn(fake_execute(gt, tapes[0]["shots"]))
            v = compare_vjp(got, exps[0], f"tape:vjp{zero_tag}:{'shotvec' if infos[0]['nc'] else 'noshotvec'}")
            return v or ok(outcome=[None if exps[0] is None else np.round(exps[0], 6).tolist(), len(gt)],
                           nontrivial=infos[0]["k"] > 0)
        red = spec["reduction"]
        gt, fn = qp.gradients.batch_vjp([i["tape"] for i in infos], list(dys), qp.gradients.param_shift, reduction=red)
        shots_all = tapes[0]["shots"]
        got = fn(fake_execute(gt, shots_all))
        if red == "append":
            if len(got) != len(infos):
                return bad("tape:batch_vjp:append:length", len(got), len(infos))
            for n, (g, e) in enumerate(zip(got, exps)):
                v = compare_vjp(g, e, f"tape:batch_vjp:append{zero_tag}")
                if v:
                    return v
        else:
            flat = np.concatenate([e for e in exps if e is not None]) if any(e is not None for e in exps) else np.zeros(0)
            g = np.asarray([float(to_np(x)) for x in got], dtype=float)
            if g.shape != flat.shape or not np.allclose(g, flat, atol=1e-9, rtol=0):
                return bad(f"tape:batch_vjp:extend{zero_tag}", g, flat)
        return ok(outcome=[[None if e is None else np.round(e, 6).tolist() for e in exps], len(gt)], nontrivial=any(i["k"] for i in infos))
    # jvp
    tvs = [vec(kind, i["k"], 11 * n, [1]) for n, i in enumerate(infos)]
    tangents = [c(tv) if spec.get("form", "array") == "array" else [c(x) for x in tv] for tv in tvs]
    exps = [expected_jvp(i, tv) for i, tv in zip(infos, tvs)]

    def jtag(name, i, t, tv):
        z = not np.any(tv)
        return (f"tape:{name}" + (":no-trainable" if not i["k"] else ":zero" if z else "") + (":shotvec" if i["nc"] else ":noshotvec")
                + (":probs-all-wires" if "Pa" in t["meas"] and (z or not i["k"]) else ""))

    zero_tag = ":zero" if all(not np.any(tv) for tv in tvs) else ""
    if fnname == "jvp":
        i = infos[0]
        gt, fn = qp.gradients.jvp(i["tape"], tangents[0], qp.gradients.param_shift)
        got = fn(fake_execute(gt, tapes[0]["shots"]))
        v = compare_jvp(got, exps[0], i, jtag("jvp", i, tapes[0], tvs[0]))
        return v or ok(outcome=[shape_tree(got), len(gt)], nontrivial=i["k"] > 0)
    red = spec["reduction"]
    if red == "extend" and not all(i["nc"] is None and len(i["shapes"]) > 1 for i in infos):
        return skip("extend reduction is only defined for tuple-valued JVPs")
    gt, fn = qp.gradients.batch_jvp([i["tape"] for i in infos], tangents, qp.gradients.param_shift, reduction=red)
    got = fn(fake_execute(gt, tapes[0]["shots"]))
    if red == "append":
        if len(got) != len(infos):
            return bad("tape:batch_jvp:append:length", len(got), len(infos))
        for g, e, i, t, tv in zip(got, exps, infos, tapes, tvs):
            v = compare_jvp(g, e, i, jtag("batch_jvp", i, t, tv))
            if v:
                return v
    else:
        # "extend": the per-tape results are concatenated with list.extend -> only meaningful for tuple-valued JVPs
        flat_exp = []
        for e, i in zip(exps, infos):
            if i["nc"] is None and len(i["shapes"]) > 1:
                flat_exp += list(e[0])
            else:
                return skip("extend reduction is only defined for tuple-valued JVPs")
        if len(got) != len(flat_exp):
            return bad("tape:batch_jvp:extend:length", len(got), len(flat_exp))
        for g, e in zip(got, flat_exp):
            if not np.allclose(np.asarray(to_np(g), dtype=float), e, atol=1e-9, rtol=0):
                return bad(f"tape:batch_jvp:extend{zero_tag}", to_np(g), e)
    return ok(outcome=[shape_tree(got), len(gt)], nontrivial=any(i["k"] for i in infos))


# ------------------------------------------------------------------------------------------------ part 3: classical jacobian
PRE = ["id", "double", "mix", "sin", "shared", "two-args", "const-gate"]


def pre_fn(name, mathmod):
    """Returns (number of qnode args, arg shapes, python function args -> list of gate angles)."""
    s = mathmod
    if name == "id":
        return [[2]], lambda x: [x[0], x[1]]
    if name == "double":
        return [[2]], lambda x: [2 * x[0], 2 * x[1], x[0]]
    if name == "mix":
        return [[2]], lambda x: [x[0] * x[1], x[1] ** 2]
    if name == "sin":
        return [[]], lambda x: [s.sin(x), x]
    if name == "shared":
        return [[3]], lambda x: [x[0], 0.2 * x[0], x[1] ** 2, x[2]]
    if name == "two-args":
        return [[], [2]], lambda x, y: [s.sin(x), y[0] * x, y[1] ** 2]
    if name == "const-gate":
        return [[2]], lambda x: [x[0], x[1] * x[0]]
    raise KeyError(name)


ARGVALS = [[0.4, -0.7, 1.1], [0.9, 0.35]]


def check_cjac(spec):
    import pennylane as qp

    name, iface, argnum = spec["pre"], spec["iface"], spec["argnum"]
    if iface == "autograd":
        from pennylane import numpy as anp

        mk = lambda v: anp.array(v, requires_grad=True)
        mm = anp
    elif iface == "jax":
        import jax

        jax.config.update("jax_enable_x64", True)
        import jax.numpy as jnp

        mk = lambda v: jnp.asarray(np.asarray(v, dtype=float))
        mm = jnp
    else:
        import torch

        mk = lambda v: torch.tensor(np.asarray(v, dtype=float), dtype=torch.float64, requires_grad=True)
        mm = torch
    shapes, f = pre_fn(name, mm)
    _, fnp = pre_fn(name, np)
    vals = [np.asarray(ARGVALS[i][: (s[0] if s else 1)], dtype=float).reshape(tuple(s)) for i, s in enumerate(shapes)]
    if argnum is not None and (max(argnum) if isinstance(argnum, list) else argnum) >= len(shapes):
        return skip("argnum out of range for this pattern")
    dev = qp.device("default.qubit", wires=2)

    @qp.qnode(dev, interface=iface)
    def circuit(*args):
        for i, ang in enumerate(f(*args)):
            [qp.RX, qp.RY, qp.RZ][i % 3](ang, wires=i % 2)
            if name == "const-gate" and i == 0:
                qp.RY(2.5, wires=0)
        qp.CNOT([0, 1])
        return qp.expval(qp.Z(0) @ qp.Z(1))

    args = [mk(v) for v in vals]
    got = qp.gradients.classical_jacobian(circuit, argnum=argnum)(*args)

    # reference: central differences of the plain-numpy pre-processing, per argument
    from mc import refsim as RS

    def ref(i):
        def g(x):
            a = [np.array(v, dtype=float) for v in vals]
            a[i] = np.asarray(x, dtype=float).reshape(vals[i].shape)
            return np.asarray([float(t) for t in fnp(*a)])
        return RS.fd_jacobian(g, vals[i].reshape(-1)).reshape((-1,) + vals[i].shape)

    # documented output format
    if argnum is None:
        if iface == "jax":
            want, as_tuple = [0], False
        else:
            want, as_tuple = list(range(len(shapes))), len(shapes) > 1 or iface == "torch"
    elif isinstance(argnum, int):
        want, as_tuple = [argnum], False
    else:
        want, as_tuple = list(argnum), True
    if as_tuple != isinstance(got, (tuple, list)):
        return bad(f"cjac:format:{iface}:argnum={'None' if argnum is None else type(argnum).__name__}", shape_tree(got), "tuple" if as_tuple else "array")
    gl = list(got) if as_tuple else [got]
    if len(gl) != len(want):
        return bad(f"cjac:length:{iface}", len(gl), len(want))
    for g, i in zip(gl, want):
        # rows = trainable gate arguments: autograd/torch mark every gate argument that depends on a requires_grad QNode
        # argument; jax marks those that depend on the arguments being differentiated (tracers)
        deps = [{0}, {0, 1}, {1}] if name == "two-args" else None
        e = ref(i)
        if deps is not None and iface == "jax":
            e = e[[j for j, d in enumerate(deps) if d & set(want)]]
        g = np.asarray(to_np(g), dtype=float)
        if g.shape != e.shape:
            return bad(f"cjac:shape:{iface}", list(g.shape), list(e.shape), pre=name)
        if not np.allclose(g, e, atol=1e-8, rtol=0):
            return bad(f"cjac:value:{iface}:{name}", g, e)
    return ok(outcome=[name, [list(np.shape(to_np(g))) for g in gl]], nontrivial=name != "id")


# ------------------------------------------------------------------------------------------------ driver
def run(ctx):
    q = ctx.quick
    # ---- part 1
    shape_lists = [list(w) for n in (1, 2, 3) for w in itertools.product(SHAPES, repeat=n)]
    specs = []
    for shapes in shape_lists:
        for k in (0, 1, 2, 3):
            for kind in KINDS:
                for iface in IFACES:
                    if q and iface in ("jax", "torch") and (len(shapes) >= 2 or k == 2):
                        continue
                    forms = ["array", "tuple1"] if k <= 1 else ["array"]
                    for form in forms:
                        specs.append({"fn": "vjp", "shapes": shapes, "k": k, "kind": kind, "iface": iface, "form": form})
                    for form in ["array", "list", "tuple"]:
                        specs.append({"fn": "jvp", "shapes": shapes, "k": k, "kind": kind, "iface": iface, "form": form})
    # tensor-valued parameters (documented for compute_jvp_*)
    for shapes in shape_lists[: 3 + 9]:
        for pshapes in ([[2]], [[2], []], [[], [2, 2]], [[3], [2]]):
            for kind in KINDS:
                for iface in (["numpy", "autograd"] if q else IFACES):
                    specs.append({"fn": "jvp", "shapes": shapes, "k": len(pshapes), "pshapes": pshapes, "kind": kind, "iface": iface, "form": "list"})
    ctx.enumerate(specs, fn="check_synth", axis="synth")

    # ---- part 2
    circs = [("c0", []), ("c1", [0]), ("c2", [0, 1]), ("c2", [1]), ("c3", [0, 1, 2]), ("c3", [0, 2])]
    mnames = ["E", "P1", "P2", "Pa", "E2"]
    mlists = [[m] for m in mnames[:4]] + [["E", "E2"], ["E", "P1"], ["P1", "E"], ["P1", "P2"], ["Pa", "E"], ["P2", "P2"]]
    if not q:
        mlists += [["E", "E2", "E"], ["E", "P1", "P2"], ["P2", "E", "P1"], ["P1", "P1", "P1"], ["Pa", "Pa"]]
    shots_axis = [None, 10, [10, 20], [5, 5, 20]]
    specs = []
    for (circ, tp), meas, shots, kind in itertools.product(circs, mlists, shots_axis, KINDS):
        if q and shots == [5, 5, 20] and len(meas) > 1 and circ != "c2":
            continue
        t = {"circ": circ, "tp": tp, "meas": meas, "shots": shots}
        for fn in ("vjp", "jvp"):
            for iface in (["numpy"] if shots is not None else ["numpy", "autograd"] if q else IFACES):
                specs.append({"fn": fn, "tapes": [t], "kind": kind, "iface": iface, "form": "array"})
        if kind == "generic":
            specs.append({"fn": "jvp", "tapes": [t], "kind": kind, "iface": "numpy", "form": "list"})
    # batches of two tapes (same shots: the batch shares one execution)
    pairs = [(("c2", [0, 1]), ["E", "P1"], ("c0", []), ["E"]), (("c1", [0]), ["P2"], ("c3", [0, 2]), ["E", "E2"]),
             (("c3", [0, 1, 2]), ["E", "P1"], ("c2", [1]), ["P1", "P2"]), (("c0", []), ["P1"], ("c0", []), ["E", "E2"]),
             (("c2", [0, 1]), ["Pa", "E"], ("c1", [0]), ["E", "Pa"])]
    for (c1, m1, c2, m2), shots, kind, red in itertools.product(pairs, shots_axis[:3], KINDS, ["append", "extend"]):
        ts = [{"circ": c1[0], "tp": c1[1], "meas": m1, "shots": shots}, {"circ": c2[0], "tp": c2[1], "meas": m2, "shots": shots}]
        for fn in ("batch_vjp", "batch_jvp"):
            specs.append({"fn": fn, "tapes": ts, "kind": kind, "iface": "numpy", "reduction": red})
    ctx.enumerate(specs, fn="check_tape", axis="tape")

    # ---- part 3
    specs = [{"pre": p, "iface": i, "argnum": a} for p in PRE for i in ["autograd", "jax", "torch"] for a in (None, 0, 1, [0], [0, 1], [1])]
    ctx.enumerate(specs, fn="check_cjac", axis="cjac", chunk=4)
    ctx.coverage["alphabet"] = {"measurement_shapes": SHAPES, "params": [0, 1, 2, 3], "kinds": KINDS, "interfaces": IFACES,
                                "circuits": [list(c) for c in circs], "measurement_lists": mlists, "shots": shots_axis,
                                "batch_pairs": len(pairs), "reductions": ["append", "extend"], "preprocessing": PRE,
                                "argnum": [None, 0, 1, [0], [0, 1], [1]]}
    ctx.coverage["bound"] = {"shape_list_len": 3, "tape_measurements": 2 if q else 3, "batch": 2}
