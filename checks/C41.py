"""C41 — Queuing records exactly the program's operations in order (DESIGN §5.7 C41).

E2 over a statement grammar.  Every program (a tree of statements) is interpreted in lockstep by
  * the real machinery: AnnotatedQueue / QuantumTape contexts, QueuingManager.stop_recording (context manager and
    decorator form), operator / measurement constructors, qp.adjoint / ctrl / pow / prod / sum / s_prod / exp and
    the operator dunders, qp.apply (with and without ``context=``), raised exceptions; and
  * `Ref`, a list-of-lists model: a stack whose entries are plain Python lists (one per context) or None (the
    stop_recording sink).  Creation appends to the top list; a wrapper removes its constituents from the top list
    and appends itself; apply appends a copy to the chosen list; leaving a context pops.
After EVERY statement the queue of EVERY context created so far is compared with its list by object identity and
`QueuingManager.active_context()/recording()` is compared with the top of the model stack.  After the program (also
when it raised) the manager must not be recording and both class-level locks must be free (probed from another
thread).  `QuantumScript.from_queue` / `QuantumTape.operations|measurements` must be the op/measurement partition of
the list (or raise ValueError exactly when an operator follows a measurement)."""
import threading

from mc.engine import ok, bad, skip

PROPERTY = "C41"
LEVEL = "exploration"
TECHNIQUE = "bounded exhaustive enumeration of queuing programs (statement grammar), lockstep comparison with a list-of-lists model"
LEVEL_TEXT = ("Every statement tree with <=4 statements over the full 18-atom/5-block grammar (thorough: also all trees with 5 "
              "statements over a 10-atom sub-grammar and <=3 over 10 further constructor forms), nesting depth <=3, is executed against the real "
              "QueuingManager/AnnotatedQueue/QuantumTape; after every statement every context's queue is compared by object "
              "identity with a list-of-lists reference, and the context stack and locks are checked after every program, "
              "including those that raise.")
LEVEL_NOTE = ("Trusted base: the reference reads the *structure* of returned objects (.base/.operands/.obs) to know what a wrapper "
              "consumed; it never reads queue state.  Not decided: programs longer than the bound, capture-mode queuing, "
              "qfunc-level transforms adjoint(fn)/ctrl(fn), templates with custom queue(), multi-threaded recording.")
DESIGN_REF = "5.7 C41"
START = "fork"
PARALLEL = True
RULE = ("all statement trees up to the size/depth bound over the grammar, minus statically invalid ones (operand not yet defined, "
        "dead code after raise, try around code that cannot raise); non-trivial = at least two statements and (some context "
        "recorded something or an exception propagated)")
ASSUMPTIONS = [
    "A wrapper's constituents are read from the returned object's public attributes (base, operands, obs).",
    "qp.apply(obj, context) is modelled as: copy, then the copy queues itself into that context by its own class rule "
    "(remove constituents, append self); apply while not recording must raise RuntimeError (documented).",
    "Entering a QuantumTape records the tape object itself in the enclosing context (documented: tapes are queuable).",
]

# --------------------------------------------------------------------------------------------- grammar
CREATE = ["X", "CNOT"]
UNARY = ["adj", "adjE", "ctrl", "pow", "powE", "sprod", "exp"]
BINARY = ["prod", "matmul", "sum"]
MEAS = ["ev", "pr"]
APPLY = ["ap1", "apF", "apO"]
ATOMS_FULL = CREATE + UNARY + BINARY + MEAS + APPLY + ["raise"]
BLOCKS_FULL = ["AQ", "QT", "stop", "stopdec", "try"]
# sub-grammar for the deeper bound (thorough): one or two letters per mechanism
ATOMS_MID = ["X", "adj", "adjE", "powE", "matmul", "ev", "pr", "ap1", "apO", "raise"]
# thorough extras (size <= 3): further eager forms
ATOMS_EXTRA = ["powH", "sub", "neg", "prod1", "sprodL", "sumL", "RX", "I", "mid", "evO"]


def can_raise(body):
    """Could an exception escape this block (statically)?  raise or a QuantumTape (order ValueError) outside a try."""
    for st in body:
        if st == "raise":
            return True
        if isinstance(st, list):
            if st[0] == "try":
                continue
            if st[0] == "QT" or can_raise(st[1]):
                return True
    return False


def surely_raises(st):
    if st == "raise":
        return True
    if isinstance(st, list) and st[0] != "try":
        return any(surely_raises(s) for s in st[1])
    return False


def programs(atoms, blocks, size, depth):
    """All valid statement lists with exactly `size` statements (atoms + blocks, counted over the whole tree), nesting
    depth <= depth.  Static state threaded through: (#operator variables, #variables, #enclosing contexts)."""
    unary = [a for a in atoms if a in UNARY or a in ("powH", "neg", "prod1", "sprodL", "ev", "evO")]
    binary = [a for a in atoms if a in BINARY or a in ("sub", "sumL")]

    def gen(n, d, nops, nany, nctx, top_level_of_try):
        """yield (body, nops', nany') for bodies of total size n."""
        if n == 0:
            yield [], nops, nany
            return
        # first statement: an atom
        for a in atoms:
            o, v = nops, nany
            if a in ("X", "CNOT", "RX", "I", "mid"):
                o, v = o + 1, v + 1
            elif a in unary:
                if nops < 1:
                    continue
                if a in ("ev", "evO"):
                    v += 1
                else:
                    o, v = o + 1, v + 1
            elif a in binary:
                if nops < 2:
                    continue
                o, v = o + 1, v + 1
            elif a == "pr":
                v += 1
            elif a in ("ap1", "apF"):
                if nany < 1:
                    continue
            elif a == "apO":
                if nany < 1 or nctx < 2:
                    continue
            elif a == "raise":
                if n != 1:  # anything after a raise in the same block is dead code
                    continue
            for rest, o2, v2 in gen(n - 1, d, o, v, nctx, top_level_of_try):
                yield [a] + rest, o2, v2
        # first statement: a block with k inner statements
        if d > 0:
            for b in blocks:
                for k in range(0, n):
                    if b == "try" and k == 0:
                        continue
                    for inner, o, v in gen(k, d - 1, nops, nany, nctx + (1 if b in ("AQ", "QT") else 0), b == "try"):
                        if b == "try" and not can_raise(inner):
                            continue
                        st = [b, inner]
                        if surely_raises(st) and n - 1 - k > 0:
                            continue
                        for rest, o2, v2 in gen(n - 1 - k, d, o, v, nctx, top_level_of_try):
                            yield [st] + rest, o2, v2

    for body, _, _ in gen(size, depth, 0, 0, 1, False):
        yield body


# --------------------------------------------------------------------------------------------- reference model
class Ref:
    """List-of-lists model of queuing.  Tokens are the program's objects (compared by identity only)."""

    def __init__(self):
        self.stack = []   # plain lists (recording contexts) and None (stop_recording sink)
        self.kind = {}    # id(token) -> "op" | "meas" | "tape"

    def top(self):
        return self.stack[-1] if self.stack else None

    def recording(self):
        return self.top() is not None

    @staticmethod
    def put(lst, tok, consumed=()):
        """`tok` queues itself into `lst`: constituents leave, tok is appended (an object is held at most once and keeps
        its place if it is already there)."""
        if lst is None:
            return
        for c in consumed:
            lst[:] = [t for t in lst if t is not c]
        if not any(t is tok for t in lst):
            lst.append(tok)

    def create(self, tok, kind, consumed=()):
        self.kind[id(tok)] = kind
        self.put(self.top(), tok, consumed)

    def order_ok(self, lst):
        seen_meas = False
        for t in lst:
            if self.kind[id(t)] == "meas":
                seen_meas = True
            elif seen_meas:
                return False
        return True

    def split(self, lst):
        return [t for t in lst if self.kind[id(t)] != "meas"], [t for t in lst if self.kind[id(t)] == "meas"]


class Mismatch(BaseException):
    def __init__(self, result):
        super().__init__(result.get("sig"))
        self.result = result


class Boom(Exception):
    pass


class Rejected(BaseException):
    """A wrapper constructor raised on its operand (outside the property); the program is not evaluated further."""


def parts(obj):
    """Direct constituents of a wrapper object, from its public structure."""
    from pennylane.measurements import MeasurementProcess
    from pennylane.operation import Operator

    out = []
    if isinstance(obj, MeasurementProcess):
        if obj.obs is not None:
            out.append(obj.obs)
        return out
    b = getattr(obj, "base", None)
    if isinstance(b, Operator):
        out.append(b)
    ops = getattr(obj, "operands", None)
    if ops is not None:
        out.extend(ops)
    return out


_PROBE = {}


def _locks_free(locks):
    """Non-blocking acquire of every lock from ANOTHER thread (RLocks are re-entrant for the owner, so the probing
    thread must differ from the one that ran the program).  One persistent helper thread per process."""
    import os
    import queue

    # fast path: CPython's RLock repr states "unlocked ... count=0" when nobody holds it (no thread hand-off needed);
    # anything else is confirmed by the real cross-thread probe below
    reps = [repr(l) for l in locks]
    if all(("unlocked" in r and "count=0" in r) for r in reps):
        return [True for _ in locks]
    st = _PROBE.get(os.getpid())
    if st is None:
        req, rep = queue.SimpleQueue(), queue.SimpleQueue()

        def serve():
            while True:
                ls = req.get()
                out = []
                for l in ls:
                    got = l.acquire(blocking=False)
                    if got:
                        l.release()
                    out.append(got)
                rep.put(out)

        threading.Thread(target=serve, daemon=True).start()
        st = _PROBE[os.getpid()] = (req, rep)
    st[0].put(list(locks))
    return st[1].get()


def _force_clean():
    """Bring the global queuing state back to pristine (after a detected violation / before a case)."""
    from pennylane.queuing import AnnotatedQueue, QueuingManager
    from pennylane.tape import QuantumTape

    QueuingManager._active_contexts = []  # pylint: disable=protected-access
    for lock in (AnnotatedQueue._lock, QuantumTape._lock):  # pylint: disable=protected-access
        for _ in range(64):
            try:
                lock.release()
            except RuntimeError:
                break


class Interp:
    def __init__(self, qp):
        self.qp = qp
        self.ref = Ref()
        self.ctxs = []        # (label, real context object, model list)
        self.open = []        # model-side stack of (real ctx | None) parallel to ref.stack
        self.opvars = []      # operator variables in program order
        self.anyvars = []     # operator + measurement variables
        self.keep = []        # keeps every token alive (ids stay unique)
        self.pending = None   # name of the exception the model says is propagating
        self.trace = []       # exception trace for the outcome fingerprint
        self.tags = {}        # id(token) -> statement tag (fingerprint only)
        self.n = 0
        self.path = "root"

    # ---- comparison after each step
    def compare(self, where):
        QM = self.qp.QueuingManager
        for label, real, lst in self.ctxs:
            got = [id(o) for o in real.queue]
            exp = [id(t) for t in lst]
            if got != exp:
                raise Mismatch(bad(f"queue-content:{where}", {"ctx": label, "queue": [repr(o) for o in real.queue]},
                                   {"ctx": label, "list": [self.tags.get(id(t), "?") + ":" + repr(t)[:40] for t in lst]}))
        exp_active = None
        if self.ref.recording():
            exp_active = self.open[-1]
        if QM.active_context() is not exp_active:
            raise Mismatch(bad(f"active-context:{where}", repr(type(QM.active_context()).__name__), "model top"))
        if QM.recording() != self.ref.recording():
            raise Mismatch(bad(f"recording-flag:{where}", QM.recording(), self.ref.recording()))

    def new(self, tok, kind, tag, consumed=()):
        self.keep.append(tok)
        self.tags[id(tok)] = tag
        self.ref.create(tok, kind, consumed)
        if kind == "op":
            self.opvars.append(tok)
        if kind in ("op", "meas"):
            self.anyvars.append(tok)

    # ---- atoms
    def atom(self, a):
        qp = self.qp
        self.n += 1
        if a == "X":
            return self.new(qp.X(0), "op", a)
        if a == "CNOT":
            return self.new(qp.CNOT([0, 1]), "op", a)
        if a == "RX":
            return self.new(qp.RX(0.3, 1), "op", a)
        if a == "I":
            return self.new(qp.Identity(0), "op", a)
        if a == "mid":
            mv = qp.measure(1)
            return self.new(mv.measurements[0], "op", a)
        if a == "pr":
            return self.new(qp.probs(wires=[0]), "meas", a)
        if a == "raise":
            self.pending = "Boom"
            self.trace.append("Boom")
            raise Boom()
        if a in ("ap1", "apF", "apO"):
            src = self.anyvars[0] if a == "apF" else self.anyvars[-1]
            kw = {}
            target = self.ref.top()
            if a == "apO":
                outer = [i for i, c in enumerate(self.open) if c is not None]
                kw["context"] = self.open[outer[-2]]
                target = self.ref.stack[outer[-2]]
            if not self.ref.recording():
                try:
                    r = qp.apply(src, **kw)
                except RuntimeError:
                    self.trace.append("apply-rejected")
                    return None
                raise Mismatch(bad("apply:accepted-while-not-recording", repr(r), "RuntimeError"))
            r = qp.apply(src, **kw)
            if r is src:
                raise Mismatch(bad("apply:returned-same-object", repr(r), "a copy"))
            self.keep.append(r)
            self.tags[id(r)] = a + "(" + self.tags.get(id(src), "?") + ")"
            self.ref.kind[id(r)] = self.ref.kind[id(src)]
            Ref.put(target, r, parts(r))
            return None
        # wrappers
        try:
            return self._wrap(a)
        except (Mismatch, Rejected):
            raise
        except Exception as e:  # the constructor itself failed (not a queuing matter): documented/undocumented rejection
            raise Rejected(f"constructor-raised:{a}({self.tags.get(id(self.opvars[-1]), '?')}):{type(e).__name__}") from e

    def _wrap(self, a):
        qp = self.qp
        v1 = self.opvars[-1]
        v2 = self.opvars[-2] if len(self.opvars) > 1 else None
        if a == "adj":
            r, used = qp.adjoint(v1), [v1]
        elif a == "adjE":
            r, used = qp.adjoint(v1, lazy=False), [v1]
        elif a == "ctrl":
            r, used = qp.ctrl(v1, control=100 + self.n), [v1]
        elif a == "pow":
            r, used = v1 ** 2, [v1]
        elif a == "powE":
            r, used = qp.pow(v1, 2, lazy=False), [v1]
        elif a == "powH":
            r, used = qp.pow(v1, 0.5, lazy=False), [v1]
        elif a == "sprod":
            r, used = 2.0 * v1, [v1]
        elif a == "sprodL":
            r, used = qp.s_prod(2.0, v1), [v1]
        elif a == "neg":
            r, used = -v1, [v1]
        elif a == "exp":
            r, used = qp.exp(v1, 1j), [v1]
        elif a == "prod1":
            r, used = qp.prod(v1), [v1]
        elif a == "prod":
            r, used = qp.prod(v2, v1), [v2, v1]
        elif a == "matmul":
            r, used = v2 @ v1, [v2, v1]
        elif a == "sum":
            r, used = v2 + v1, [v2, v1]
        elif a == "sumL":
            r, used = qp.sum(v2, v1), [v2, v1]
        elif a == "sub":
            r, used = v2 - v1, [v2, v1]
        elif a == "ev":
            r, used = qp.expval(v1), [v1]
            return self.new(r, "meas", a, [u for u in used] + parts(r))
        elif a == "evO":
            with qp.QueuingManager.stop_recording():
                o = qp.Z(0)
            self.keep.append(o)
            r = qp.expval(o)
            return self.new(r, "meas", a, parts(r))
        else:
            raise AssertionError(a)
        consumed = [u for u in used if u is not r] + [p for p in parts(r) if p is not r]
        if id(r) in self.tags:
            # The call handed back an object that already existed (qp.prod(op) -> op, eager adjoint of Adjoint(x) -> x):
            # no operator was created, so the property does not say whether it is (re-)recorded.  The other operands must
            # still leave; for the returned object the model adopts what happened in the active context.
            top = self.ref.top()
            self.trace.append("existing-object-returned")
            self.opvars.append(r)
            self.anyvars.append(r)
            if top is not None:
                for c in consumed:
                    top[:] = [t for t in top if t is not c]
                if any(o is r for o in self.open[-1].queue):
                    Ref.put(top, r)
                else:
                    top[:] = [t for t in top if t is not r]
            return None
        self.new(r, "op", a, consumed)
        # Undecided by the property: a DEEPER constituent of the result that is still recorded on its own in the active
        # list (possible only if it was wrapped in another context / under stop_recording before).  Lazy wrappers leave
        # it, eager ones that rebuild their operand tree drop it; the model adopts whichever happened for that token only.
        top = self.ref.top()
        if top is not None:
            direct = {id(c) for c in consumed} | {id(r)}
            seen, todo = set(), list(parts(r))
            while todo:
                d = todo.pop()
                if id(d) in seen:
                    continue
                seen.add(id(d))
                todo.extend(parts(d))
                if id(d) not in direct and any(t is d for t in top):
                    self.trace.append("deep-constituent-undecided")
                    if not any(o is d for o in self.open[-1].queue):
                        top[:] = [t for t in top if t is not d]
        return None

    # ---- blocks
    def block(self, body):
        for st in body:
            if isinstance(st, str):
                self.atom(st)
                self.compare(st)
            else:
                self.stmt(st[0], st[1])

    def _expect(self, got_exc, where):
        got = None if got_exc is None else type(got_exc).__name__
        if got != self.pending:
            raise Mismatch(bad(f"exception:{where}:expected-{self.pending}-got-{got}", repr(got_exc), self.pending))

    def stmt(self, kind, body):
        qp = self.qp
        self.n += 1
        if kind == "try":
            try:
                self.block(body)
            except Exception as e:  # pylint: disable=broad-except
                self._expect(e, "try")
                self.trace.append("caught:" + self.pending)
                self.pending = None
            else:
                self._expect(None, "try")
            self.compare("after-try")
            return
        if kind in ("AQ", "QT"):
            label = f"{kind}{len(self.ctxs)}"
            real = qp.queuing.AnnotatedQueue() if kind == "AQ" else qp.tape.QuantumTape()
            lst = []
            self.keep.append(real)
            self.tags[id(real)] = label
            if kind == "QT":
                self.ref.create(real, "tape")     # a tape is itself queued in the enclosing context on entry
            else:
                self.ref.kind[id(real)] = "queue"
            self.ctxs.append((label, real, lst))
            self.ref.stack.append(lst)
            self.open.append(real)
            entered = False
            try:
                with real:
                    entered = True
                    self.compare("enter-" + kind)
                    self.block(body)
            except Exception as e:  # pylint: disable=broad-except
                if not entered:
                    raise Mismatch(bad(f"enter-raised:{kind}", repr(e), "no exception"))
                self._leave(kind, real, lst)
                self._expect(e, "exit-" + kind)
                self.compare("exit-" + kind)
                raise
            self._leave(kind, real, lst)
            self._expect(None, "exit-" + kind)
            self.compare("exit-" + kind)
            if kind == "QT":
                o, m = self.ref.split(lst)
                if [id(x) for x in real.operations] != [id(x) for x in o] or [id(x) for x in real.measurements] != [id(x) for x in m]:
                    raise Mismatch(bad("tape-contents", [repr(real.operations), repr(real.measurements)], [len(o), len(m)]))
            return
        if kind in ("stop", "stopdec"):
            self.ref.stack.append(None)
            self.open.append(None)
            try:
                if kind == "stop":
                    with qp.QueuingManager.stop_recording():
                        self.compare("enter-stop")
                        self.block(body)
                else:
                    @qp.QueuingManager.stop_recording()
                    def fn():
                        self.compare("enter-stopdec")
                        self.block(body)

                    fn()
            except Exception as e:  # pylint: disable=broad-except
                self.ref.stack.pop()
                self.open.pop()
                self._expect(e, "exit-" + kind)
                self.compare("exit-" + kind)
                raise
            self.ref.stack.pop()
            self.open.pop()
            self._expect(None, "exit-" + kind)
            self.compare("exit-" + kind)
            return
        raise AssertionError(kind)

    def _leave(self, kind, real, lst):
        """Model side of leaving a context: pop; a tape whose list has an operator after a measurement raises ValueError
        (documented in process_queue), also while another exception is propagating."""
        self.ref.stack.pop()
        self.open.pop()
        if kind == "QT" and not self.ref.order_ok(lst):
            self.pending = "ValueError"
            self.trace.append("tape-order")


def check(spec):
    import pennylane as qp
    from pennylane.queuing import AnnotatedQueue, QueuingManager
    from pennylane.tape import QuantumScript, QuantumTape

    _force_clean()
    it = Interp(qp)
    prog = spec["prog"]
    root_kind = spec.get("root", "AQ")
    result = None
    try:
        try:
            it.stmt(root_kind, prog)
        except Exception as e:  # pylint: disable=broad-except
            it._expect(e, "top")  # pylint: disable=protected-access
            it.trace.append("escaped:" + str(it.pending))
            it.pending = None
        else:
            it._expect(None, "top")  # pylint: disable=protected-access
        it.compare("end")
    except Mismatch as m:
        result = m.result
    except Rejected as r:
        _force_clean()
        return skip(str(r))
    # ---- global state after the program (also after a mismatch: report the first problem only)
    if result is None:
        if QueuingManager.recording() or QueuingManager.active_context() is not None:
            result = bad("stack-not-restored", repr(QueuingManager.active_context()), None)
        else:
            free = _locks_free([AnnotatedQueue._lock, QuantumTape._lock])  # pylint: disable=protected-access
            if not free[0]:
                result = bad("lock-held:AnnotatedQueue", "held", "free")
            elif not free[1]:
                result = bad("lock-held:QuantumTape", "held", "free")
    if result is None:
        # process_queue / from_queue on every plain queue
        for label, real, lst in it.ctxs:
            if isinstance(real, QuantumTape):
                continue
            o, m = it.ref.split(lst)
            try:
                qs = QuantumScript.from_queue(real)
            except ValueError as e:
                if it.ref.order_ok(lst):
                    result = bad("from_queue:raised", repr(e), "script")
                continue
            if not it.ref.order_ok(lst):
                result = bad("from_queue:accepted-op-after-measurement", repr(qs.operations), "ValueError")
            elif [id(x) for x in qs.operations] != [id(x) for x in o] or [id(x) for x in qs.measurements] != [id(x) for x in m]:
                result = bad("from_queue:contents", [repr(qs.operations), repr(qs.measurements)], [len(o), len(m)])
            if result is not None:
                break
    _force_clean()
    if result is not None:
        return result
    fp = [[it.tags.get(id(t), "?") for t in lst] for _, _, lst in it.ctxs]
    recorded = sum(len(l) for l in fp)
    size = spec.get("size", 0)
    return ok(outcome=[fp, it.trace], nontrivial=size >= 2 and (recorded > 0 or bool(it.trace)))


def _specs(atoms, blocks, sizes, depth, root="AQ"):
    out = []
    for n in sizes:
        for p in programs(atoms, blocks, n, depth):
            out.append({"prog": p, "size": n, "root": root})
    return out


def run(ctx):
    import pennylane  # noqa: F401  pylint: disable=unused-import  (imported before the fork so workers inherit it)

    depth = 3
    ctx.enumerate(_specs(ATOMS_FULL, BLOCKS_FULL, range(0, 5), depth), axis="full-grammar", chunk=400)
    ctx.enumerate(_specs(ATOMS_FULL, BLOCKS_FULL, range(0, 3 if ctx.quick else 4), 2, root="QT"), axis="root-tape", chunk=200)
    bound = {"full_grammar_max_statements": 4, "root_tape_max_statements": 2 if ctx.quick else 3, "max_nesting": depth}
    if not ctx.quick:
        ctx.enumerate(_specs(ATOMS_MID, BLOCKS_FULL, [5], depth), axis="mid-grammar-5", chunk=500)
        ctx.enumerate(_specs(CREATE + ATOMS_EXTRA + ["ap1", "apO", "pr", "raise"], ["AQ", "QT", "stop"], range(1, 4), 2),
                      axis="extra-forms", chunk=200)
        bound["mid_grammar_max_statements"] = 5
        bound["extra_forms_max_statements"] = 3
    ctx.coverage["alphabet"] = {"atoms_full": ATOMS_FULL, "blocks_full": BLOCKS_FULL, "atoms_mid_thorough": ATOMS_MID,
                                "atoms_extra_thorough": ATOMS_EXTRA, "roots": ["AQ", "QT"]}
    ctx.coverage["bound"] = bound
