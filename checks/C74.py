"""C74 — MBQC conversion and Pauli tracking preserve the circuit (DESIGN §5.11 C74).

E4 full outcome tree + E1.  convert_to_mbqc_formalism: every gate of the MBQC gate set (and every 2-gate word over the
one-qubit gates, and CNOT with both orientations / Pauli dressings) is converted; EVERY measurement-outcome branch of the
converted program is walked by an own depth-first branch simulator (mc/x_mbqc.py, measurement bases from the documentation)
for every computational input (prepared with physical Pauli-X gates, which the transform leaves in place): the Kraus
operator of every branch must be the target unitary up to a scalar of the same magnitude.  Pauli tracker: every Pauli
frame through H, S, CNOT; get_byproduct_corrections for every outcome assignment against the same branch simulator with
the online corrections removed.  Gate-set conversion: words over a 12-gate alphabet vs state-vector reference.
"""
import itertools
import math

from mc.engine import ok, bad, skip

PROPERTY = "C74"
LEVEL = "model_checking"
TECHNIQUE = "exhaustive measurement-outcome tree of the converted MBQC program vs target unitary; all Pauli frames"
LEVEL_TEXT = ("Every branch (2^4 per one-qubit gate, 2^8 per two-gate word, all 2^13 of the 15-qubit CNOT pattern) of the program "
              "emitted by convert_to_mbqc_formalism, for both diagonalize_mcms settings and all computational inputs, is simulated and "
              "its Kraus operator compared with the target gate; all 4^n Pauli frames through H/S/CNOT; offline byproduct corrections for "
              "all outcome assignments of words up to length 2 (thorough 3).")
LEVEL_NOTE = ("Inputs other than computational basis states follow by linearity (both columns of each branch operator are compared with a "
              "common phase). Reference = mc/x_mbqc.py + mc.refgates. The catalyst/MLIR lowering (ppr_to_mbqc) and program capture are not "
              "explored; convert_to_mbqc_gateset uses qp.matrix for non-table operators (declared dependence).")
DESIGN_REF = "5.11 C74"
START = "fork"
PARALLEL = True
RULE = "one case = (circuit word, diagonalize flag, computational inputs) with all its outcome branches; non-trivial = >= 16 branches checked"
ASSUMPTIONS = ["measurement bases as documented in measure_arbitrary_basis / measure_x / measure_y", "mc.refgates matrices"]

ANG = [0.3731, 1.2345, -2.468]
GATES1 = {
    "H": lambda qp, F, w: qp.H(w), "S": lambda qp, F, w: qp.S(w), "RZ(a)": lambda qp, F, w: qp.RZ(ANG[0], w), "RZ(b)": lambda qp, F, w: qp.RZ(ANG[2], w),
    "RotXZX(a,b,c)": lambda qp, F, w: F.RotXZX(ANG[0], ANG[1], ANG[2], w), "RotXZX(c,0,a)": lambda qp, F, w: F.RotXZX(ANG[2], 0.0, ANG[0], w),
    "RotXZX(0,b,0)": lambda qp, F, w: F.RotXZX(0.0, ANG[1], 0.0, w),
    "X": lambda qp, F, w: qp.X(w), "Y": lambda qp, F, w: qp.Y(w), "Z": lambda qp, F, w: qp.Z(w), "I": lambda qp, F, w: qp.Identity(w),
}


def ref_gate(name):
    from mc import refgates as RG

    return {"H": RG.H, "S": RG.S, "RZ(a)": RG.RZ(ANG[0]), "RZ(b)": RG.RZ(ANG[2]), "RotXZX(a,b,c)": RG.RX(ANG[2]) @ RG.RZ(ANG[1]) @ RG.RX(ANG[0]),
            "RotXZX(c,0,a)": RG.RX(ANG[0]) @ RG.RZ(0.0) @ RG.RX(ANG[2]), "RotXZX(0,b,0)": RG.RZ(ANG[1]), "X": RG.X, "Y": RG.Y, "Z": RG.Z, "I": RG.I2}[name]


def build_word(qp, F, word):
    """word: list of [gate name, wires]; 'CNOT' is the only two-wire letter."""
    ops = []
    for g, ws in word:
        if g == "CNOT":
            ops.append(qp.CNOT(ws))
        elif g == "GlobalPhase":
            ops.append(qp.GlobalPhase(0.4))
        else:
            ops.append(GATES1[g](qp, F, ws[0]))
    return ops


def ref_word_unitary(word, nw):
    import numpy as np
    from mc import refgates as RG
    from mc import refsim as RS

    st = np.eye(2 ** nw, dtype=complex).reshape((2,) * nw + (2 ** nw,))
    for g, ws in word:
        if g == "GlobalPhase":
            continue
        M = RG.controlled(RG.X) if g == "CNOT" else ref_gate(g)
        st = RS.apply_matrix(st, M, list(ws), nw)
    return st.reshape(2 ** nw, 2 ** nw)


def check_formalism(spec):
    import numpy as np
    import pennylane as qp
    import pennylane.ftqc as F
    from mc import refsim as RS
    from mc import x_mbqc as XM

    word, nw, diag = spec["word"], spec["nw"], spec["diag"]
    U = ref_word_unitary(word, nw)
    cols = {}      # branch key -> {input index: output vector}
    nbranch = None
    for j in range(2 ** nw):
        bits = [(j >> (nw - 1 - k)) & 1 for k in range(nw)]
        prep = [qp.X(k) for k in range(nw) if bits[k]] + [qp.Identity(k) for k in range(nw) if not bits[k]]
        tape = qp.tape.QuantumScript(prep + build_word(qp, F, word), [qp.sample(wires=list(range(nw)))], shots=1)
        (new,), _ = F.convert_to_mbqc_formalism(tape, diagonalize_mcms=diag)
        wires = list(new.wires)
        n = len(wires)
        out_wires = list(new.measurements[0].wires)
        idx = {w: i for i, w in enumerate(wires)}
        count = 0
        for outs, hist, st in XM.all_branches(list(new.operations), wires):
            count += 1
            vec, rest = XM.extract(st, out_wires)
            if rest > 1e-20:
                return bad("formalism:ancilla-not-reset", rest, 0.0, outcomes=outs)
            cols.setdefault(tuple(outs), {})[j] = vec.reshape(-1)
        if nbranch is None:
            nbranch = count
        elif count != nbranch:
            return bad("formalism:branch-count-depends-on-input", count, nbranch)
    want_norm = 1.0 / math.sqrt(nbranch)
    for key, d in cols.items():
        if len(d) != 2 ** nw:
            return bad("formalism:branch-missing-for-some-input", sorted(d), list(range(2 ** nw)), outcomes=list(key))
        K = np.stack([d[j] for j in range(2 ** nw)], axis=1)
        if not RS.close_up_to_phase(U * want_norm, K, 1e-9):
            return bad("formalism:branch-operator", RS.maxdiff(U * want_norm, RS.phase_align(U * want_norm, K)), 0.0, outcomes=list(key), word=word, diag=diag)
    return ok(outcome=[nbranch, len(word)], nontrivial=nbranch >= 16, branches=nbranch)


# ---------------------------------------------------------------------------------------------- Pauli tracker
def check_commute(spec):
    import numpy as np
    import pennylane as qp
    from pennylane.ftqc.pauli_tracker import commute_clifford_op
    from mc import refgates as RG
    from mc import refsim as RS

    g = spec["gate"]
    xz = [tuple(p) for p in spec["xz"]]
    op = {"H": lambda: qp.H(spec["wires"][0]), "S": lambda: qp.S(spec["wires"][0]), "CNOT": lambda: qp.CNOT(spec["wires"])}[g]()
    C = {"H": RG.H, "S": RG.S, "CNOT": RG.controlled(RG.X)}[g]
    new = commute_clifford_op(op, xz)

    def P(frame):
        ms = [{(0, 0): RG.I2, (1, 0): RG.X, (1, 1): RG.Y, (0, 1): RG.Z}[(int(x), int(z))] for x, z in frame]
        return RG.kron(*ms)

    if len(new) != len(xz) or any(len(t) != 2 or int(t[0]) not in (0, 1) or int(t[1]) not in (0, 1) for t in new):
        return bad("tracker:commute:format", repr(new), "list of (x,z) bits")
    lhs = C @ P(xz) @ C.conj().T
    rhs = P(new)
    if not (RS.close(lhs, rhs, 1e-12) or RS.close(lhs, -rhs, 1e-12) or RS.close(lhs, 1j * rhs, 1e-12) or RS.close(lhs, -1j * rhs, 1e-12)):
        return bad(f"tracker:commute:{g}", [[int(a), int(b)] for a, b in new], "C P C^dagger up to phase", xz=spec["xz"])
    return ok(outcome=[g, [[int(a), int(b)] for a, b in new]], nontrivial=any(x or z for x, z in xz))


def check_tracker_misc(spec):
    import pennylane as qp
    from pennylane.ftqc import pauli_tracker as PT
    from mc import refgates as RG
    from mc import refsim as RS

    what = spec["what"]
    if what == "roundtrip":
        x, z = spec["xz"]
        cls = PT.xz_to_pauli(x, z)
        want = {(0, 0): "Identity", (1, 0): "PauliX", (1, 1): "PauliY", (0, 1): "PauliZ"}[(x, z)]
        if cls(0).name != want or PT.pauli_to_xz(cls(0)) != (x, z) or PT.pauli_to_xz(cls) != (x, z):
            return bad("tracker:xz-roundtrip", [cls(0).name, PT.pauli_to_xz(cls(0))], [want, (x, z)])
        return ok(outcome=[want], nontrivial=True)
    if what == "prod":
        names = spec["ops"]
        ops = [getattr(qp, n)(0) for n in names]
        got = PT.pauli_prod(ops)
        M = RG.I2
        for n in names:
            M = M @ RG.PAULI[n]
        want = {(0, 0): RG.I2, (1, 0): RG.X, (1, 1): RG.Y, (0, 1): RG.Z}[(int(got[0]), int(got[1]))]
        if not RS.close_up_to_phase(M, want, 1e-12):
            return bad("tracker:pauli_prod", [int(got[0]), int(got[1])], names)
        return ok(outcome=[int(got[0]), int(got[1])], nontrivial=len(names) > 1)
    if what == "invalid":
        try:
            if spec["case"] == "len":
                PT.commute_clifford_op(qp.CNOT([0, 1]), [(0, 1)])
            elif spec["case"] == "tuple":
                PT.commute_clifford_op(qp.H(0), [(0, 1, 1)])
            elif spec["case"] == "value":
                PT.commute_clifford_op(qp.S(0), [(0, 2)])
            elif spec["case"] == "gate":
                PT.commute_clifford_op(qp.T(0), [(0, 1)])
            elif spec["case"] == "xz":
                PT.xz_to_pauli(2, 0)
            elif spec["case"] == "empty-prod":
                PT.pauli_prod([])
            elif spec["case"] == "non-pauli":
                PT.pauli_to_xz(qp.H(0))
        except (ValueError, NotImplementedError) as e:
            return ok(outcome=[spec["case"], type(e).__name__], nontrivial=True)
        return bad(f"tracker:invalid-accepted:{spec['case']}", "no error", "ValueError / NotImplementedError")
    raise AssertionError(what)


def check_byproduct(spec):
    """get_byproduct_corrections for EVERY outcome assignment: the X-record it derives must map the uncorrected branch state's
    Z-basis distribution onto the ideal circuit's."""
    import numpy as np
    import pennylane as qp
    import pennylane.ftqc as F
    from pennylane.ftqc.pauli_tracker import get_byproduct_corrections
    from mc import refgates as RG
    from mc import refsim as RS
    from mc import x_mbqc as XM

    word, nw = spec["word"], spec["nw"]
    U = ref_word_unitary(word, nw)
    ideal = np.abs(U[:, 0]) ** 2
    ops = build_word(qp, F, word)
    tape = qp.tape.QuantumScript(ops, [qp.sample(wires=list(range(nw)))], shots=1)
    (new,), _ = F.convert_to_mbqc_formalism(tape, diagonalize_mcms=spec["diag"])
    wires = list(new.wires)
    n = len(wires)
    idx = {w: i for i, w in enumerate(wires)}
    out_wires = list(new.measurements[0].wires)

    def is_correction(op):
        # offline mode: byproduct corrections AND the circuit's own Pauli gates are tracked in software, not executed
        return (type(op).__name__ == "Conditional" and op.base.name in ("PauliX", "PauliZ")) or op.name in ("PauliX", "PauliY", "PauliZ")

    nb = 0
    for outs, hist, st in XM.all_branches(list(new.operations), wires, skip_op=is_correction):
        nb += 1
        vec, rest = XM.extract(st, out_wires)
        p = np.abs(vec.reshape(-1)) ** 2
        p = p / p.sum()
        corr = np.asarray(get_byproduct_corrections(tape, [int(o) for o in outs], [0] * nw)).astype(int).reshape(-1)
        if corr.shape != (nw,):
            return bad("tracker:byproduct:shape", list(corr.shape), [nw])
        # flipping the raw outcome on the wires with x=1 must reproduce the ideal distribution
        perm = np.zeros_like(p)
        mask = int("".join(str(int(b)) for b in corr), 2)
        for i_ in range(2 ** nw):
            perm[i_ ^ mask] = p[i_]
        if np.max(np.abs(perm - ideal)) > 1e-9:
            return bad("tracker:byproduct:x-record", corr.tolist(), "X-record mapping the branch distribution onto the ideal one",
                       outcomes=[int(o) for o in outs], word=word, branch_probs=np.round(p, 6).tolist(), ideal=np.round(ideal, 6).tolist())
    return ok(outcome=[nb, len(word), [round(float(x), 4) for x in ideal]], nontrivial=nb >= 16 and len(set(np.round(ideal, 6))) > 1, branches=nb)


# ---------------------------------------------------------------------------------------------- gate-set conversion
GS_ALPH = [["RX", [0], [0.3731]], ["RY", [1], [1.2345]], ["Rot", [0], [0.3, 1.1, -0.7]], ["T", [1], []], ["SX", [0], []], ["CZ", [0, 1], []], ["CY", [1, 0], []],
           ["SWAP", [0, 1], []], ["PhaseShift", [1], [0.77]], ["CRZ", [1, 0], [0.9]], ["Hadamard", [0], []], ["IsingXX", [0, 1], [0.4]], ["Toffoli", [0, 1, 2], []],
           ["U3", [2], [0.3, 0.2, 0.1]]]


def check_gateset(spec):
    import numpy as np
    import pennylane as qp
    import pennylane.ftqc as F
    from mc import refgates as RG
    from mc import refsim as RS
    from mc import x_mbqc as XM

    ops = [getattr(qp, n)(*p, wires=w) for n, w, p in spec["ops"]]
    tape = qp.tape.QuantumScript(ops, [qp.sample(wires=[0, 1, 2])], shots=1)
    was = qp.decomposition.enabled_graph()
    qp.decomposition.enable_graph()
    try:
        (new,), _ = F.convert_to_mbqc_gateset(tape)
    finally:
        if not was:
            qp.decomposition.disable_graph()
    allowed = {"CNOT", "Hadamard", "S", "RotXZX", "RZ", "PauliX", "PauliY", "PauliZ", "Identity", "GlobalPhase"}
    names = [o.name for o in new.operations]
    if not set(names) <= allowed:
        return bad("gateset:foreign-gate", sorted(set(names) - allowed), sorted(allowed))
    n = 3
    idx = {w: w for w in range(3)}
    st = np.eye(8, dtype=complex).reshape((2,) * 3 + (8,))
    for o in new.operations:
        if o.name == "GlobalPhase":
            st = st * np.exp(-1j * float(o.data[0]))
            continue
        st = RS.apply_matrix(st, XM.gate_matrix(o), [idx[w] for w in o.wires], n)
    got = st.reshape(8, 8)
    want = np.eye(8, dtype=complex).reshape((2,) * 3 + (8,))
    for nme, w, p in spec["ops"]:
        want = RS.apply_matrix(want, RG.matrix(nme, p), list(w), n)
    want = want.reshape(8, 8)
    if not RS.close_up_to_phase(want, got, 1e-8):
        return bad("gateset:unitary", RS.maxdiff(want, RS.phase_align(want, got)), 0.0, ops=spec["ops"], emitted=names)
    return ok(outcome=[len(names), sorted(set(names))], nontrivial=names != [o.name for o in ops])


def check_reject(spec):
    import pennylane as qp
    import pennylane.ftqc as F

    what = spec["what"]
    try:
        if what == "expval":
            F.convert_to_mbqc_formalism(qp.tape.QuantumScript([qp.H(0)], [qp.expval(qp.Z(0))]))
        elif what == "two-samples":
            F.convert_to_mbqc_formalism(qp.tape.QuantumScript([qp.H(0)], [qp.sample(wires=0), qp.sample(wires=0)], shots=1))
        elif what == "foreign-gate":
            F.convert_to_mbqc_formalism(qp.tape.QuantumScript([qp.T(0)], [qp.sample(wires=0)], shots=1))
        elif what == "gateset-without-graph":
            if qp.decomposition.enabled_graph():
                return skip("graph decomposition globally enabled")
            F.convert_to_mbqc_gateset(qp.tape.QuantumScript([qp.T(0)], [qp.sample(wires=0)], shots=1))
    except (NotImplementedError, RuntimeError) as e:
        return ok(outcome=[what, type(e).__name__], nontrivial=True)
    return bad(f"formalism:invalid-accepted:{what}", "no error", "NotImplementedError / RuntimeError")


# ---------------------------------------------------------------------------------------------- driver
def run(ctx):
    only = ctx.only

    def want(f):
        return only is None or only == f

    g1 = list(GATES1)
    nonpauli = [g for g in g1 if g not in ("X", "Y", "Z", "I")]
    ctx.coverage["alphabet"] = {"mbqc_gates": g1 + ["CNOT", "GlobalPhase"], "gateset_letters": [a[0] for a in GS_ALPH], "angles": ANG}
    ctx.coverage["bound"] = {"formalism_word_len": 2, "cnot_branches": 8192, "byproduct_word_len": 2 if ctx.quick else 3, "gateset_word_len": 2}
    ctx._c74_leaves, ctx._c74_trees = 0, 0

    def count(specs, inputs=True):
        for sp in specs:
            m = sum(13 if g == "CNOT" else (0 if g in ("X", "Y", "Z", "I", "GlobalPhase") else 4) for g, _ in sp["word"])
            trees = 2 ** sp["nw"] if inputs else 1
            ctx._c74_leaves += trees * 2 ** m
            ctx._c74_trees += trees
        return specs

    if want("single"):
        specs = [{"k": "f", "word": [[g, [0]]], "nw": 1, "diag": d} for g in g1 for d in (False, True)]
        specs += [{"k": "f", "word": [[g, [0]], ["GlobalPhase", []]], "nw": 1, "diag": False} for g in ("H",)]
        specs += [{"k": "f", "word": [[g, [1]], [h, [0]]], "nw": 2, "diag": d} for g in ("H", "RotXZX(a,b,c)") for h in ("S", "RZ(a)") for d in (False, True)]
        ctx.enumerate(count(specs), fn="check_formalism", axis="formalism:single", chunk=1)
    if want("pairs"):
        pairs = [(a, b) for a in g1 for b in g1 if a in nonpauli or b in nonpauli]
        if ctx.quick:
            pairs = [(a, b) for a, b in pairs if a in nonpauli and b in nonpauli] + [(a, b) for a, b in pairs if (a in ("X", "Y") or b in ("Z", "I"))]
        specs = [{"k": "f", "word": [[a, [0]], [b, [0]]], "nw": 1, "diag": d} for a, b in pairs for d in (False, True)]
        ctx.enumerate(count(specs), fn="check_formalism", axis="formalism:pairs", chunk=1)
    if want("cnot"):
        words = [[["CNOT", [0, 1]]], [["CNOT", [1, 0]]]]
        specs = [{"k": "f", "word": w, "nw": 2, "diag": d} for w in words for d in (False, True)]
        if not ctx.quick:
            specs += [{"k": "f", "word": [["Y", [1]], ["CNOT", [1, 0]], ["Z", [0]]], "nw": 2, "diag": d} for d in (False, True)]
            specs += [{"k": "f", "word": [["H", [0]], ["CNOT", [0, 1]]], "nw": 2, "diag": False},       # 2^17 branches x 4 inputs each
                      {"k": "f", "word": [["CNOT", [0, 1]], ["S", [1]]], "nw": 2, "diag": True}]
        ctx.enumerate(count(specs), fn="check_formalism", axis="formalism:cnot", chunk=1)
    if want("tracker"):
        specs = [{"k": "c", "gate": g, "wires": [w], "xz": [list(f)]} for g in ("H", "S") for w in (0, 3) for f in itertools.product((0, 1), repeat=2)]
        specs += [{"k": "c", "gate": "CNOT", "wires": ws, "xz": [list(f[:2]), list(f[2:])]} for ws in ([0, 1], [2, 0]) for f in itertools.product((0, 1), repeat=4)]
        ctx.enumerate(specs, fn="check_commute", axis="tracker:commute")
        misc = [{"k": "m", "what": "roundtrip", "xz": [x, z]} for x in (0, 1) for z in (0, 1)]
        P = ["Identity", "PauliX", "PauliY", "PauliZ"]
        short = {"Identity": "I", "PauliX": "X", "PauliY": "Y", "PauliZ": "Z"}
        for n in (1, 2, 3):
            misc += [{"k": "m", "what": "prod", "ops": [short[p] for p in w]} for w in itertools.product(P, repeat=n)]
        misc += [{"k": "m", "what": "invalid", "case": c} for c in ("len", "tuple", "value", "gate", "xz", "empty-prod", "non-pauli")]
        ctx.enumerate(misc, fn="check_tracker_misc", axis="tracker:misc")
    if want("byproduct"):
        L = 2 if ctx.quick else 3
        cl = ["H", "S", "X", "Z"]
        words1 = [[[g, [0]] for g in w] for n in range(1, L + 1) for w in itertools.product(cl, repeat=n) if any(g in ("H", "S") for g in w)]
        words1 += [[[r, [0]]] + [[g, [0]] for g in w] for r in ("RZ(a)", "RotXZX(a,b,c)") for n in range(0, L) for w in itertools.product(("H", "S"), repeat=n)]
        specs = [{"k": "b", "word": w, "nw": 1, "diag": False} for w in words1]
        two = [[["CNOT", [0, 1]]], [["CNOT", [1, 0]]], [["X", [0]], ["CNOT", [0, 1]], ["Z", [1]]]]          # 2^13 assignments each
        if not ctx.quick:
            two += [[["H", [0]], ["CNOT", [0, 1]]], [["RZ(a)", [1]], ["CNOT", [1, 0]]], [["CNOT", [0, 1]], ["S", [0]]]]   # 2^17 each
        specs += [{"k": "b", "word": w, "nw": 2, "diag": False} for w in two]
        ctx.enumerate(count(specs, inputs=False), fn="check_byproduct", axis="tracker:byproduct", chunk=1)
    if want("gateset"):
        ws = [[a] for a in GS_ALPH] + [[a, b] for a in GS_ALPH for b in GS_ALPH]
        if ctx.quick:
            ws = ws[: len(GS_ALPH)] + ws[len(GS_ALPH):: 3]
        ctx.enumerate([{"k": "g", "ops": w} for w in ws], fn="check_gateset", axis="gateset")
    if want("reject"):
        ctx.enumerate([{"k": "r", "what": w} for w in ("expval", "two-samples", "foreign-gate", "gateset-without-graph")], fn="check_reject", axis="reject")
    # model-checking counters: leaves of the outcome trees that are walked (exact: 4 measurements per one-qubit non-Pauli
    # gate, 13 per CNOT, one tree per computational input) and the measurement splits leading to them
    ctx.coverage["states"] = max(1, ctx._c74_leaves)
    ctx.coverage["transitions"] = max(1, 2 * ctx._c74_leaves - 2 * ctx._c74_trees)
    ctx.coverage["traces_validated_against_impl"] = max(1, ctx._c74_leaves)
