"""C50 — GF(2) linear algebra is exact (DESIGN §5.9).

E1, fully exhaustive: EVERY binary matrix of every shape r x c in the declared shape list, and for each matrix
every right-hand side / test vector.  One spec = one matrix (shape + bit pattern); the right-hand sides are
looped over inside the check, so a spec is still a pure, replayable value.

Oracle: brute force over all 2^r row combinations / 2^c candidate solutions (plain Python integers used as bit
vectors; no elimination algorithm is shared with the implementation)."""
import itertools

from mc.engine import ok, bad, skip

PROPERTY = "C50"
LEVEL = "exploration"
TECHNIQUE = "exhaustive enumeration of all binary matrices up to 4x4 (+ all right-hand sides) vs. brute-force span/solution enumeration"
LEVEL_TEXT = ("All binary matrices of all shapes r x c with r,c <= 4 (quick: without 4x4; thorough adds 4x5, 5x4, 3x5, 5x3, 2x6, 6x2) "
              "and degenerate empty shapes are enumerated; rank, RREF, the linear solver on every right-hand side, "
              "independence of every vector, basis selection and the tapering kernel are compared with brute-force enumeration "
              "of the row space / solution set.")
LEVEL_NOTE = ("Reference = exhaustive enumeration with Python ints as bit vectors. binary_solve_linear_system is documented for "
              "square regular A: singular A must raise LinAlgError or return a genuine solution; non-square A is not explored. "
              "binary_is_independent is only judged under its documented precondition (basis has full rank min(r,m)). "
              "Matrices larger than the bound and the jax path (documented unsupported) are not explored.")
DESIGN_REF = "5.9 C50"
PARALLEL = True
RULE = ("every bit pattern of every shape in the shape list (x dtype for small shapes); inside each case every right-hand side "
        "and every test vector; non-trivial = matrix is neither zero nor already in reduced echelon form / is singular-but-nonzero")

QUICK_SHAPES = [[r, c] for r in range(1, 5) for c in range(1, 5) if (r, c) != (4, 4)]
THOROUGH_EXTRA = [[4, 4], [3, 5], [5, 3], [2, 6], [6, 2], [4, 5], [5, 4]]
EMPTY_SHAPES = [[0, 0], [0, 3], [3, 0], [1, 0], [0, 1]]
ALT_DTYPES = ["int8", "uint8", "bool"]  # in addition to int64; for shapes with r, c <= 3


def rows_of(r, c, bits):
    """bit pattern -> list of r Python ints, each a c-bit row (bit c-1-j of the int = column j)."""
    mask = (1 << c) - 1
    return [(bits >> (c * (r - 1 - i))) & mask for i in range(r)]


def span(vectors):
    s = {0}
    for v in vectors:
        s |= {x ^ v for x in s}
    return s


def to_array(np, rows, r, c, dtype):
    return np.array([[(row >> (c - 1 - j)) & 1 for j in range(c)] for row in rows], dtype=dtype).reshape(r, c)


def from_array(arr):
    """numpy binary matrix -> list of row ints (checks entries are 0/1)."""
    out = []
    for row in arr.tolist():
        v = 0
        for x in row:
            if int(x) not in (0, 1):
                return None
            v = (v << 1) | int(x)
        out.append(v)
    return out


def cols_of(rows, r, c):
    """column j as an r-bit int (bit r-1-i = row i)."""
    return [sum((((rows[i] >> (c - 1 - j)) & 1) << (r - 1 - i)) for i in range(r)) for j in range(c)]


def is_rref(rows, c):
    """reduced row echelon form predicate on row ints."""
    last = -1
    seen_zero = False
    pivots = []
    for row in rows:
        if row == 0:
            seen_zero = True
            continue
        if seen_zero:
            return False
        lead = c - row.bit_length()  # column index of the leading 1
        if lead <= last:
            return False
        last = lead
        pivots.append(lead)
    for p in pivots:
        if sum((row >> (c - 1 - p)) & 1 for row in rows) != 1:
            return False
    return True


def parity(x):
    return bin(x).count("1") & 1


def check(spec):
    import numpy as np
    from pennylane import math as qmath

    r, c = spec["shape"]
    dtype = spec.get("dtype", "int64")
    rows = rows_of(r, c, spec["bits"])
    A = to_array(np, rows, r, c, dtype)
    A0 = A.copy()
    rowspace = span(rows)
    rank_ref = len(rowspace).bit_length() - 1
    tag = "" if dtype == "int64" else f":{dtype}"

    # ---- rank
    rk = qmath.binary_matrix_rank(A)
    if int(rk) != rank_ref:
        return bad(f"rank{tag}", int(rk), rank_ref)
    if not np.array_equal(A, A0):
        return bad(f"rank:input-modified{tag}", A.tolist(), A0.tolist())
    if r and c:
        rkT = qmath.binary_matrix_rank(np.ascontiguousarray(A.T))
        if int(rkT) != rank_ref:
            return bad(f"rank:transpose{tag}", int(rkT), rank_ref)

    # ---- RREF
    R = qmath.binary_finite_reduced_row_echelon(A)
    if not np.array_equal(A, A0):
        return bad(f"rref:input-modified{tag}", A.tolist(), A0.tolist())
    if R.shape != A.shape:
        return bad(f"rref:shape{tag}", list(R.shape), [r, c])
    Rrows = from_array(R)
    if Rrows is None:
        return bad(f"rref:non-binary-entries{tag}", R.tolist(), "0/1 entries")
    if not is_rref(Rrows, c):
        return bad(f"rref:not-reduced-echelon{tag}", R.tolist(), "reduced row echelon form")
    if span(Rrows) != rowspace:
        return bad(f"rref:row-space-changed{tag}", R.tolist(), A0.tolist())
    Ac = A.copy()
    R2 = qmath.binary_finite_reduced_row_echelon(Ac, inplace=True)
    if R2 is not Ac or not np.array_equal(R2, R):
        return bad(f"rref:inplace{tag}", [R2 is Ac, R2.tolist()], R.tolist())
    already = Rrows == rows

    n_solved = n_singular = n_indep = 0
    # ---- solve (square only: documented domain)
    if r == c and r > 0:
        sols = {}
        for x in range(1 << c):
            b = 0
            for i in range(r):
                b = (b << 1) | parity(rows[i] & x)
            sols.setdefault(b, []).append(x)
        for b in range(1 << r):
            bvec = np.array([(b >> (r - 1 - i)) & 1 for i in range(r)], dtype=dtype)
            b0 = bvec.copy()
            try:
                x = qmath.binary_solve_linear_system(A, bvec)
            except np.linalg.LinAlgError:
                if rank_ref == r:
                    return bad(f"solve:regular-matrix-rejected{tag}", "LinAlgError", sols[b], b=b)
                n_singular += 1
                continue
            if not (np.array_equal(A, A0) and np.array_equal(bvec, b0)):
                return bad(f"solve:input-modified{tag}", [A.tolist(), bvec.tolist()], [A0.tolist(), b0.tolist()])
            xs = from_array(np.asarray(x).reshape(1, -1))
            if np.shape(x) != (c,) or xs is None:
                return bad(f"solve:malformed-solution{tag}", np.asarray(x).tolist(), sols.get(b), b=b)
            if xs[0] not in sols.get(b, []):
                kind = "regular" if rank_ref == r else ("singular-inconsistent" if b not in sols else "singular-consistent")
                return bad(f"solve:wrong-solution:{kind}{tag}", np.asarray(x).tolist(), sols.get(b, "no solution exists"), b=b)
            n_solved += 1

    # ---- independence (precondition: basis = A has full rank min(r, c); columns are the basis vectors)
    if r > 0 and rank_ref == min(r, c):
        colspace = span(cols_of(rows, r, c))
        for v in range(1 << r):
            vec = np.array([(v >> (r - 1 - i)) & 1 for i in range(r)], dtype=dtype)
            got = qmath.binary_is_independent(vec, A)
            exp = v not in colspace
            if bool(got) != exp:
                return bad(f"is_independent{tag}", bool(got), exp, v=v)
            n_indep += exp
        if not np.array_equal(A, A0):
            return bad(f"is_independent:input-modified{tag}", A.tolist(), A0.tolist())
        if c > 0:
            try:
                qmath.binary_is_independent(np.zeros(r + 1, dtype=dtype), A)
                return bad("is_independent:length-mismatch-accepted", "returned", "ValueError")
            except ValueError:
                pass

    # ---- select_basis: partition of the columns; basis columns independent and spanning the column space
    if r > 0 and c > 0 and dtype == "int64":
        basis, other = qmath.binary_select_basis(A)
        cols = cols_of(rows, r, c)
        bcols = cols_of(from_array(basis), r, basis.shape[1]) if basis.shape[1] else []
        ocols = cols_of(from_array(other), r, other.shape[1]) if other.shape[1] else []
        if basis.shape[0] != r or other.shape[0] != r or sorted(bcols + ocols) != sorted(cols):
            return bad("select_basis:not-a-partition", [basis.tolist(), other.tolist()], A0.tolist())
        if len(bcols) != rank_ref or span(bcols) != span(cols):
            return bad("select_basis:not-a-basis", basis.tolist(), {"rank": rank_ref})

    # ---- tapering._kernel on the non-zero rows of the RREF (its documented input)
    if rank_ref > 0 and dtype == "int64":
        from pennylane.qchem.tapering import _kernel

        red = R[~np.all(R == 0, axis=1)]
        K = _kernel(red)
        Krows = from_array(np.asarray(K))
        if Krows is None or np.asarray(K).shape != (c - rank_ref, c):
            return bad("kernel:shape-or-entries", np.asarray(K).tolist(), [c - rank_ref, c])
        for k in Krows:
            if any(parity(row & k) for row in rows):
                return bad("kernel:vector-not-in-nullspace", np.asarray(K).tolist(), A0.tolist())
        if len(span(Krows)) != 1 << (c - rank_ref):
            return bad("kernel:not-independent", np.asarray(K).tolist(), c - rank_ref)

    nontrivial = rank_ref > 0 and (not already or (r == c and rank_ref < r))
    return ok([rank_ref, sorted(c - x.bit_length() for x in Rrows if x), n_solved, n_singular, n_indep, bool(already)], nontrivial=nontrivial)


def run(ctx):
    shapes = QUICK_SHAPES + ([] if ctx.quick else THOROUGH_EXTRA)
    specs = []
    for r, c in sorted(shapes, key=lambda s: (s[0] * s[1], s)):
        specs += [{"shape": [r, c], "bits": b} for b in range(1 << (r * c))]
    ctx.enumerate([{"shape": s, "bits": 0} for s in EMPTY_SHAPES], axis="empty-shapes", parallel=False)
    ctx.enumerate(specs, axis="matrix:int64")
    alt = [{"shape": [r, c], "bits": b, "dtype": d} for d in ALT_DTYPES for r in range(1, 4) for c in range(1, 4) for b in range(1 << (r * c))]
    ctx.enumerate(alt, axis="matrix:other-dtypes")
    ctx.coverage["alphabet"] = {"entries": [0, 1], "shapes": shapes, "empty_shapes": EMPTY_SHAPES, "dtypes": ["int64"] + ALT_DTYPES,
                                "rhs": "all 2^r vectors per matrix"}
    ctx.coverage["bound"] = {"max_shape": [4, 4] if not ctx.quick else "4x4 excluded; up to 4x3 / 3x4", "extra_thorough_shapes": THOROUGH_EXTRA}
